"""C07 — basin-hopping always restarts from the last accepted minimum.

Tie #1: translate.bh reads from the current `basin_hopping.py` the Metropolis kernel, the two
failure tests and whether each of the five save/restore sites of `run` copies
(Gen/BasinHopping.lean; bridge lemmas in Props/C07.lean, Props/C08.lean).
Tie #2: the REAL `BasinHopping.run` against Model/BasinHopping through Drivers/BasinHopping.lean.
  * scripted: step taker (in-place displacement, as the real ones), minimiser answers,
    `same_bonds` answers, the similarity's recentring and the uniform draws are scripted from
    outside; ALL outcome patterns of short runs, every subset of failing steps, long random
    runs; standard and atomic coordinates; runs that start on a non-empty network.
  * trace-driven: real runs on Camelback / Schwefel with the real minimiser, step taker and
    draws wrapped and logged (optionally with failures injected at chosen steps); the model
    consumes the log.
  Compared: the exact position array at every `perturb` entry, the decision of every step, the
  energy handed to the next acceptance test, the network after every step and the walker after
  the run.
This module also holds the machinery shared with C08 (props/c08.py imports it).
"""
from __future__ import annotations

import itertools
import math

import numpy as np

from common import Ctx, frac, run_driver
from translate import bh as bh_tr

PROP = "C07"
LEAN_MODULE = "TopSearch.Props.C07"
LEAN_FILES = ["TopSearch.Props.C07", "TopSearch.Lemmas.BasinHopping", "TopSearch.Model.BasinHopping"]
EXTRA_TARGETS = ["TopSearch.Gen.BasinHopping", "TopSearch.Drv.Util"]
REQUIRED = [
    "TopSearch.Props.C07.C07_bridge_copies",
    "TopSearch.Props.C07.C07_bridge_fail_test",
    "TopSearch.Props.C07.C07_bridge_downhill",
    "TopSearch.Props.C07.C07_walker",
    "TopSearch.Props.C07.C07_walker_gen",
    "TopSearch.Props.C07.C07_walker_is_minimiser_output",
    "TopSearch.Props.C07.C07_walker_standard",
    "TopSearch.Props.C07.C07_energy_in_next_test",
    "TopSearch.Props.C07.C07_reject_restores",
    "TopSearch.Props.C07.C07_fail_restores",
    "TopSearch.Props.C07.C07_bond_restores",
    "TopSearch.Props.C07.C07_accept_moves",
    "TopSearch.Props.C07.C07_downhill_accepted",
    "TopSearch.Props.C07.C07_energy_variable_unobservable",
    "TopSearch.Props.C07.C07_alias_displaces_saved_minimum",
    "TopSearch.Props.C07.C07_each_copy_needed",
]
RULE = ("cases = steps of basin-hopping runs compared model-vs-implementation (position at perturb "
        "entry, decision, energy in the next test, network after the step); a case is non-trivial "
        "when the run up to and including it has taken at least two different paths of the loop "
        "body; distinct = distinct (entry position, decision, network-after) triples")
ASSUMPTIONS = [
    "the local minimiser returns a fresh array (scipy's fmin_l_bfgs_b copies x0) and does not write "
    "into coords.position; its answer (position, energy, warnflag, task) is an input of the model",
    "step takers write only into coords.position (in place) or re-bind it; what they leave in the "
    "entry array object is an input of the model, observed from the real array",
    "KineticTransitionNetwork.add_minimum stores a copy (property C02)",
    "the similarity gate may re-bind coords.position (MolecularSimilarity recentres the structure); "
    "the position it leaves is an input of the model (`gated`), so C07 holds 'up to the overall "
    "translation applied when structures are compared'",
]
PARTIAL = ("atomic/molecular systems: the scripted correspondence uses AtomicCoordinates with scripted "
           "same_bonds and a scripted recentring; the real MolecularSimilarity alignment is exercised "
           "only by the direct predicate on a Lennard-Jones cluster (numeric, up to translation)")

REL = "CONVERGENCE: REL_REDUCTION_OF_F_<=_FACTR*EPSMCH"
PGTOL = "CONVERGENCE: NORM_OF_PROJECTED_GRADIENT_<=_PGTOL"
ABNORMAL = "ABNORMAL_TERMINATION_IN_LNSRCH"
STD_BOUNDS = [(-3.0, 3.0), (-2.0, 2.0)]


def regenerate(ctx: Ctx) -> None:
    ctx.gen_status.update(bh_tr.regenerate())
    from translate import transcripts as _tr
    ctx.gen_status.update(_tr.constructor_wiring(['BasinHopping', 'StandardPerturbation', 'AtomicPerturbation']))


# ----------------------------------------------------------------------------- helpers


def vec(a) -> str:
    a = np.asarray(a, dtype=float).ravel()
    return ",".join(frac(float(x)) for x in a) if a.size else "-"


def boltz_of(e1: float, e2: float, T: float) -> float:
    """exp(-dE/T) as the statement defines it (clamped to a finite float for the line protocol)"""
    with np.errstate(over="ignore", invalid="ignore", divide="ignore"):
        b = float(np.exp(np.float64(-(e2 - e1)) / np.float64(T)))        # numpy division: T = 0 is a quench, not an error
    if math.isnan(b):
        return 0.0
    return min(b, 1e308)


def net_snapshot(ktn) -> list:
    return [(int(l), np.array(ktn.G.nodes[l]["coords"], dtype=float).copy(), float(ktn.G.nodes[l]["energy"]))
            for l in ktn.G.nodes]


def net_text(snap: list, n_minima: int, n_ts: int) -> str:
    nodes = [f"{l}:{vec(c)}:{frac(e)}" for l, c, e in snap]
    return f"{n_minima};{n_ts};{'|'.join(nodes) if nodes else '-'}"


class _Patched:
    """patch module attributes from outside and restore them afterwards"""

    def __init__(self, pairs):
        self.pairs = pairs
        self.old = []

    def __enter__(self):
        for obj, name, new in self.pairs:
            self.old.append((obj, name, getattr(obj, name)))
            setattr(obj, name, new)
        return self

    def __exit__(self, *a):
        for obj, name, old in reversed(self.old):
            setattr(obj, name, old)


# ----------------------------------------------------------------------------- scripted runs


def run_scripted(script: dict) -> dict:
    """the REAL BasinHopping.run with every external component scripted from outside"""
    import topsearch.global_optimisation.basin_hopping as bhmod
    from topsearch.data.coordinates import AtomicCoordinates, StandardCoordinates
    from topsearch.data.kinetic_transition_network import KineticTransitionNetwork
    from topsearch.potentials.test_functions import Camelback
    from topsearch.similarity.similarity import StandardSimilarity

    steps = script["steps"]
    rec = {"entries": [], "lefts": [], "min_inputs": [], "metro": {}, "gated": {}, "bond_calls": {},
           "nets": [], "draws": {}, "error": None}
    st = {"t": -1, "calls": 0}
    ktn = KineticTransitionNetwork()
    for p, e in script.get("pre", []):
        ktn.add_minimum(np.array(p, dtype=float), float(e))

    def cur():
        return script["init"] if st["t"] < 0 else steps[st["t"]]

    class Steps:
        def perturb(self, coords):
            st["t"] += 1
            t = st["t"]
            ref = coords.position
            rec["entries"].append(ref.copy())
            rec["nets"].append((net_snapshot(ktn), ktn.n_minima, ktn.n_ts))
            coords.position += np.array(steps[t]["delta"], dtype=float)      # in place
            if steps[t]["clip"]:
                coords.move_to_bounds()
            rec["lefts"].append(ref.copy())

    class Sim(StandardSimilarity):
        def is_new_minimum(self, ktn_, min_coords, min_energy):
            sh = cur().get("shift")
            if sh is not None and ktn_.n_minima > 0:
                # re-binds the position, as MolecularSimilarity.centre does
                min_coords.position = min_coords.position - np.array(sh, dtype=float)
            return super().is_new_minimum(ktn_, min_coords, min_energy)

        def test_new_minimum(self, ktn_, min_coords, min_energy):
            super().test_new_minimum(ktn_, min_coords, min_energy)
            rec["gated"][st["t"]] = min_coords.position.copy()

    def fake_minimise(func_grad=None, initial_position=None, bounds=None, conv_crit=None, **kw):
        k = st["calls"]
        st["calls"] += 1
        rec["min_inputs"].append(np.array(initial_position, dtype=float, copy=True))
        if k > len(steps):
            raise RuntimeError("more minimisations than steps")
        r = script["init"] if k == 0 else steps[k - 1]
        return (np.array(r["pos"], dtype=float), float(r["e"]),
                {"warnflag": r["warn"], "task": r["task"], "funcalls": 1, "nit": 1,
                 "grad": np.zeros(len(r["pos"]))})

    def fake_random(*a, **k):
        t = st["t"]
        rec["draws"][t] = rec["draws"].get(t, 0) + 1
        return float(steps[t]["u"])

    if script["kind"] == "atomic":
        class Cluster(AtomicCoordinates):
            def same_bonds(self_):
                # the scripted verdict belongs to the minimum this step's minimisation returned; any other
                # geometry (the perturbed start, the previous minimum) has the opposite bonding
                sc = steps[st["t"]]
                at_min = np.array_equal(np.asarray(self_.position, dtype=float), np.array(sc["pos"], dtype=float))
                rec["bond_calls"][st["t"]] = True
                return bool(sc["bonds"]) if at_min else (not bool(sc["bonds"]))
        natoms = len(script["start"]) // 3
        coords = Cluster(["C"] * natoms, np.array(script["start"], dtype=float))
    else:
        coords = StandardCoordinates(ndim=len(script["start"]), bounds=[tuple(b) for b in script["bounds"]])
        coords.position = np.array(script["start"], dtype=float)
    sim = Sim(script["dc"], script["ec"])
    bh = bhmod.BasinHopping(ktn=ktn, potential=Camelback(), similarity=sim, step_taking=Steps())
    real_metro = bh.metropolis

    def metro(e1, e2, T):
        r = real_metro(e1, e2, T)
        rec["metro"][st["t"]] = (float(e1), float(e2), float(T), bool(r))
        return r
    bh.metropolis = metro
    with _Patched([(bhmod.lbfgs, "minimise", fake_minimise), (bhmod.np.random, "random", fake_random)]), \
            np.errstate(all="ignore"):
        try:
            bh.run(coords, len(steps), 1e-6, script["T"])
        except Exception as e:      # noqa: BLE001
            rec["error"] = f"{type(e).__name__}: {e}"
    rec["final_pos"] = np.array(coords.position, dtype=float).copy()
    rec["nets"].append((net_snapshot(ktn), ktn.n_minima, ktn.n_ts))
    rec["bounds"] = (np.array(coords.lower_bounds, dtype=float), np.array(coords.upper_bounds, dtype=float))
    return rec


def real_decisions(script: dict, rec: dict) -> list[str]:
    out = []
    for t in range(len(rec["entries"])):
        if t in rec["metro"]:
            out.append("accept" if rec["metro"][t][3] else "reject")
        elif t in rec["bond_calls"] and not script["steps"][t]["bonds"]:
            out.append("bonds")
        else:
            out.append("fail")
    return out


def _lines(script: dict, rec: dict) -> list[str]:
    from fractions import Fraction
    L = ["new"]
    for p, e in script.get("pre", []):
        L.append(f"addmin {vec(p)} {frac(float(e))}")
    dc2 = Fraction(float(script["dc"])) ** 2
    L.append(f"same sq {dc2.numerator}/{dc2.denominator} {frac(float(script['ec']))}")
    i0 = script["init"]
    g0 = rec["gated"].get(-1, np.array(i0["pos"], dtype=float))
    L.append(f"init {1 if script['kind'] == 'atomic' else 0} {vec(i0['pos'])} {frac(fin(i0['e']))} "
             f"{int(i0['warn'])} {vec(g0)}")
    e_cur = float(i0["e"])              # energy of the last accepted minimum (harness bookkeeping)
    for t in range(len(rec["entries"])):
        s = script["steps"][t]
        perturbed = rec["min_inputs"][t + 1] if t + 1 < len(rec["min_inputs"]) else rec["lefts"][t]
        gated = rec["gated"].get(t, np.array(s["pos"], dtype=float))
        b = boltz_of(e_cur, fin(s["e"]), script["T"])
        L.append(f"step {vec(perturbed)} {vec(rec['lefts'][t])} {vec(s['pos'])} {frac(fin(s['e']))} "
                 f"{int(s['warn'])} {1 if s['task'] == REL else 0} {1 if s['bonds'] else 0} "
                 f"{vec(gated)} {frac(b)} {frac(float(s['u']))}")
        if t in rec["metro"] and rec["metro"][t][3]:
            e_cur = float(s["e"])
    return L


def fin(x) -> float:
    x = float(x)
    return x if math.isfinite(x) else 0.0


def parse_answer(line: str) -> dict:
    return dict(w.split("=", 1) for w in line.split(" ") if "=" in w)


def compare_runs(ctx: Ctx, runs: list[tuple[dict, dict]], label: str, cfg_line: str = "cfg gen") -> None:
    """feed every run to the model and compare what can be seen from outside"""
    lines = [cfg_line]
    spans = []
    ok_runs = []
    for script, rec in runs:
        if script["init"] is None or len(rec["min_inputs"]) == 0:
            ctx.diverge(f"{label}:impl-raises", f"implementation raised {rec['error']} before the first step",
                        {"script": script, "mode": label})
            continue
        ls = _lines(script, rec)
        spans.append((len(lines), len(ls)))
        lines += ls
        ok_runs.append((script, rec))
    runs = ok_runs
    out = run_driver("BasinHopping", lines)
    if len(out) != len(lines):
        ctx.diverge(f"{label}:driver-length", f"driver answered {len(out)} lines for {len(lines)}", {})
        return
    for (script, rec), (a, n) in zip(runs, spans):
        ans = out[a:a + n]
        nsteps = len(rec["entries"])
        step_ans = [parse_answer(x) for x in ans[-nsteps:]] if nsteps else []
        init_ans = parse_answer(ans[n - nsteps - 1])
        bad = [x for x in ans if x in ("bad-op", "guard")]
        key = None
        what = ""
        if rec["error"]:
            key, what = f"{label}:impl-raises", f"implementation raised {rec['error']}"
        elif bad:
            key, what = f"{label}:driver-refuses", f"driver answered {bad[0]}"
        elif nsteps != len(script["steps"]):
            key, what = f"{label}:step-count", f"perturb was entered {nsteps} times in a run of {len(script['steps'])} steps"
        decs = real_decisions(script, rec)
        seen = set()
        for t in range(nsteps):
            if key:
                break
            m = step_ans[t]
            seen.add(m["dec"])
            net_after = rec["nets"][t + 1]
            canon = {"entry": m["entry"], "dec": m["dec"], "net": m["net"], "stream": label}
            ctx.stats.case(canon, len(seen) >= 2, sample_every=397)
            ctx.stats.branch(f"{script['kind']}:{m['dec']}")
            if m["entry"] != vec(rec["entries"][t]):
                key = f"{label}:entry-position:after-{decs[t - 1] if t else 'init'}"
                what = (f"step {t + 1}: perturb entered at {rec['entries'][t].tolist()} but the model's walker is "
                        f"{m['entry']}")
            elif m["dec"] != decs[t]:
                key = f"{label}:decision:{decs[t]}-vs-{m['dec']}"
                what = f"step {t + 1}: implementation took path `{decs[t]}`, model `{m['dec']}`"
            elif m["net"] != net_text(*net_after):
                key = f"{label}:network:after-{decs[t]}"
                what = f"step {t + 1} ({decs[t]}): network {net_text(*net_after)} / model {m['net']}"
            elif t + 1 in rec["metro"] and frac(rec["metro"][t + 1][0]) != m["markovE"]:
                key = f"{label}:energy-in-test"
                what = (f"step {t + 2}: acceptance test used energy {rec['metro'][t + 1][0]} but the model's "
                        f"markov energy is {m['markovE']}")
        if not key:
            last = step_ans[-1] if nsteps else init_ans
            if last["walker"] != vec(rec["final_pos"]):
                key = f"{label}:final-walker"
                what = f"after the run coords.position is {rec['final_pos'].tolist()}, model {last['walker']}"
            elif last["net"] != net_text(*rec["nets"][-1]):
                key = f"{label}:final-network"
                what = f"final network {net_text(*rec['nets'][-1])} / model {last['net']}"
            if nsteps == 0:
                ctx.stats.case({"init": init_ans["net"], "stream": label}, False)
                ctx.stats.branch(f"{script['kind']}:init-only")
        if key:
            ctx.diverge(key, what, {"script": script, "mode": label})


# ----------------------------------------------------------------------------- script generation


def _grid(rng, lo, hi, q=4):
    return rng.randrange(int(lo * q), int(hi * q) + 1) / q


def rand_pos(rng, kind: str) -> list[float]:
    if kind == "atomic":      # two atoms, 1/4-grid, kept apart so that clash removal stays idle mostly
        a = [_grid(rng, -2, 2) for _ in range(3)]
        b = [a[0] + rng.choice([1.0, 1.25, -1.0, 0.5]), a[1] + _grid(rng, -1, 1), a[2] + _grid(rng, -1, 1)]
        return a + b
    return [_grid(rng, -3, 3), _grid(rng, -2, 2)]


OUTCOMES_STD = ("fail", "down", "up", "rej")
OUTCOMES_ATOM = ("fail", "bonds", "down", "up", "rej")


def make_script(rng, kind: str, outcomes, pre: bool = False, n_init_fail: bool = False) -> dict:
    T = rng.choice([0.25, 0.5, 1.0, 2.0, 1e-6, 64.0])
    dim = 6 if kind == "atomic" else 2
    pool = [rand_pos(rng, kind)]
    e0 = _grid(rng, -2, 2)
    init = {"pos": pool[0], "e": e0, "warn": 0, "task": PGTOL, "shift": None}
    if n_init_fail:
        init["warn"], init["task"] = rng.choice([(1, PGTOL), (2, ABNORMAL), (0, REL)])
    script = {"kind": kind, "T": T, "dc": 0.3, "ec": 0.3, "bounds": STD_BOUNDS,
              "start": rand_pos(rng, kind), "init": init, "steps": [], "pre": []}
    if pre:
        for _ in range(rng.randrange(1, 4)):
            p = rand_pos(rng, kind) if rng.random() < 0.6 else list(pool[0])
            script["pre"].append((p, e0 if rng.random() < 0.5 else _grid(rng, -2, 2)))
    if kind == "atomic" and rng.random() < 0.5:
        init["shift"] = [rng.choice([0.25, -0.5, 1.0]), 0.5, -0.25] * 2
    e_cur = e0
    for o in outcomes:
        if rng.random() < 0.3:
            pos = list(rng.choice(pool))
            if rng.random() < 0.4:
                pos[0] += 0.25            # a near neighbour: within the distance criterion
        else:
            pos = rand_pos(rng, kind)
        s = {"delta": [rng.randrange(-12, 13) / 8 for _ in range(dim)],
             "clip": (rng.random() < 0.85) if kind == "standard" else (rng.random() < 0.2),
             "pos": pos, "warn": 0, "task": rng.choice([PGTOL, PGTOL, "CONVERGENCE: OTHER"]),
             "bonds": True, "shift": None, "u": rng.choice([0.0, 0.25, 0.5, 0.999]), "want": o}
        if kind == "atomic" and rng.random() < 0.4:
            s["shift"] = [rng.choice([0.25, -0.5, 1.0, 0.0]), rng.choice([0.0, 0.5]), 0.25] * 2
        if o == "fail":
            s["warn"], s["task"] = rng.choice([(1, PGTOL), (2, ABNORMAL), (0, REL), (1, REL)])
            s["e"] = e_cur + rng.choice([-1.0, -0.25, 0.0, 0.5])        # even a downhill failure is not accepted
            if rng.random() < 0.3:
                s["bonds"] = False
        elif o == "bonds":
            s["bonds"] = False
            s["e"] = e_cur + rng.choice([-1.0, -0.25, 0.0, 0.5])
        elif o == "down":
            s["e"] = e_cur - rng.choice([0.25, 0.5, 1.0, 2.0 ** -30])
            s["u"] = rng.choice([0.0, 0.5, 0.999999])
        else:
            d = rng.choice([0.0, 0.25, 0.5, 1.0]) if o == "up" else rng.choice([0.25, 0.5, 1.0, 4.0])
            s["e"] = e_cur + d
            b = boltz_of(e_cur, s["e"], T)
            if o == "up":
                if b == 0.0:              # cannot be accepted uphill at this temperature: make it level
                    s["e"] = e_cur
                    b = 1.0
                s["u"] = rng.choice([0.0, b * 0.5, float(np.nextafter(b, 0.0))])
            else:
                s["u"] = min(rng.choice([b, float(np.nextafter(b, 1.0)), (b + 1.0) / 2, 0.999]),
                             float(np.nextafter(1.0, 0.0)))
        if o in ("down", "up"):
            e_cur = s["e"]
        pool.append(pos)
        script["steps"].append(s)
    return script


def scripted_corpus(ctx: Ctx, which: str) -> list[dict]:
    """all outcome patterns of short runs, every subset of failing steps, long random runs"""
    rng = ctx.rng
    out = []
    nstd = ctx.scale(4, 5)
    natm = ctx.scale(3, 4)
    if which in ("all", "patterns"):
        out.append(make_script(rng, "standard", ()))
        out.append(make_script(rng, "standard", (), n_init_fail=True))
        for n in range(1, nstd + 1):
            for pat in itertools.product(OUTCOMES_STD, repeat=n):
                out.append(make_script(rng, "standard", pat, pre=rng.random() < 0.15,
                                       n_init_fail=rng.random() < 0.1))
        for n in range(1, natm + 1):
            for pat in itertools.product(OUTCOMES_ATOM, repeat=n):
                out.append(make_script(rng, "atomic", pat, pre=rng.random() < 0.15,
                                       n_init_fail=rng.random() < 0.1))
    if which in ("all", "subsets"):
        n = ctx.scale(6, 8)
        for kind, oc in (("standard", ("down", "up", "rej")), ("atomic", ("down", "up", "rej", "bonds"))):
            for mask in range(1 << n):
                pat = tuple("fail" if mask >> i & 1 else rng.choice(oc) for i in range(n))
                out.append(make_script(rng, kind, pat, pre=rng.random() < 0.1))
    if which in ("all", "long"):
        for _ in range(ctx.scale(24, 120)):
            kind = "standard" if rng.random() < 0.6 else "atomic"
            oc = OUTCOMES_STD if kind == "standard" else OUTCOMES_ATOM
            pat = tuple(rng.choice(oc) for _ in range(rng.randrange(20, 61)))
            out.append(make_script(rng, kind, pat, pre=rng.random() < 0.3, n_init_fail=rng.random() < 0.2))
    return out


# ----------------------------------------------------------------------------- trace-driven runs


def run_trace(params: dict) -> tuple[dict, dict]:
    """a real run (real surface, minimiser, step taker, draws), everything logged from outside;
    optionally failures are injected into the minimiser's answers at chosen steps.  Returns a
    (script, rec) pair in the same shape as the scripted runs."""
    import topsearch.global_optimisation.basin_hopping as bhmod
    from topsearch.data.coordinates import StandardCoordinates
    from topsearch.data.kinetic_transition_network import KineticTransitionNetwork
    from topsearch.global_optimisation.perturbations import StandardPerturbation
    from topsearch.potentials.test_functions import Camelback, Schwefel
    from topsearch.similarity.similarity import StandardSimilarity

    surface = params["surface"]
    n_steps = params["n_steps"]
    inject = set(params.get("inject", []))
    np.random.seed(params["seed"])
    if surface == "camelback":
        pot, bounds = Camelback(), STD_BOUNDS
    else:
        pot, bounds = Schwefel(), [(-500.0, 500.0)] * params.get("dim", 2)
    coords = StandardCoordinates(ndim=len(bounds), bounds=bounds)
    if params.get("start_dtype") == "float32":
        coords.position = coords.position.astype(np.float32)        # a start point loaded from single-precision data
    elif params.get("start_dtype") == "int64":
        coords.position = np.array([int(round(0.4 * b[1])) * (1 if i % 2 == 0 else -1) for i, b in enumerate(bounds)],
                                   dtype=np.int64)                   # a start point typed by hand as integers
    rec = {"entries": [], "lefts": [], "min_inputs": [], "metro": {}, "gated": {}, "bond_calls": {},
           "nets": [], "draws": {}, "error": None, "near_tie": False, "outputs": []}
    st = {"t": -1}
    ktn = KineticTransitionNetwork()
    script = {"kind": "standard", "T": params["T"], "dc": params.get("dc", 0.1), "ec": params.get("ec", 0.1),
              "bounds": bounds, "start": coords.position.tolist(), "init": None, "steps": [], "pre": [],
              "trace": params}

    class Rec(StandardPerturbation):
        def perturb(self, c):
            st["t"] += 1
            ref = c.position
            rec["entries"].append(ref.copy())
            rec["nets"].append((net_snapshot(ktn), ktn.n_minima, ktn.n_ts))
            super().perturb(c)
            rec["lefts"].append(ref.copy())

    class Sim(StandardSimilarity):
        def test_same(self, c1, c2, e1, e2):
            d = float(np.linalg.norm(c1.position - c2))
            de = float(np.abs(e1 - e2))
            if abs(d - self.distance_criterion) <= 1e-9 * self.distance_criterion or \
                    abs(de - self.energy_criterion) <= 1e-9 * self.energy_criterion:
                rec["near_tie"] = True
            return super().test_same(c1, c2, e1, e2)

        def test_new_minimum(self, ktn_, min_coords, min_energy):
            super().test_new_minimum(ktn_, min_coords, min_energy)
            rec["gated"][st["t"]] = min_coords.position.copy()

    real_min = bhmod.lbfgs.minimise
    real_rand = bhmod.np.random.random

    def log_minimise(*a, **k):
        x0 = k.get("initial_position", a[1] if len(a) > 1 else None)
        rec["min_inputs"].append(np.array(x0, dtype=float, copy=True))
        pos, e, d = real_min(*a, **k)
        d = dict(d)
        if st["t"] in inject:
            d["warnflag"] = 1 if st["t"] % 2 == 0 else 2
        r = {"pos": np.array(pos, dtype=float).tolist(), "e": float(e), "warn": int(d["warnflag"]),
             "task": d["task"] if isinstance(d["task"], str) else repr(d["task"]),
             "bonds": True, "shift": None, "u": 0.0, "delta": None, "clip": True}
        # what L-BFGS-B's own stopping test looks at, recomputed at the returned point from outside: the largest component
        # of the projected gradient (same function, same point: the same number)
        try:
            gq = np.asarray(pot.function_gradient(np.array(pos, dtype=float).copy())[1], dtype=float)
            pq = np.array(pos, dtype=float)
            lo_, hi_ = np.array([b[0] for b in bounds]), np.array([b[1] for b in bounds])
            # L-BFGS-B's `projgr`: the step -g cut off at the box, component by component
            proj = np.where(gq < 0, np.maximum(pq - hi_, gq), np.minimum(pq - lo_, gq))
            r["pg"] = float(np.max(np.abs(proj)))
        except Exception:  # noqa: BLE001
            r["pg"] = None
        if st["t"] < 0:
            script["init"] = r
        else:
            script["steps"].append(r)
        return pos, e, d

    def log_random(*a, **k):
        u = real_rand(*a, **k)
        rec["draws"][st["t"]] = rec["draws"].get(st["t"], 0) + 1
        if st["t"] >= 0 and len(script["steps"]) > st["t"]:
            script["steps"][st["t"]]["u"] = float(u)
        return u

    sim = Sim(script["dc"], script["ec"], params.get("prop_sim", False))
    bh = bhmod.BasinHopping(ktn=ktn, potential=pot, similarity=sim,
                            step_taking=Rec(max_displacement=params["step"],
                                            proportional_distance=params.get("prop", False)))
    real_metro = bh.metropolis

    def metro(e1, e2, T):
        r = real_metro(e1, e2, T)
        rec["metro"][st["t"]] = (float(e1), float(e2), float(T), bool(r))
        return r
    bh.metropolis = metro
    with _Patched([(bhmod.lbfgs, "minimise", log_minimise), (bhmod.np.random, "random", log_random)]), \
            np.errstate(all="ignore"):
        try:
            bh.run(coords, n_steps, params.get("conv", 1e-6), params["T"])
        except Exception as e:      # noqa: BLE001
            rec["error"] = f"{type(e).__name__}: {e}"
    rec["final_pos"] = np.array(coords.position, dtype=float).copy()
    rec["nets"].append((net_snapshot(ktn), ktn.n_minima, ktn.n_ts))
    rec["bounds"] = (np.array(coords.lower_bounds, dtype=float), np.array(coords.upper_bounds, dtype=float))
    rec["potential"] = pot
    return script, rec


def trace_params(ctx: Ctx) -> list[dict]:
    rng = ctx.rng
    out = []
    for _ in range(ctx.scale(6, 30)):
        out.append({"surface": "camelback", "seed": rng.randrange(10 ** 6), "T": rng.choice([1e-6, 0.1, 1.0, 5.0]),
                    "step": rng.choice([0.7, 1.5, 2.5]), "n_steps": rng.randrange(15, 41)})
        if _ % 3 == 2:
            out[-1]["conv"] = rng.choice([1e-9, 1e-8, 1e-3])      # a run with a criterion other than the minimiser's default
        if _ % 3 == 1:
            out[-1]["start_dtype"] = rng.choice(["float32", "int64"])
    for _ in range(ctx.scale(4, 20)):
        out.append({"surface": "schwefel", "dim": rng.choice([2, 3]), "seed": rng.randrange(10 ** 6),
                    "T": rng.choice([1.0, 100.0, 500.0]), "step": rng.choice([0.1, 0.3]), "prop": True,
                    "n_steps": rng.randrange(10, 31), "conv": 1e-5})
    # every subset of injected failures on a short real run
    n = ctx.scale(4, 6)
    seed = rng.randrange(10 ** 6)
    for mask in range(1 << n):
        out.append({"surface": "camelback", "seed": seed, "T": 1.0, "step": 1.5, "n_steps": n,
                    "inject": [i for i in range(n) if mask >> i & 1]})
    for _ in range(ctx.scale(4, 20)):
        n = rng.randrange(10, 30)
        out.append({"surface": "camelback", "seed": rng.randrange(10 ** 6), "T": rng.choice([0.5, 2.0]), "step": 2.0,
                    "n_steps": n, "inject": sorted(rng.sample(range(n), rng.randrange(1, n // 2)))})
    return out


# ----------------------------------------------------------------------------- correspondence


def correspond_runs(ctx: Ctx) -> None:
    runs = []
    for script in scripted_corpus(ctx, "all"):
        runs.append((script, run_scripted(script)))
    ctx.stats.notes["scripted_runs"] = len(runs)
    ctx.stats.notes["scripted_steps"] = sum(len(s["steps"]) for s, _ in runs)
    compare_runs(ctx, runs, "scripted")
    traces = []
    for p in trace_params(ctx):
        script, rec = run_trace(p)
        if rec["near_tie"]:
            ctx.stats.near_ties += 1
            continue
        if any(not math.isfinite(s["e"]) for s in script["steps"] if s["warn"] == 0):
            ctx.stats.near_ties += 1
            continue
        traces.append((script, rec))
        ctx.stats.traces += 1
    ctx.stats.notes["trace_runs"] = len(traces)
    ctx.stats.notes["trace_steps"] = sum(len(s["steps"]) for s, _ in traces)
    compare_runs(ctx, traces, "trace")


def correspond(ctx: Ctx) -> None:
    correspond_runs(ctx)


# ----------------------------------------------------------------------------- predicates


def centred(p: np.ndarray) -> np.ndarray:
    q = p.reshape(-1, 3)
    return (q - q.mean(axis=0)).ravel()


def walker_predicate(script: dict, rec: dict) -> tuple[str, str, dict] | None:
    """C07 written from the statement, on what was observed from outside: at every perturb entry
    the position is the output of the last accepted minimisation (the initial one before any
    acceptance) — exactly; up to an overall translation for atomic systems —, inside the box,
    its energy is the one handed to the next acceptance test, and a converged downhill result
    is accepted."""
    if rec["error"]:
        return ("run-raises", f"BasinHopping.run raised {rec['error']}", {})
    atomic = script["kind"] == "atomic"
    cur_pos = np.array(script["init"]["pos"], dtype=float)
    cur_e = float(script["init"]["e"])
    last = "init"
    lo, hi = rec["bounds"]
    outputs_in_box = all(np.all(np.array(s["pos"]) >= lo) and np.all(np.array(s["pos"]) <= hi)
                         for s in [script["init"]] + script["steps"])
    n = len(rec["entries"])
    if n != len(script["steps"]):
        return ("step-count", f"{n} perturbations in a run of {len(script['steps'])} steps", {})
    for t in range(n + 1):
        pos = rec["entries"][t] if t < n else rec["final_pos"]
        if atomic:
            same = pos.shape == cur_pos.shape and np.allclose(centred(pos), centred(cur_pos), rtol=0, atol=1e-9)
        else:
            same = pos.shape == cur_pos.shape and np.array_equal(pos, cur_pos)
        if not same:
            where = f"perturb entry of step {t + 1}" if t < n else "end of the run"
            extra = {}
            if "potential" in rec:
                extra["gradient_norm_inf"] = float(np.max(np.abs(rec["potential"].gradient(pos.copy()))))
            return (f"walker-not-at-last-accepted-minimum:after-{last}",
                    f"{where}: walker at {pos.tolist()} but the last accepted minimum is {cur_pos.tolist()}"
                    + (f" (gradient there {extra['gradient_norm_inf']:.3g})" if extra else ""),
                    {"step": t, **extra})
        if outputs_in_box and not (np.all(pos >= lo) and np.all(pos <= hi)):
            return ("walker-outside-box", f"step {t + 1}: walker {pos.tolist()} outside the box", {"step": t})
        if t == n:
            break
        s = script["steps"][t]
        converged = s["warn"] == 0 and s["task"] != REL
        if t in rec["metro"]:
            e1, e2, _T, acc = rec["metro"][t]
            if e1 != cur_e:
                return ("acceptance-test-energy",
                        f"step {t + 1}: acceptance test compared against {e1}, the walker's minimum has {cur_e}",
                        {"step": t})
            if e2 != float(s["e"]):
                return ("acceptance-test-energy", f"step {t + 1}: proposed energy {e2} is not the minimiser's {s['e']}",
                        {"step": t})
            if not converged:
                return ("unconverged-result-tested", f"step {t + 1}: an unconverged result reached the acceptance test",
                        {"step": t})
            if acc:
                cur_pos, cur_e, last = np.array(s["pos"], dtype=float), float(s["e"]), "accept"
            else:
                last = "reject"
                if float(s["e"]) < e1:
                    return ("downhill-rejected", f"step {t + 1}: converged downhill result {s['e']} < {e1} rejected",
                            {"step": t})
        else:
            last = "fail" if not converged else "bonds"
            if converged and (not atomic or s["bonds"]):
                return ("converged-result-not-tested",
                        f"step {t + 1}: a converged result never reached the acceptance test", {"step": t})
    return None


def shrink_script(script: dict, key: str, pred) -> dict:
    """shortest failing prefix, then drop single steps while the same failure persists"""
    def fails(sc):
        try:
            r = pred(sc, run_scripted(sc))
        except Exception:    # noqa: BLE001
            return False
        return r is not None and r[0] == key
    best = script
    for n in range(0, len(script["steps"]) + 1):
        sc = dict(script, steps=script["steps"][:n])
        if fails(sc):
            best = sc
            break
    changed = True
    while changed and len(best["steps"]) > 1:
        changed = False
        for i in range(len(best["steps"])):
            sc = dict(best, steps=best["steps"][:i] + best["steps"][i + 1:])
            if fails(sc):
                best, changed = sc, True
                break
    return best


CORPUS_TRACE = {"surface": "camelback", "seed": 3, "T": 1e-6, "step": 2.5, "n_steps": 40}


def lj_predicate_run(seed: int, n_steps: int, inversion: bool | None = None) -> tuple[str, str, dict] | None:
    """C07 on an atomic system with the real molecular similarity, atomic step taker and
    Lennard-Jones surface (numeric, up to translation)."""
    import random as pyrandom
    import topsearch.global_optimisation.basin_hopping as bhmod
    from topsearch.data.coordinates import AtomicCoordinates
    from topsearch.data.kinetic_transition_network import KineticTransitionNetwork
    from topsearch.global_optimisation.perturbations import AtomicPerturbation
    from topsearch.potentials.atomic import LennardJones
    from topsearch.similarity.molecular_similarity import MolecularSimilarity
    np.random.seed(seed)
    pyrandom.seed(seed)
    if inversion is None:
        inversion = seed % 2 == 1       # every other run: mirror images count as the same structure when compared
    n = 6 if (seed % 3 == 0 and not inversion) else 7         # LJ7 has four minima: accepted steps are compared with stored minima they do not match
    base = np.array([[0, 0, 0], [1.1, 0, 0], [0, 1.1, 0], [0, 0, 1.1], [1.1, 1.1, 0], [1.1, 0, 1.1], [0, 1.1, 1.1]],
                    dtype=float)[:n]
    start = (base + 0.05 * np.random.rand(n, 3)).ravel()
    coords = AtomicCoordinates(["C"] * n, start.copy())
    entries, outs, metro = [], [], {}
    st = {"t": -1}

    class Rec(AtomicPerturbation):
        def perturb(self, c):
            st["t"] += 1
            entries.append(c.position.copy())
            super().perturb(c)
    real_min = bhmod.lbfgs.minimise

    def log_min(*a, **k):
        pos, e, d = real_min(*a, **k)
        outs.append((np.array(pos, dtype=float).copy(), float(e), int(d["warnflag"]), d["task"]))
        return pos, e, d
    ktn = KineticTransitionNetwork()
    bh = bhmod.BasinHopping(ktn=ktn, potential=LennardJones(),
                            similarity=MolecularSimilarity(0.05, 1e-3, weighted=False, allow_inversion=inversion),
                            step_taking=Rec(max_displacement=0.6 if n == 6 else 0.9, max_atoms=2 if n == 6 else 3))
    real_metro = bh.metropolis

    def m(e1, e2, T):
        r = real_metro(e1, e2, T)
        metro[st["t"]] = (float(e1), float(e2), bool(r))
        return r
    bh.metropolis = m
    import warnings
    with _Patched([(bhmod.lbfgs, "minimise", log_min)]), warnings.catch_warnings(), np.errstate(all="ignore"):
        warnings.simplefilter("ignore")
        bh.run(coords, n_steps, 1e-5, 0.5 if n == 6 else 2.0)
    cur, cur_e = outs[0][0], outs[0][1]
    for t, pos in enumerate(entries + [coords.position.copy()]):
        if not np.allclose(centred(pos), centred(cur), rtol=0, atol=1e-7):
            return ("walker-not-at-last-accepted-minimum:atomic-real",
                    f"LJ{n} seed {seed}: step {t + 1} starts {np.max(np.abs(centred(pos) - centred(cur))):.3g} away "
                    f"from the last accepted minimum (up to translation)", {"step": t})
        if t in metro:
            if metro[t][0] != cur_e:
                return ("acceptance-test-energy", f"LJ{n} seed {seed}: step {t + 1} tested against {metro[t][0]}, "
                        f"walker energy {cur_e}", {"step": t})
            if metro[t][2]:
                cur, cur_e = outs[t + 1][0], outs[t + 1][1]
            elif metro[t][1] < metro[t][0]:
                return ("downhill-rejected", f"LJ{n} seed {seed}: downhill result rejected at step {t + 1}", {"step": t})
    return None


def connected_reference(pts: np.ndarray, cutoff: float) -> bool:
    """flood fill over pairs closer than the cutoff (written here, no networkx)"""
    n = len(pts)
    seen, todo = {0}, [0]
    while todo:
        i = todo.pop()
        for j in range(n):
            if j not in seen and float(np.sqrt(np.sum((pts[i] - pts[j]) ** 2))) < cutoff:
                seen.add(j)
                todo.append(j)
    return len(seen) == n


def bond_oracle_cases(rng, count: int):
    """clusters whose connectivity is decided by chosen pairs: dimers, chains whose end atom is listed last or
    first, compact clusters, two fragments; every distance stays 5% away from the cutoff"""
    for _ in range(count):
        n = rng.choice([2, 2, 3, 3, 4, 5, 7])
        cutoff = rng.choice([1.5, 1.5, 2.0, 1.2])
        kind = rng.choice(["chain", "chain", "chain-broken", "compact", "fragments"])
        if kind.startswith("chain"):
            gaps = [cutoff * rng.uniform(0.55, 0.9) for _ in range(n - 1)]
            if kind == "chain-broken":
                gaps[rng.randrange(n - 1)] = cutoff * rng.uniform(1.1, 1.6)
            x = np.concatenate([[0.0], np.cumsum(gaps)])
            pts = np.stack([x, np.zeros(n), np.zeros(n)], axis=1)
            order = list(range(n))
            if rng.random() < 0.3:
                rng.shuffle(order)
            pts = pts[order]
        elif kind == "compact":
            pts = np.array([[rng.uniform(0, 0.5 * cutoff) for _ in range(3)] for _ in range(n)])
        else:
            pts = np.array([[rng.uniform(0, 0.4 * cutoff) for _ in range(3)] for _ in range(n)])
            pts[rng.randrange(n):] += np.array([3.0 * cutoff, 0.0, 0.0])
        # rigid motion keeps the verdict
        q = np.linalg.qr(np.array([[rng.gauss(0, 1) for _ in range(3)] for _ in range(3)]))[0]
        pts = pts @ q.T + np.array([rng.uniform(-2, 2) for _ in range(3)])
        d = [float(np.linalg.norm(pts[i] - pts[j])) for i in range(n) for j in range(i + 1, n)]
        if any(abs(x / cutoff - 1.0) < 0.05 for x in d):
            continue
        yield kind, pts, cutoff


def bond_oracle_predicate(pts, cutoff) -> tuple[str, str, dict] | None:
    """the bonding test of atomic systems (it gates acceptance in C07 and archiving in C08) answers
    'one connected cluster at the cutoff' for the geometry it is asked about"""
    from topsearch.data.coordinates import AtomicCoordinates
    pts = np.asarray(pts, dtype=float)
    c = AtomicCoordinates(["C"] * len(pts), pts.ravel().copy(), bond_cutoff=float(cutoff))
    got, want = bool(c.same_bonds()), connected_reference(pts, float(cutoff))
    if got != want:
        return ("bonding-test:same_bonds", f"{len(pts)} atoms, cutoff {cutoff}: same_bonds() says "
                f"{'connected' if got else 'dissociated'}, the cluster is {'connected' if want else 'dissociated'} "
                f"(positions {np.round(pts, 4).tolist()})", {"bond_oracle": {"pts": pts.tolist(), "cutoff": float(cutoff)}})
    return None


ETHANOL = (["C", "C", "O", "H", "H", "H", "H", "H", "H"],
           [[0.0072, -0.5687, 0.0], [-1.2854, 0.2499, 0.0], [1.1304, 0.3147, 0.0], [0.0392, -1.1972, 0.89],
            [0.0392, -1.1972, -0.89], [-1.3175, 0.8784, 0.89], [-1.3175, 0.8784, -0.89], [-2.1422, -0.4239, 0.0],
            [1.9857, -0.1365, 0.0]])
COVALENT = {"H": 0.31, "C": 0.76, "O": 0.66}       # Cordero et al. 2008, the radii ase's natural cutoffs are
SKIN = 0.3                                          # ase.neighborlist: pairs within r_i + r_j + 2 * skin are neighbours


def molecular_bonds_reference(labels, pts):
    """(sorted label pairs of the bonded atom pairs, smallest margin to a threshold): written here from the
    documented rule, no ase / networkx"""
    out, margin = [], 1e9
    for i in range(len(pts)):
        for j in range(i + 1, len(pts)):
            d = float(np.sqrt(np.sum((pts[i] - pts[j]) ** 2)))
            thr = COVALENT[labels[i]] + COVALENT[labels[j]] + 2 * SKIN
            margin = min(margin, abs(d - thr))
            if d < thr:
                out.append(tuple(sorted((labels[i], labels[j]))))
    return sorted(out), margin


def molecular_bond_cases(rng, count: int):
    """ethanol: rigid motions and small distortions (bonding intact), one bond stretched (a bond fewer), a hydrogen
    moved from a carbon onto the oxygen or onto the other carbon (SAME number of bonds, and for the oxygen the same
    KINDS of bond, but one C-H fewer and one O-H more)"""
    labels, ref = ETHANOL[0], np.array(ETHANOL[1])
    for _ in range(count):
        kind = rng.choice(["rigid", "distorted", "stretched", "h-to-oxygen", "h-to-oxygen", "h-to-carbon"])
        pts = ref.copy()
        if kind == "distorted":
            pts += np.array([[rng.uniform(-0.04, 0.04) for _ in range(3)] for _ in range(len(pts))])
        elif kind == "stretched":
            h = rng.choice([3, 4, 5, 6, 7, 8])
            heavy = min((0, 1, 2), key=lambda a: float(np.linalg.norm(ref[a] - ref[h])))
            pts[h] = ref[heavy] + (ref[h] - ref[heavy]) * rng.uniform(2.2, 3.0)
        elif kind.startswith("h-to"):
            h = rng.choice([3, 4, 5, 6, 7])
            target = 2 if kind == "h-to-oxygen" else rng.choice([0, 1])
            best = None
            for _try in range(60):
                u = np.array([rng.gauss(0, 1) for _ in range(3)])
                u /= np.linalg.norm(u)
                cand = ref[target] + u * (0.97 if target == 2 else 1.09)
                trial = pts.copy()
                trial[h] = cand
                m = molecular_bonds_reference(labels, trial)[1]
                if best is None or m > best[0]:
                    best = (m, cand)
            pts[h] = best[1]
        q = np.linalg.qr(np.array([[rng.gauss(0, 1) for _ in range(3)] for _ in range(3)]))[0]
        pts = pts @ q.T + np.array([rng.uniform(-2, 2) for _ in range(3)])
        if molecular_bonds_reference(labels, pts)[1] < 0.1:
            continue                       # a pair within 0.1 A of its threshold: no verdict
        yield kind, pts


def molecular_bond_predicate(pts) -> tuple[str, str, dict] | None:
    """`MolecularCoordinates.same_bonds` (the gate of molecular basin-hopping) against the documented rule: the bonds
    of the geometry asked about are, kind by kind and WITH their multiplicities, those of the reference geometry"""
    from topsearch.data.coordinates import MolecularCoordinates
    labels, ref = ETHANOL[0], np.array(ETHANOL[1])
    pts = np.asarray(pts, dtype=float)
    c = MolecularCoordinates(list(labels), ref.ravel().copy())
    c.position = pts.ravel().copy()
    want_ref, _m = molecular_bonds_reference(labels, ref)
    have, _m2 = molecular_bonds_reference(labels, pts)
    got, want = bool(c.same_bonds()), have == want_ref
    if got != want:
        from collections import Counter
        return ("bonding-test:same_bonds:molecular", f"ethanol: same_bonds() says {'intact' if got else 'changed'}; the "
                f"geometry has the bonds {dict(Counter('-'.join(b) for b in have))}, the reference "
                f"{dict(Counter('-'.join(b) for b in want_ref))}", {"molecular_bond_oracle": {"pts": pts.tolist()}})
    return None


def bond_sequence_predicate(seed: int) -> tuple[str, str, dict] | None:
    """the bonding tests on ONE coordinates object asked again and again, as the walker's object is over a whole run:
    each answer is about the geometry the object holds NOW — not about an earlier one (a neighbour table that is only
    refreshed after a large move, an adjacency table that is never cleared)"""
    import random
    from topsearch.data.coordinates import AtomicCoordinates, MolecularCoordinates
    rng = random.Random(seed)
    # atomic: a compact cluster, one atom carried away, brought back, another one carried away, ...
    n, cutoff = rng.choice([3, 4, 5, 7]), 1.5
    base = np.array([[0.9 * i, 0.3 * (i % 2), 0.2 * (i % 3)] for i in range(n)], dtype=float)
    c = AtomicCoordinates(["C"] * n, base.ravel().copy(), bond_cutoff=cutoff)
    for step in range(rng.choice([3, 4, 6])):
        pts = base + np.array([[rng.uniform(-0.05, 0.05) for _ in range(3)] for _ in range(n)])
        if step % 2 == 1:
            pts[rng.randrange(n)] += np.array([0.0, rng.choice([8.0, 30.0]), 5.0])
        c.position = pts.ravel().copy()
        got, want = bool(c.same_bonds()), connected_reference(pts, cutoff)
        if got != want:
            return ("bonding-test:same_bonds:sequence", f"{n} atoms, cutoff {cutoff}, call {step + 1} on the same coordinates "
                    f"object: same_bonds() says {'connected' if got else 'dissociated'}, the cluster it holds now is "
                    f"{'connected' if want else 'dissociated'}", {"bond_sequence_seed": seed})
    # molecular: ethanol; two hydrogens approach until they count as bonded, then relax by LESS than the neighbour
    # list's skin to a geometry that has the reference bonding again (and variants of that walk)
    try:
        labels, ref = ETHANOL[0], np.array(ETHANOL[1])
        want_ref, _ = molecular_bonds_reference(labels, ref)
        m = MolecularCoordinates(list(labels), ref.ravel().copy())
        hs = rng.choice([(3, 4), (5, 6), (5, 7), (6, 7)])
        mid = 0.5 * (ref[hs[0]] + ref[hs[1]])
        u = (ref[hs[1]] - ref[hs[0]]) / np.linalg.norm(ref[hs[1]] - ref[hs[0]])
        walk = [1.10, 1.40, 1.08, 1.45, 1.78] if rng.random() < 0.5 else [1.40, 1.10, 1.38, 1.12, 1.40]
        for step, dist in enumerate(walk):
            pts = ref.copy()
            pts[hs[0]], pts[hs[1]] = mid - 0.5 * dist * u, mid + 0.5 * dist * u
            pts += np.array([[rng.uniform(-0.01, 0.01) for _ in range(3)] for _ in range(len(pts))])
            have, margin = molecular_bonds_reference(labels, pts)
            if margin < 0.05:
                continue
            m.position = pts.ravel().copy()
            got, want = bool(m.same_bonds()), have == want_ref
            if got != want:
                return ("bonding-test:same_bonds:molecular-sequence", f"ethanol, call {step + 1} on the same coordinates object "
                        f"(hydrogens {hs} at {dist} A): same_bonds() says {'intact' if got else 'changed'}, the geometry it "
                        f"holds now has {'the reference bonding' if want else 'a different bonding'}",
                        {"bond_sequence_seed": seed})
    except ImportError:
        pass
    return None


def bond_oracle(ctx: Ctx) -> None:
    for sd in range(ctx.seed * 100, ctx.seed * 100 + ctx.scale(12, 80)):
        r = bond_sequence_predicate(sd)
        ctx.stats.case({"stream": "predicate-bonding-test-sequence", "seed": sd}, True)
        ctx.contract("same_bonds (same object, successive geometries)", r is None)
        if r:
            ctx.fail(*r)
            break
    try:
        done = False
        for kind, pts in molecular_bond_cases(ctx.rng, ctx.scale(24, 200)):
            r = molecular_bond_predicate(pts)
            ctx.stats.case({"stream": "predicate-bonding-test-molecular", "kind": kind}, True)
            ctx.contract("same_bonds (molecular)", r is None)
            if r and not done:
                done = True
                ctx.fail(*r)
    except ImportError as e:                 # ase / rdkit missing would be infrastructure, not a verdict
        ctx.stats.notes["molecular-bond-oracle"] = f"skipped ({e})"
    done = False
    for kind, pts, cutoff in bond_oracle_cases(ctx.rng, ctx.scale(150, 1500)):
        r = bond_oracle_predicate(pts, cutoff)
        ctx.stats.case({"stream": "predicate-bonding-test", "kind": kind, "n": len(pts)}, True)
        ctx.contract("same_bonds", r is None)
        if r and not done:
            done = True
            ctx.fail(*r)


def predicates(ctx: Ctx) -> None:
    rng = ctx.rng
    deep = getattr(ctx, "deep_search", False)
    bond_oracle(ctx)
    # corpus first: the run that exposed the save/restore-by-reference defect
    script, rec = run_trace(CORPUS_TRACE)
    ctx.stats.case({"stream": "predicate-corpus", "name": "camelback-seed3-T1e-6"}, True)
    r = walker_predicate(script, rec)
    if r:
        ctx.fail(r[0], r[1], {"trace": CORPUS_TRACE, **r[2]})
    # a quench: temperature exactly zero (uphill moves never accepted, downhill ones always)
    for sd in (3, 11):
        p = {"surface": "camelback", "seed": sd, "T": 0.0, "step": 1.5, "n_steps": 25}
        script, rec = run_trace(p)
        ctx.stats.case({"stream": "predicate-trace-quench", "seed": sd}, True)
        r = walker_predicate(script, rec)
        if r:
            ctx.fail(r[0], r[1] + " (temperature exactly 0)", {"trace": p, **r[2]})
    # scripted runs: all short patterns (cheap), long random ones
    which = "all" if deep else "long"
    scripts = scripted_corpus(ctx, which)
    if not deep:
        for n in (2, 3):
            for pat in itertools.product(OUTCOMES_STD, repeat=n):
                scripts.append(make_script(rng, "standard", pat))
            for pat in itertools.product(OUTCOMES_ATOM, repeat=n):
                scripts.append(make_script(rng, "atomic", pat))
    scripts.sort(key=lambda s: len(s["steps"]))
    for script in scripts:
        rec = run_scripted(script)
        r = walker_predicate(script, rec)
        ctx.stats.case({"stream": "predicate-scripted", "kind": script["kind"],
                        "pattern": "".join(s["want"][0] for s in script["steps"])[:40]}, True)
        if r:
            small = shrink_script(script, r[0], walker_predicate)
            r2 = walker_predicate(small, run_scripted(small)) or r
            ctx.fail(r[0], r2[1], {"script": small, **r2[2]})
    # real runs
    for p in trace_params(ctx)[: ctx.scale(12, 60) * (3 if deep else 1)]:
        script, rec = run_trace(p)
        r = walker_predicate(script, rec)
        ctx.stats.case({"stream": "predicate-trace", "surface": p["surface"], "seed": p["seed"]}, True)
        if r:
            ctx.fail(r[0], r[1], {"trace": p, **r[2]})
    for i in range(ctx.scale(6, 16) * (2 if deep else 1)):
        seed = rng.randrange(10 ** 6)
        inv = i % 3 != 2
        r = lj_predicate_run(seed, ctx.scale(20, 30), inversion=inv)
        ctx.stats.case({"stream": "predicate-lj", "seed": seed, "allow_inversion": inv}, True)
        if r:
            ctx.fail(r[0], r[1], {"lj": {"seed": seed, "n_steps": ctx.scale(20, 30), "inversion": inv}, **r[2]})
            break


def replay(ctx: Ctx, data: dict) -> bool:
    if "bond_sequence_seed" in data:
        r = bond_sequence_predicate(int(data["bond_sequence_seed"]))
        if r:
            print(f"  {r[0]}: {r[1]}")
        return r is None
    if "bond_oracle" in data:
        r = bond_oracle_predicate(data["bond_oracle"]["pts"], data["bond_oracle"]["cutoff"])
        if r:
            print(f"  {r[0]}: {r[1]}")
        return r is None
    if "molecular_bond_oracle" in data:
        r = molecular_bond_predicate(data["molecular_bond_oracle"]["pts"])
        if r:
            print(f"  {r[0]}: {r[1]}")
        return r is None
    if "trace" in data:
        script, rec = run_trace(data["trace"])
        r = walker_predicate(script, rec)
    elif "lj" in data:
        r = lj_predicate_run(data["lj"]["seed"], data["lj"]["n_steps"], data["lj"].get("inversion"))
    elif "script" in data:
        script = data["script"]
        if script.get("trace"):
            script, rec = run_trace(script["trace"])
        else:
            script["pre"] = [tuple(x) for x in script.get("pre", [])]
            rec = run_scripted(script)
        r = walker_predicate(script, rec)
    else:
        print("  nothing to replay (no concrete input in this file)")
        return True
    if r:
        print(f"  {r[0]}: {r[1]}")
    return r is None
