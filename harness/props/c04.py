"""C04 — a reported transition state is converged, in the box and consistently labelled.

Tie #1: translate.hef reads the `axis=` arguments, the np.any/np.all nesting, the comparison
operators, the push-off constants and the order of the refusal reasons from the source into
Gen/Hef.lean (bridge lemmas in Props/C04.lean).
Tie #2 (Drivers/Hef.lean):
 (a) pure: test_convergence / check_valid_eigenvector / active_bounds on dimensions 1-6 x all 3^d
     pinning patterns (d <= 4 exhaustive in the quick tier, sampled above) x gradients below / at /
     above the tolerance in free and pinned coordinates (stub potential with a chosen gradient);
     analytic_step_size, take_uphill_step, get_local_bounds, find_pushoff on dyadic inputs;
 (c) scripted: the REAL `run`, `test_convergence`, `steepest_descent`, `find_pushoff` with scripted
     eigen-solver / uphill step / subspace minimisation / descent / potential answers against the
     skeleton model: every failure reason, success with and without push-off failure;
 (d) trace-driven: REAL searches (nothing replaced; methods wrapped to log) on cosine surfaces,
     Camelback and separable surfaces whose saddle sits on a face / an edge of the box; the model
     consumes the log as its oracle answers and must reproduce the call sequence and the outcome.
Predicates: the statement's success clause and converse clauses on the real code.
"""
from __future__ import annotations

import itertools
import math
import warnings
from fractions import Fraction

import numpy as np

from common import Ctx, frac, run_driver
from translate import hef as hef_tr

PROP = "C04"
LEAN_MODULE = "TopSearch.Props.C04"
LEAN_FILES = ["TopSearch.Props.C04", "TopSearch.Lemmas.Hef", "TopSearch.Model.Hef"]
EXTRA_TARGETS = ["TopSearch.Model.Hef", "TopSearch.Gen.Hef"]
_P = "TopSearch.Props.C04."
REQUIRED = [_P + n for n in [
    "C04_bridge_axes", "C04_bridge_operators", "C04_bridge_pushoff", "C04_bridge_reasons",
    "C04_convergence_iff", "C04_convergence_iff_gen", "C04_convergence_dim0",
    "C04_valid_iff", "C04_all_pinned_refused", "C04_valid_iff_gen",
    "C04_axis0_witness_pinned_gradient", "C04_axis0_witness_free_gradient",
    "C04_axis0_witness_all_lower_accepted", "C04_axis0_witness_mixed_refused",
    "C04_clip_in_box", "C04_uphill_step_in_box", "C04_local_bounds_in_box",
    "C04_pushoff_accept", "C04_pushoff_zero_never_accepted",
    "C04_failure_has_reason", "C04_run_post", "C04_success_flag",
]]
RULE = ("cases = (a) one (gradient, pinning pattern, tolerance) or (vector, eigenvalue, position) input "
        "compared model-vs-implementation, (c) one scripted search (sequence of oracle answers) compared "
        "on call sequence + outcome, (d) one real search replayed through the model; non-trivial = not "
        "refused by a guard; distinct = distinct canonical inputs")
ASSUMPTIONS = [
    "LBFGSB contract (scipy.optimize.fmin_l_bfgs_b): result inside the bounds it was given, returned "
    "f_val = f(result), f(result) <= f(start) — hypotheses of C04_run_post, validated on every traced call",
    "the potential is a deterministic function of the position (same point -> same value)",
    "np.sqrt / np.linalg.norm enter the model as values with the contract 0 <= s and s*s = x",
    "NaN is not a value of the model: np.isnan is a Boolean input; finiteness of returned numbers is "
    "checked on the real code only",
    "StandardCoordinates (non-atomistic branch of get_local_bounds / find_pushoff / steepest_descent_paths)",
]
TRUSTED_EXTRA = ["oracle contracts LBFGSB (in-box, f-value, monotone) and sqrt/norm, validated per traced call"]
PARTIAL = ("that the iteration converges at all, finiteness of the returned numbers and IEEE rounding are "
           "numerical: observed on the real code, not proved; only the post-condition logic is proved")

TOL = 2.0 ** -10
SDTOL = 2.0 ** -20
SMALL = "1/10000000000000"


def regenerate(ctx: Ctx) -> None:
    ctx.gen_status.update(hef_tr.regenerate())
    from translate import transcripts as _tr
    ctx.gen_status.update(_tr.constructor_wiring(['HybridEigenvectorFollowing']))


# ----------------------------------------------------------------------------- helpers


def V(xs) -> str:
    xs = [float(x) for x in xs]
    return ",".join(frac(x) for x in xs) if xs else "-"


def B(bs) -> str:
    bs = [bool(b) for b in bs]
    return ",".join("1" if b else "0" for b in bs) if bs else "-"


def imports():
    from topsearch.data.coordinates import StandardCoordinates
    from topsearch.transition_states.hybrid_eigenvector_following import HybridEigenvectorFollowing
    from topsearch.potentials.potential import Potential
    return StandardCoordinates, HybridEigenvectorFollowing, Potential


def make_stub(g):
    _, _, Potential = imports()

    class Stub(Potential):
        def __init__(self, g):
            self.g = np.array(g, dtype=float)
            self.atomistic = False

        def function(self, x):
            return float(self.g @ x)

        def gradient(self, x):
            return self.g.copy()
    return Stub(g)


def make_coords(d, lo=0.0, up=1.0, position=None):
    StandardCoordinates, _, _ = imports()
    c = StandardCoordinates(ndim=d, bounds=[(float(lo), float(up))] * d)
    if position is not None:
        c.position = np.array(position, dtype=float)
    return c


def call(fn, *a):
    """run a piece of the real code; exceptions become their class name"""
    with warnings.catch_warnings():
        warnings.simplefilter("ignore")
        try:
            return fn(*a), None
        except Exception as e:  # noqa: BLE001
            return None, type(e).__name__


def patterns(d: int, ctx: Ctx, sample: int):
    """pinning patterns: 0 free, 1 lower, 2 upper; exhaustive when small, else a seeded sample
    that always contains none / all-lower / all-upper / single pinned"""
    total = 3 ** d
    if total <= sample:
        return list(itertools.product((0, 1, 2), repeat=d))
    fixed = [(0,) * d, (1,) * d, (2,) * d] + [tuple(1 if i == j else 0 for i in range(d)) for j in range(d)] \
        + [tuple(2 if i == j else 0 for i in range(d)) for j in range(d)] \
        + [tuple(0 if i == j else 1 + (i % 2) for i in range(d)) for j in range(d)]
    seen = set(fixed)
    while len(seen) < sample:
        seen.add(tuple(ctx.rng.randrange(3) for _ in range(d)))
    return sorted(seen)


def gradients(pat, rng, n_random: int):
    """gradients below / at / above the tolerance in free and pinned coordinates"""
    d = len(pat)
    free = [i for i in range(d) if pat[i] == 0]
    pinned = [i for i in range(d) if pat[i] != 0]
    out = []
    base = [rng.choice((TOL / 2, -TOL / 2, 0.0, TOL / 4)) for _ in range(d)]
    out.append(("all-below", list(base)))
    g = list(base)
    for i in pinned:
        g[i] = rng.choice((5.0, -5.0, TOL, 2 * TOL))
    out.append(("free-below-pinned-large", g))
    if free:
        i = rng.choice(free)
        for name, val in (("free-at", TOL), ("free-at-neg", -TOL), ("free-above", 2 * TOL), ("free-large", -5.0)):
            h = list(g)
            h[i] = val
            out.append((name, h))
        h = list(base)
        h[free[0]] = 5.0
        out.append(("first-free-large", h))
    for _ in range(n_random):
        out.append(("random", [rng.choice((0.0, TOL / 2, -TOL / 2, TOL, -TOL, 2 * TOL, 5.0, -5.0)) for _ in range(d)]))
    return out


COMPACT = {"active_bounds", "analytic_step_size", "take_uphill_step", "get_local_bounds", "find_pushoff",
           "check_eigenvector_direction", "project_onto_bounds", "update_eigenvector_bounds",
           "rayleigh_ritz_function_gradient"}


class Batch:
    """collects (driver line, implementation answer, description) and compares in one driver run"""

    def __init__(self, ctx: Ctx, cfg: str = "gen"):
        self.ctx = ctx
        self.lines = [f"cfg {cfg}"]
        self.exp = [("ok", None, None, None)]

    def add(self, line: str, impl, key: str, canon: dict, cmp=None):
        self.lines.append(line)
        self.exp.append((impl, key, canon, cmp))

    def raw(self, line: str):
        """a protocol line whose answer is `ok` (oracle upload)"""
        self.lines.append(line)
        self.exp.append(("ok", "protocol", {"line": line.split(" ")[0]}, None))

    def run(self, label: str) -> list[str]:
        out = run_driver("Hef", self.lines)
        if len(out) != len(self.exp):
            self.ctx.diverge(f"{label}:driver-length", f"driver answered {len(out)} lines for {len(self.exp)}", {})
            return out
        for (impl, key, canon, cmp), got, line in zip(self.exp, out, self.lines):
            if key is None or key == "protocol":
                if got != "ok":
                    self.ctx.diverge(f"{label}:protocol", f"driver answered `{got}` to `{line[:80]}`", {"line": line})
                continue
            nontrivial = got not in ("guard", "bad-op")
            self.ctx.stats.case({"stream": label, **canon, "model": got[:120]}, nontrivial)
            tag = " ".join(got.split(" ")[:2])[:24] if got.startswith("ok ") else got.split(" ")[0].split("=")[0][:16]
            if key.split(":")[0] in COMPACT and tag not in ("guard", "bad-op", "nan", "none") \
                    and not tag.startswith("raise"):
                tag = "answered"
            self.ctx.stats.branch(f"{label}:{key}:{tag}")
            ok = cmp(impl, got) if cmp else (impl == got)
            if ok is None:
                self.ctx.stats.near_ties += 1
            elif not ok:
                self.ctx.diverge(f"{label}:{key}", f"`{line[:160]}`: implementation {str(impl)[:160]} / model {got[:160]}",
                                 {"line": line, "impl": str(impl), "model": got, **canon})
        return out


def parse_vec(s: str) -> list[Fraction]:
    return [] if s == "-" else [Fraction(t) for t in s.split(",")]


def close(a: float, b: Fraction, rel=1e-9, ab=1e-12) -> bool:
    b = float(b)
    if math.isnan(a) or math.isinf(a):
        return False
    return abs(a - b) <= ab + rel * max(abs(a), abs(b))


def vec_close(impl, got: str, rel=1e-9, ab=1e-12) -> bool:
    g = parse_vec(got)
    return len(g) == len(impl) and all(close(float(a), b, rel, ab) for a, b in zip(impl, g))


def cmp_vec(impl, got: str):
    """exact decisions, values to the rounding of one binary64 operation chain"""
    if isinstance(impl, str):
        return impl == got
    if got.startswith("raise") or got in ("guard", "bad-op"):
        return False
    return vec_close(impl, got, 1e-13, 1e-15)


# ----------------------------------------------------------------------------- (a) pure kernels


def corr_masks(ctx: Ctx) -> None:
    _, HEF, _ = imports()
    rng = ctx.rng
    b = Batch(ctx)
    for d in range(1, 7):
        sample = ctx.scale(90 if d <= 4 else 50, 3 ** d)
        for pat in patterns(d, ctx, sample):
            lo = [p == 1 for p in pat]
            up = [p == 2 for p in pat]
            for name, g in gradients(pat, rng, ctx.scale(1, 3)):
                h = HEF(make_stub(g), TOL, 10, 1.0)
                r, err = call(h.test_convergence, np.zeros(d), np.array(lo), np.array(up))
                impl = f"raise:{err}" if err else f"ok {1 if r else 0}"
                b.add(f"conv {V(g)} {B(lo)} {B(up)} {frac(TOL)}", impl, "test_convergence",
                      {"d": d, "pattern": "".join(map(str, pat)), "gradient": name})
            # check_valid_eigenvector at a point positioned on / off the bounds
            pos = [0.0 if p == 1 else 1.0 if p == 2 else rng.choice((0.5, 0.25, 0.75)) for p in pat]
            if rng.random() < 0.2:      # outside the box counts as pinned (`<=`, `>=`)
                pos = [x - 0.25 if x == 0.0 else x + 0.25 if x == 1.0 else x for x in pos]
            cases = [("unit", [1.0] + [0.0] * (d - 1), -1.0, False)]
            k = rng.randrange(5)
            if k == 0:
                cases.append(("zero-vector", [0.0] * d, -1.0, False))
            elif k == 1:
                cases.append(("zero-eigenvalue", [0.5] * d, rng.choice((0.0, -0.0)), False))
            elif k == 2:
                cases.append(("nan", [float("nan")] + [0.0] * (d - 1), -1.0, True))
            elif k == 3:
                cases.append(("positive-eigenvalue", [0.0] * (d - 1) + [-2.0], 0.5, False))
            else:
                cases.append(("zero-vector-zero-eigenvalue", [0.0] * d, 0.0, False))
            c = make_coords(d, position=pos)
            al, au = c.active_bounds()
            b.add(f"active {V(pos)} {V([0.0] * d)} {V([1.0] * d)}", f"{B(al)} {B(au)}", "active_bounds",
                  {"d": d, "pattern": "".join(map(str, pat))})
            for name, v, ev, nan in cases:
                h = HEF(make_stub([0.0] * d), TOL, 10, 1.0)
                r, err = call(h.check_valid_eigenvector, np.array(v), ev, c)
                impl = f"raise:{err}" if err else ("ok valid" if r else f"ok {h.failure}")
                if not err and r and h.failure is not None:
                    impl += " (failure set on acceptance)"
                vv = [1.0 if math.isnan(x) else x for x in v]
                b.add(f"valid {V(vv)} {1 if nan else 0} {frac(ev)} {B(al)} {B(au)}", impl,
                      "check_valid_eigenvector", {"d": d, "pattern": "".join(map(str, pat)), "case": name})
    # masks given directly, including both-active (degenerate box) and empty arrays
    for d in (0, 1, 2, 3):
        for _ in range(ctx.scale(6, 30)):
            lo = [rng.random() < 0.4 for _ in range(d)]
            up = [rng.random() < 0.4 for _ in range(d)]
            g = [rng.choice((0.0, TOL / 2, TOL, 5.0)) for _ in range(d)]
            h = HEF(make_stub(g), TOL, 10, 1.0)
            r, err = call(h.test_convergence, np.zeros(d), np.array(lo, dtype=bool), np.array(up, dtype=bool))
            impl = f"raise:{err}" if err else f"ok {1 if r else 0}"
            b.add(f"conv {V(g)} {B(lo)} {B(up)} {frac(TOL)}", impl, "test_convergence",
                  {"d": d, "pattern": "direct", "lo": B(lo), "up": B(up), "g": V(g)})
    b.run("masks")


PYTH = [(0.0, 1.0), (0.75, 1.25), (-0.75, 1.25), (1.875, 2.125), (-1.875, 2.125), (3.9375, 4.0625)]  # (2r, sqrt(1+4r^2))


def corr_steps(ctx: Ctx) -> None:
    """analytic_step_size, take_uphill_step, get_local_bounds on dyadic inputs (exact) and on
    random inputs (tolerance)"""
    _, HEF, _ = imports()
    rng = ctx.rng
    b = Batch(ctx)
    for _ in range(ctx.scale(60, 400)):
        two_r, s = rng.choice(PYTH)
        ev = rng.choice((-1.0, -0.5, -2.0, 0.25, 4.0))
        ov = two_r / 2 * ev
        mx = rng.choice((1.0, 0.125, 0.5))
        mn = rng.choice((2.0 ** -20, 0.25, 2.0 ** -3))
        h = HEF(make_stub([0.0]), TOL, 10, 1.0, max_uphill_step_size=mx, min_uphill_step_size=mn)
        d = rng.randrange(1, 4)
        v = [rng.choice((1.0, -1.0, 0.5, 0.0)) for _ in range(d)]
        # gradient with g.v = ov exactly: put everything on one non-zero component
        nz = [i for i in range(d) if v[i] != 0.0]
        r, err = call(h.analytic_step_size, np.array([ov]), np.array([1.0]), ev)
        b.add(f"astep 0 {frac(mx)} {frac(mn)} {frac(ov)} {frac(ev)} {frac(s)}",
              f"raise:{err}" if err else [float(r)], "analytic_step_size",
              {"ov": ov, "ev": ev, "max": mx, "min": mn}, cmp_vec)
        if nz:
            g = [0.0] * d
            g[nz[0]] = ov / v[nz[0]]
            x = [rng.choice((0.0, 0.25, 0.5, 1.0)) for _ in range(d)]
            pos_step = rng.choice((0.125, 0.5))
            ev2 = rng.choice((ev, abs(ev), 0.0)) if rng.random() < 0.4 else ev
            if ev2 != ev:
                s2 = 1.0
            else:
                s2 = s
            h = HEF(make_stub(g), TOL, 10, 1.0, max_uphill_step_size=mx, min_uphill_step_size=mn,
                    positive_eigenvalue_step=pos_step)
            c = make_coords(d, position=x)
            _, err = call(h.take_uphill_step, c, np.array(v), ev2)
            # the sqrt value is only looked at when the eigenvalue is negative
            if ev2 < 0:
                ovr = float(np.dot(g, v))
                s2 = float(np.sqrt(1.0 + 4.0 * (ovr / ev2) ** 2))
            b.add(f"ustep 0 {frac(pos_step)} {frac(mx)} {frac(mn)} {V(x)} {V(v)} {V(g)} {V([0.0] * d)} {V([1.0] * d)} "
                  f"{frac(ev2)} {frac(s2)}", f"raise:{err}" if err else list(c.position), "take_uphill_step",
                  {"x": V(x), "v": V(v), "ev": ev2, "ov": ov}, cmp_vec)
    # the zero-eigenvalue branch of analytic_step_size (division by zero inside numpy -> step 0)
    h = HEF(make_stub([0.0]), TOL, 10, 1.0)
    r, err = call(h.analytic_step_size, np.array([0.5]), np.array([1.0]), np.float64(0.0))
    b.add(f"astep 0 1 {frac(1e-7)} 1/2 0 1", f"raise:{err}" if err else [float(r)], "analytic_step_size", {"ev": 0}, cmp_vec)
    # get_local_bounds: dyadic boxes whose range*0.02 is not exact -> tolerance
    for _ in range(ctx.scale(40, 200)):
        d = rng.randrange(1, 5)
        lo = rng.choice((0.0, -1.0, -3.0))
        up = rng.choice((1.0, 2.0, 0.5))
        x = [rng.choice((lo, up, (lo + up) / 2, lo + (up - lo) / 64, up - (up - lo) / 128, lo + (up - lo) * 0.02)) for _ in range(d)]
        h = HEF(make_stub([0.0] * d), TOL, 10, 1.0)
        c = make_coords(d, lo, up, x)
        r, err = call(h.get_local_bounds, c)
        impl = None if err else ([p[0] for p in r], [p[1] for p in r])

        def cmp(impl, got, err=err):
            if err:
                return got == f"raise:{err}"
            a, bb = got.split(" ")
            return vec_close(impl[0], a) and vec_close(impl[1], bb)
        b.add(f"lbounds {V(x)} {V([lo] * d)} {V([up] * d)}", impl, "get_local_bounds", {"x": V(x), "lo": lo, "up": up}, cmp)
    b.run("steps")


def corr_pushoff(ctx: Ctx) -> None:
    """the REAL find_pushoff with a scripted potential on dyadic data (positions exact)"""
    rng = ctx.rng
    b = Batch(ctx)
    for _ in range(ctx.scale(80, 500)):
        d = rng.randrange(1, 4)
        sc = make_push_script(rng, d)
        x = [rng.choice((0.0, 0.25, 0.5, 0.75, 1.0)) for _ in range(d)]
        v = [rng.choice((1.0, -1.0, 0.5, 0.0, -0.25)) for _ in range(d)]
        h, pot = scripted_hef(d, 3)
        lin = pot.lin
        e_ts = float(lin @ np.array(x))
        pp, pm = realise_probes(sc, e_ts)
        pot.fg_q = list(pp[:sc["np"]]) + list(pm[:sc["nm"]])
        c = make_coords(d, position=x)
        r, err = call(h.find_pushoff, c, np.array(v))
        if err:
            impl = f"raise:{err}"
        else:
            # the accepted increment is recovered from the number of probes consumed
            impl = f"{B([h.failure == 'pushoff'])} {V(r[0])} {V(r[1])} restored={V(c.position) == V(x)} left={len(pot.fg_q)}"

        def cmp(impl, got):
            if got in ("guard", "bad-op") or impl.startswith("raise"):
                return impl == got
            ip, im, failed, plus, minus = got.split(" ")
            return impl == f"{failed} {plus} {minus} restored=True left=0"
        b.add(f"push {frac(SDTOL)} {frac(h.pushoff)} {frac(e_ts)} {V(x)} {V(v)} {V([0.0] * d)} {V([1.0] * d)} "
              f"{probes_str(pp[:sc['np']])} {probes_str(pm[:sc['nm']])}", impl, "find_pushoff",
              {"accP": sc["accP"], "accM": sc["accM"], "d": d}, cmp)
    b.run("pushoff")


def make_push_script(rng, d: int) -> dict:
    """which increment (if any) is accepted in each direction, and why the earlier ones are not"""
    def one():
        acc = rng.choice([None, None, 0, 1, 1, 2, 3, 5, 9])
        probes = []
        n = 10 if acc is None else acc + 1
        for i in range(n):
            if i == acc:
                de, gm = rng.choice((-0.25, -2.0 ** -30)), rng.choice((8 * SDTOL, 1.0))
            else:
                de, gm = rng.choice([(0.5, 1.0), (0.0, 1.0), (-0.25, 5 * SDTOL), (-0.25, 0.0), (-0.25, -1.0),
                                     (0.25, 0.0)])
            g = [gm] + [rng.choice((gm, gm - 1.0, -7.0)) for _ in range(d - 1)]
            rng.shuffle(g)
            probes.append((de, g))
        return acc, probes
    accP, prP = one()
    accM, prM = one()
    return {"accP": accP, "accM": accM, "P": prP, "M": prM, "np": len(prP), "nm": len(prM)}


def realise_probes(sc: dict, e_ts: float):
    pp = [(e_ts + de, np.array(g)) for de, g in sc["P"]]
    pm = [(e_ts + de, np.array(g)) for de, g in sc["M"]]
    return pp, pm


def probes_str(pr) -> str:
    return ",".join(f"{frac(float(e))}:{';'.join(frac(float(x)) for x in g)}" for e, g in pr) if pr else "-"


# ----------------------------------------------------------------------------- (c) scripted run


def scripted_hef(d: int, ts_steps: int, lin=None):
    """a real HybridEigenvectorFollowing over a scripted potential"""
    _, HEF, Potential = imports()

    class ScriptPot(Potential):
        def __init__(self):
            self.atomistic = False
            self.lin = np.array(lin if lin is not None else [0.5, -0.25, 1.0, 0.125, -1.0, 0.75][:d], dtype=float)
            self.grad_q: list = []
            self.fg_q: list = []
            self.log: list = []

        def function(self, x):
            self.log.append(("f", np.array(x, dtype=float).copy()))
            return float(self.lin @ x)

        def gradient(self, x):
            self.log.append(("g", np.array(x, dtype=float).copy()))
            return np.array(self.grad_q.pop(0), dtype=float)

        def function_gradient(self, x):
            self.log.append(("fg", np.array(x, dtype=float).copy()))
            e, g = self.fg_q.pop(0)
            return float(e), np.array(g, dtype=float)
    pot = ScriptPot()
    h = HEF(pot, TOL, ts_steps, 1.25, steepest_descent_conv_crit=SDTOL)
    return h, pot


REFUSALS = ["eigenvector", "eigenvalue", "bounds"]


def gen_script(rng, d: int) -> dict:
    ts_steps = rng.choice((0, 1, 2, 3, 3, 4))
    grid = (0.0, 0.25, 0.5, 0.75, 1.0)
    conv_at = rng.choice([None] + list(range(max(ts_steps, 1)))) if rng.random() < 0.8 else None
    iters = []
    for k in range(ts_steps):
        it: dict = {}
        if rng.random() < 0.1:
            it["eig1"] = ("refused", rng.choice(REFUSALS))
        else:
            it["eig1"] = ("ok", [rng.choice((1.0, -1.0, 0.5, 0.0)) for _ in range(d)],
                          rng.choice((-1.0, -0.5, 0.0, 0.5)), rng.choice((0, 3, 4, 5, 7)))
        it["stepped"] = [rng.choice(grid) for _ in range(d)]
        it["sub"] = [rng.choice(grid) for _ in range(d)]
        use_sub = it["eig1"][0] == "ok" and it["eig1"][2] < 0 and it["eig1"][3] < 5
        x1 = it["sub"] if use_sub else it["stepped"]
        pinned = [x <= 0.0 or x >= 1.0 for x in x1]
        g = [rng.choice((5.0, -5.0, TOL)) if p else rng.choice((TOL / 2, -TOL / 4, 0.0)) for p in pinned]
        free = [i for i in range(d) if not pinned[i]]
        if k != conv_at and free:
            g[rng.choice(free)] = rng.choice((TOL, -TOL, 2 * TOL, 5.0))
        it["grad"] = g
        if rng.random() < 0.2:
            it["eig2"] = ("refused", rng.choice(REFUSALS))
        else:
            it["eig2"] = ("ok", [rng.choice((1.0, -1.0, 0.5, 0.0, -0.25)) for _ in range(d)], -1.0, rng.choice((0, 2, 9)))
        it["push"] = make_push_script(rng, d)
        for key in ("descP", "descM"):
            if rng.random() < 0.15:
                it[key] = None
            else:
                p = [rng.choice(grid) for _ in range(d)]
                it[key] = (p, rng.choice((-1.0, -0.5, 0.25, 3.0)))
        iters.append(it)
    return {"d": d, "ts_steps": ts_steps, "x0": [rng.choice(grid) for _ in range(d)], "iters": iters}


def eig_str(e) -> str:
    if e[0] == "refused":
        return f"refused {e[1]}"
    if e[0] == "nan":
        return f"nan {e[1]}"
    return f"ok {V(e[1])} {frac(e[2])} {e[3]}"


def out_str(ret, failure) -> str:
    if ret[0] is None:
        extra = "" if all(r is None for r in ret) else " DATA-ON-FAILURE"
        return f"failure reason={failure if failure is not None else 'none'}{extra}"
    x, e, xp, ep, xm, em, v = ret
    return (f"success xts={V(x)} ets={frac(float(e))} xp={V(xp)} ep={frac(float(ep))} xm={V(xm)} "
            f"em={frac(float(em))} v={V(v)} flag={failure if failure is not None else 'none'}")


def run_scripted(script: dict):
    """drive the REAL run with the script; returns (driver lines, canonical implementation answer)"""
    d = script["d"]
    h, pot = scripted_hef(d, script["ts_steps"])
    c = make_coords(d, position=script["x0"])
    st = {"k": -1, "after_conv": False, "calls": [], "in_push": False, "obs": [], "sd_starts": [], "desc_i": 0}
    iters = script["iters"]
    real_tc, real_fp = h.test_convergence, h.find_pushoff

    def cur():
        return iters[st["k"]]

    def gse(iv, coords, lo, up):
        st["calls"].append("e")
        if st["after_conv"]:
            st["after_conv"] = False
            e = cur()["eig2"]
            st["obs"][-1]["eig2"] = e
        else:
            st["k"] += 1
            e = cur()["eig1"]
            st["obs"].append({"eig1": e})
        if e[0] == "refused":
            h.failure = e[1]          # what check_valid_eigenvector does
            return None, None, None
        return np.array(e[1]), e[2], e[3]

    def step(coords, v, ev):
        st["calls"].append("u")
        coords.position = np.array(cur()["stepped"])
        st["obs"][-1]["stepped"] = cur()["stepped"]

    def sub(coords, v):
        st["calls"].append("m")
        st["obs"][-1]["sub"] = cur()["sub"]
        return np.array(cur()["sub"]), 0.0, {}

    def tc(position, lo, up):
        pot.grad_q = [cur()["grad"]]
        st["obs"][-1]["grad"] = cur()["grad"]
        st["obs"][-1]["grad_at"] = np.array(position).copy()
        r = real_tc(position, lo, up)
        st["calls"].append("c1" if r else "c0")
        st["after_conv"] = bool(r)
        return r

    def fp(ts, v):
        st["calls"].append("p")
        st["in_push"] = True
        sc = cur()["push"]
        e_ts = float(pot.lin @ ts.position)
        pp, pm = realise_probes(sc, e_ts)
        pot.fg_q = list(pp) + list(pm)
        st["obs"][-1]["push"] = (e_ts, pp, pm)
        try:
            return real_fp(ts, v)
        finally:
            st["in_push"] = False
            st["obs"][-1]["push_left"] = len(pot.fg_q)

    def sdp(coords):
        st["calls"].append("d")
        st["sd_starts"].append(coords.position.copy())
        key = "descP" if st["desc_i"] % 2 == 0 else "descM"
        st["desc_i"] += 1
        r = cur()[key]
        st["obs"][-1][key] = r
        st["obs"][-1][key + "_seen"] = True
        if r is None:
            return None, None, None
        return np.array(r[0]), r[1], {}

    h.get_smallest_eigenvector = gse
    h.take_uphill_step = step
    h.subspace_minimisation = sub
    h.test_convergence = tc
    h.find_pushoff = fp
    h.steepest_descent_paths = sdp
    n_log = len(pot.log)
    ret, err = call(h.run, c)
    if err:
        return None, f"raise:{err}", st
    # the final `potential.function(coords.position)` is the last logged `f` outside find_pushoff
    fcalls = [a for kind, a in pot.log[n_log:] if kind == "f"]
    lines = []
    for o in st["obs"]:
        lines.append("it.begin")
        lines.append("it.eig1 " + eig_str(o["eig1"]))
        if "stepped" in o:
            lines.append("it.stepped " + V(o["stepped"]))
        if "sub" in o:
            lines.append("it.sub " + V(o["sub"]))
        if "grad" in o:
            lines.append("it.grad " + V(o["grad"]))
        if "eig2" in o:
            lines.append("it.eig2 " + eig_str(o["eig2"]))
        if "push" in o:
            e_ts, pp, pm = o["push"]
            lines.append(f"it.push {frac(e_ts)} {probes_str(pp)} {probes_str(pm)}")
        for key, op in (("descP", "it.descp"), ("descM", "it.descm")):
            if key + "_seen" in o:
                lines.append(op + (" none" if o[key] is None else f" {V(o[key][0])} {frac(o[key][1])}"))
        if ret[0] is not None:
            st["calls"].append("f") if o is st["obs"][-1] else None
            if o is st["obs"][-1]:
                lines.append("it.ets " + frac(float(ret[1])))
        lines.append("it.end")
    lines.append(f"run {script['ts_steps']} {V([0.0] * d)} {V([1.0] * d)} {frac(TOL)} {frac(SDTOL)} {frac(h.pushoff)} {V(script['x0'])}")
    impl = f"calls={','.join(st['calls']) if st['calls'] else '-'} out={out_str(ret, h.failure)}"
    # oracle-argument checks: the energy of the last line is evaluated at the returned point, the
    # descents start at the push-off points, the convergence test looked at the returned point
    if ret[0] is not None:
        ok = len(fcalls) >= 1 and np.array_equal(fcalls[-1], ret[0]) and float(ret[1]) == float(pot.lin @ ret[0]) \
            and np.array_equal(st["obs"][-1]["grad_at"], ret[0])
        impl += f" oracle-args={'ok' if ok else 'MISMATCH'}"
        impl += f" starts={V(st['sd_starts'][-2])}|{V(st['sd_starts'][-1])}"
    return lines, impl, st


def cmp_run(impl: str, got: str):
    """model answer `calls=… out=… wit=…` against the implementation's canonical answer"""
    if impl.startswith("raise") or got in ("guard", "bad-op"):
        return impl == got
    head, _, wit = got.partition(" wit=")
    exp = head
    if " out=success" in head:
        w = dict(t.split("=", 1) for t in wit.split(" ") if "=" in t)
        exp += f" oracle-args=ok starts={w.get('pp')}|{w.get('pm')}"
    return impl == exp


def corr_scripted(ctx: Ctx) -> None:
    rng = ctx.rng
    b = Batch(ctx)
    n = ctx.scale(220, 1500)
    outcomes: dict = {}
    for i in range(n):
        d = rng.randrange(1, 5)
        script = gen_script(rng, d)
        lines, impl, st = run_scripted(script)
        if lines is None:
            ctx.diverge("scripted:run-raises", f"the real run raised {impl} on a scripted search", {"script": script})
            continue
        for ln in lines[:-1]:
            b.raw(ln)
        o = impl.split(" out=")[1]
        tag = o.split(" ")[0] + " " + (o.split(" ")[1] if o.startswith("failure") else o.split(" flag=")[1].split(" ")[0])
        outcomes[tag] = outcomes.get(tag, 0) + 1
        b.add(lines[-1], impl, "run", {"script": i, "d": d, "ts_steps": script["ts_steps"], "calls": impl.split(" ")[0]}, cmp_run)
    ctx.stats.notes["scripted_outcomes"] = outcomes
    b.run("scripted")


# ----------------------------------------------------------------------------- surfaces


def surfaces():
    _, _, Potential = imports()

    class Cos(Potential):
        """f(x) = sum_k a_k cos(w_k.x + p_k)"""
        def __init__(self, d, seed, K=6):
            r = np.random.default_rng(seed)
            self.atomistic = False
            self.a = r.uniform(0.5, 1.5, K)
            self.w = r.uniform(-2, 2, (K, d))
            self.p = r.uniform(0, 6.28, K)

        def function(self, x):
            return float(np.sum(self.a * np.cos(self.w @ x + self.p)))

        def gradient(self, x):
            return -(self.a * np.sin(self.w @ x + self.p)) @ self.w

        def hessian(self, x):
            return -(self.w.T * (self.a * np.cos(self.w @ x + self.p))) @ self.w

    class Sep(Potential):
        """f = -x0^2 + x1^2 + c.x[2:]: inside a box the saddle sits on the face / edge where the
        linear coordinates are pushed to their bound"""
        def __init__(self, c):
            self.c = np.array(c, dtype=float)
            self.atomistic = False

        def function(self, x):
            return float(-x[0] ** 2 + x[1] ** 2 + self.c @ x[2:])

        def gradient(self, x):
            return np.concatenate(([-2 * x[0], 2 * x[1]], self.c))

        def hessian(self, x):
            h = np.zeros((x.size, x.size))
            h[0, 0], h[1, 1] = -2.0, 2.0
            return h
    class Bowl(Potential):
        """f = |x|^2 / 2: positive curvature everywhere, so every uphill step is the fixed
        positive-eigenvalue step and no subspace minimisation follows it"""
        def __init__(self):
            self.atomistic = False

        def function(self, x):
            return float(0.5 * x @ x)

        def gradient(self, x):
            return np.array(x, dtype=float).copy()

        def hessian(self, x):
            return np.eye(x.size)
    return Cos, Sep, Bowl


def fdquad_surface(d: int, seed: int):
    """f = (x-c)^T A (x-c) / 2 with ONE negative eigenvalue and strong mixed derivatives, implementing `function` only:
    gradient and Hessian are the library's own finite differences (as for any user surface that codes no derivatives)"""
    _, _, Potential = imports()
    r = np.random.default_rng(seed)
    q, _ = np.linalg.qr(r.normal(size=(d, d)))
    ev = np.concatenate(([-r.uniform(8.0, 20.0)], r.uniform(10.0, 40.0, d - 1)))
    A = (q * ev) @ q.T
    A = (A + A.T) / 2
    c = r.uniform(-0.3, 0.3, d)

    class FDQuad(Potential):
        def __init__(self):
            self.atomistic = False

        def function(self, x):
            y = np.asarray(x, dtype=float) - c
            return float(0.5 * y @ A @ y)

        def gradient_exact(self, x):
            return A @ (np.asarray(x, dtype=float) - c)
    return FDQuad()


def dwell_surface():
    """f = (x0^2 - 1)^2 + sum_{i>=1} k_i (x_i - 1/2)^2 on [-2,2] x [0,1]^(d-1): the only index-one saddle is
    (0, 1/2, ..., 1/2).  Started ON a face of a harmonic coordinate (stationary within that face, downhill
    into the interior) the search has to leave the face, so a coordinate that was pinned becomes free in
    the course of one search."""
    _, _, Potential = imports()

    class Dwell(Potential):
        def __init__(self, d):
            self.atomistic = False
            self.k = np.array([1.0, 2.0, 1.5, 0.75, 1.25][:d - 1])

        def function(self, x):
            return float((x[0] ** 2 - 1.0) ** 2 + self.k @ (x[1:] - 0.5) ** 2)

        def gradient(self, x):
            return np.concatenate(([4.0 * x[0] * (x[0] ** 2 - 1.0)], 2.0 * self.k * (x[1:] - 0.5)))

        def hessian(self, x):
            return np.diag(np.concatenate(([12.0 * x[0] ** 2 - 4.0], 2.0 * self.k)))
    return Dwell


def narrow_top_surface(d: int, sign: float):
    """g(sign*x0) + sum of squares of the other coordinates, with g' = 100 (u + 1) u (u - 0.03) (u - 0.8) (u - 1.15),
    g(0) = 0: a maximum at u = 0 (the transition state), a deep minimum at u = -1, and on the other side only a very
    narrow dip (back above g(0) from u = 0.045 on), a barrier at 0.8 and a HIGH minimum at 1.15 with g > g(0).  Every
    energy-lowering push-off probe on that side fails, the search falls back to its blind displacement and lands in
    the basin of the high minimum — legitimate only because it flags it."""
    from numpy.polynomial import polynomial as P
    _, _, Potential = imports()
    dg = np.array([100.0])
    for root in (-1.0, 0.0, 0.03, 0.8, 1.15):
        dg = P.polymul(dg, np.array([-root, 1.0]))
    gg = P.polyint(dg)

    class NarrowTop(Potential):
        def __init__(self):
            self.atomistic = False

        def function(self, x):
            x = np.asarray(x, dtype=float)
            return float(P.polyval(sign * x[0], gg) + np.sum(x[1:] ** 2))

        def gradient(self, x):
            x = np.asarray(x, dtype=float)
            g = 2.0 * x
            g[0] = sign * P.polyval(sign * x[0], dg)
            return g

        def function_gradient(self, x):
            return self.function(x), self.gradient(x)
    return NarrowTop()


def ridge_surface(bounds):
    """-cos along the first coordinate (a saddle at 35 % of its range, one minimum at 85 %, the other BEYOND the lower
    wall) plus squares of the other coordinates: the descent on the lower side runs into the wall and ends pinned on it"""
    _, _, Potential = imports()
    lo0, up0 = bounds[0]
    m = lo0 + 0.35 * (up0 - lo0)
    a = math.pi / (0.5 * (up0 - lo0))

    class Ridge(Potential):
        def __init__(self):
            self.atomistic = False

        def function(self, x):
            x = np.asarray(x, dtype=float)
            return float(math.cos(a * (x[0] - m)) + np.sum(x[1:] ** 2))

        def gradient(self, x):
            x = np.asarray(x, dtype=float)
            g = 2.0 * x
            g[0] = -a * math.sin(a * (x[0] - m))
            return g

        def function_gradient(self, x):
            return self.function(x), self.gradient(x)
    return Ridge()


def make_surface(spec: dict):
    if spec["kind"] == "ridge":
        b = [(float(lo), float(up)) for lo, up in spec["bounds"]]
        return ridge_surface(b), b
    if spec["kind"] == "narrowtop":
        return narrow_top_surface(spec["d"], spec["sign"]), [(-2.0, 2.0)] * spec["d"]
    if spec["kind"] == "dwell":
        return dwell_surface()(spec["d"]), [(-2.0, 2.0)] + [(0.0, 1.0)] * (spec["d"] - 1)
    Cos, Sep, Bowl = surfaces()
    if spec["kind"] == "fdquad":
        first = tuple(spec["first_box"]) if spec.get("first_box") else (-1.0, 1.0)
        return fdquad_surface(spec["d"], spec["seed"]), [(float(first[0]), float(first[1]))] + [(-1.0, 1.0)] * (spec["d"] - 1)
    if spec["kind"] == "bowl":
        return Bowl(), [(-1.0, 1.0)] * spec["d"]
    if spec["kind"] == "cos":
        return Cos(spec["d"], spec["seed"]), [(-2.0, 2.0)] * spec["d"]
    if spec["kind"] == "camel":
        from topsearch.potentials.test_functions import Camelback
        return Camelback(), [(-3.0, 3.0), (-2.0, 2.0)]
    if spec["kind"] == "sep":
        d = 2 + len(spec["c"])
        if "bounds" in spec:
            return Sep(spec["c"]), [(float(a), float(b)) for a, b in spec["bounds"]]
        return Sep(spec["c"]), [(-1.0, 1.0)] * d
    raise ValueError(spec)


def surface_specs(ctx: Ctx, n_cos: int, dims=(2, 3, 4)) -> list[dict]:
    rng = ctx.rng
    # "bowl" with a loose tolerance converges right after its first (positive-curvature) step:
    # started next to a face, that step is the one `move_to_bounds` has to bring back
    specs = [{"kind": "bowl", "d": 2, "tol": 8.0, "near_face": True}, {"kind": "bowl", "d": 3, "tol": 8.0, "near_face": True},
             {"kind": "camel"}, {"kind": "sep", "c": [0.5]}, {"kind": "sep", "c": [0.5, -0.25]},
             {"kind": "sep", "c": [1.0, 1.0, -1.0]}, {"kind": "sep", "c": [-0.5, 0.25, 0.125, -1.0]}]
    for _ in range(n_cos):
        specs.append({"kind": "cos", "d": rng.choice(dims), "seed": rng.randrange(10 ** 6)})
    return specs


def start_point(rng, bounds, on_bound_prob=0.15, near_face=False):
    if near_face:
        return [rng.choice((lo + (up - lo) * 0.01, up - (up - lo) * 0.01, lo, up)) if rng.random() < 0.7
                else lo + (up - lo) * rng.random() for lo, up in bounds]
    x = []
    for lo, up in bounds:
        r = rng.random()
        if r < on_bound_prob / 2:
            x.append(lo)
        elif r < on_bound_prob:
            x.append(up)
        else:
            x.append(lo + (up - lo) * (0.05 + 0.9 * rng.random()))
    return x


# ----------------------------------------------------------------------------- (d) trace-driven


class Tracer:
    """wraps the methods of a real HybridEigenvectorFollowing from outside and logs every call"""

    def __init__(self, h, pot, coords, ctx: Ctx | None):
        self.h, self.pot, self.coords, self.ctx = h, pot, coords, ctx
        self.calls: list[str] = []
        self.obs: list[dict] = []
        self.gse_log: list[dict] = []
        self.steps_log: list[dict] = []
        self.after_conv = False
        self.in_push = False
        self.fcalls: list = []
        self.contracts: list[tuple[str, bool]] = []
        h_ = h
        real = {n: getattr(h_, n) for n in ("get_smallest_eigenvector", "take_uphill_step", "subspace_minimisation",
                                           "test_convergence", "find_pushoff", "steepest_descent_paths",
                                           "check_valid_eigenvector", "check_eigenvector_direction",
                                           "project_onto_bounds", "do_pushoff", "get_local_bounds")}
        pf, pfg = pot.function, pot.function_gradient
        T = self

        def function(x):
            r = pf(x)
            if T.in_push:
                T.push_f.append((np.array(x).copy(), r))
            else:
                T.fcalls.append((np.array(x).copy(), r))
            return r

        def function_gradient(x):
            e, g = pfg(x)
            if T.in_push:
                T.push_fg.append((np.array(x).copy(), e, np.array(g).copy()))
            return e, g
        pot.function = function
        pot.function_gradient = function_gradient

        def gse(iv, coords, lo, up):
            T.calls.append("e")
            rec = {"lo": np.array(lo).copy(), "up": np.array(up).copy(), "x": coords.position.copy(),
                   "iv": np.array(iv).copy()}
            T.cur_gse = rec
            v, ev, nit = real["get_smallest_eigenvector"](iv, coords, lo, up)
            rec["ret"] = (None if v is None else np.array(v).copy(), ev, nit)
            rec["failure"] = h_.failure
            T.gse_log.append(rec)
            if v is None:
                e = ("refused", str(h_.failure))
            elif np.any(np.isnan(v)):
                e = ("nan", int(nit))
            else:
                e = ("ok", np.array(v).copy(), float(ev), int(nit))
            if T.after_conv:
                T.after_conv = False
                T.obs[-1]["eig2"] = e
            else:
                T.obs.append({"eig1": e})
            return v, ev, nit

        def cve(v, ev, coords):
            T.cur_gse["valid_in"] = (np.array(v).copy(), float(ev))
            r = real["check_valid_eigenvector"](v, ev, coords)
            T.cur_gse["valid_out"] = (bool(r), h_.failure)
            return r

        def ced(v, position):
            T.cur_gse["dir_in"] = np.array(v).copy()
            T.cur_gse["dir_g"] = np.array(pot.gradient(np.array(position).copy())).copy()
            r = real["check_eigenvector_direction"](v, position)
            T.cur_gse["dir_out"] = np.array(r).copy()
            return r

        def pob(v, lo, up):
            T.cur_gse["proj_in"] = np.array(v).copy()
            r = real["project_onto_bounds"](v, lo, up)
            T.cur_gse["proj_w"] = np.array(v).copy()      # zeroed in place by the code
            T.cur_gse["proj_out"] = np.array(r).copy()
            return r

        def step(coords, v, ev):
            T.calls.append("u")
            x0 = coords.position.copy()
            g = np.array(pot.gradient(x0.copy())).copy()
            real["take_uphill_step"](coords, v, ev)
            T.obs[-1]["stepped"] = coords.position.copy()
            T.steps_log.append({"x": x0, "v": np.array(v).copy(), "ev": float(ev), "g": g, "out": coords.position.copy()})

        def sub(coords, v):
            T.calls.append("m")
            lb = real["get_local_bounds"](coords)
            x0 = coords.position.copy()
            r = real["subspace_minimisation"](coords, v)
            T.obs[-1]["sub"] = np.array(r[0]).copy()
            T.contracts.append(("LBFGSB in-bounds (subspace)", all(a <= x <= bb for x, (a, bb) in zip(r[0], lb))))
            T.local_log.append((x0, lb))
            return r

        def tc(position, lo, up):
            g = np.array(pot.gradient(np.array(position).copy())).copy()
            T.obs[-1]["grad"] = g
            T.obs[-1]["grad_at"] = np.array(position).copy()
            T.obs[-1]["masks"] = (np.array(lo).copy(), np.array(up).copy())
            r = real["test_convergence"](position, lo, up)
            T.calls.append("c1" if r else "c0")
            T.after_conv = bool(r)
            return r

        def dp(ts_position, v, inc, it):
            T.push_calls.append(int(it))
            return real["do_pushoff"](ts_position, v, inc, it)

        def fp(ts, v):
            T.calls.append("p")
            T.in_push = True
            T.push_f, T.push_fg, T.push_calls = [], [], []
            try:
                r = real["find_pushoff"](ts, v)
            finally:
                T.in_push = False
            # split the probes at the second call with iteration 0 (start of the backwards loop)
            zeros = [i for i, it in enumerate(T.push_calls) if it == 0]
            probes = [it for it in T.push_calls if it < 20]
            n_plus = len([it for it in T.push_calls[:zeros[1]] if it < 20]) if len(zeros) > 1 else len(probes)
            T.obs[-1]["push"] = (T.push_f[0][1], [(e, g) for _, e, g in T.push_fg[:n_plus]],
                                 [(e, g) for _, e, g in T.push_fg[n_plus:]])
            T.obs[-1]["push_at"] = T.push_f[0][0]
            T.obs[-1]["push_ret"] = (np.array(r[0]).copy(), np.array(r[1]).copy())
            return r

        def sdp(coords):
            T.calls.append("d")
            x0 = coords.position.copy()
            r = real["steepest_descent_paths"](coords)
            key = "descP" if "descP_seen" not in T.obs[-1] else "descM"
            T.obs[-1][key] = None if r[0] is None else (np.array(r[0]).copy(), float(r[1]))
            T.obs[-1][key + "_seen"] = True
            T.obs[-1][key + "_start"] = x0
            if r[0] is not None:
                lo_, up_ = coords.lower_bounds, coords.upper_bounds
                T.contracts.append(("LBFGSB in-box (descent)", bool(np.all(r[0] >= lo_) and np.all(r[0] <= up_))))
                T.contracts.append(("LBFGSB f-value (descent)", float(r[1]) == float(pf(np.array(r[0]).copy()))))
                T.contracts.append(("LBFGSB monotone (descent)", float(r[1]) <= float(pf(x0.copy()))))
            return r
        self.local_log: list = []
        h.get_smallest_eigenvector = gse
        h.check_valid_eigenvector = cve
        h.check_eigenvector_direction = ced
        h.project_onto_bounds = pob
        h.take_uphill_step = step
        h.subspace_minimisation = sub
        h.test_convergence = tc
        h.do_pushoff = dp
        h.find_pushoff = fp
        h.steepest_descent_paths = sdp


def traced_search(spec: dict, x0, np_seed: int, ts_steps: int = 40):
    StandardCoordinates, HEF, _ = imports()
    pot, bounds = make_surface(spec)
    d = len(bounds)
    c = StandardCoordinates(ndim=d, bounds=bounds)
    c.position = np.array(x0, dtype=float)
    h = HEF(pot, spec.get("tol", 1e-4), ts_steps, 0.8)
    t = Tracer(h, pot, c, None)
    np.random.seed(np_seed)
    with warnings.catch_warnings():
        warnings.simplefilter("ignore")
        ret = h.run(c)
    return h, pot, c, t, ret


def trace_lines(t: Tracer, h, c, ret, ts_steps: int) -> tuple[list[str], str]:
    lines = []
    for o in t.obs:
        lines.append("it.begin")
        e = o["eig1"]
        lines.append("it.eig1 " + eig_str(e))
        if "stepped" in o:
            lines.append("it.stepped " + V(o["stepped"]))
        if "sub" in o:
            lines.append("it.sub " + V(o["sub"]))
        if "grad" in o:
            lines.append("it.grad " + V(o["grad"]))
        if "eig2" in o:
            lines.append("it.eig2 " + eig_str(o["eig2"]))
        if "push" in o:
            e_ts, pp, pm = o["push"]
            lines.append(f"it.push {frac(float(e_ts))} {probes_str(pp)} {probes_str(pm)}")
        for key, op in (("descP", "it.descp"), ("descM", "it.descm")):
            if key + "_seen" in o:
                lines.append(op + (" none" if o[key] is None else f" {V(o[key][0])} {frac(o[key][1])}"))
        if o is t.obs[-1] and ret[0] is not None:
            lines.append("it.ets " + frac(float(ret[1])))
        lines.append("it.end")
    calls = list(t.calls) + (["f"] if ret[0] is not None else [])
    lines.append(f"run {ts_steps} {V(c.lower_bounds)} {V(c.upper_bounds)} {frac(h.ts_conv_crit)} "
                 f"{frac(h.steepest_descent_conv_crit)} {frac(h.pushoff)} {V(t.gse_log[0]['x'] if t.gse_log else c.position)}")
    impl = f"calls={','.join(calls) if calls else '-'} out={out_str(ret, h.failure)}"
    return lines, impl


def corr_traced(ctx: Ctx) -> None:
    rng = ctx.rng
    b = Batch(ctx)
    specs = surface_specs(ctx, ctx.scale(5, 30), dims=(2, 3, 4) if not ctx.thorough else (2, 3, 4, 5, 6))
    outcomes: dict = {}
    ntr = 0
    for spec in specs:
        _, bounds = make_surface(spec)
        for _ in range(ctx.scale(3, 8)):
            x0 = start_point(rng, bounds, near_face=spec.get("near_face", False))
            seed = rng.randrange(2 ** 31)
            ts_steps = rng.choice((60, 60, 6))
            h, pot, c, t, ret = traced_search(spec, x0, seed, ts_steps)
            ntr += 1
            for name, ok in t.contracts:
                ctx.contract(name, ok)
            lines, impl = trace_lines(t, h, c, ret, ts_steps)
            key = impl.split(" out=")[1].split(" ")[0] + ":" + str(h.failure)
            outcomes[key] = outcomes.get(key, 0) + 1
            for ln in lines[:-1]:
                b.raw(ln)
            last = t.obs[-1] if t.obs else {}

            def cmp(impl, got, last=last, ret=ret, t=t):
                if got in ("guard", "bad-op"):
                    return False
                head, _, wit = got.partition(" wit=")
                if " out=abort nan-direction" in head:
                    # DESIGN §6 row 13 reached inside a real search: the skeleton stops here (the
                    # code goes on with a NaN vector and fails with a reason); a C15 matter,
                    # recorded, not a C04 divergence
                    ctx.stats.notes["row13_nan_direction_in_run"] = ctx.stats.notes.get("row13_nan_direction_in_run", 0) + 1
                    return True
                if head != impl:
                    return False
                if ret[0] is None:
                    return True
                w = dict(tok.split("=", 1) for tok in wit.split(" ") if "=" in tok)
                lo, up = last["masks"]
                okm = w["lower"] == B(lo) and w["upper"] == B(up)
                # push-off points: model exact, implementation binary64
                okp = vec_close(last["descP_start"], w["pp"], 1e-9, 1e-12) and vec_close(last["descM_start"], w["pm"], 1e-9, 1e-12)
                oka = np.array_equal(t.fcalls[-1][0], ret[0]) and np.array_equal(last["grad_at"], ret[0]) \
                    and np.array_equal(last["push_at"], ret[0])
                return okm and okp and oka
            b.add(lines[-1], impl, "run", {"surface": spec, "x0": V(x0), "seed": seed, "ts_steps": ts_steps}, cmp)
            # components of every get_smallest_eigenvector / take_uphill_step call of the trace
            add_component_lines(b, t, h, c)
    ctx.stats.traces += ntr
    ctx.stats.notes["traced_outcomes"] = outcomes
    b.run("traced")


def add_component_lines(b: Batch, t: Tracer, h, c, limit: int = 12) -> None:
    eps = "1/1000000000"
    for rec in t.gse_log[:limit]:
        if "valid_in" not in rec:
            continue
        v, ev = rec["valid_in"]
        nan = bool(np.any(np.isnan(v)))
        if nan or math.isnan(ev):
            continue
        nrm = 0.0 if not np.any(v) else 1.0
        g = rec.get("dir_g", np.zeros_like(v))
        if "proj_w" in rec:
            pnorm = float(np.linalg.norm(rec["proj_w"]))
        else:
            pnorm = 1.0
        rv, rev, nit = rec["ret"]
        ev_proj = float(rev) if rv is not None else 0.0
        ov = float(np.dot(g, v)) if "dir_in" in rec else 1.0
        if rv is None:
            impl = ("refused", rec["failure"])
        elif np.any(np.isnan(rv)):
            impl = ("nan", int(nit))
        else:
            impl = ("ok", rv, float(rev), int(nit))
        nit_s = int(nit) if nit is not None else 0

        def cmp(impl, got, ov=ov, g=g, v=v):
            if got.startswith("raise") or got in ("guard", "bad-op"):
                return False
            toks = got.split(" ")[1:]
            if impl[0] == "refused":
                return toks == ["refused", str(impl[1])]
            # the sign of g.v decides the flip: a rounding-level overlap is a near tie
            if abs(ov) <= 1e-12 * max(1.0, float(np.linalg.norm(g)) * float(np.linalg.norm(v))):
                return None
            if impl[0] == "nan":
                return toks[0] == "nan"
            return toks[0] == "ok" and vec_close(impl[1], toks[1], 1e-9, 1e-12) and \
                close(impl[2], Fraction(toks[2])) and int(toks[3]) == impl[3]
        b.add(f"gse {eps} {SMALL} {V(v)} {frac(ev)} {nit_s} {frac(nrm)} 0 {B(rec['lo'])} {B(rec['up'])} {V(g)} "
              f"{frac(pnorm)} {frac(ev_proj)}", impl, "get_smallest_eigenvector",
              {"d": len(v), "pinned": int(np.sum(rec["lo"]) + np.sum(rec["up"])), "projected": "proj_w" in rec}, cmp)
    for rec in t.steps_log[:limit]:
        ev = rec["ev"]
        if math.isnan(ev) or np.any(np.isnan(rec["v"])):
            continue
        ov = float(np.dot(rec["g"], rec["v"]))
        s = float(np.sqrt(1.0 + 4.0 * (ov / ev) ** 2)) if ev < 0 else 1.0
        b.add(f"ustep {eps} {frac(h.positive_eigenvalue_step)} {frac(h.max_uphill_step_size)} "
              f"{frac(h.min_uphill_step_size)} {V(rec['x'])} {V(rec['v'])} {V(rec['g'])} {V(c.lower_bounds)} "
              f"{V(c.upper_bounds)} {frac(ev)} {frac(s)}", rec["out"], "take_uphill_step",
              {"d": len(rec["x"]), "negative": ev < 0}, lambda impl, got: vec_close(impl, got, 1e-9, 1e-12))
    for x0, lb in t.local_log[:limit]:
        def cmp(impl, got):
            a, bb = got.split(" ")
            return vec_close([p[0] for p in impl], a) and vec_close([p[1] for p in impl], bb)
        b.add(f"lbounds {V(x0)} {V(c.lower_bounds)} {V(c.upper_bounds)}", lb, "get_local_bounds", {"d": len(x0)}, cmp)


def correspond(ctx: Ctx) -> None:
    np.random.seed(ctx.rng.randrange(2 ** 31))
    corr_masks(ctx)
    corr_steps(ctx)
    corr_pushoff(ctx)
    corr_scripted(ctx)
    corr_traced(ctx)


# ----------------------------------------------------------------------------- predicates


def pred_conv(g, lo, up, tol=TOL):
    """converse clause + success clause for the test itself: converged iff every coordinate that
    is not pinned has |gradient| < tolerance"""
    _, HEF, _ = imports()
    d = len(g)
    h = HEF(make_stub(g), tol, 10, 1.0)
    r, err = call(h.test_convergence, np.zeros(d), np.array(lo, dtype=bool), np.array(up, dtype=bool))
    want = all(abs(g[i]) < tol for i in range(d) if not (lo[i] or up[i]))
    if err:
        return ("test_convergence:raises", f"test_convergence raised {err} for gradient {g}, lower {lo}, upper {up}")
    # the same pattern written as 0/1 integers (as a caller who builds the flags by hand does): the same answer
    r_int, err_int = call(h.test_convergence, np.zeros(d), np.array([int(bool(v)) for v in lo]), np.array([int(bool(v)) for v in up]))
    if err_int or bool(r_int) != bool(r):
        return ("test_convergence:integer-flags-differ",
                f"gradient {g}, lower {lo}, upper {up}: with the flags as booleans the answer is {bool(r)}, with the same "
                f"flags as 0/1 integers it is {('raises ' + str(err_int)) if err_int else bool(r_int)}")
    if want and not r:
        return ("test_convergence:free-below-tol-not-converged",
                f"gradient {g} is below {tol} in every coordinate not pinned (lower {lo}, upper {up}) but the "
                f"point is not recognised as converged")
    if r and not want:
        return ("test_convergence:free-above-tol-converged",
                f"gradient {g} exceeds {tol} in a coordinate that is not pinned (lower {lo}, upper {up}) but "
                f"the point is reported converged")
    return None


def pred_valid(pos, lo=0.0, up=1.0):
    """a point pinned in every coordinate is refused (with a reason)"""
    _, HEF, _ = imports()
    d = len(pos)
    c = make_coords(d, lo, up, pos)
    h = HEF(make_stub([0.0] * d), TOL, 10, 1.0)
    v = np.zeros(d)
    v[0] = 1.0
    r, err = call(h.check_valid_eigenvector, v, -1.0, c)
    allp = all(x <= lo or x >= up for x in pos)
    if err:
        return ("check_valid_eigenvector:raises", f"check_valid_eigenvector raised {err} at {pos}")
    if allp and r:
        return ("check_valid_eigenvector:all-pinned-accepted",
                f"the point {pos} is pinned in every coordinate of [{lo},{up}]^{d} but is accepted")
    if not r and h.failure is None:
        return ("check_valid_eigenvector:refusal-without-reason", f"refused at {pos} with failure None")
    return None


def pred_valid_box(pos, bounds):
    """the same clause in a box given coordinate by coordinate, which may FREEZE a coordinate (lower == upper, a
    box the bounded minimiser accepts): a frozen coordinate sits on both of its bounds, so it is pinned; the point
    is refused exactly when no coordinate is free, and 'bounds' is the stated reason only then"""
    StandardCoordinates, HEF, _ = imports()
    d = len(pos)
    c = StandardCoordinates(ndim=d, bounds=[(float(a), float(b)) for a, b in bounds])
    c.position = np.array(pos, dtype=float)
    h = HEF(make_stub([0.0] * d), TOL, 10, 1.0)
    v = np.zeros(d)
    v[0] = 1.0
    r, err = call(h.check_valid_eigenvector, v, -1.0, c)
    allp = all(x <= a or x >= b for x, (a, b) in zip(pos, bounds))
    if err:
        return ("check_valid_eigenvector:raises", f"check_valid_eigenvector raised {err} at {pos} in the box {bounds}")
    if allp and r:
        return ("check_valid_eigenvector:all-pinned-accepted",
                f"the point {pos} is pinned in every coordinate of the box {bounds} but is accepted")
    if not r and h.failure is None:
        return ("check_valid_eigenvector:refusal-without-reason", f"refused at {pos} in {bounds} with failure None")
    if not allp and not r and h.failure == "bounds":
        return ("check_valid_eigenvector:free-coordinate-refused-as-pinned",
                f"the point {pos} has a free coordinate in the box {bounds} (negative eigenvalue, unit vector) but is "
                f"refused with the reason 'bounds'")
    return None


def pred_search(spec: dict, x0, np_seed: int, ts_steps: int = 40, reuse: dict | None = None):
    """the success clause / failure clause of the statement on one real search; with `reuse` the SAME
    search object runs one search after the other (as NetworkSampling uses it): nothing of an earlier
    search — failure reason, direction bounds — may leak into the next"""
    StandardCoordinates, HEF, _ = imports()
    pot, bounds = make_surface(spec)
    d = len(bounds)
    c = StandardCoordinates(ndim=d, bounds=bounds)
    c.position = np.array(x0, dtype=float)
    if reuse is not None and reuse.get("h") is not None:
        h = reuse["h"]
        h.ts_steps = ts_steps
    else:
        h = HEF(pot, spec.get("tol", 1e-4), ts_steps, spec.get("pushoff", 0.8), **spec.get("hef", {}))
        if reuse is not None:
            reuse["h"] = h
    np.random.seed(np_seed)
    ret, err = call(h.run, c)
    if err:
        return ("run:raises", f"run raised {err}")
    x, e, xp, ep, xm, em, v = ret
    if x is None:
        if any(r is not None for r in ret):
            return ("run:failure-with-data", f"a failed search returned data: {ret}")
        if h.failure is None:
            return ("run:failure-without-reason", "a failed search left .failure = None")
        return None
    lo, up = c.lower_bounds, c.upper_bounds
    nums = np.concatenate([x, xp, xm, v, [e, ep, em]])
    if not np.all(np.isfinite(nums)):
        return ("run:nonfinite", f"a successful search returned a non-finite number: {ret}")
    if not (np.all(x >= lo) and np.all(x <= up)):
        return ("run:ts-out-of-box", f"transition state {x.tolist()} outside the box")
    if not (np.all(xp >= lo) and np.all(xp <= up) and np.all(xm >= lo) and np.all(xm <= up)):
        return ("run:minimum-out-of-box", f"a connected minimum lies outside the box: {xp.tolist()} {xm.tolist()}")
    # judged by the tolerance that was REQUESTED (not by what the object says it uses) and, for a surface that leaves the
    # gradient to the library's finite differences, by the exact gradient written with the surface (plus the round-off
    # of a central difference of step 1e-6: a quadratic has no truncation error)
    tol_req = float(spec.get("tol", 1e-4))
    if hasattr(pot, "gradient_exact"):
        g = pot.gradient_exact(x.copy())
        # round-off of (f(x+h) - f(x-h)) / 2h with h = 1e-6: each value carries ~ d^2 rounding errors of size eps * scale(f)
        fscale = max(1.0, abs(float(pot.function(x.copy()))), abs(float(pot.function(np.zeros_like(x)))))
        margin = 50.0 * len(x) * 2.3e-16 * fscale / 1e-6
    else:
        g, margin = pot.gradient(x.copy()), 0.0
    free = ~((x <= lo) | (x >= up))
    if np.any(np.abs(g[free]) >= tol_req + margin):
        return ("run:not-converged-free-coordinate",
                f"gradient {np.asarray(g).tolist()} at the reported transition state {x.tolist()} is not below the requested "
                f"tolerance {tol_req} in a coordinate that is not pinned (search options {spec.get('hef', {})})")
    if e != pot.function(x.copy()) or ep != pot.function(xp.copy()) or em != pot.function(xm.copy()):
        return ("run:energy-mismatch",
                f"returned energies ({e}, {ep}, {em}) differ from the surface at the returned points "
                f"({pot.function(x.copy())}, {pot.function(xp.copy())}, {pot.function(xm.copy())})")
    if h.failure != "pushoff" and (ep > e or em > e):
        return ("run:minimum-above-ts", f"a connected minimum ({ep}, {em}) is higher than the transition state ({e}) "
                f"and no push-off failure is flagged")
    if h.failure not in (None, "pushoff"):
        return ("run:success-with-failure-flag", f"success with .failure = {h.failure}")
    return None


def predicates(ctx: Ctx) -> None:
    rng = ctx.rng
    deep = 4 if getattr(ctx, "deep_search", False) else 1
    # corpus: the witnesses of DESIGN §6 row 4
    corpus = [
        ("conv", {"g": [0, 0, 5], "lo": [0, 0, 1], "up": [0, 0, 0]}),
        ("conv", {"g": [5, 0, 0], "lo": [0, 0, 1], "up": [0, 0, 0]}),
        ("conv", {"g": [0, 0, TOL], "lo": [0, 0, 0], "up": [0, 0, 0]}),
        ("conv", {"g": [5.0], "lo": [0], "up": [1]}),
        ("valid", {"pos": [0.0, 0.0, 0.0]}),
        ("valid", {"pos": [0.0, 1.0, 0.5]}),
        ("valid", {"pos": [1.0, 1.0]}),
        ("validbox", {"pos": [1.0, 0.5, 0.25], "bounds": [[0.0, 1.0], [0.5, 0.5], [0.25, 0.25]]}),
        ("validbox", {"pos": [0.5, 0.5, 0.0], "bounds": [[0.0, 1.0], [0.5, 0.5], [0.0, 1.0]]}),
        ("conv", {"g": [5, 0, 0], "lo": [1, 0, 1], "up": [1, 0, 0]}),
    ]
    for kind, data in corpus:
        r = pred_conv(data["g"], data["lo"], data["up"]) if kind == "conv" else \
            pred_valid_box(data["pos"], data["bounds"]) if kind == "validbox" else pred_valid(data["pos"])
        ctx.stats.case({"stream": "predicate-corpus", "kind": kind, **data}, True)
        if r:
            ctx.fail(r[0], r[1], {"kind": kind, **data})
    for d in range(1, 7):
        for pat in patterns(d, ctx, ctx.scale(40, 3 ** d) * deep):
            lo = [p == 1 for p in pat]
            up = [p == 2 for p in pat]
            for name, g in gradients(pat, rng, 1):
                r = pred_conv(g, lo, up)
                ctx.stats.case({"stream": "predicate-conv", "d": d, "pattern": "".join(map(str, pat)), "g": name}, True)
                if r:
                    ctx.fail(r[0], r[1], {"kind": "conv", "g": g, "lo": lo, "up": up})
            pos = [0.0 if p == 1 else 1.0 if p == 2 else 0.5 for p in pat]
            r = pred_valid(pos)
            ctx.stats.case({"stream": "predicate-valid", "d": d, "pattern": "".join(map(str, pat))}, True)
            if r:
                ctx.fail(r[0], r[1], {"kind": "valid", "pos": pos})
        # boxes that freeze coordinates (3 = lower == upper): such a coordinate is at BOTH bounds
        for _ in range(ctx.scale(12, 60) * deep):
            pat = [rng.randrange(4) for _k in range(d)]
            pat[rng.randrange(d)] = 3
            fz = [rng.choice([0.0, 0.25, 0.5, 1.0]) for _k in range(d)]
            bounds = [[fz[k], fz[k]] if p == 3 else [0.0, 1.0] for k, p in enumerate(pat)]
            pos = [fz[k] if p == 3 else 0.0 if p == 1 else 1.0 if p == 2 else rng.choice([0.5, 0.125]) for k, p in enumerate(pat)]
            r = pred_valid_box(pos, bounds)
            ctx.stats.case({"stream": "predicate-valid-frozen", "d": d, "pattern": "".join(map(str, pat))}, True)
            if r:
                ctx.fail(r[0], r[1], {"kind": "validbox", "pos": pos, "bounds": bounds})
            lo = [p in (1, 3) for p in pat]
            up = [p in (2, 3) for p in pat]
            for name, g in gradients([min(p, 1) for p in pat], rng, 1):
                r = pred_conv(g, lo, up)
                ctx.stats.case({"stream": "predicate-conv-frozen", "d": d, "pattern": "".join(map(str, pat)), "g": name}, True)
                if r:
                    ctx.fail(r[0], r[1], {"kind": "conv", "g": g, "lo": lo, "up": up})
    specs = surface_specs(ctx, ctx.scale(6, 40) * deep, dims=(2, 3, 4, 5, 6))
    outcomes: dict = {}
    for si, spec in enumerate(specs):
        _, bounds = make_surface(spec)
        reuse = {"h": None} if si % 2 == 1 else None          # every other surface: one search object throughout
        for k in range(ctx.scale(3, 8)):
            x0 = start_point(rng, bounds, near_face=spec.get("near_face", False),
                             **({"on_bound_prob": 0.6} if (reuse is not None and k % 2 == 0 and not spec.get("near_face")) else {}))
            seed = rng.randrange(2 ** 31)
            ts_steps = rng.choice((40, 40, 5, 1))
            r = pred_search(spec, x0, seed, ts_steps, reuse)
            ctx.stats.case({"stream": "predicate-search", "surface": spec, "x0": V(x0), "reused": reuse is not None}, True)
            outcomes["fail" if r else "ok"] = outcomes.get("fail" if r else "ok", 0) + 1
            if r:
                ctx.fail(r[0] + (":reused-search-object" if reuse is not None else ""), r[1] +
                         (" (search object reused from earlier searches)" if reuse is not None else ""),
                         {"kind": "search", "surface": spec, "x0": x0, "np_seed": seed, "ts_steps": ts_steps,
                          "reused": reuse is not None})
    # surfaces that code no derivatives (the library's finite differences feed the convergence test): quadratic saddles with
    # strong mixed derivatives, tight tolerance; and searches whose OTHER tolerances are looser than the transition-state one
    for k in range(ctx.scale(4, 16) * deep):
        d = rng.choice([2, 3, 4, 6])
        spec = {"kind": "fdquad", "d": d, "seed": rng.randrange(10 ** 6), "tol": 1e-5, "pushoff": 0.2,
                "hef": {"max_uphill_step_size": 0.2, "positive_eigenvalue_step": 0.05}}
        x0 = [rng.uniform(-0.5, 0.5) for _ in range(d)]
        if k % 2 == 1:
            # the stationary point of the surface lies beyond the first wall, so the saddle sits ON that wall — a wall whose
            # value (0.3, 3, -3, 1.5: not a power of two) does not survive `x + h - 2h + h` in floating point: the inherited
            # finite differences must not move the point they are asked about
            lo = rng.choice([0.3, 0.35, 0.7])
            spec["first_box"] = [lo, rng.choice([1.5, 3.0, 10.0])] if rng.random() < 0.5 else [-rng.choice([1.5, 3.0, 10.0]), -lo]
            x0[0] = spec["first_box"][0] + (spec["first_box"][1] - spec["first_box"][0]) * rng.uniform(0.02, 0.3) \
                if spec["first_box"][0] > 0 else spec["first_box"][1] - (spec["first_box"][1] - spec["first_box"][0]) * rng.uniform(0.02, 0.3)
        seed = rng.randrange(2 ** 31)
        r = pred_search(spec, x0, seed, 80)
        ctx.stats.case({"stream": "predicate-search-finite-difference-surface", "d": d, "x0": V(x0),
                        "first_box": spec.get("first_box")}, True)
        outcomes["fd:" + ("fail" if r else "ok")] = outcomes.get("fd:" + ("fail" if r else "ok"), 0) + 1
        if r:
            ctx.fail(r[0] + ":finite-difference-surface", r[1], {"kind": "search", "surface": spec, "x0": x0, "np_seed": seed,
                                                               "ts_steps": 80, "reused": False})
            break
    for k in range(ctx.scale(4, 16) * deep):
        base = rng.choice([{"kind": "camel"}, {"kind": "cos", "d": rng.choice([2, 3]), "seed": rng.randrange(10 ** 6)}])
        spec = dict(base, tol=1e-5, hef={"steepest_descent_conv_crit": rng.choice([1e-4, 1e-3, 1e-2]),
                                         "eigenvalue_conv_crit": rng.choice([1e-5, 1e-6])})
        _, bounds = make_surface(spec)
        x0 = start_point(rng, bounds)
        seed = rng.randrange(2 ** 31)
        r = pred_search(spec, x0, seed, 60)
        ctx.stats.case({"stream": "predicate-search-loose-descent-tolerance", "surface": spec, "x0": V(x0)}, True)
        if r:
            ctx.fail(r[0] + ":other-tolerances-looser", r[1], {"kind": "search", "surface": spec, "x0": x0, "np_seed": seed,
                                                             "ts_steps": 60, "reused": False})
            break
    # one-sided push-off failure: the success is legitimate only with the flag (both orientations, 1-D and 2-D)
    for d in (1, 2):
        for sign in (1.0, -1.0):
            spec = {"kind": "narrowtop", "d": d, "sign": sign, "tol": 1e-5}
            for x0 in ([-0.2 * sign] + [0.1] * (d - 1), [0.01 * sign] + [0.05] * (d - 1)):
                seed = rng.randrange(2 ** 31)
                r = pred_search(spec, x0, seed, 60)
                ctx.stats.case({"stream": "predicate-search-one-sided-pushoff", "surface": spec, "x0": V(x0)}, True)
                if r:
                    ctx.fail(r[0], r[1], {"kind": "search", "surface": spec, "x0": x0, "np_seed": seed, "ts_steps": 60,
                                          "reused": False})
    # a wall that is neither zero nor large compared with the local step (0.003 in a box of width 2): a descent that runs
    # into it must end ON it, not an ulp beyond (containment is judged exactly)
    for lo0, up0 in ((0.003, 2.0), (0.001, 1000.0), (0.0005, 1.0), (0.1, 50.0), (0.013, 4.0)):
        for d in (1, 2, 3):
            w = up0 - lo0
            spec = {"kind": "ridge", "bounds": [[lo0, up0]] + [[-1.0, 1.0]] * (d - 1), "tol": 1e-5 * max(1.0, 1.0 / w),
                    "pushoff": 0.05 * w, "hef": {"max_uphill_step_size": 0.1 * w, "positive_eigenvalue_step": 0.02 * w}}
            x0 = [lo0 + (0.35 + rng.uniform(0.01, 0.05)) * w] + [rng.uniform(-0.2, 0.2) for _ in range(d - 1)]
            seed = rng.randrange(2 ** 31)
            r = pred_search(spec, x0, seed, 80)
            ctx.stats.case({"stream": "predicate-search-small-wall", "surface": spec, "x0": V(x0)}, True)
            if r:
                ctx.fail(r[0], r[1], {"kind": "search", "surface": spec, "x0": x0, "np_seed": seed, "ts_steps": 80,
                                      "reused": False})
    # searches started on a face that has to be left (the set of pinned coordinates changes during the search)
    for d in (3, 3, 4):
        spec = {"kind": "dwell", "d": d}
        for k in range(ctx.scale(8, 24)):
            x0 = [rng.choice((0.0, 0.0, 1e-3, -0.05))] + [rng.choice((0.0, 1.0, 0.5, 1.0)) for _ in range(d - 1)]
            if all(t == 0.5 for t in x0[1:]):
                x0[-1] = 1.0
            seed = rng.randrange(2 ** 31)
            r = pred_search(spec, x0, seed, 40)
            ctx.stats.case({"stream": "predicate-search-face-start", "surface": spec, "x0": V(x0)}, True)
            outcomes["fail" if r else "ok"] = outcomes.get("fail" if r else "ok", 0) + 1
            if r:
                ctx.fail(r[0], r[1] + " (search started on a face it has to leave)",
                         {"kind": "search", "surface": spec, "x0": x0, "np_seed": seed, "ts_steps": 40})
    ctx.stats.notes["predicate_searches"] = outcomes


def replay(ctx: Ctx, data: dict) -> bool:
    kind = data.get("kind")
    if kind == "conv":
        r = pred_conv(data["g"], data["lo"], data["up"])
    elif kind == "valid":
        r = pred_valid(data["pos"])
    elif kind == "validbox":
        r = pred_valid_box(data["pos"], data["bounds"])
    elif kind == "search":
        r = pred_search(data["surface"], data["x0"], data["np_seed"], data.get("ts_steps", 40))
    else:
        print("  replay file names a broken obligation / divergence, not a failing input")
        return True
    if r:
        print(f"  {r[0]}: {r[1]}")
    return r is None
