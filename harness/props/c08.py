"""C08 — basin-hopping archives every converged minimum and nothing else.

Tie #1: translate.bh (shared with C07) reads the Metropolis kernel — comparison operators and the
argument of `np.exp` —, the failure test of the loop and the storing test of
`prepare_initial_coordinates` into Gen/BasinHopping.lean; the theorems of Props/C08.lean about the
acceptance rule and probability are stated directly about the generated kernel.
Tie #2: the scripted and trace-driven runs of props/c07.py (every outcome pattern of short runs,
EVERY subset of failing steps, failures injected into real runs; network compared after every
step and at the end, contents and order), plus `BasinHopping.metropolis` itself on a grid of
(energy1, energy2, temperature, draw) with `np.random.random` scripted — including draws exactly
equal to the Boltzmann factor and its floating-point neighbours (deterministic, no statistics).
"""
from __future__ import annotations

import itertools
import math

import numpy as np

from common import Ctx, frac, run_driver
from props import c07 as bh
from translate import bh as bh_tr
from translate import bonds as bonds_tr

PROP = "C08"
LEAN_MODULE = "TopSearch.Props.C08Bonds"
LEAN_FILES = ["TopSearch.Props.C08", "TopSearch.Props.C08Bonds", "TopSearch.Lemmas.BasinHopping", "TopSearch.Model.BasinHopping",
              "TopSearch.Model.Bonds"]
EXTRA_TARGETS = ["TopSearch.Gen.BasinHopping", "TopSearch.Drv.Util"]
REQUIRED = [
    "TopSearch.Props.C08.C08_bridge_fail_tests",
    "TopSearch.Props.C08.C08_bridge_metropolis",
    "TopSearch.Props.C08.C08_converged_iff",
    "TopSearch.Props.C08.C08_archive",
    "TopSearch.Props.C08.C08_archive_gen",
    "TopSearch.Props.C08.C08_failed_no_trace",
    "TopSearch.Props.C08.C08_stored_subset_outputs",
    "TopSearch.Props.C08.C08_every_converged_represented",
    "TopSearch.Props.C08.C08_metropolis_rule",
    "TopSearch.Props.C08.C08_metropolis_prob",
    "TopSearch.Props.C08.C08_accept_probability",
    "TopSearch.Props.C08.C08_bridge_bonds",
    "TopSearch.Props.C08.C08_same_bonds_iff_perm",
    "TopSearch.Props.C08.C08_label_pair_symm",
    "TopSearch.Props.C08.C08_unique_rows_forget_counts",
]
RULE = ("cases = steps of basin-hopping runs (network after the step compared model-vs-implementation, "
        "non-trivial once the run has taken two different paths) + Metropolis grid points "
        "(non-trivial when the move is not downhill, i.e. the draw decides); distinct = distinct "
        "(entry position, decision, network-after) triples / distinct grid points")
ASSUMPTIONS = bh.ASSUMPTIONS + [
    "np.exp(x) is positive and is the exponential (a parameter `expf` of the kernel; instantiated "
    "with Real.exp in C08_accept_probability); np.random.random() is uniform on [0,1)",
    "the similarity's match relation is an arbitrary parameter `same` of the theorems; the driver "
    "executes the standard similarity's absolute criterion exactly (squared distance < dc² and "
    "|dE| < ec); gate decisions within 1e-9 of a criterion are skipped as near-ties",
]
PARTIAL = ("'accepted with probability exp(-dE/T)' is proved as a statement about Lebesgue measure of "
           "the accepting draws; that numpy's generator is uniform is an assumption, not checked")
OBSERVATION = ("prepare_initial_coordinates stores its minimum when warnflag == 0 even if the exit was "
               "REL_REDUCTION_OF_F, which the loop treats as a failure (no natural failing input known)")


def regenerate(ctx: Ctx) -> None:
    ctx.gen_status.update(bh_tr.regenerate())
    ctx.gen_status.update(bonds_tr.regenerate())
    ctx.stats.notes["observation"] = OBSERVATION
    from translate import transcripts as _tr
    ctx.gen_status.update(_tr.constructor_wiring(['BasinHopping']))


# ----------------------------------------------------------------------------- metropolis grid


def metropolis_real(e1: float, e2: float, T: float, u: float):
    """the real `metropolis` with the uniform draw scripted from outside"""
    import topsearch.global_optimisation.basin_hopping as bhmod
    obj = bhmod.BasinHopping(ktn=None, potential=None, similarity=None, step_taking=None)
    calls = []

    def fake(*a, **k):
        calls.append(1)
        return u
    with bh._Patched([(bhmod.np.random, "random", fake)]):
        with np.errstate(over="ignore", invalid="ignore", divide="ignore"):
            try:
                r = obj.metropolis(e1, e2, T)
            except Exception as e:    # noqa: BLE001
                return f"raise:{type(e).__name__}", len(calls)
    return r, len(calls)


def grid(ctx: Ctx) -> list[tuple[float, float, float, float]]:
    rng = ctx.rng
    pts = []
    e1s = [-1.0, 0.0, 0.5, 2.0]
    dEs = [-2.0, -0.25, -(2.0 ** -40), 0.0, 2.0 ** -40, 0.25, 1.0, 3.0, 50.0]
    Ts = [1e-6, 0.25, 1.0, 4.0, 100.0, math.inf]
    for e1, dE, T in itertools.product(e1s, dEs, Ts):
        e2 = e1 + dE
        b = bh.boltz_of(e1, e2, T)
        us = {0.0, 0.5, float(np.nextafter(1.0, 0.0))}
        if b < 1.0:
            us |= {b, float(np.nextafter(b, 0.0)) if b > 0 else 0.0, float(np.nextafter(b, 1.0))}
        for u in sorted(us):
            if 0.0 <= u < 1.0:
                pts.append((e1, e2, T, u))
    for _ in range(ctx.scale(300, 3000)):
        e1 = rng.uniform(-5, 5)
        e2 = e1 + rng.choice([rng.uniform(-1, 1), rng.uniform(0, 5), 0.0])
        T = rng.choice([rng.uniform(0.01, 10), 1.0])
        b = bh.boltz_of(e1, e2, T)
        u = rng.choice([rng.random(), min(b, float(np.nextafter(1.0, 0.0))), float(np.nextafter(min(b, 1.0), 0.0))])
        pts.append((e1, e2, T, u))
    return pts


def correspond_grid(ctx: Ctx) -> None:
    pts = grid(ctx)
    lines = ["cfg gen"]
    impl = []
    for e1, e2, T, u in pts:
        r, _ = metropolis_real(e1, e2, T, u)
        impl.append(r)
        lines.append(f"metro {frac(e1)} {frac(e2)} {frac(bh.boltz_of(e1, e2, T))} {frac(u)}")
    out = run_driver("BasinHopping", lines)[1:]
    if len(out) != len(pts):
        ctx.diverge("metropolis:driver-length", f"driver answered {len(out)} lines for {len(pts)}", {})
        return
    for (e1, e2, T, u), r, m in zip(pts, impl, out):
        uphill = not (e2 < e1)
        ctx.stats.case({"stream": "metropolis", "e1": e1, "e2": e2, "T": T, "u": u}, uphill)
        ctx.stats.branch("metropolis:" + ("downhill" if not uphill else ("accept" if m == "1" else "reject")))
        if isinstance(r, str):
            ctx.diverge("metropolis:raises", f"metropolis({e1}, {e2}, {T}) with draw {u} returned {r!r}",
                        {"metropolis": [e1, e2, T, u]})
        elif ("1" if r else "0") != m:
            cls = "downhill" if not uphill else ("tie" if bh.boltz_of(e1, e2, T) == u else "uphill")
            ctx.diverge(f"metropolis:{cls}", f"metropolis({e1}, {e2}, {T}) with draw {u}: implementation {r}, "
                        f"model {m}", {"metropolis": [e1, e2, T, u]})


def correspond(ctx: Ctx) -> None:
    bh.correspond_runs(ctx)
    correspond_grid(ctx)


# ----------------------------------------------------------------------------- predicates


def indep_same(script: dict, p, q, e1, e2) -> bool:
    """the stated match criterion written out here (never the similarity object under test): absolute — Euclidean
    distance below the distance criterion; box-proportional — inside the ellipsoid whose semi-axes are the distance
    criterion times the box width in each coordinate; and the energies closer than the energy criterion"""
    p, q = np.asarray(p, dtype=float), np.asarray(q, dtype=float)
    if p.shape != q.shape or not abs(float(e1) - float(e2)) < script["ec"]:
        return False
    if (script.get("trace") or {}).get("prop_sim"):
        w = np.array([b[1] - b[0] for b in script["bounds"]], dtype=float) * script["dc"]
        return float(np.sum(((p - q) / w) ** 2)) <= 1.0
    return float(np.linalg.norm(p - q)) < script["dc"]


def prop_near_tie(script: dict, rec: dict) -> bool:
    """some pair of points the run compared sits within 1e-6 (relative) of the box-proportional criterion"""
    pts = [(np.array(s["pos"], dtype=float), float(s["e"])) for s in [script["init"]] + script["steps"]]
    w = np.array([b[1] - b[0] for b in script["bounds"]], dtype=float) * script["dc"]
    for i in range(len(pts)):
        for j in range(i):
            v = float(np.sum(((pts[i][0] - pts[j][0]) / w) ** 2))
            de = abs(pts[i][1] - pts[j][1])
            if abs(v - 1.0) < 1e-6 or abs(de - script["ec"]) < 1e-9 * script["ec"]:
                return True
    return False


def archive_predicate(script: dict, rec: dict) -> tuple[str, str, dict] | None:
    """C08 written from the statement on what was observed from outside: every converged
    (bonds-intact) minimiser output is represented in the network as soon as its step is over,
    every stored minimum is one of those outputs (bit-for-bit; up to translation for atomic
    systems) or was there before, a failed step changes neither the network nor the walker."""
    from topsearch.data.coordinates import StandardCoordinates
    from topsearch.similarity.similarity import StandardSimilarity
    if rec["error"]:
        return ("run-raises", f"BasinHopping.run raised {rec['error']}", {})
    atomic = script["kind"] == "atomic"
    sim = StandardSimilarity(script["dc"], script["ec"])
    n = len(rec["entries"])
    if n != len(script["steps"]):
        return ("step-count", f"{n} perturbations in a run of {len(script['steps'])} steps", {})
    probe = StandardCoordinates(ndim=len(script["init"]["pos"]), bounds=[(-1e9, 1e9)] * len(script["init"]["pos"]))

    def represented(pos, e, snap, s) -> bool:
        for _, c, ce in snap:
            if atomic:
                if c.shape == pos.shape and np.allclose(bh.centred(c), bh.centred(pos), atol=1e-9, rtol=0) \
                        and abs(ce - e) < script["ec"]:
                    return True
                # matched by a different stored minimum: same criterion on translated copies
                # (the scripted similarity translates the candidate by this step's shift first)
                for sh in [np.zeros_like(pos)] + ([np.array(s["shift"], dtype=float)] if s.get("shift") else []):
                    probe.position = pos - sh
                    if sim.test_same(probe, c, e, ce):
                        return True
            else:
                if indep_same(script, pos, c, e, ce):
                    return True
        return False

    pre = len(script.get("pre", []))
    good = []                       # successful outputs so far
    recs = [script["init"]] + script["steps"]
    for k, s in enumerate(recs):    # k = 0: first minimisation, k >= 1: step k
        snap_after = rec["nets"][k][0]
        snap_before = rec["nets"][k - 1][0] if k >= 1 else None
        if k == 0:
            ok = s["warn"] == 0
        else:
            ok = s["warn"] == 0 and s["task"] != bh.REL and (not atomic or s["bonds"])
        pos = np.array(s["pos"], dtype=float)
        conv_req = (script.get("trace") or {}).get("conv", 1e-6) if "trace" in script else None
        if ok and conv_req is not None and s.get("pg") is not None and k not in (rec.get("injected") or ()) and \
                str(s["task"]).startswith("CONVERGENCE: NORM_OF_PROJECTED") and s["pg"] > conv_req * (1.0 + 1e-9):
            return ("archived-minimum-misses-the-runs-criterion",
                    f"{'first minimisation' if k == 0 else f'step {k}'}: the minimiser reported convergence on the gradient "
                    f"criterion and the result is archived, but the projected gradient there is {s['pg']:.3e}; the run was "
                    f"asked for {conv_req:g}", {"step": k - 1})
        if ok:
            good.append((pos, float(s["e"])))
            if not represented(pos, float(s["e"]), snap_after, s):
                which = "first minimisation" if k == 0 else \
                    f"step {k} ({'accepted' if rec['metro'].get(k - 1, (0, 0, 0, False))[3] else 'rejected'})"
                return ("converged-minimum-not-archived:" + ("init" if k == 0 else
                                                             ("accepted" if rec["metro"].get(k - 1, (0, 0, 0, False))[3] else "rejected")),
                        f"{which}: converged minimum {pos.tolist()} (E={s['e']}) is not represented in the network",
                        {"step": k - 1})
        elif k >= 1:
            if net_key(snap_after) != net_key(snap_before):
                why = "failed minimisation" if (s["warn"] != 0 or s["task"] == bh.REL) else "bond change"
                return ("failed-step-leaves-trace:network",
                        f"step {k} ({why}) changed the network: {len(snap_before)} -> {len(snap_after)} minima",
                        {"step": k - 1})
            after = rec["entries"][k] if k < n else rec["final_pos"]
            before = rec["entries"][k - 1]
            same = np.allclose(bh.centred(after), bh.centred(before), atol=1e-9, rtol=0) if atomic \
                else np.array_equal(after, before)
            if not same:
                return ("failed-step-leaves-trace:walker",
                        f"step {k} failed but the walker moved from {before.tolist()} to {after.tolist()}",
                        {"step": k - 1})
    final = rec["nets"][-1][0]
    if rec["nets"][-1][1] != len(final):
        return ("n_minima", f"n_minima={rec['nets'][-1][1]} but {len(final)} minima stored", {})
    for idx, (_, c, ce) in enumerate(final[pre:]):
        hit = False
        for pos, e in good:
            if atomic:
                hit = c.shape == pos.shape and np.allclose(bh.centred(c), bh.centred(pos), atol=1e-9, rtol=0) and ce == e
            else:
                hit = np.array_equal(c, pos) and ce == e
            if hit:
                break
        if not hit:
            return ("stored-minimum-is-no-output",
                    f"stored minimum {pre + idx} {c.tolist()} (E={ce}) is not the output of a successful minimisation",
                    {"index": pre + idx})
    for idx, (p, e) in enumerate(script.get("pre", [])):
        if not (np.array_equal(final[idx][1], np.array(p, dtype=float)) and final[idx][2] == float(e)):
            return ("pre-existing-minimum-changed", f"minimum {idx} that was in the network before the run changed", {})
    return None


def net_key(snap) -> list:
    return [(l, c.tobytes(), e) for l, c, e in snap]


def metropolis_predicate(ctx: Ctx, pts) -> None:
    """accept <=> energy2 < energy1 or exp(-dE/T) > u  — from the statement, np.exp evaluated here"""
    for e1, e2, T, u in pts:
        r, ncalls = metropolis_real(e1, e2, T, u)
        ctx.stats.case({"stream": "predicate-metropolis", "e1": e1, "e2": e2, "T": T, "u": u}, not (e2 < e1))
        if e2 < e1:
            want = True
        else:
            with np.errstate(over="ignore", invalid="ignore", divide="ignore"):
                want = bool(np.exp(-(e2 - e1) / T) > u)
        if isinstance(r, str) or bool(r) != want:
            cls = "downhill" if e2 < e1 else ("tie" if bh.boltz_of(e1, e2, T) == u else "uphill")
            ctx.fail(f"metropolis-rule:{cls}",
                     f"metropolis({e1}, {e2}, {T}) with draw u={u} returned {r!r}; exp(-dE/T)="
                     f"{bh.boltz_of(e1, e2, T)!r}, expected {want}", {"metropolis": [e1, e2, T, u]})


def metropolis_frequency(ctx: Ctx) -> None:
    """acceptance frequency over an equidistant set of draws u = (j+1/2)/K stands for the
    probability: it must be within 1/K of exp(-dE/T) (deterministic)"""
    K = ctx.scale(200, 2000)
    for x in [0.0, 0.05, 0.3, 1.0, 2.5, 7.0]:          # x = dE/T
        for T in (0.5, 1.0, 3.0):
            dE = x * T
            acc = sum(1 for j in range(K) if metropolis_real(0.25, 0.25 + dE, T, (j + 0.5) / K)[0] in (True,))
            p = math.exp(-x)
            ctx.stats.case({"stream": "predicate-frequency", "dE/T": x, "T": T}, True)
            if abs(acc / K - p) > 1.0 / K + 1e-12:
                ctx.fail("metropolis-frequency:uphill",
                         f"dE/T={x}, T={T}: accepted {acc}/{K} equidistant draws, exp(-dE/T)={p:.6f}",
                         {"metropolis_frequency": [x, T, K]})


def pred_restart_from_stored(seed: int) -> tuple[str, str, dict] | None:
    """a second run on the same objects started from a STORED minimum, the way the example scripts do it
    (`coords.position = ktn.get_minimum_coords(i)`, which hands over the network's own array): what the network holds
    after the first run is still there, bit for bit, after the second — stored minima are outputs of the minimiser, and
    nothing moves them afterwards"""
    import topsearch.global_optimisation.basin_hopping as bhmod
    from topsearch.data.coordinates import StandardCoordinates
    from topsearch.data.kinetic_transition_network import KineticTransitionNetwork
    from topsearch.global_optimisation.perturbations import StandardPerturbation
    from topsearch.potentials.test_functions import Camelback
    from topsearch.similarity.similarity import StandardSimilarity
    np.random.seed(seed)
    coords = StandardCoordinates(ndim=2, bounds=bh.STD_BOUNDS)
    ktn = KineticTransitionNetwork()
    run = bhmod.BasinHopping(ktn=ktn, potential=Camelback(), similarity=StandardSimilarity(0.1, 0.1),
                             step_taking=StandardPerturbation(max_displacement=1.5, proportional_distance=False))
    try:
        run.run(coords, 12, 1e-6, 1.0)
        for cycle in range(3):
            if ktn.n_minima == 0:
                return None
            before = [(np.array(ktn.get_minimum_coords(i), dtype=float, copy=True), float(ktn.get_minimum_energy(i)))
                      for i in range(ktn.n_minima)]
            coords.position = ktn.get_minimum_coords((seed + cycle) % ktn.n_minima)       # the network's own array
            run.run(coords, 8, 1e-6, 1.0)
            for i, (c, e) in enumerate(before):
                c2, e2 = np.asarray(ktn.get_minimum_coords(i), dtype=float), float(ktn.get_minimum_energy(i))
                if not (np.array_equal(c, c2) and e == e2):
                    return ("stored-minimum-moved-by-a-later-run",
                            f"minimum {i} was stored at {c.tolist()} (E={e}); after a further run started from stored minimum "
                            f"{(seed + cycle) % len(before)} it reads {c2.tolist()} (E={e2})", {"restart": True, "seed": seed})
    except Exception as e:  # noqa: BLE001
        return ("run-raises", f"BasinHopping.run raised {type(e).__name__}: {e} in a restart from a stored minimum",
                {"restart": True, "seed": seed})
    return None


def predicates(ctx: Ctx) -> None:
    rng = ctx.rng
    deep = getattr(ctx, "deep_search", False)
    bh.bond_oracle(ctx)          # "with its bonding intact" is judged by this test
    for _k in range(ctx.scale(4, 20)):
        sd = rng.randrange(10 ** 6)
        r = pred_restart_from_stored(sd)
        ctx.stats.case({"stream": "predicate-restart-from-stored", "seed": sd}, True)
        if r:
            ctx.fail(*r)
            break
    # corpus: the boundary draw u == exp(-dE/T) and a failed downhill step
    metropolis_predicate(ctx, [(0.0, 1.0, 1.0, float(np.exp(-1.0))), (0.0, 1.0, 1.0, float(np.nextafter(np.exp(-1.0), 0))),
                               (1.0, 0.0, 1.0, 0.999), (0.0, 0.0, 1.0, 0.999), (0.0, 1.0, 1e-6, 0.0),
                               # a quench (temperature exactly zero): downhill is downhill
                               (1.0, 0.0, 0.0, 0.5), (2.1043, -1.0316, 0.0, 0.0), (0.0, -(2.0 ** -40), 0.0, 0.999)])
    corpus = bh.make_script(rng, "standard", ("down", "rej", "fail", "rej", "fail", "up"))
    scripts = [corpus] + bh.scripted_corpus(ctx, "all" if deep else "subsets")
    if not deep:
        for n in (1, 2, 3):
            for pat in itertools.product(bh.OUTCOMES_STD, repeat=n):
                scripts.append(bh.make_script(rng, "standard", pat, pre=rng.random() < 0.2,
                                              n_init_fail=rng.random() < 0.2))
            for pat in itertools.product(bh.OUTCOMES_ATOM, repeat=n):
                scripts.append(bh.make_script(rng, "atomic", pat, pre=rng.random() < 0.2))
        scripts += bh.scripted_corpus(ctx, "long")[:10]
    scripts.sort(key=lambda s: len(s["steps"]))
    for script in scripts:
        rec = bh.run_scripted(script)
        r = archive_predicate(script, rec)
        ctx.stats.case({"stream": "predicate-scripted", "kind": script["kind"],
                        "pattern": "".join(s["want"][0] for s in script["steps"])[:40]}, True)
        if r:
            small = bh.shrink_script(script, r[0], archive_predicate)
            r2 = archive_predicate(small, bh.run_scripted(small)) or r
            ctx.fail(r[0], r2[1], {"script": small, **r2[2]})
    for p in bh.trace_params(ctx)[: ctx.scale(30, 120) * (2 if deep else 1)]:
        script, rec = bh.run_trace(p)
        if rec["near_tie"]:
            ctx.stats.near_ties += 1
            continue
        r = archive_predicate(script, rec)
        ctx.stats.case({"stream": "predicate-trace", "surface": p["surface"], "seed": p["seed"],
                        "inject": p.get("inject")}, True)
        if r:
            ctx.fail(r[0], r[1], {"trace": p, **r[2]})
    # the box-proportional match criterion on a surface with degenerate minima: Schwefel is symmetric under exchange of
    # its coordinates, so (a, b) and (b, a) are distinct minima of exactly equal energy whose scaled differences cancel
    for _ in range(ctx.scale(4, 16) * (2 if deep else 1)):
        p = {"surface": "schwefel", "dim": 2, "seed": rng.randrange(10 ** 6), "T": rng.choice([100.0, 500.0]),
             "step": rng.choice([0.3, 0.5]), "prop": True, "prop_sim": True, "dc": 0.02, "ec": 1e-3,
             "n_steps": rng.randrange(25, 50), "conv": 1e-6}
        script, rec = bh.run_trace(p)
        if rec["near_tie"] or prop_near_tie(script, rec):
            ctx.stats.near_ties += 1
            continue
        r = archive_predicate(script, rec)
        ctx.stats.case({"stream": "predicate-trace-proportional", "seed": p["seed"]}, True)
        if r:
            ctx.fail(r[0] + ":box-proportional-criterion", r[1], {"trace": p, **r[2]})
            break
    metropolis_predicate(ctx, grid(ctx)[:: 1 if deep else 3])
    metropolis_frequency(ctx)


def replay(ctx: Ctx, data: dict) -> bool:
    r = None
    if "bond_sequence_seed" in data:
        r = bh.bond_sequence_predicate(int(data["bond_sequence_seed"]))
        if r:
            print(f"  {r[0]}: {r[1]}")
        return r is None
    if "bond_oracle" in data:
        r = bh.bond_oracle_predicate(data["bond_oracle"]["pts"], data["bond_oracle"]["cutoff"])
        if r:
            print(f"  {r[0]}: {r[1]}")
        return r is None
    if data.get("restart"):
        r = pred_restart_from_stored(int(data["seed"]))
        if r:
            print(f"  {r[0]}: {r[1]}")
        return r is None
    if "molecular_bond_oracle" in data:
        r = bh.molecular_bond_predicate(data["molecular_bond_oracle"]["pts"])
        if r:
            print(f"  {r[0]}: {r[1]}")
        return r is None
    if "metropolis" in data:
        e1, e2, T, u = data["metropolis"]
        n0 = len(ctx.failures)
        metropolis_predicate(ctx, [(e1, e2, T, u)])
        if len(ctx.failures) > n0:
            print(f"  {ctx.failures[-1].key}: {ctx.failures[-1].what}")
            return False
        return True
    if "metropolis_frequency" in data:
        n0 = len(ctx.failures)
        metropolis_frequency(ctx)
        return len(ctx.failures) == n0
    if "trace" in data:
        script, rec = bh.run_trace(data["trace"])
        r = archive_predicate(script, rec)
    elif "script" in data:
        script = data["script"]
        if script.get("trace"):
            script, rec = bh.run_trace(script["trace"])
        else:
            script["pre"] = [tuple(x) for x in script.get("pre", [])]
            rec = bh.run_scripted(script)
        r = archive_predicate(script, rec)
    else:
        print("  nothing to replay (no concrete input in this file)")
        return True
    if r:
        print(f"  {r[0]}: {r[1]}")
    return r is None
