"""C05 — search outcomes are merged without loss, duplication or abort.

Tie #1: translate.similarity reads the None filters of `connection_attempt` /
`reconverge_landscape`, the argument wiring of the three `test_new_ts` call sites and the
statement order of `test_new_ts` into Gen/Similarity.lean (bridges `C05_bridge_*`,
`C03_bridge_steps`).
Tie #2 (scripted): the REAL `NetworkSampling.run_connection_attempts` — serial and
`multiprocessing_on=True` with 2–4 processes — and `reconverge_landscape` / `reconverge_minima`
with scripted double/single-ended searches and a scripted minimiser substituted from outside,
against `roundSerial` / `roundParallel` / `reconvergeLandscape` of Model/Merge through
Drivers/Merge.lean: pair lists with self-pairs, repeats, reversed and already connected pairs,
per-pair outcome lists of length 0–3 reaching known and new minima, EVERY subset of failing
searches for scenarios with <= 4 (quick) / 6 (thorough) searches, random subsets beyond; the
networks are compared after the round.
"""
from __future__ import annotations

import copy
import itertools

import numpy as np

from common import Ctx, frac
from props import c03 as base
from props.c03 import Batch, Impl, Spec, _eq, _plain, _prefix, _pt, impl_state_raw
from translate import ktn_cfg, similarity as sim_tr

from topsearch.similarity.similarity import StandardSimilarity  # noqa: E402  (check.py made /repo/src importable)

PROP = "C05"
LEAN_MODULE = "TopSearch.Props.C05"
LEAN_FILES = ["TopSearch.Props.C05", "TopSearch.Lemmas.Merge", "TopSearch.Model.Merge"]
EXTRA_TARGETS = ["TopSearch.Model.Merge", "TopSearch.Gen.Ktn", "TopSearch.Gen.Similarity",
                 "TopSearch.Drv.Util"]
_P = "TopSearch.Props.C05."
REQUIRED = [_P + n for n in [
    "C05_bridge_filters", "C05_bridge_wiring", "C05_bridge_counter",
    "C05_failed_is_noop", "C05_repeat_is_noop", "C05_twice_is_once",
    "C05_monotone_step", "C05_monotone", "C05_round_inv", "C05_serial_parallel_same_fold",
    "C05_contributes", "C05_contribution_persists",
    "C05_reconverge", "C05_reconverge_is_stream", "C05_reconverge_aborts_without_filter",
    "C05_bridge_steps"]]
RULE = ("cases = one scripted round (network before, pair list, per-pair outcome script with a failure "
        "mask, serial|parallel) or one scripted reconvergence, compared model-vs-implementation on the "
        "network after it; non-trivial = at least one search was performed; distinct = distinct "
        "(mode, script, mask, network after)")
ASSUMPTIONS = [
    "multiprocessing.Pool.map returns results in input order (the model merges in list order)",
    "which pairs are attempted is `check_pair`'s decision (C13); the model takes it as the parameter "
    "`allowed` and the driver instantiates it with the modelled check_pair",
    "the match relation is symmetric (hypothesis of the theorems; proved for StandardSimilarity in C03)",
]
PARTIAL = ""
TRUSTED_EXTRA = ["scripted search / minimiser objects substituted from outside (harness/props/c05.py)"]


def regenerate(ctx: Ctx) -> None:
    ctx.gen_status.update(ktn_cfg.regenerate(["add_minimum", "add_ts", "__init__", "reset_network"]))
    ctx.gen_status.update(sim_tr.regenerate())
    from translate import transcripts as _tr
    ctx.gen_status.update(_tr.constructor_wiring(['NetworkSampling', 'StandardSimilarity']))


# ----------------------------------------------------------------------------- scripted components
# (plain module-level classes: picklable, as the fork pool pickles the bound method's `self`)

FAIL7 = (None, None, None, None, None, None, None)


class ScriptedDouble:
    """double-ended search: returns one candidate position per scripted single-ended search of the
    pair; the candidate encodes (task, search) in its first coordinate"""
    force_constant = 50.0

    def __init__(self, table: dict, dim: int):
        self.table = table            # (bytes(min1) + bytes(min2)) -> (task id, number of searches)
        self.dim = dim
        self.calls: list = []

    def run(self, coords, min2, repeats, permutation):
        key = np.asarray(coords.position, dtype=float).tobytes() + np.asarray(min2, dtype=float).tobytes()
        tid, n = self.table[key]
        self.calls.append(tid)
        positions = []
        for j in range(n):
            p = np.zeros(self.dim)
            p[0] = float(tid * 8 + j)
            positions.append(p)
        return np.zeros(n), positions


class ScriptedSingle:
    """single-ended search: looks the outcome up by the encoded candidate"""
    failure = 'steps'

    def __init__(self, outcomes: dict):
        self.outcomes = outcomes      # code -> 7-tuple
        self.calls: list = []

    # what a search object may leave in `failure` when it gives up: the documented reasons, nothing at all (the attribute's
    # initial value), or a reason of its own (any single-ended search object may be plugged in)
    REASONS = ['steps', 'SDpaths', 'eigenvector', 'eigenvalue', 'bounds', 'pushoff', 'invalid_ts', None, 'stalled']

    def run(self, coords, tag=-1):
        code = int(round(float(coords.position[0])))
        self.calls.append(code)
        out = self.outcomes[code]
        if out[0] is None:
            self.failure = self.REASONS[code % len(self.REASONS)]
        return out


class ScriptedReSearch:
    """single-ended search for reconverge_landscape: outcome by the (stored) TS coordinates"""
    failure = 'steps'

    def __init__(self, by_bytes: dict):
        self.by_bytes = by_bytes

    def run(self, coords, tag=-1):
        out = self.by_bytes[np.asarray(coords.position, dtype=float).tobytes()]
        if out[0] is None:
            self.failure = ScriptedSingle.REASONS[len(np.asarray(coords.position).tobytes()) % 3 + 6]
        return out


class ScriptedMinimiser:
    """stands for topsearch.minimisation.lbfgs inside exploration.py"""

    def __init__(self, by_bytes: dict):
        self.by_bytes = by_bytes

    def minimise(self, func_grad, initial_position, bounds, conv_crit, **kw):
        c, e = self.by_bytes[np.asarray(initial_position, dtype=float).tobytes()]
        return np.array(c, dtype=float), float(e), {"warnflag": 0}


class DummyPotential:
    def function_gradient(self, x):
        return 0.0, np.zeros_like(x)


class LoggingSimilarity(StandardSimilarity):
    """records every merge call with the network before and after it (the merge calls happen in the
    parent process in both modes); module-level, hence picklable for the fork pool"""

    def __init__(self, *a, **kw):
        super().__init__(*a, **kw)
        self.events = []

    def test_new_ts(self, ktn, ts_coords, ts_energy, min_plus_coords, e_plus, min_minus_coords, e_minus):
        before = snapshot(ktn)
        try:
            rec = ((np.array(ts_coords.position, dtype=float), float(ts_energy)),
                   (np.array(min_plus_coords, dtype=float), float(e_plus)),
                   (np.array(min_minus_coords, dtype=float), float(e_minus)))
        except (TypeError, ValueError):          # a failed search reached the merge: let the real code react
            rec = None
        super().test_new_ts(ktn, ts_coords, ts_energy, min_plus_coords, e_plus, min_minus_coords, e_minus)
        self.events.append((before, rec, snapshot(ktn)))


def snapshot(k) -> dict:
    return {"n": int(k.n_minima), "nts": int(k.n_ts),
            "mins": [(np.array(k.G.nodes[l]['coords'], dtype=float), float(k.G.nodes[l]['energy'])) for l in k.G.nodes],
            "labels": [int(l) for l in k.G.nodes],
            "edges": {(min(int(u), int(v)), max(int(u), int(v))):
                      (np.array(k.G[u][v]['coords'], dtype=float), float(k.G[u][v]['energy'])) for u, v in k.G.edges()},
            "pl": [(int(a), int(b)) for a, b in np.asarray(k.pairlist).reshape(-1, 2)]}


# ----------------------------------------------------------------------------- scenarios


class Scenario:
    """a network, a pair list and what every search of every pair would return"""

    def __init__(self, spec: Spec, build_ops: list, hist: list, pairs: list, script: dict):
        self.spec, self.build_ops, self.hist, self.pairs, self.script = spec, build_ops, hist, pairs, script
        # script: ordered pair -> list of records (ts, plus, minus); failures are applied by a mask
        self.searches = [(p, j) for p in sorted(script) for j in range(len(script[p]))]

    def as_dict(self, mask, mode, nproc) -> dict:
        return {"spec": self.spec.as_dict(), "build": base._ops_json(self.build_ops), "hist": [list(h) for h in self.hist],
                "pairs": [list(p) for p in self.pairs],
                "script": [[list(p), [[_plain(x) for x in rec] for rec in recs]] for p, recs in sorted(self.script.items())],
                "mask": [[list(p), int(j)] for p, j in mask], "mode": mode, "nproc": nproc}

    @staticmethod
    def from_dict(d: dict) -> "Scenario":
        script = {tuple(p): [tuple(_pt(x) for x in rec) for rec in recs] for p, recs in d["script"]}
        return Scenario(Spec.from_dict(d["spec"]), base._ops_from_json(d["build"]), [tuple(h) for h in d["hist"]],
                        [tuple(p) for p in d["pairs"]], script)


def distinct_coords(k) -> bool:
    """the scripted searches / minimiser are functions of the coordinates (as the real ones are), so
    two stored points must not share their coordinates (they may when only the energies differ)"""
    a = [np.asarray(k.G.nodes[l]['coords'], dtype=float).tobytes() for l in k.G.nodes]
    b = [np.asarray(k.G[u][v]['coords'], dtype=float).tobytes() for u, v in k.G.edges()]
    return len(set(a)) == len(a) and len(set(b)) == len(b)


def gen_scenario(rng, max_searches: int, n_min=(2, 5)) -> Scenario:
    spec = rng.choice(base.dyadic_specs())
    # the network before the round: grown through the gate, so that it satisfies the C03 invariants
    while True:
        build = [op for op in base.gen_stream(spec, rng, rng.randrange(3, 9), with_merge=False)
                 if op[0] in ("min", "ts")]
        impl = Impl(spec, None, {})
        for op in build:
            base.apply_op(impl, op)
        while impl.ktn.n_minima < n_min[0]:
            op = ("min", base.grid_point(spec, rng), "pad")
            build.append(op)
            base.apply_op(impl, op)
        if distinct_coords(impl.ktn):
            break
    n = impl.ktn.n_minima
    stored = [(np.array(impl.ktn.get_minimum_coords(i)), float(impl.ktn.get_minimum_energy(i))) for i in range(n)]
    stored_ts = [(np.array(impl.ktn.G[u][v]['coords']), float(impl.ktn.G[u][v]['energy'])) for u, v in impl.ktn.G.edges()]
    edges = [(int(u), int(v)) for u, v in impl.ktn.G.edges()]
    # pair list: self-pairs, repeats, reversed pairs, connected pairs
    pairs = []
    for _ in range(rng.randrange(1, 6)):
        r = rng.random()
        if r < 0.12:
            u = rng.randrange(n); pairs.append((u, u))
        elif r < 0.3 and pairs:
            p = rng.choice(pairs); pairs.append(p if rng.random() < 0.5 else (p[1], p[0]))
        elif r < 0.42 and edges:
            pairs.append(rng.choice(edges))
        else:
            pairs.append((rng.randrange(n), rng.randrange(n)))
    # history: sometimes a pair of the round was already tried 1-3 times
    hist = []
    for p in pairs:
        if rng.random() < 0.25:
            hist += [tuple(sorted(p))] * rng.randrange(1, 4)
    # per-pair outcome lists of length 0-3
    script: dict = {}
    seen = stored + stored_ts
    total = 0
    new_ts: list = []
    for p in dict.fromkeys(pairs):
        k = rng.choice((0, 1, 1, 2, 3))
        k = max(0, min(k, max_searches - total))
        recs = []
        for _ in range(k):
            x = rng.random()
            if x < 0.15 and (stored_ts or new_ts):
                q = rng.choice(stored_ts + new_ts)           # a repeated transition state
                ts = (q[0].copy(), q[1])
            else:
                ts, _ = base.candidate(spec, rng, stored_ts + new_ts)
            plus, _ = base.candidate(spec, rng, stored)       # mostly near / equal to known minima
            y = rng.random()
            if y < 0.15:                                      # two new, different minima
                plus, minus = base.grid_point(spec, rng), base.grid_point(spec, rng)
            elif y < 0.3:
                minus = (plus[0].copy(), plus[1])
            elif y < 0.5 and rng.random() < 0.5:
                minus = stored[p[1]] if rng.random() < 0.7 else stored[p[0]]
                minus = (minus[0].copy(), minus[1])
            else:
                minus, _ = base.candidate(spec, rng, stored + [plus])
            recs.append((ts, plus, minus))
            new_ts.append(ts)
        total += k
        script[p] = recs
    return Scenario(spec, build, hist, pairs, script)


def run_round(sc: Scenario, fail: set, mode: str, nproc: int, batch: Batch | None, meta: dict):
    """build the network, run the REAL run_connection_attempts with the scripted searches; returns
    (impl, sampler, similarity with event log, network before)"""
    from topsearch.sampling.exploration import NetworkSampling
    impl = Impl(sc.spec, batch, meta)
    saved_batch, impl.batch = impl.batch, None
    for op in sc.build_ops:
        base.apply_op(impl, op)
    impl.batch = saved_batch
    k = impl.ktn
    k.pairlist = np.array(sc.hist, dtype=int).reshape(-1, 2)
    sim = LoggingSimilarity(sc.spec.dc, sc.spec.ec, proportional_distance=(sc.spec.kind == "prop"))
    # mirror the network into the model with the raw store operations
    if batch is not None:
        m = {**impl.meta, "nontrivial": False}
        for l in k.G.nodes:
            batch.send(f"addmin {impl.t((k.G.nodes[l]['coords'], k.G.nodes[l]['energy']))}", None, m)
        for u, v in k.G.edges():
            batch.send(f"addts {impl.t((k.G[u][v]['coords'], k.G[u][v]['energy']))} {int(u)} {int(v)}", None, m)
        batch.send("hist " + (",".join(f"{a}:{b}" for a, b in sc.hist) if sc.hist else "-"), impl.state(), m)
        batch.send("scriptclear", "ok", m)
    table, outcomes = {}, {}
    for tid, (p, recs) in enumerate(sorted(sc.script.items())):
        key = np.asarray(k.get_minimum_coords(p[0]), dtype=float).tobytes() + \
            np.asarray(k.get_minimum_coords(p[1]), dtype=float).tobytes()
        table[key] = (tid, len(recs))
        toks = []
        for j, (ts, plus, minus) in enumerate(recs):
            if (p, j) in fail:
                outcomes[tid * 8 + j] = FAIL7
                toks.append("x")
            else:
                # the seventh value (the search's final direction) is not used by the merge: a search object that does not
                # report one is as successful as one that does
                outcomes[tid * 8 + j] = (np.array(ts[0]), ts[1], np.array(plus[0]), plus[1],
                                         np.array(minus[0]), minus[1], None if (tid + j) % 3 == 0 else -1.0)
                toks.append("+".join(impl.t(x) for x in (ts, plus, minus)) if batch is not None else "")
        if batch is not None:
            batch.send(f"script {p[0]}:{p[1]} " + (",".join(toks) if toks else "-"), "ok",
                       {**impl.meta, "nontrivial": False})
    # two different ordered pairs of the same stored arrays cannot occur (labels are distinct nodes)
    double, single = ScriptedDouble(table, sc.spec.dim), ScriptedSingle(outcomes)
    ns = NetworkSampling(k, impl.coords, None, single, double, sim,
                         multiprocessing_on=(mode == "parallel"), n_processes=nproc if mode == "parallel" else None)
    before = snapshot(k)
    allowed0 = [bool(ns.check_pair(u, v)[0]) for u, v in sc.pairs]
    impl.error = None
    try:
        ns.run_connection_attempts([list(p) for p in sc.pairs])
    except Exception as e:                      # an aborted round is an observation, not a harness error
        impl.error = e
    return impl, ns, sim, before, allowed0, double


def expected_events(sc: Scenario, fail: set, mode: str, allowed0: list, double: ScriptedDouble) -> list:
    """the successful searches that ran, in merge order (serial: the pairs whose double-ended search
    was called, from its call log; parallel: the pairs check_pair accepts on the initial network)"""
    out = []
    tids = {p: i for i, p in enumerate(sorted(sc.script))}
    if mode == "serial":
        calls = list(double.calls)
    for idx, p in enumerate(sc.pairs):
        if mode == "serial":
            ran = bool(calls) and calls[0] == tids[p]
            if ran:
                calls.pop(0)
        else:
            ran = allowed0[idx]
        if ran:
            out += [rec for j, rec in enumerate(sc.script[p]) if (p, j) not in fail]
    return out


def round_line(sc: Scenario, mode: str) -> str:
    return f"round {mode} " + (",".join(f"{u}:{v}" for u, v in sc.pairs) if sc.pairs else "-")


# ----------------------------------------------------------------------------- the property's predicate


def check_round(sc: Scenario, fail: set, mode: str, nproc: int) -> tuple[str, str, dict] | None:
    """written from the statement, evaluated on the real code: no abort; the merge calls are exactly
    the successful searches that ran, in order; a repeated transition state changes nothing; every
    other one is stored on an edge joining minima that match the two it descended to (existing or
    freshly appended); nothing already stored is removed or renumbered and only the transition state
    of an already connected pair may be replaced; counts stay coherent; the history grows by the
    sorted pairs of the round."""
    impl, ns, sim, before, allowed0, double = run_round(sc, fail, mode, nproc, None, {})
    if impl.error is not None:
        e = impl.error
        return (f"run_connection_attempts:{mode}:raises", f"the round aborted with {type(e).__name__}: {e}", {})
    k = impl.ktn
    after = snapshot(k)
    spec = sc.spec

    def same(p, q) -> bool:
        # the stated criterion, evaluated independently in exact arithmetic (the payloads are dyadic)
        return bool(spec.criterion((np.array(p[0], dtype=float), float(p[1])), (np.array(q[0], dtype=float), float(q[1]))))

    exp = expected_events(sc, fail, mode, allowed0, double)
    got = [ev[1] for ev in sim.events]
    if len(exp) != len(got) or any(r2 is None or not all(_eq(a, b) for a, b in zip(r1, r2)) for r1, r2 in zip(exp, got)):
        return (f"run_connection_attempts:{mode}:merged-set", f"{len(exp)} successful searches ran but "
                f"{len(got)} results were merged (or in a different order / with different data)", {})
    cur = before
    for i, (b, rec, a) in enumerate(sim.events):
        if not snap_eq(b, cur):
            return (f"run_connection_attempts:{mode}:changed-between-merges",
                    "the network changed outside a merge", {"event": i})
        ts, plus, minus = rec
        repeated = any(same(ts, x) for x in b["edges"].values())
        if repeated:
            if not snap_eq(a, b):
                return ("test_new_ts:repeat-changes-network", "a repeated transition state changed the network",
                        {"event": i})
        else:
            hit = [e for e, x in a["edges"].items() if _eq(x, ts)]
            if len(hit) != 1:
                return ("test_new_ts:new-not-stored", f"a new transition state is stored {len(hit)} times",
                        {"event": i})
            u, v = hit[0]
            def rep(x, y):
                return _eq(x, y) or same(y, x)
            if not ((rep(a["mins"][u], plus) and rep(a["mins"][v], minus)) or
                    (rep(a["mins"][u], minus) and rep(a["mins"][v], plus))):
                return ("test_new_ts:wrong-endpoints", "the transition state does not join minima matching "
                        "the two it descended to", {"event": i})
            if not _prefix(b["mins"], a["mins"]) or len(a["mins"]) > len(b["mins"]) + 2:
                return ("test_new_ts:minima-disturbed", "stored minima changed / renumbered", {"event": i})
            for e, x in b["edges"].items():
                if e not in a["edges"]:
                    return ("test_new_ts:edge-removed", f"transition state {e} disappeared", {"event": i})
                if e != (u, v) and not _eq(a["edges"][e], x):
                    return ("test_new_ts:other-edge-changed", f"transition state {e} changed", {"event": i})
            if set(a["edges"]) - set(b["edges"]) - {(u, v)}:
                return ("test_new_ts:extra-edge", "an unrelated edge appeared", {"event": i})
        if a["n"] != len(a["mins"]) or a["labels"] != list(range(a["n"])):
            return ("n_minima:merge", f"n_minima={a['n']} labels={a['labels']}", {"event": i})
        if a["nts"] != len(a["edges"]):
            return ("n_ts:second-ts-on-pair", f"n_ts={a['nts']} but {len(a['edges'])} transition states are "
                    "stored after a merge", {"event": i})
        cur = a
    fin = dict(after); fin_pl = fin.pop("pl")
    c2 = dict(cur); c2.pop("pl")
    if not snap_eq({**fin, "pl": []}, {**c2, "pl": []}):
        return (f"run_connection_attempts:{mode}:changed-after-merges", "the network changed after the last merge", {})
    if fin_pl != before["pl"] + [tuple(sorted(p)) for p in sc.pairs]:
        return (f"run_connection_attempts:{mode}:history", f"history {fin_pl} expected "
                f"{before['pl'] + [tuple(sorted(p)) for p in sc.pairs]}", {})
    # the C03 consequence on the final network (the initial one was grown through the gate)
    for (i, x), (j, y) in itertools.permutations(enumerate(after["mins"]), 2):
        if same(x, y):
            return ("ts-same-new-minimum-twice", f"stored minima {i} and {j} match each other after the round", {})
    tsl = list(after["edges"].values())
    for (i, x), (j, y) in itertools.permutations(enumerate(tsl), 2):
        if same(x, y):
            return ("run_connection_attempts:stored-ts-match", "two stored transition states match after the round", {})
    return None


def snap_eq(a: dict, b: dict) -> bool:
    return (a["n"] == b["n"] and a["nts"] == b["nts"] and a["labels"] == b["labels"] and a["pl"] == b["pl"]
            and len(a["mins"]) == len(b["mins"]) and all(_eq(x, y) for x, y in zip(a["mins"], b["mins"]))
            and set(a["edges"]) == set(b["edges"]) and all(_eq(a["edges"][e], b["edges"][e]) for e in a["edges"]))


# ----------------------------------------------------------------------------- reconvergence


class ReScenario:
    def __init__(self, spec: Spec, build_ops: list, remin: list, research: list):
        # remin[i] = payload the i-th stored minimum re-minimises to;
        # research[j] = record the j-th stored TS (in build order of first appearance) re-converges to
        self.spec, self.build_ops, self.remin, self.research = spec, build_ops, remin, research

    def as_dict(self, fail) -> dict:
        return {"spec": self.spec.as_dict(), "build": base._ops_json(self.build_ops),
                "remin": [_plain(p) for p in self.remin],
                "research": [[_plain(x) for x in rec] for rec in self.research], "fail": sorted(fail), "scenario": "reconverge"}

    @staticmethod
    def from_dict(d: dict) -> "ReScenario":
        return ReScenario(Spec.from_dict(d["spec"]), base._ops_from_json(d["build"]), [_pt(p) for p in d["remin"]],
                          [tuple(_pt(x) for x in rec) for rec in d["research"]])


def gen_rescenario(rng, max_ts: int) -> ReScenario:
    spec = rng.choice(base.dyadic_specs())
    while True:
        build = [op for op in base.gen_stream(spec, rng, rng.randrange(3, 10), with_merge=False) if op[0] in ("min", "ts")]
        impl = Impl(spec, None, {})
        for op in build:
            base.apply_op(impl, op)
        if 1 <= impl.ktn.n_minima and impl.ktn.n_ts <= max_ts and distinct_coords(impl.ktn):
            break
    k = impl.ktn
    stored = [(np.array(k.get_minimum_coords(i)), float(k.get_minimum_energy(i))) for i in range(k.n_minima)]
    remin = []
    for p in stored:
        r = rng.random()
        if r < 0.4:
            remin.append((p[0].copy(), p[1]))
        elif r < 0.6 and remin:
            q = rng.choice(remin)                      # two minima collapse onto one
            tag, off = rng.choice(base.offsets(spec, rng))
            remin.append((q[0] + off, q[1]))
        else:
            c, _ = base.candidate(spec, rng, stored)
            remin.append(c)
    research = []
    for u, v in k.G.edges():
        ts, _ = base.candidate(spec, rng, [(np.array(k.G[u][v]['coords']), float(k.G[u][v]['energy']))] +
                               [r[0] for r in research])
        plus, _ = base.candidate(spec, rng, remin)
        minus = (plus[0].copy(), plus[1]) if rng.random() < 0.2 else base.candidate(spec, rng, remin + [plus])[0]
        research.append((ts, plus, minus))
    return ReScenario(spec, build, remin, research)


def run_reconverge(rs: ReScenario, fail: set, what: str, batch: Batch | None, meta: dict):
    """the REAL reconverge_landscape / reconverge_minima with scripted minimiser and re-search"""
    from topsearch.sampling import exploration
    impl = Impl(rs.spec, batch, meta)
    saved, impl.batch = impl.batch, None
    for op in rs.build_ops:
        base.apply_op(impl, op)
    impl.batch = saved
    k = impl.ktn
    sim = LoggingSimilarity(rs.spec.dc, rs.spec.ec, proportional_distance=(rs.spec.kind == "prop"))
    edge_order = [(int(u), int(v)) for u, v in k.G.edges()]
    if batch is not None:
        m = {**impl.meta, "nontrivial": False}
        for l in k.G.nodes:
            batch.send(f"addmin {impl.t((k.G.nodes[l]['coords'], k.G.nodes[l]['energy']))}", None, m)
        for u, v in edge_order:
            batch.send(f"addts {impl.t((k.G[u][v]['coords'], k.G[u][v]['energy']))} {u} {v}", None, m)
        batch.send("hist -", impl.state(), m)
    by_min = {np.asarray(k.get_minimum_coords(i), dtype=float).tobytes(): rs.remin[i] for i in range(k.n_minima)}
    by_ts, outs = {}, []
    for j, (u, v) in enumerate(edge_order):
        ts, plus, minus = rs.research[j]
        key = np.asarray(k.G[u][v]['coords'], dtype=float).tobytes()
        if j in fail:
            by_ts[key] = FAIL7
            outs.append(None)
        else:
            by_ts[key] = (np.array(ts[0]), ts[1], np.array(plus[0]), plus[1], np.array(minus[0]), minus[1], -1.0)
            outs.append((ts, plus, minus))
    ns = exploration.NetworkSampling(k, impl.coords, None, ScriptedReSearch(by_ts), None, sim)
    before = snapshot(k)
    # the model gets the re-minimised minima in index order and the re-search outcomes in the order
    # G.edges() had before the reset
    impl.model_line = None
    if batch is not None:
        mins = ",".join(impl.t(p) for p in rs.remin[:before["n"]]) or "-"
        if what == "minima":
            impl.model_line = f"reconvmin {mins}"
        else:
            toks = ["x" if o is None else "+".join(impl.t(x) for x in o) for o in outs]
            impl.model_line = f"reconvland {mins} " + (",".join(toks) if toks else "-")
    real_lbfgs = exploration.lbfgs
    exploration.lbfgs = ScriptedMinimiser(by_min)
    impl.error = None
    try:
        if what == "landscape":
            ns.reconverge_landscape(DummyPotential(), 1e-6)
        else:
            ns.reconverge_minima(DummyPotential(), 1e-6)
    except Exception as e:                      # an aborted reconvergence is an observation
        impl.error = e
    finally:
        exploration.lbfgs = real_lbfgs
    return impl, sim, before, outs


def check_reconverge(rs: ReScenario, fail: set, what: str) -> tuple[str, str, dict] | None:
    """from the statement: never aborts on failed re-searches; every successful re-search contributed
    (the merge calls are exactly the successful ones, in order, each a no-op if repeated, else stored
    between minima matching its two); every re-minimised minimum is represented; stored points
    pairwise non-matching; counts coherent."""
    impl, sim, before, outs = run_reconverge(rs, fail, what, None, {})
    if impl.error is not None:
        e = impl.error
        if fail:
            return ("reconverge-failed-search-aborts", f"reconverge_{what} aborted with {type(e).__name__} "
                    f"when a re-search failed: {e}", {})
        return (f"reconverge_{what}:raises", f"aborted with {type(e).__name__}: {e}", {})
    k = impl.ktn
    after = snapshot(k)

    def same(p, q) -> bool:
        c = copy.deepcopy(impl.coords)
        c.position = np.array(p[0], dtype=float)
        return bool(sim.test_same(c, np.array(q[0], dtype=float), float(p[1]), float(q[1])))

    exp = [o for o in outs if o is not None] if what == "landscape" else []
    got = [ev[1] for ev in sim.events]
    if len(exp) != len(got) or any(r2 is None or not all(_eq(a, b) for a, b in zip(r1, r2)) for r1, r2 in zip(exp, got)):
        return (f"reconverge_{what}:merged-set", f"{len(exp)} successful re-searches but {len(got)} merged", {})
    for i, (b, rec, a) in enumerate(sim.events):
        ts, plus, minus = rec
        if any(same(ts, x) for x in b["edges"].values()):
            if not snap_eq(a, b):
                return ("test_new_ts:repeat-changes-network", "a repeated transition state changed the network", {"event": i})
        else:
            hit = [e for e, x in a["edges"].items() if _eq(x, ts)]
            if len(hit) != 1:
                return ("test_new_ts:new-not-stored", f"a new transition state is stored {len(hit)} times", {"event": i})
            u, v = hit[0]
            def rep(x, y):
                return _eq(x, y) or same(y, x)
            if not ((rep(a["mins"][u], plus) and rep(a["mins"][v], minus)) or
                    (rep(a["mins"][u], minus) and rep(a["mins"][v], plus))):
                return ("test_new_ts:wrong-endpoints", "wrong end points", {"event": i})
    if after["n"] != len(after["mins"]) or after["labels"] != list(range(after["n"])) or after["nts"] != len(after["edges"]):
        return (f"reconverge_{what}:counts", f"n={after['n']}/{len(after['mins'])} ts={after['nts']}/{len(after['edges'])}", {})
    for p in rs.remin[:before["n"]]:
        if not any(_eq(q, p) or same(p, q) for q in after["mins"]):
            return (f"reconverge_{what}:minimum-not-represented", "a re-minimised minimum matches no stored one", {})
    for (i, x), (j, y) in itertools.permutations(enumerate(after["mins"]), 2):
        if same(x, y):
            return ("ts-same-new-minimum-twice" if what == "landscape" else f"reconverge_{what}:stored-minima-match",
                    f"stored minima {i} and {j} match each other after the reconvergence", {})
    for (i, x), (j, y) in itertools.permutations(enumerate(list(after["edges"].values())), 2):
        if same(x, y):
            return (f"reconverge_{what}:stored-ts-match", "two stored transition states match", {})
    if after["pl"]:
        return (f"reconverge_{what}:history", "history not emptied by the reset", {})
    return None


# ----------------------------------------------------------------------------- correspondence


def masks_for(sc_searches: list, limit: int, rng, extra: int) -> list[set]:
    n = len(sc_searches)
    if n <= limit:
        return [set(s for s, bit in zip(sc_searches, m) if bit) for m in itertools.product((0, 1), repeat=n)]
    out = [set(), set(sc_searches)]
    for _ in range(extra):
        out.append({s for s in sc_searches if rng.random() < 0.4})
    return out


def correspond(ctx: Ctx) -> None:
    rng = ctx.rng
    np.random.seed(rng.randrange(1 << 30))
    batch = Batch()
    limit = ctx.scale(4, 6)
    sid = 0
    rounds = {"serial": 0, "parallel": 0}
    scen = [s for _, s in corpus_rounds()]
    scen += [gen_scenario(rng, limit) for _ in range(ctx.scale(10, 40))]
    scen += [gen_scenario(rng, 9) for _ in range(ctx.scale(3, 15))]          # beyond exhaustive: random subsets
    for sc in scen:
        ms = masks_for(sc.searches, limit, rng, ctx.scale(4, 12))
        for mi, fail in enumerate(ms):
            modes = [("serial", 0)]
            # parallel mode costs a pool start per round: every mask in thorough, a third in quick
            if ctx.thorough or mi % 3 == 0 or len(ms) <= 4:
                modes.append(("parallel", rng.choice((2, 3, 4))))
            for mode, nproc in modes:
                sid += 1
                meta = {"stream": f"round{sid}", "label": f"round-{mode}"}
                impl, ns, sim, before, allowed0, double = run_round(sc, fail, mode, nproc, batch, meta)
                st = impl.state() if impl.error is None else f"raise:{type(impl.error).__name__}"
                tag = f"searches{len(sc.searches)}:fail{len(fail)}"
                batch.send(round_line(sc, mode), st,
                           {**meta, "mode": sc.spec.kind, "tag": tag, "nontrivial": len(sc.searches) > len(fail),
                            "replay": sc.as_dict(sorted(fail), mode, nproc)})
                rounds[mode] += 1
    # reconvergence
    res = [r for _, r in corpus_reconverge()]
    res += [gen_rescenario(rng, limit) for _ in range(ctx.scale(10, 40))]
    nre = 0
    for rs in res:
        nts = len(rs.research)
        for m in itertools.product((0, 1), repeat=nts):
            fail = {j for j, bit in enumerate(m) if bit}
            for what in ("landscape", "minima") if not fail else ("landscape",):
                sid += 1
                nre += 1
                meta = {"stream": f"reconv{sid}", "label": f"reconverge-{what}"}
                impl, sim, before, outs = run_reconverge(rs, fail, what, batch, meta)
                st = impl.state() if impl.error is None else f"raise:{type(impl.error).__name__}"
                batch.send(impl.model_line, st, {**meta, "mode": rs.spec.kind, "tag": f"ts{nts}:fail{len(fail)}",
                                                 "nontrivial": True, "replay": rs.as_dict(fail)})
    ctx.stats.notes.update({"rounds_serial": rounds["serial"], "rounds_parallel": rounds["parallel"],
                            "reconvergences": nre, "exhaustive_failure_subsets_up_to": limit})
    batch.run(ctx)


# ----------------------------------------------------------------------------- corpus


def corpus_rounds() -> list[tuple[str, Scenario]]:
    s2 = Spec("abs", 0.625, 0.125, [(-3.0, 3.0), (-3.0, 3.0)])
    a = (np.array([0.0, 0.0]), 0.0)
    b = (np.array([2.0, 0.0]), 0.5)
    c = (np.array([0.0, 2.0]), 1.0)
    m = (np.array([1.0, 1.0]), 1.5)
    t1 = (np.array([0.5, 0.5]), 2.0)
    t2 = (np.array([1.0, -0.5]), 3.0)
    t3 = (np.array([1.5, 1.5]), 4.0)
    build = [("min", a), ("min", b), ("min", c)]
    return [
        # (a) a TS whose two sides reach the same new minimum (was stored twice)
        ("ts-same-new-minimum", Scenario(s2, build, [], [(0, 1)], {(0, 1): [(t1, m, (m[0].copy(), m[1]))]})),
        # (c) second TS on a connected pair within one round and across the initial network (count drift)
        ("second-ts-on-pair", Scenario(s2, build + [("ts", t3, a, b)], [], [(0, 2), (1, 2)],
                                       {(0, 2): [(t1, a, b)], (1, 2): [(t2, b, a), (t1, c, b)]})),
        # self-pair, repeated pair, reversed pair, pair tried three times already, empty outcome list
        ("pairs", Scenario(s2, build, [(0, 1)] * 3 + [(1, 2)], [(0, 0), (0, 1), (1, 2), (2, 1), (1, 2), (0, 2)],
                           {(0, 0): [(t3, a, a)], (0, 1): [(t1, a, b)], (1, 2): [(t2, b, c), (t3, b, m)],
                            (2, 1): [(t1, c, b)], (0, 2): []})),
        # both minima new and different (their insertion order fixes the labels), then reused
        ("two-new-minima", Scenario(s2, build, [], [(0, 1), (2, 0)],
                                    {(0, 1): [(t1, m, (np.array([-1.0, -1.0]), 0.25))],
                                     (2, 0): [(t2, (np.array([-1.0, -1.0]), 0.25), m), (t3, (np.array([2.5, 2.5]), 0.0), a)]})),
        ("empty-round", Scenario(s2, build, [], [], {})),
    ]


def corpus_reconverge() -> list[tuple[str, ReScenario]]:
    s2 = Spec("abs", 0.625, 0.125, [(-3.0, 3.0), (-3.0, 3.0)])
    a = (np.array([0.0, 0.0]), 0.0)
    b = (np.array([2.0, 0.0]), 0.5)
    c = (np.array([0.0, 2.0]), 1.0)
    t1 = (np.array([0.5, 0.5]), 2.0)
    t2 = (np.array([1.0, -0.5]), 3.0)
    a2 = (np.array([0.0625, 0.0]), 0.0)
    build = [("min", a), ("min", b), ("min", c), ("ts", t1, a, b), ("ts", t2, b, c)]
    return [
        # (b) one failed re-search (raised TypeError before the repair): every failure subset is run
        ("failed-research", ReScenario(s2, build, [a2, b, (b[0] + 0.0625, b[1])], [(t1, a2, b), (t2, b, c)])),
        ("single-minimum", ReScenario(s2, [("min", a)], [a2], [])),
    ]


# ----------------------------------------------------------------------------- predicates / replay


def predicates(ctx: Ctx) -> None:
    rng = ctx.rng
    np.random.seed(rng.randrange(1 << 30))
    limit = ctx.scale(4, 6)
    deep = 4 if getattr(ctx, "deep_search", False) else 1
    for name, sc in corpus_rounds():
        for fail in masks_for(sc.searches, 6, rng, 0):
            for mode, nproc in (("serial", 0), ("parallel", 2)):
                r = check_round(sc, fail, mode, nproc)
                ctx.stats.case({"stream": "predicate-corpus", "name": name, "mode": mode, "fail": len(fail)}, True)
                if r:
                    ctx.fail(r[0], f"[{name}] {r[1]}", {**sc.as_dict(sorted(fail), mode, nproc), **r[2]})
    for name, rs in corpus_reconverge():
        for m in itertools.product((0, 1), repeat=len(rs.research)):
            fail = {j for j, bit in enumerate(m) if bit}
            for what in ("landscape", "minima"):
                r = check_reconverge(rs, fail, what)
                ctx.stats.case({"stream": "predicate-corpus", "name": name, "what": what, "fail": len(fail)}, True)
                if r:
                    ctx.fail(r[0], f"[{name}] {r[1]}", {**rs.as_dict(fail), "what": what, **r[2]})
    for i in range(ctx.scale(12, 60) * deep):
        sc = gen_scenario(rng, limit if i % 4 else 9)
        for mi, fail in enumerate(masks_for(sc.searches, limit, rng, 4)):
            modes = [("serial", 0)] + ([("parallel", rng.choice((2, 3, 4)))] if (mi % 4 == 0 or ctx.thorough) else [])
            for mode, nproc in modes:
                r = check_round(sc, fail, mode, nproc)
                ctx.stats.case({"stream": "predicate-round", "mode": mode, "searches": len(sc.searches),
                                "fail": len(fail)}, True)
                if r:
                    ctx.fail(r[0], r[1], {**sc.as_dict(sorted(fail), mode, nproc), **r[2]})
    for i in range(ctx.scale(12, 60) * deep):
        rs = gen_rescenario(rng, limit)
        for m in itertools.product((0, 1), repeat=len(rs.research)):
            fail = {j for j, bit in enumerate(m) if bit}
            r = check_reconverge(rs, fail, "landscape")
            ctx.stats.case({"stream": "predicate-reconverge", "ts": len(rs.research), "fail": len(fail)}, True)
            if r:
                ctx.fail(r[0], r[1], {**rs.as_dict(fail), "what": "landscape", **r[2]})


def replay(ctx: Ctx, data: dict) -> bool:
    if "spec" not in data:
        for d in data.get("divergences") or []:
            if d.get("replay_ops"):
                data = d["replay_ops"]
                break
        else:
            print("  nothing to replay on the real code (proof obligation / correspondence record)")
            return True
    if data.get("scenario") == "reconverge" or "remin" in data:
        rs = ReScenario.from_dict(data)
        r = check_reconverge(rs, set(data.get("fail", [])), data.get("what", "landscape"))
    else:
        sc = Scenario.from_dict(data)
        fail = {(tuple(p), int(j)) for p, j in data.get("mask", [])}
        r = check_round(sc, fail, data.get("mode", "serial"), int(data.get("nproc", 2) or 2))
    if r:
        print(f"  {r[0]}: {r[1]}")
    return r is None
