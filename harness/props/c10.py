"""C10 — local minimisation respects the box, never goes uphill, reports truthfully.

`lbfgs.minimise` is a ten-line forwarding wrapper around scipy.optimize.fmin_l_bfgs_b.

Tie #1: translate.lbfgs_wiring reads the keyword map of the call, the `args is None` default and
the return statement into Gen/Lbfgs.lean; `C10_wiring` proves it equal to the expected record and
`C10_wiring_forwarded/_returns` give the record its meaning.
Tie #2 (a) wiring: scipy.optimize.fmin_l_bfgs_b is replaced *from outside* by a recorder and every
forwarded keyword is compared with the model's call record (obtained from Drivers/Lbfgs.lean) for
random parameter values; (b) contract validation: the real `minimise` on quadratics, Camelback,
Schwefel, random cosine sums and linear objectives, with finite / half-infinite / infinite boxes,
tolerances, iteration limits and extra `args`; the model's `inBox` / `projGrad` / `supNorm`
(executed at Rat on the exact values of the returned floats) are compared with numpy's
`x - clip(x - g, l, u)`.
Nothing is proved about scipy's compiled optimiser: the contract `LBFGSB` is sampled.
"""
from __future__ import annotations

import math
import random
from fractions import Fraction

import numpy as np

from common import Ctx, frac, run_driver
from translate import lbfgs_wiring

PROP = "C10"
LEAN_MODULE = "TopSearch.Props.C10"
LEAN_FILES = ["TopSearch.Props.C10", "TopSearch.Model.Lbfgs"]
EXTRA_TARGETS = ["TopSearch.Gen.Lbfgs", "TopSearch.Drv.Util"]
REQUIRED = [
    "TopSearch.Props.C10.C10_wiring",
    "TopSearch.Props.C10.C10_wiring_forwarded",
    "TopSearch.Props.C10.C10_wiring_returns",
    "TopSearch.Props.C10.C10_from_contract",
    "TopSearch.Props.C10.C10_projgrad",
    "TopSearch.Props.C10.C10_projgrad_interior",
    "TopSearch.Props.C10.C10_projgrad_clip",
]
RULE = ("cases = (a) one recorded call of the patched fmin_l_bfgs_b per random parameter set, compared "
        "keyword by keyword with the model's call record; (b) one real minimisation per (objective, box, "
        "start, tolerance, limits, args) with the model's inBox/projGrad/supNorm evaluated exactly on the "
        "returned floats; non-trivial = the optimiser moved away from the start point; distinct = distinct "
        "(objective kind, dimension, box kind, exit task, number of active bounds, args length) + inputs")
ASSUMPTIONS = [
    "LBFGSB contract of scipy.optimize.fmin_l_bfgs_b (scipy 1.13.1): started inside the box the result is "
    "inside the box, f is the objective's value at the returned x, f <= f(x0), on the "
    "NORM_OF_PROJECTED_GRADIENT_<=_PGTOL exit with warnflag 0 the projected gradient's sup-norm is <= pgtol, "
    "the objective is only ever called with the args passed in — sampled on every run, never proved",
    "projected gradient = subroutine projgr of L-BFGS-B 3.0 (= x - clip(x - g, l, u) inside the box)",
]
TRUSTED_EXTRA = ["scipy.optimize.fmin_l_bfgs_b (compiled L-BFGS-B): oracle with contract LBFGSB, validated by sampling"]
PARTIAL = ("no theorem says anything about scipy's compiled optimiser: the proof covers the wiring of the "
           "wrapper (read from the source) and the derivation of the property's clauses from the contract "
           "LBFGSB; the contract itself is only sampled against the real library on every run")

SIGNATURE = ["func", "x0", "fprime", "args", "approx_grad", "bounds", "m", "factr", "pgtol", "epsilon",
             "iprint", "maxfun", "maxiter", "disp", "callback", "maxls"]


def regenerate(ctx: Ctx) -> None:
    ctx.gen_status.update(lbfgs_wiring.regenerate())


# ----------------------------------------------------------------------------- wiring (recorder)


def model_record() -> dict:
    out = run_driver("Lbfgs", ["record model"])[0]
    rec = {"kw": {}}
    for tok in out.split(" "):
        k, v = tok.split("=", 1)
        if k in ("callee", "argsdefault", "single", "returns"):
            rec[k] = v
        else:
            rec["kw"][k] = v
    return rec


def wiring_case(rng: random.Random, rec: dict) -> tuple[dict, str | None]:
    """one call of the real wrapper with fmin_l_bfgs_b replaced by a recorder"""
    import scipy.optimize
    from topsearch.minimisation import lbfgs
    seen = {}
    sentinel = (object(), object(), object())

    import inspect
    defaults = {k: p.default for k, p in inspect.signature(scipy.optimize.fmin_l_bfgs_b).parameters.items()
                if p.default is not inspect.Parameter.empty}

    def recorder(*a, **kw):
        bound = dict(zip(SIGNATURE, a))
        for k, v in kw.items():
            if k in bound:
                bound["_dup"] = k
            bound[k] = v
        for k in list(bound):      # a keyword bound to scipy's own default is the same call
            if k in defaults and k not in rec["kw"] and (bound[k] is defaults[k] or (
                    isinstance(bound[k], (int, float)) and not isinstance(defaults[k], type(None))
                    and bound[k] == defaults[k])):
                del bound[k]
        seen["calls"] = seen.get("calls", 0) + 1
        seen["bound"] = bound
        return sentinel

    def fg(x, *extra):
        return 0.0, np.zeros_like(x)

    dim = rng.randrange(1, 5)
    given = {
        "func_grad": fg,
        "initial_position": np.array([rng.uniform(-1, 1) for _ in range(dim)]),
        "bounds": [(rng.uniform(-3, -1), rng.uniform(1, 3)) for _ in range(dim)],
        "conv_crit": 10.0 ** rng.uniform(-9, -1),
        "history_size": rng.randrange(1, 40),
        "n_steps": rng.randrange(41, 900),        # never equal to history_size: a swap is visible
    }
    mode = rng.randrange(4)
    if mode == 0:
        given["args"] = [rng.random() for _ in range(rng.randrange(0, 4))]
    elif mode == 1:
        given["args"] = None
    elif mode == 2:
        given["args"] = [object(), "tag", rng.randrange(100)]
    orig = scipy.optimize.fmin_l_bfgs_b
    scipy.optimize.fmin_l_bfgs_b = recorder
    try:
        if rng.random() < 0.3:
            order = ["func_grad", "initial_position", "bounds", "conv_crit", "history_size", "n_steps", "args"]
            pos = [given[k] for k in order if k in given]
            got = lbfgs.minimise(*pos)
        else:
            got = lbfgs.minimise(**given)
    except Exception as e:
        return {"stream": "wiring", "dim": dim, "args_mode": mode}, \
            f"minimise raised {type(e).__name__} around the recorded call: {e}"
    finally:
        scipy.optimize.fmin_l_bfgs_b = orig
    canon = {"stream": "wiring", "dim": dim, "args_mode": mode}
    if seen.get("calls") != 1:
        return canon, f"fmin_l_bfgs_b called {seen.get('calls', 0)} times"
    bound = seen["bound"]
    if "_dup" in bound:
        return canon, f"keyword {bound['_dup']} given twice"
    if set(bound) != set(rec["kw"]):
        return canon, f"keywords {sorted(bound)} but the model binds {sorted(rec['kw'])}"
    for k, v in rec["kw"].items():
        got_v = bound[k]
        if v.startswith("param:"):
            p = v[6:]
            if p == "args":
                want = given.get("args")
                if want is None:
                    # scipy calls func(x, *args): an empty list and an empty tuple both mean "no extra argument"
                    if not (type(got_v) in (list, tuple) and len(got_v) == 0):
                        return canon, f"args omitted/None reached the callee as {got_v!r}, the model says an empty sequence"
                elif got_v is not want:
                    return canon, "args reached the callee as a different object"
            else:
                want = given[p]
                same = got_v is want or (isinstance(want, (int, float)) and type(got_v) is type(want) and got_v == want)
                if not same:
                    return canon, f"keyword {k} received {got_v!r}, the model forwards {p} = {want!r}"
        elif v.startswith("lit:"):
            want = Fraction(v[4:])
            if isinstance(got_v, bool) or not isinstance(got_v, (int, float)) or Fraction(repr(got_v)) != want:
                return canon, f"keyword {k} received {got_v!r}, the model says the literal {want}"
        else:
            return canon, f"model value {v} for {k}"
    if not (isinstance(got, tuple) and len(got) == 3 and all(a is b for a, b in zip(got, sentinel))):
        return canon, "the callee's triple is not returned unchanged"
    return canon, None


# ----------------------------------------------------------------------------- objectives and cases


class Case:
    """one minimisation problem, built deterministically from a seed"""

    def __init__(self, seed: int, force_kind: str | None = None):
        rng = random.Random(seed)
        self.seed = seed
        self.force_kind = force_kind
        kinds = ["quadratic", "quadratic-outside", "cosine", "linear", "camelback", "schwefel", "styblinski", "wallwell"]
        self.kind = rng.choice(kinds)
        if force_kind:
            self.kind = force_kind
        if self.kind == "camelback":
            dim = 2
        elif self.kind == "styblinski":
            dim = rng.choice([2, 2, 3])
        elif self.kind == "wallwell":
            dim = rng.randrange(1, 4)
        elif self.kind == "schwefel":
            dim = rng.randrange(1, 4)
        else:
            dim = rng.randrange(1, 6)
        self.dim = dim
        nr = np.random.RandomState(rng.getrandbits(31))
        self.boxkind = rng.choice(["finite", "finite", "half", "infinite", "mixed"])
        if self.kind in ("linear", "styblinski", "wallwell"):
            self.boxkind = "finite"
        if self.kind == "camelback":
            base = [(-3.0, 3.0), (-2.0, 2.0)]
        elif self.kind == "styblinski":
            # the unconstrained minima sit at x = -2.9035 (and 2.7468): with the first coordinate confined to
            # [-2, 2] the constrained minima lie on its faces, and tight tolerances end in abnormal line searches
            base = [(-2.0, 2.0)] + [(-5.0, 5.0)] * (dim - 1)
        elif self.kind == "wallwell":
            # a box of large extent with the minimum a few thousandths inside one of its walls
            base = []
            for _ in range(dim):
                w = rng.choice([500.0, 800.0, 1000.0])
                base.append((0.0, w) if rng.random() < 0.6 else (-w, 0.0) if rng.random() < 0.5 else (-w, w))
        elif self.kind == "schwefel":
            base = [(-500.0, 500.0)] * dim
        else:
            base = [tuple(sorted((rng.uniform(-4, 0), rng.uniform(0.5, 4)))) for _ in range(dim)]
            # special values on purpose: a face exactly at 0.0 (falsy), at +-1, at an integer
            base = [((0.0, hi) if r < 0.2 else (lo, 0.0) if r < 0.3 else (-1.0, 1.0) if r < 0.35 else (lo, hi))
                    for (lo, hi), r in ((b, rng.random()) for b in base)]
        bounds = []
        for lo, hi in base:
            k = self.boxkind if self.boxkind != "mixed" else rng.choice(["finite", "half", "infinite"])
            if k == "finite":
                bounds.append((lo, hi))
            elif k == "half":
                openv = rng.choice([None, None, "inf"])           # scipy accepts None and +-inf for an open side
                if rng.random() < 0.5:
                    bounds.append((lo, None if openv is None else float("inf")))
                else:
                    bounds.append((None if openv is None else float("-inf"), hi))
            else:
                bounds.append((None, None))
        self.bounds = bounds
        x0 = np.array([rng.uniform(lo, hi) for lo, hi in base])
        if rng.random() < 0.2:           # start on the boundary
            j = rng.randrange(dim)
            side = rng.randrange(2)
            if bounds[j][side] is not None and math.isfinite(bounds[j][side]):
                x0[j] = bounds[j][side]
        self.x0 = x0
        self.conv_crit = rng.choice([1e-2, 1e-4, 1e-6, 1e-8, 1e-10])
        if self.kind == "styblinski":
            self.conv_crit = rng.choice([1e-6, 1e-9, 1e-12, 1e-13])
        if self.kind == "wallwell":
            self.conv_crit = rng.choice([1e-6, 1e-8])
        self.n_steps = rng.choice([1, 2, 5, 20, 200, 200, 200])
        self.history_size = rng.choice([1, 3, 5, 10])
        na = rng.choice([None, 0, 1, 2, 3])
        self.args = None if na is None else [float(rng.randrange(-8, 9)) / 4 for _ in range(na)]
        if self.args and rng.random() < 0.4:
            # extra arguments are the caller's objects, whatever they are: an int, a bool, and (ignored by the arithmetic
            # of the objective, but it must receive them as given) a label or an array
            k = rng.randrange(len(self.args))
            self.args[k] = rng.choice([2, -1, True, 3])
            if rng.random() < 0.5:
                self.args.append(rng.choice(["quartic", np.array([1.0, 2.0, 3.0]), ("a", 1)]))
        if self.kind in ("quadratic", "cosine", "styblinski") and self.boxkind == "finite" and rng.random() < 0.15:
            # a start written as integers (np.array([3, -4, 1])): an integer-typed array
            xi = np.array([int(np.clip(round(v), math.ceil(lo), math.floor(hi))) for v, (lo, hi) in zip(self.x0, bounds)])
            if all(lo <= v <= hi for v, (lo, hi) in zip(xi, bounds)):
                self.x0 = xi
        self.args_omitted = na is None and rng.random() < 0.5
        # parameters of the surface
        if self.kind in ("quadratic", "quadratic-outside"):
            m = nr.randn(dim, dim)
            self.A = m @ m.T + 0.2 * np.eye(dim)
            if self.kind == "quadratic":
                self.c = np.array([rng.uniform(lo, hi) for lo, hi in base])
            else:                        # unconstrained minimum outside the base box
                self.c = np.array([hi + rng.uniform(0.5, 3) if rng.random() < 0.5 else lo - rng.uniform(0.5, 3)
                                   for lo, hi in base])
        elif self.kind == "cosine":
            k = rng.randrange(2, 7)
            self.W = nr.randn(k, dim) * 2.0
            self.phi = nr.rand(k) * 2 * math.pi
            self.a = nr.randn(k)
        elif self.kind == "linear":
            self.w = nr.randn(dim) + 0.1
        elif self.kind == "wallwell":
            self.c = np.array([(hi - rng.uniform(1e-3, 8e-3)) if (rng.random() < 0.5 or lo == 0.0) and hi != 0.0
                               else (lo + rng.uniform(1e-3, 8e-3)) for lo, hi in base])
            self.k = np.array([rng.uniform(0.5, 3.0) for _ in range(dim)])
        elif self.kind == "camelback":
            from topsearch.potentials.test_functions import Camelback
            self.pot = Camelback()
        elif self.kind == "schwefel":
            from topsearch.potentials.test_functions import Schwefel
            self.pot = Schwefel()
        self.received: list[tuple] = []

    def base(self, x: np.ndarray) -> tuple[float, np.ndarray]:
        if self.kind.startswith("quadratic"):
            d = x - self.c
            return float(0.5 * d @ self.A @ d), self.A @ d
        if self.kind == "cosine":
            t = self.W @ x + self.phi
            return float(self.a @ np.cos(t) + 0.05 * x @ x), -(self.a * np.sin(t)) @ self.W + 0.1 * x
        if self.kind == "linear":
            return float(self.w @ x), self.w.copy()
        if self.kind == "styblinski":
            return float(0.5 * np.sum(x ** 4 - 16.0 * x ** 2 + 5.0 * x)), 0.5 * (4.0 * x ** 3 - 32.0 * x + 5.0)
        if self.kind == "wallwell":
            d = x - self.c
            return float(0.5 * np.sum(self.k * d * d)), self.k * d
        f, g = self.pot.function_gradient(x)
        return float(f), np.array(g, dtype=float)

    def objective(self, x, *extra):
        """the extra arguments shift and tilt the surface so that losing them changes the answer"""
        self.received.append(extra)
        f, g = self.base(np.array(x, dtype=float))
        num = lambda v: isinstance(v, (bool, int, float, np.integer, np.floating))
        if len(extra) >= 1 and num(extra[0]):
            f += float(extra[0])
        if len(extra) >= 2 and num(extra[1]):
            f += float(extra[1]) * float(x[0])
            g = g.copy()
            g[0] += float(extra[1])
        return f, g

    def run(self):
        from topsearch.minimisation import lbfgs
        kw = dict(func_grad=self.objective, initial_position=self.x0.copy(), bounds=self.bounds,
                  conv_crit=self.conv_crit, history_size=self.history_size, n_steps=self.n_steps)
        if not self.args_omitted:
            kw["args"] = self.args
        self.received = []
        return lbfgs.minimise(**kw)

    def describe(self) -> dict:
        return {"case_seed": self.seed, "case_kind": self.force_kind, "kind": self.kind, "dim": self.dim, "box": self.boxkind,
                "bounds": [list(b) for b in self.bounds], "x0": self.x0.tolist(), "conv_crit": self.conv_crit,
                "n_steps": self.n_steps, "history_size": self.history_size, "args": repr(self.args),
                "args_omitted": self.args_omitted}


def task_of(d: dict) -> str:
    t = d.get("task", "")
    if isinstance(t, bytes):
        t = t.decode()
    t = t.replace("_", " ").upper()
    if "PROJECTED GRADIENT" in t:
        return "pgtol"
    if "REL REDUCTION" in t:
        return "relred"
    if t.startswith("STOP"):
        return "limit"
    return "abnormal"


def np_projgrad(bounds, x, g):
    lo = np.array([-np.inf if b[0] is None else b[0] for b in bounds])
    hi = np.array([np.inf if b[1] is None else b[1] for b in bounds])
    return x - np.clip(x - g, lo, hi)


VALUE_TOL = 1e-12


def same_value(f, fx) -> bool:
    """`the reported value equals the objective there`: bitwise in all but the abnormal line-search
    exits (warnflag 2: the previous iterate is restored and the value can differ by one ulp, seen in
    1 of 6000 probes), so equality is demanded to 1e-12 relative and the bitwise rate is reported."""
    return f == fx or abs(f - fx) <= VALUE_TOL * max(1.0, abs(f), abs(fx))


def same_object(a, b) -> bool:
    """the argument arrives as given: the very object, or an equal value of the same type"""
    if a is b:
        return True
    if type(a) is not type(b):
        return False
    if isinstance(a, np.ndarray):
        return a.dtype == b.dtype and a.shape == b.shape and bool(np.array_equal(a, b))
    return bool(a == b)


def clauses(case: Case) -> tuple[str, str, dict] | None:
    """the property's own predicate on one real minimisation (written from the statement)"""
    try:
        x, f, d = case.run()
    except Exception as e:
        return ("minimise-raises", f"minimise raised {type(e).__name__}: {e}", {})
    x = np.asarray(x, dtype=float)
    want_args = tuple(case.args) if case.args is not None else ()
    for r in case.received:
        if len(r) != len(want_args) or any(not same_object(a, b) for a, b in zip(r, want_args)):
            return ("args-changed", f"the objective received extra arguments {r!r} (types {[type(a).__name__ for a in r]}), "
                    f"the caller passed {want_args!r} (types {[type(a).__name__ for a in want_args]})", {})
    for j, (lo, hi) in enumerate(case.bounds):
        if (lo is not None and x[j] < lo) or (hi is not None and x[j] > hi):
            return ("outside-box", f"coordinate {j} of the result = {x[j]!r} is outside [{lo}, {hi}]", {})
    fx, gx = case.objective(x, *want_args)
    if not same_value(f, fx):
        return ("value-mismatch", f"reported value {f!r} but the objective at the returned point is {fx!r}", {})
    f0, _ = case.objective(case.x0, *want_args)
    if not (f <= f0 + VALUE_TOL * max(1.0, abs(f0))):
        return ("uphill", f"reported value {f!r} is above the value at the start {f0!r}", {})
    if task_of(d) == "pgtol" and d.get("warnflag") == 0:
        pg = float(np.max(np.abs(np_projgrad(case.bounds, x, gx)))) if len(x) else 0.0
        if pg > case.conv_crit * (1 + 1e-12):
            return ("projgrad-above-tolerance",
                    f"convergence on the gradient criterion reported with projected gradient {pg!r} > {case.conv_crit!r}", {})
    return None


# ----------------------------------------------------------------------------- correspondence


def fmt_bounds(bounds) -> str:
    # an infinite bound is an open side for the model, exactly as None is for scipy
    op = lambda v: v is None or not math.isfinite(v)
    return ",".join(f"{'none' if op(lo) else frac(lo)}:{'none' if op(hi) else frac(hi)}" for lo, hi in bounds)


def fmt_vec(v) -> str:
    return ",".join(frac(float(t)) for t in v) if len(v) else "-"


def correspond(ctx: Ctx) -> None:
    rng = ctx.rng
    # (a) wiring against the model's call record
    rec = model_record()
    ctx.stats.notes["model_call_record"] = rec
    if rec.get("callee") != "1" or rec.get("argsdefault") != "1" or rec.get("returns") != "r0,r1,r2":
        ctx.diverge("wiring:model-record", f"unexpected model record {rec}", {})
    for _ in range(ctx.scale(60, 400)):
        s = rng.getrandbits(32)
        canon, err = wiring_case(random.Random(s), rec)
        ctx.stats.case({**canon, "seed": s}, True)
        ctx.stats.branch("wiring:" + ("ok" if err is None else "differs"))
        if err:
            ctx.diverge("wiring:forwarded-keywords", err, {"wiring_seed": s})
    # (b) contract validation + the model's box / projected-gradient definitions on real results
    n = ctx.scale(160, 1500)
    cases, lines, meta = [], [], []
    for _ in range(n):
        c = Case(rng.getrandbits(32))
        try:
            x, f, d = c.run()
        except Exception as e:
            ctx.diverge("contract:minimise-raises", f"{type(e).__name__}: {e}", c.describe())
            continue
        x = np.asarray(x, dtype=float)
        want_args = tuple(c.args) if c.args is not None else ()
        ncalls = len(c.received)
        args_ok = all(len(r) == len(want_args) and all(same_object(a, b) for a, b in zip(r, want_args)) for r in c.received)
        fx, gx = c.objective(x, *want_args)
        f0, _ = c.objective(c.x0, *want_args)
        cases.append((c, x, f, d, fx, gx, f0, args_ok, ncalls))
        lines.append(f"inbox {fmt_bounds(c.bounds)} {fmt_vec(x)}")
        lines.append(f"projgrad {fmt_bounds(c.bounds)} {fmt_vec(x)} {fmt_vec(gx)}")
    out = run_driver("Lbfgs", lines) if lines else []
    if len(out) != len(lines):
        ctx.diverge("lbfgs-driver-length", f"driver answered {len(out)} lines for {len(lines)}", {})
        return
    for i, (c, x, f, d, fx, gx, f0, args_ok, ncalls) in enumerate(cases):
        inbox_model = out[2 * i]
        pgline = out[2 * i + 1]
        task = task_of(d)
        warn = d.get("warnflag")
        lo = np.array([-np.inf if b[0] is None else b[0] for b in c.bounds])
        hi = np.array([np.inf if b[1] is None else b[1] for b in c.bounds])
        inbox_py = bool(np.all(x >= lo) and np.all(x <= hi))
        active = int(np.sum((x == lo) | (x == hi)))
        moved = bool(np.any(x != c.x0))
        ctx.stats.case({"stream": "contract", "kind": c.kind, "dim": c.dim, "box": c.boxkind, "task": task,
                        "warnflag": warn, "active": active, "nargs": None if c.args is None else len(c.args),
                        "seed": c.seed}, moved)
        ctx.stats.branch(f"task:{task}/warn{warn}")
        ctx.stats.branch(f"kind:{c.kind}")
        ctx.stats.branch(f"box:{c.boxkind}")
        ctx.stats.branch("active-bounds" if active else "interior")
        ctx.stats.traces += 1
        # model definitions vs numpy on the real result
        if inbox_model not in ("0", "1") or (inbox_model == "1") != inbox_py:
            ctx.diverge("model:inBox", f"model inBox={inbox_model}, numpy says {inbox_py}", c.describe())
        try:
            pg_tok, sup_tok = pgline.split(" ")
            pg_model = [Fraction(t) for t in pg_tok[3:].split(",")] if pg_tok[3:] != "-" else []
            sup_model = Fraction(sup_tok[4:])
        except Exception:
            ctx.diverge("model:projGrad-parse", f"driver said `{pgline[:80]}`", c.describe())
            continue
        pg_py = np_projgrad(c.bounds, x, gx)
        scale = max(1.0, float(np.max(np.abs(gx))) if len(gx) else 1.0, float(np.max(np.abs(x))))
        if inbox_py and (len(pg_model) != len(pg_py) or any(abs(float(a) - b) > 1e-9 * scale for a, b in zip(pg_model, pg_py))):
            ctx.diverge("model:projGrad", f"model projected gradient {[float(a) for a in pg_model]} / numpy "
                        f"x-clip(x-g) {pg_py.tolist()}", c.describe())
        # the contract, clause by clause
        ctx.contract("LBFGSB.in-box", inbox_model == "1")
        v_ok = same_value(f, fx)
        d_ok = f <= f0 + VALUE_TOL * max(1.0, abs(f0))
        ctx.contract("LBFGSB.f==objective(x)", v_ok)
        ctx.contract("LBFGSB.f==objective(x) bitwise (informative; 'failed' = equal only to 1e-12)", f == fx)
        ctx.contract("LBFGSB.f<=f(x0)", d_ok)
        ctx.contract("LBFGSB.args-pass-through", args_ok)
        ok_pg = True
        if task == "pgtol" and warn == 0:
            margin = float(sup_model) - c.conv_crit
            if abs(margin) <= 1e-12 * c.conv_crit:
                ctx.stats.near_ties += 1
            else:
                ok_pg = margin < 0
            ctx.contract("LBFGSB.projgrad<=pgtol-on-pgtol-exit", ok_pg)
        if not (inbox_model == "1" and v_ok and d_ok and args_ok and ok_pg):
            ctx.diverge("contract:LBFGSB", f"contract clause failed on a {c.kind} objective "
                        f"(in-box {inbox_model}, f==f(x) {v_ok}, f<=f0 {d_ok}, args {args_ok}, pg {ok_pg})",
                        c.describe())


# ----------------------------------------------------------------------------- predicates


CORPUS_SEEDS = [1, 2, 3, 5, 8, 13, 21, 34]


def predicates(ctx: Ctx) -> None:
    rng = ctx.rng
    n = ctx.scale(120, 1000) * (4 if getattr(ctx, "deep_search", False) else 1)
    seeds = [(s, None) for s in CORPUS_SEEDS + [rng.getrandbits(32) for _ in range(n)]]
    # abnormal line-search exits (warnflag 2) are rare: about 1 in 100 tight-tolerance runs on this surface
    seeds += [(rng.getrandbits(32), "styblinski") for _ in range(ctx.scale(600, 4000))]
    for s, fk in seeds:
        c = Case(s, fk)
        r = clauses(c)
        ctx.stats.case({"stream": "predicate", "kind": c.kind, "dim": c.dim, "box": c.boxkind, "seed": s}, True)
        if r:
            ctx.fail(f"minimise:{r[0]}", f"{r[1]} ({c.kind} objective, {c.dim}-d, {c.boxkind} box)",
                     {**c.describe(), **r[2]})


def replay(ctx: Ctx, data: dict) -> bool:
    ok = True
    if "case_seed" in data:
        r = clauses(Case(int(data["case_seed"]), data.get("case_kind")))
        if r:
            print(f"  {r[0]}: {r[1]}")
            ok = False
    if "wiring_seed" in data:
        _, err = wiring_case(random.Random(int(data["wiring_seed"])), model_record())
        if err:
            print(f"  wiring: {err}")
            ok = False
    for d in data.get("divergences", []):
        if "case_seed" in d:
            r = clauses(Case(int(d["case_seed"]), d.get("case_kind")))
            if r:
                print(f"  {r[0]}: {r[1]}")
                ok = False
        if "wiring_seed" in d:
            _, err = wiring_case(random.Random(int(d["wiring_seed"])), model_record())
            if err:
                print(f"  wiring: {err}")
                ok = False
    return ok
