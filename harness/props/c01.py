"""C01 — the explored landscape is self-consistent (energies, box, stationarity, barriers).

Theorems (Props/C01.lean): assume–guarantee invariant over ANY sequence of pipeline operations
(gate offers of minima / search records / failures / merges / resets, and prunings): if every
offered point carries its guarantee (minimiser contract, C04's post-condition), the network only
ever holds good points and every stored transition state respects the barrier clause up to the
matching tolerance.
Correspondence (trace-driven): the real NetworkSampling pipeline runs on real surfaces with the
gate entry points, the store's removal/reset and the match relation wrapped from outside; the
logged stream is replayed through Model/Pipeline (Drivers/Pipeline.lean, the real match answers as
oracle answers) and the networks must agree after every public call; every logged offer is checked
against its guarantee (contract validation).
Predicates: the property's clauses re-evaluated on the REAL network after every public call.
"""
from __future__ import annotations

import math

import numpy as np

from common import Ctx, run_driver
from translate import ktn_cfg
from translate import hef as hef_tr

PROP = "C01"
LEAN_MODULE = "TopSearch.Props.C01Global"
LEAN_FILES = ["TopSearch.Props.C01", "TopSearch.Props.C01Compose", "TopSearch.Props.C01Global", "TopSearch.Lemmas.Pipeline", "TopSearch.Model.Pipeline"]
EXTRA_TARGETS = ["TopSearch.Model.Pipeline", "TopSearch.Gen.Ktn"]
P = "TopSearch.Props.C01."
REQUIRED = [P + n for n in ["C01_barrier_from_matching", "C01_ts_offer", "C01_minimum_offer", "C01_prune_one",
                            "C01_prune_preserves", "C01_step", "C01_inv", "C01_inv_current",
                            "C01_record_from_search", "C01_landscape_consistent", "C01_minimum_from_minimiser",
                            "goodBH_of_minimiser", "C01_minima_from_global_optimisation", "inBox_of_stdPerturb"]] + \
    ["TopSearch.Props.C04.C04_run_post", "TopSearch.Props.C08.C08_stored_subset_outputs",
     "TopSearch.Props.C10.C10_from_contract", "TopSearch.Props.C20.C20_std_step"]
RULE = ("cases = public pipeline calls (get_minima, get_transition_states with both schemes and bounds pruning, "
        "reconverge_minima, reconverge_landscape) in random order and repetition on real surfaces; after each call the "
        "logged offer stream is replayed through the model and the property's clauses are evaluated on the real "
        "network; non-trivial = the call changed the network or offered at least one point; distinct = distinct "
        "(surface, seed, call sequence prefix)")
ASSUMPTIONS = [
    "LBFGSB contract (result in box, reported value = objective there): every offered minimum is checked against it",
    "C04 post-condition of a successful single-ended search (converged against its own mask, energies = surface, "
    "minima not above the TS unless the push-off flag is set): every offered record is checked against it",
    "matching implies an energy difference below the energy criterion (true of StandardSimilarity.test_same)",
]
PARTIAL = ("that L-BFGS-B and the eigenvector-following iteration meet their contracts on a given surface is numerical "
           "runtime behaviour (validated on every offered point, not proved); finiteness is monitored only")
TRUSTED_EXTRA = ["the event log taken by wrapping test_new_minimum / test_new_ts / test_same / remove_minima / "
                 "reset_network from outside"]


def regenerate(ctx: Ctx) -> None:
    ctx.gen_status.update(ktn_cfg.regenerate())
    ctx.gen_status.update(hef_tr.regenerate())       # C01_record_from_search is about the current search kernel
    from translate import transcripts as _tr
    ctx.gen_status.update(_tr.constructor_wiring(['HybridEigenvectorFollowing', 'NudgedElasticBand', 'BasinHopping', 'NetworkSampling', 'StandardSimilarity', 'StandardPerturbation']))


# ----------------------------------------------------------------------------- surfaces


def make_surface(kind: str, rng):
    """(potential, bounds, label)"""
    from topsearch.potentials.potential import Potential
    from topsearch.potentials.test_functions import Camelback, Schwefel
    if kind == "camelback":
        return Camelback(), [(-3.0, 3.0), (-2.0, 2.0)], "Camelback"
    if kind == "schwefel":
        d = rng.choice([2, 2, 3])
        return Schwefel(), [(-500.0, 500.0)] * d, f"Schwefel-{d}d"
    d = rng.choice([2, 2, 3, 3, 4, 5])
    m = rng.randrange(3, 7)
    W = np.array([[rng.uniform(-2.2, 2.2) for _ in range(d)] for _ in range(m)])
    A = np.array([rng.uniform(0.4, 1.2) for _ in range(m)])
    PH = np.array([rng.uniform(0, 2 * math.pi) for _ in range(m)])
    tilt = np.array([rng.uniform(-0.6, 0.6) for _ in range(d)])     # pushes stationary points onto faces

    class Cos(Potential):
        def __init__(s):
            s.atomistic = False

        def function(s, x):
            return float(np.sum(A * np.cos(W @ x + PH)) + tilt @ x)

        def gradient(s, x):
            return -(A * np.sin(W @ x + PH)) @ W + tilt

        def function_gradient(s, x):
            return s.function(x), s.gradient(x)
    half = rng.choice([1.0, 1.5, 2.0])
    return Cos(), [(-half, half)] * d, f"cosine-{d}d"


# ----------------------------------------------------------------------------- instrumented pipeline


class Trace:
    """event log of one pipeline run (taken from outside)"""

    def __init__(self):
        self.tok: dict[bytes, str] = {}
        self.pts: dict[str, tuple] = {}
        self.events: list[str] = []
        self.answers: list[str] = []
        self.flagged: set[bytes] = set()
        self.offered_min: list[tuple] = []
        self.offered_rec: list[tuple] = []

    def token(self, coords, energy) -> str:
        c = np.asarray(coords, dtype=float)
        key = c.tobytes() + np.float64(energy).tobytes()
        if key not in self.tok:
            self.tok[key] = f"p{len(self.tok)}"
            self.pts[self.tok[key]] = (c.copy(), float(energy))
        return self.tok[key]


def build(ctx: Ctx, kind: str, rng, seed: int):
    from topsearch.data.coordinates import StandardCoordinates
    from topsearch.data.kinetic_transition_network import KineticTransitionNetwork
    from topsearch.global_optimisation.basin_hopping import BasinHopping
    from topsearch.global_optimisation.perturbations import StandardPerturbation
    from topsearch.sampling.exploration import NetworkSampling
    from topsearch.similarity.similarity import StandardSimilarity
    from topsearch.transition_states.hybrid_eigenvector_following import HybridEigenvectorFollowing
    from topsearch.transition_states.nudged_elastic_band import NudgedElasticBand
    np.random.seed(seed)
    pot, bounds, label = make_surface(kind, rng)
    coords = StandardCoordinates(ndim=len(bounds), bounds=bounds)
    span = bounds[0][1] - bounds[0][0]
    e_crit = rng.choice([1e-2, 1e-3]) * (100.0 if kind == "schwefel" else 1.0)
    sim = StandardSimilarity(rng.choice([0.02, 0.05]), e_crit, proportional_distance=True)
    ktn = KineticTransitionNetwork()
    step = StandardPerturbation(max_displacement=rng.choice([0.5, 1.0]), proportional_distance=True)
    bh = BasinHopping(ktn, pot, sim, step)
    ts_tol = rng.choice([1e-4, 1e-3]) * (10.0 if kind == "schwefel" else 1.0)
    hef = HybridEigenvectorFollowing(pot, ts_tol, rng.choice([40, 75]), pushoff=span * rng.choice([0.02, 0.05]),
                                     max_uphill_step_size=span * 0.1,
                                     positive_eigenvalue_step=span * 0.02)
    neb = NudgedElasticBand(pot, rng.choice([5.0, 20.0]), image_density=rng.choice([5.0, 10.0]) * 6.0 / span,
                            max_images=rng.choice([12, 20]), neb_conv_crit=1e-2)
    ns = NetworkSampling(ktn, coords, bh, hef, neb, sim)
    tr = Trace()
    # ---- wrap from outside
    real_min, real_ts, real_same = sim.test_new_minimum, sim.test_new_ts, sim.test_same
    current = {"cand": None}

    def t_same(c1, c2, e1, e2):
        r = real_same(c1, c2, e1, e2)
        a, b = tr.token(c1.position, e1), tr.token(c2, e2)
        tr.answers.append(f"{a}:{b}:{int(r)}")
        ctx.contract("match implies |dE| < energy criterion", (not r) or abs(e1 - e2) < sim.energy_criterion)
        return r

    def t_min(k, c, e):
        t = tr.token(c.position, e)
        tr.offered_min.append((c.position.copy(), float(e)))
        n0 = len(tr.answers)
        out = real_min(k, c, e)
        if tr.answers[n0:]:
            tr.events.append("oracle " + ",".join(tr.answers[n0:]))
        tr.events.append(f"min {t}")
        return out

    def t_ts(k, c, e_ts, mp, ep, mm, em):
        t, p, m = tr.token(c.position, e_ts), tr.token(mp, ep), tr.token(mm, em)
        tr.offered_rec.append((c.position.copy(), float(e_ts), np.array(mp, float), float(ep), np.array(mm, float), float(em)))
        n0 = len(tr.answers)
        out = real_ts(k, c, e_ts, mp, ep, mm, em)
        if tr.answers[n0:]:
            tr.events.append("oracle " + ",".join(tr.answers[n0:]))
        tr.events.append(f"ts {t} {p} {m}")
        return out
    sim.test_same, sim.test_new_minimum, sim.test_new_ts = t_same, t_min, t_ts
    real_rm, real_reset = ktn.remove_minima, ktn.reset_network

    def t_rm(ks):
        ks2 = [int(x) for x in ks]
        tr.events.append("prune " + (",".join(map(str, ks2)) if ks2 else "-"))
        return real_rm(ks)

    def t_reset():
        tr.events.append("reset")
        return real_reset()
    ktn.remove_minima, ktn.reset_network = t_rm, t_reset
    real_run = hef.run

    def t_run(c, tag=''):
        out = real_run(c, tag=tag) if tag != '' else real_run(c)
        if out[0] is not None and hef.failure == 'pushoff':
            tr.flagged.add(np.asarray(out[0], float).tobytes())
        return out
    hef.run = t_run
    cfg = {"label": label, "bounds": bounds, "e_crit": sim.energy_criterion, "ts_tol": ts_tol, "seed": seed}
    return ns, ktn, coords, pot, tr, cfg


CALLS = ["get_minima", "ts_closest", "ts_unconnected", "ts_closest_bounds", "ts_unconnected_allbounds",
         "reconverge_minima", "reconverge_landscape"]


def do_call(ns, coords, pot, name: str, rng, kind: str):
    steps = 12 if kind != "camelback" else 25
    if name == "get_minima":
        coords.position = coords.generate_random_point()
        ns.get_minima(coords, steps, 1e-5, rng.choice([0.5, 1.0, 100.0 if kind == "schwefel" else 1.0]), test_valid=rng.random() < 0.7)
    elif name == "ts_closest":
        ns.get_transition_states('ClosestEnumeration', rng.choice([1, 2]), remove_bounds_minima=False)
    elif name == "ts_unconnected":
        ns.get_transition_states('ConnectUnconnected', rng.choice([1, 2]), remove_bounds_minima=False)
    elif name == "ts_closest_bounds":
        ns.get_transition_states('ClosestEnumeration', 1, remove_bounds_minima=True)
    elif name == "ts_unconnected_allbounds":
        ns.get_transition_states('ConnectUnconnected', 1, remove_bounds_minima=True, all_bounds=True)
    elif name == "reconverge_minima":
        ns.reconverge_minima(pot, rng.choice([1e-6, 1e-7]))
    elif name == "reconverge_landscape":
        ns.reconverge_landscape(pot, rng.choice([1e-6, 1e-7]))
    elif name == "restart":
        # the restart workflow of the example scripts: the network goes through its files and the exploration carries on
        # (energies are written with five decimals: from here on a stored energy is the surface's value to 0.5e-5)
        if ns.ktn.n_minima >= 1:                 # (an empty network has nothing to restart from)
            import warnings
            with warnings.catch_warnings():
                warnings.simplefilter("ignore")   # numpy warns about the empty history file
                ns.ktn.dump_network(".restart")
                ns.ktn.reset_network()
                ns.ktn.read_network(text_string=".restart")


def state_of(ktn, tr: Trace) -> str:
    nodes = []
    for lab in ktn.G.nodes:
        d = ktn.G.nodes[lab]
        nodes.append(f"{int(lab)}:{tr.token(d['coords'], d['energy'])}")
    es = sorted((min(int(u), int(v)), max(int(u), int(v)), tr.token(ktn.get_ts_coords(u, v), ktn.get_ts_energy(u, v)))
                for u, v in ktn.G.edges())
    sl = lambda l: ",".join(l) if l else "-"
    return f"n={ktn.n_minima} ts={ktn.n_ts} nodes={sl(nodes)} edges={sl([f'{a}:{b}:{t}' for a, b, t in es])}"


# ----------------------------------------------------------------------------- the property's predicate


def close(a, b, rel=1e-10):
    return abs(a - b) <= rel * max(1.0, abs(a), abs(b))


def landscape_predicate(ktn, pot, cfg, tr: Trace) -> tuple[str, str] | None:
    lo = np.array([b[0] for b in cfg["bounds"]]); hi = np.array([b[1] for b in cfg["bounds"]])
    for i in range(ktn.n_minima):
        x, e = np.asarray(ktn.get_minimum_coords(i), float), float(ktn.get_minimum_energy(i))
        if not (np.all(np.isfinite(x)) and math.isfinite(e)):
            return ("minimum-not-finite", f"minimum {i} holds non-finite numbers")
        if np.any(x < lo) or np.any(x > hi):
            return ("minimum-outside-box", f"minimum {i} at {x.tolist()} lies outside the box")
        f = pot.function(x.copy())
        if not (close(e, f) or abs(e - f) <= cfg.get("file_res", 0.0)):
            return ("minimum-energy-mismatch", f"minimum {i}: stored energy {e!r} but the surface gives {f!r} at its coordinates"
                    + (" (the network went through its files: 0.5e-5 allowed)" if cfg.get("file_res") else ""))
    for u, v in ktn.G.edges():
        x, e = np.asarray(ktn.get_ts_coords(u, v), float), float(ktn.get_ts_energy(u, v))
        if not (np.all(np.isfinite(x)) and math.isfinite(e)):
            return ("ts-not-finite", f"transition state {u}-{v} holds non-finite numbers")
        if np.any(x < lo) or np.any(x > hi):
            return ("ts-outside-box", f"transition state {u}-{v} at {x.tolist()} lies outside the box")
        f = pot.function(x.copy())
        if not (close(e, f) or abs(e - f) <= cfg.get("file_res", 0.0)):
            return ("ts-energy-mismatch", f"transition state {u}-{v}: stored energy {e!r}, surface gives {f!r}"
                    + (" (the network went through its files: 0.5e-5 allowed)" if cfg.get("file_res") else ""))
        g = np.asarray(pot.gradient(x.copy()), float)
        free = (x > lo) & (x < hi)
        if np.any(np.abs(g[free]) >= cfg["ts_tol"] * (1 + 1e-9)):
            return ("ts-not-stationary", f"transition state {u}-{v}: free-coordinate gradient {np.max(np.abs(g[free])):.3e} "
                    f"is not below the tolerance {cfg['ts_tol']}")
        if x.tobytes() not in tr.flagged:
            for w in (u, v):
                em = float(ktn.get_minimum_energy(w))
                if e < em - cfg["e_crit"]:
                    return ("ts-below-minimum", f"transition state {u}-{v} (energy {e}) is lower than minimum {w} "
                            f"(energy {em}) by more than the matching tolerance {cfg['e_crit']}")
    return None


def offered_contracts(ctx: Ctx, tr: Trace, pot, cfg, n_min0: int, n_rec0: int) -> None:
    """every offered point against the guarantee the theorem assumes for it"""
    lo = np.array([b[0] for b in cfg["bounds"]]); hi = np.array([b[1] for b in cfg["bounds"]])
    for x, e in tr.offered_min[n_min0:]:
        ctx.contract("offered minimum: in box and energy = surface (LBFGSB)",
                     bool(np.all(x >= lo) and np.all(x <= hi) and close(e, pot.function(x.copy()))))
    for x, e, mp, ep, mm, em in tr.offered_rec[n_rec0:]:
        g = np.asarray(pot.gradient(x.copy()), float)
        free = (x > lo) & (x < hi)
        ok = bool(np.all(x >= lo) and np.all(x <= hi) and close(e, pot.function(x.copy()))
                  and np.all(np.abs(g[free]) < cfg["ts_tol"] * (1 + 1e-9))
                  and close(ep, pot.function(mp.copy())) and close(em, pot.function(mm.copy())))
        if x.tobytes() not in tr.flagged:
            ok = ok and ep <= e + 1e-12 * max(1, abs(e)) and em <= e + 1e-12 * max(1, abs(e))
        ctx.contract("offered search record: C04 post-condition", ok)


# ----------------------------------------------------------------------------- run


def pipeline_case(ctx: Ctx, kind: str, seed: int, ncalls: int, compare_model: bool):
    import random
    rng = random.Random(seed)
    ns, ktn, coords, pot, tr, cfg = build(ctx, kind, rng, seed)
    calls = ["get_minima"] + [rng.choice(CALLS) for _ in range(ncalls - 1)]
    if not compare_model and ncalls >= 3 and rng.random() < 0.5:
        calls.insert(rng.randrange(1, len(calls)), "restart")
    lines, expected, done = ["new"], [], []
    for name in calls:
        if name == "restart":
            cfg["file_res"] = 5.0000001e-6
        n_ev, n_min0, n_rec0 = len(tr.events), len(tr.offered_min), len(tr.offered_rec)
        before = state_of(ktn, tr)
        try:
            do_call(ns, coords, pot, name, rng, kind)
        except Exception as e:
            ctx.fail(f"pipeline-call-raises:{name}", f"{name} raised {type(e).__name__}: {e} on {cfg['label']} "
                     f"(seed {seed}, after {done})", {"surface": kind, "seed": seed, "calls": done + [name], "ncalls": ncalls})
            return
        done.append(name)
        after = state_of(ktn, tr)
        offered_contracts(ctx, tr, pot, cfg, n_min0, n_rec0)
        ctx.stats.case({"surface": cfg["label"], "seed": seed, "calls": list(done), "state": after[:120]},
                       nontrivial=(after != before or len(tr.events) > n_ev))
        ctx.stats.branch(name)
        r = landscape_predicate(ktn, pot, cfg, tr)
        if r:
            ctx.fail(r[0], f"{r[1]} — after {done} on {cfg['label']} (seed {seed})",
                     {"surface": kind, "seed": seed, "calls": list(done), "ncalls": ncalls})
            return
        if compare_model:
            lines.extend(tr.events[n_ev:])
            lines.append("state")
            expected.append((len(lines) - 1, after, list(done)))
    if compare_model and expected:
        out = run_driver("Pipeline", lines)
        ctx.stats.traces += 1
        for idx, want, hist in expected:
            got = out[idx] if idx < len(out) else "missing"
            if got != want:
                # find the first event whose answer is not a state line
                bad = next((f"{lines[i]} -> {o}" for i, o in enumerate(out) if o in ("guard", "oracle-miss", "bad-op")), "")
                ctx.diverge("pipeline-vs-model", f"after {hist} on {cfg['label']} (seed {seed}): real network {want[:160]} / "
                            f"model {got[:160]} {bad}", {"surface": kind, "seed": seed, "calls": hist})
                return


def rich_case(ctx: Ctx, seed: int) -> None:
    """a richer exploration (longer basin-hopping, two rounds of three nearest-neighbour cycles): on these
    seeds a connection attempt finds a second, different transition state for an ALREADY connected pair, so
    an edge of the network is rewritten"""
    import random
    rng = random.Random(seed)
    ns, ktn, coords, pot, tr, cfg = build(ctx, "cosine", rng, seed)
    done = []
    steps = [("get_minima", lambda: ns.get_minima(coords, 50, 1e-5, 1.0, test_valid=True)),
             ("ts_closest_3", lambda: ns.get_transition_states('ClosestEnumeration', 3, remove_bounds_minima=False)),
             ("ts_closest_3", lambda: ns.get_transition_states('ClosestEnumeration', 3, remove_bounds_minima=False))]
    coords.position = coords.generate_random_point()
    for name, fn in steps:
        try:
            fn()
        except Exception as e:
            ctx.fail(f"pipeline-call-raises:{name}", f"{name} raised {type(e).__name__}: {e} on {cfg['label']} (rich seed {seed})",
                     {"rich": True, "seed": seed})
            return
        done.append(name)
        ctx.stats.case({"surface": cfg["label"], "rich_seed": seed, "calls": list(done)}, True)
        ctx.stats.branch("rich:" + name)
        r = landscape_predicate(ktn, pot, cfg, tr)
        if r:
            ctx.fail(r[0], f"{r[1]} — after {done} on {cfg['label']} (rich seed {seed})", {"rich": True, "seed": seed})
            return


def atomic_case(ctx: Ctx, seed: int, with_ts: bool = False) -> None:
    """Lennard-Jones cluster explored with the atomic step taker and the molecular similarity; the moves are
    large enough that some trial steps dissociate the cluster or fail to converge (the rejection paths of
    global optimisation on atomistic systems)"""
    import random
    import warnings
    from topsearch.data.coordinates import AtomicCoordinates
    from topsearch.data.kinetic_transition_network import KineticTransitionNetwork
    from topsearch.global_optimisation.basin_hopping import BasinHopping
    from topsearch.global_optimisation.perturbations import AtomicPerturbation
    from topsearch.potentials.atomic import LennardJones
    from topsearch.sampling.exploration import NetworkSampling
    from topsearch.similarity.molecular_similarity import MolecularSimilarity
    from topsearch.transition_states.hybrid_eigenvector_following import HybridEigenvectorFollowing
    from topsearch.transition_states.nudged_elastic_band import NudgedElasticBand
    rng = random.Random(seed)
    np.random.seed(seed)
    random.seed(seed)
    n = rng.choice([5, 6, 7])
    base = np.array([[0, 0, 0], [1.1, 0, 0], [0, 1.1, 0], [0, 0, 1.1], [1.1, 1.1, 0], [1.1, 0, 1.1], [0, 1.1, 1.1]],
                    dtype=float)[:n]
    start = (base + 0.05 * np.random.rand(n, 3)).ravel()
    coords = AtomicCoordinates(["C"] * n, start.copy())
    prng = random.Random(seed * 31 + 7)          # well depth and length scale other than one on most seeds
    pot = LennardJones() if seed % 3 == 0 else LennardJones(epsilon=prng.choice([1.0, 0.5, 3.0]), sigma=prng.choice([2.0, 0.7, 1.3]))
    sim = MolecularSimilarity(0.05, 1e-3, weighted=False)
    ktn = KineticTransitionNetwork()
    step = AtomicPerturbation(max_displacement=rng.choice([1.5, 2.0]), max_atoms=rng.choice([1, 2, 3]))
    bh = BasinHopping(ktn, pot, sim, step)
    ts_tol = 1e-4
    hef = HybridEigenvectorFollowing(pot, ts_tol, 50, pushoff=0.4, max_uphill_step_size=0.2, positive_eigenvalue_step=0.05)
    neb = NudgedElasticBand(pot, 10.0, 8.0, 15, 1e-2)
    ns = NetworkSampling(ktn, coords, bh, hef, neb, sim)
    tr = Trace()
    real_run = hef.run

    def t_run(c, tag=''):
        out = real_run(c, tag=tag) if tag != '' else real_run(c)
        if out[0] is not None and hef.failure == 'pushoff':
            tr.flagged.add(np.asarray(out[0], float).tobytes())
        return out
    hef.run = t_run
    cfg = {"label": f"LJ{n}", "bounds": list(coords.bounds), "e_crit": sim.energy_criterion, "ts_tol": ts_tol, "seed": seed}
    calls = [("get_minima", lambda: ns.get_minima(coords, 25, 1e-6, rng.choice([0.5, 2.0]), test_valid=False)),
             ("get_minima", lambda: ns.get_minima(coords, 15, 1e-6, 1.0, test_valid=False))]
    if with_ts:
        calls.append(("ts_closest", lambda: ns.get_transition_states('ClosestEnumeration', 1, remove_bounds_minima=False)))
    done = []
    for name, fn in calls:
        try:
            with warnings.catch_warnings(), np.errstate(all="ignore"):
                warnings.simplefilter("ignore")
                fn()
        except Exception as e:
            ctx.fail(f"pipeline-call-raises:{name}", f"{name} raised {type(e).__name__}: {e} on {cfg['label']} (atomic seed {seed})",
                     {"atomic": True, "seed": seed, "with_ts": with_ts})
            return
        done.append(name)
        ctx.stats.case({"surface": cfg["label"], "atomic_seed": seed, "calls": list(done), "n_minima": ktn.n_minima}, True)
        ctx.stats.branch("atomic:" + name)
        r = landscape_predicate(ktn, pot, cfg, tr)
        if r:
            ctx.fail(r[0], f"{r[1]} — after {done} on {cfg['label']} (atomic seed {seed})",
                     {"atomic": True, "seed": seed, "with_ts": with_ts})
            return


def collapse_case(ctx: Ctx, seed: int) -> None:
    """tolerance choices under which reconvergence MERGES minima: basin-hopping converged loosely (1e-1) with a tight
    matching distance records one basin more than once; reconverging tightly then maps several stored minima onto
    one.  Checked after every call, with the number of minima before / after in the case record."""
    import random
    rng = random.Random(seed)
    kind = rng.choice(["camelback", "camelback", "cosine"])
    ns, ktn, coords, pot, tr, cfg = build(ctx, kind, rng, seed)
    ns.similarity.distance_criterion = 0.002
    done = []
    steps = [("get_minima_loose", lambda: ns.get_minima(coords, 30, 1e-1, 1.0, test_valid=False)),
             ("get_minima_loose", lambda: ns.get_minima(coords, 20, 1e-1, 1.0, test_valid=False)),
             ("reconverge_minima", lambda: ns.reconverge_minima(pot, 1e-8)),
             ("ts_closest", lambda: ns.get_transition_states('ClosestEnumeration', 1, remove_bounds_minima=False)),
             ("reconverge_landscape", lambda: ns.reconverge_landscape(pot, 1e-8))]
    coords.position = coords.generate_random_point()
    for name, fn in steps:
        n0 = ktn.n_minima
        if name == "reconverge_minima":
            ns.similarity.distance_criterion = 0.02        # the criterion the reconverged minima are compared with
        try:
            fn()
        except Exception as e:
            ctx.fail(f"pipeline-call-raises:{name}", f"{name} raised {type(e).__name__}: {e} on {cfg['label']} (collapse seed {seed})",
                     {"collapse": True, "seed": seed})
            return
        done.append(name)
        ctx.stats.case({"surface": cfg["label"], "collapse_seed": seed, "calls": list(done), "minima": [n0, ktn.n_minima]}, True)
        ctx.stats.branch("collapse:" + name + (":merged" if name.startswith("reconverge") and ktn.n_minima < n0 else ""))
        r = landscape_predicate(ktn, pot, cfg, tr)
        if r:
            ctx.fail(r[0], f"{r[1]} — after {done} on {cfg['label']} (collapse seed {seed}; {n0} minima before the last "
                     f"call, {ktn.n_minima} after)", {"collapse": True, "seed": seed})
            return


def correspond(ctx: Ctx) -> None:
    rng = ctx.rng
    kinds = ["camelback", "cosine", "cosine", "schwefel"]
    n = ctx.scale(8, 40)
    for i in range(n):
        kind = kinds[i % len(kinds)]
        pipeline_case(ctx, kind, rng.randrange(1 << 30), ctx.scale(4, 6), True)


def predicates(ctx: Ctx) -> None:
    rng = ctx.rng
    deep = getattr(ctx, "deep_search", False)
    # corpus: seeds that produced interesting networks / past failures run first
    for kind, seed, ncalls in [("camelback", 3, 4), ("cosine", 17, 4)]:
        pipeline_case(ctx, kind, seed, ncalls, False)
    for seed in (11, 179, 301) + ((207, 225) if (ctx.thorough or deep) else ()):
        rich_case(ctx, seed)
    for seed in (1, 2, 3) + (tuple(rng.randrange(1 << 30) for _ in range(6)) if (ctx.thorough or deep) else ()):
        collapse_case(ctx, seed)
    for i in range(ctx.scale(3, 12) * (3 if deep else 1)):
        atomic_case(ctx, 5 + i if i < 2 else rng.randrange(1 << 30), with_ts=(ctx.thorough and i % 4 == 3))
    n = ctx.scale(6, 40) * (3 if deep else 1)
    for i in range(n):
        kind = rng.choice(["camelback", "cosine", "cosine", "cosine", "schwefel"])
        pipeline_case(ctx, kind, rng.randrange(1 << 30), ctx.scale(4, 7), False)


def replay(ctx: Ctx, data: dict) -> bool:
    if data.get("atomic"):
        atomic_case(ctx, data["seed"], bool(data.get("with_ts")))
        for f in ctx.failures:
            print(f"  {f.key}: {f.what}")
        return not ctx.failures
    if data.get("collapse"):
        collapse_case(ctx, data["seed"])
        for f in ctx.failures:
            print(f"  {f.key}: {f.what}")
        return not ctx.failures
    if data.get("rich"):
        rich_case(ctx, data["seed"])
        for f in ctx.failures:
            print(f"  {f.key}: {f.what}")
        return not ctx.failures
    pipeline_case(ctx, data["surface"], data["seed"], int(data.get("ncalls", len(data["calls"]))), False)
    for f in ctx.failures:
        print(f"  {f.key}: {f.what}")
    return not ctx.failures
