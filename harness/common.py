"""Shared machinery of the /verif checks: Lean build + audit, line-protocol driver,
evidence files, the VIOLATION / KNOWN-FINDING protocol.

Everything here runs offline.  The real code is imported from /repo/src (current working
tree); the Lean side lives in /verif/lean.
"""
from __future__ import annotations

import fcntl
import hashlib
import json
import os
import random
import re
import subprocess
import sys
import time
from dataclasses import dataclass, field
from pathlib import Path

VERIF = Path(__file__).resolve().parent.parent
# VERIF_LEAN_DIR / VERIF_EVIDENCE_DIR: a private copy of the Lean project / a private evidence directory, used only
# by the evaluation tools (seeded_eval.py, benign_eval.py) so that several mutated copies can be checked at once
# without sharing Gen/*.lean; the registered commands never set them
LEAN = Path(os.environ.get("VERIF_LEAN_DIR", VERIF / "lean"))
REPO = Path(os.environ.get("TOPSEARCH_REPO", "/repo"))
SRC = REPO / "src" / "topsearch"
EVIDENCE = Path(os.environ.get("VERIF_EVIDENCE_DIR", VERIF / "evidence"))
REPLAY = EVIDENCE / "replay"
KNOWN = VERIF / "known_findings.json"
ALLOWED_AXIOMS = {"propext", "Classical.choice", "Quot.sound"}
FORBIDDEN = re.compile(
    r"\bsorry\b|\badmit\b|^\s*axiom\s|native_decide|bv_decide|implemented_by|"
    r"\bunsafe\s|maxHeartbeats\s+0\b")

TRUSTED_BASE = [
    "Lean 4.33.0 kernel; Mathlib v4.33.0 lemmas (kernel-checked)",
    "axioms allowed in property theorems: propext, Classical.choice, Quot.sound "
    "(no native_decide / bv_decide / own axioms / sorry)",
    "kernel translator harness/translate (Python ast -> TopSearch.Py.Expr terms)",
    "transcription tie harness/translate/skeleton.py: the normal form (what it forgets: names of locals, spellings, pure "
    "helper locals, log statements, guard style, orientation of `not` / != / is not / not in) and the recorded texts in "
    "skeleton_baseline.json; carried-state analysis harness/translate/carried.py (conservative read-before-write, shared "
    "class attributes, mutable defaults, module state) with the reasons recorded in carried_baseline.json",
    "line-protocol drivers lean/Drivers/*.lean (parsing/printing) and the Python "
    "correspondence harness with its canonicalisation",
    "theorems are in exact arithmetic over ordered fields; IEEE-754 rounding is only "
    "observed by the correspondence (exact on dyadic inputs, tolerance elsewhere)",
]


def make_src_importable() -> None:
    """Import topsearch from /repo's current working tree."""
    p = str(REPO / "src")
    if p not in sys.path:
        sys.path.insert(0, p)


# ----------------------------------------------------------------------------- results


@dataclass
class Failure:
    """A concrete input on which the *real code* breaks the property (or, for kind
    'model-impl-divergence' / 'proof-broken', the obligation that no longer checks)."""
    prop: str
    key: str                 # call site + failing-input class; matched against known findings
    what: str                # one line for humans
    kind: str = "property-failure"
    replay: dict = field(default_factory=dict)


@dataclass
class Stats:
    evaluations: int = 0
    nontrivial: set = field(default_factory=set)
    samples: list = field(default_factory=list)
    branches: dict = field(default_factory=dict)
    notes: dict = field(default_factory=dict)
    near_ties: int = 0
    traces: int = 0

    def case(self, canon, nontrivial: bool = True, sample_every: int = 0) -> None:
        """count one explored case; `canon` is any JSON-able canonical description"""
        self.evaluations += 1
        if nontrivial:
            h = hashlib.sha1(json.dumps(canon, sort_keys=True, default=str).encode()).hexdigest()
            self.nontrivial.add(h)
        if len(self.samples) < 6 or (sample_every and self.evaluations % sample_every == 0
                                     and len(self.samples) < 12):
            self.samples.append(canon)

    def branch(self, tag: str, n: int = 1) -> None:
        self.branches[tag] = self.branches.get(tag, 0) + n


class Ctx:
    def __init__(self, prop: str, tier: str, seed: int):
        self.prop = prop
        self.tier = tier
        self.seed = seed
        self.rng = random.Random(seed * 1000003 + int(hashlib.sha1(prop.encode()).hexdigest()[:6], 16))
        self.stats = Stats()
        self.failures: list[Failure] = []
        self.divergences: list[Failure] = []
        self.t0 = time.time()
        self.lean_ok = True
        self.lean_log = ""
        self.obligations: list[str] = []
        self.discharged: list[str] = []
        self.audit: dict = {}
        self.gen_status: dict = {}
        self.assumptions: list[str] = []
        self.contracts: dict = {}
        self.source_drift: list[str] = []      # anchored functions whose text differs from the fingerprinted baseline
        self.escalated = False                 # quick tier run with the thorough case counts (source drift)

    @property
    def thorough(self) -> bool:
        return self.tier == "thorough" or self.escalated

    def scale(self, quick: int, thorough: int) -> int:
        return thorough if self.thorough else quick

    def fail(self, key: str, what: str, replay: dict, kind: str = "property-failure") -> None:
        f = Failure(self.prop, key, what, kind, replay)
        # keep the first (usually smallest) replay per key
        if not any(g.key == key for g in self.failures):
            self.failures.append(f)

    def diverge(self, key: str, what: str, replay: dict) -> None:
        f = Failure(self.prop, key, what, "model-impl-divergence", replay)
        if not any(g.key == key for g in self.divergences):
            self.divergences.append(f)

    def contract(self, name: str, ok: bool) -> None:
        c = self.contracts.setdefault(name, {"checked": 0, "failed": 0})
        c["checked"] += 1
        if not ok:
            c["failed"] += 1


# ----------------------------------------------------------------------------- Lean side


class _Lock:
    def __init__(self):
        self.path = LEAN / ".build.lock"

    def __enter__(self):
        self.f = open(self.path, "w")
        fcntl.flock(self.f, fcntl.LOCK_EX)
        return self

    def __exit__(self, *a):
        fcntl.flock(self.f, fcntl.LOCK_UN)
        self.f.close()


def lake_build(targets: list[str], timeout: int = 1500) -> tuple[bool, str]:
    """Incremental build of the given library modules (a no-op build is < 1 s)."""
    with _Lock():
        try:
            p = subprocess.run(["lake", "build", *targets], cwd=LEAN, capture_output=True,
                               text=True, timeout=timeout)
        except subprocess.TimeoutExpired:
            raise InfraError("lake build timed out")
    out = p.stdout + p.stderr
    return p.returncode == 0, out


class InfraError(Exception):
    pass


def run_driver(driver: str, lines: list[str], timeout: int = 600) -> list[str]:
    """Feed `lines` to lean/Drivers/<driver>.lean through the line protocol."""
    inp = "\n".join(lines) + "\n"
    try:
        p = subprocess.run(["lake", "env", "lean", "--run", f"Drivers/{driver}.lean"], cwd=LEAN,
                           input=inp, capture_output=True, text=True, timeout=timeout)
    except subprocess.TimeoutExpired:
        raise InfraError(f"driver {driver} timed out")
    if p.returncode != 0:
        raise DriverError(p.stdout[-2000:] + p.stderr[-2000:])
    out = p.stdout.split("\n")
    if out and out[-1] == "":
        out.pop()
    return out


class DriverError(Exception):
    pass


def lean_sources_clean(files: list[Path]) -> list[str]:
    """grep for forbidden constructs outside comments"""
    bad = []
    for f in files:
        if not f.exists():
            bad.append(f"{f}: missing")
            continue
        text = f.read_text()
        # strip block comments and line comments
        text = re.sub(r"/-.*?-/", lambda m: "\n" * m.group(0).count("\n"), text, flags=re.S)
        for n, line in enumerate(text.split("\n"), 1):
            line = line.split("--")[0]
            if FORBIDDEN.search(line):
                bad.append(f"{f.name}:{n}: {line.strip()[:80]}")
    return bad


def audit(prop: str, module: str, required: list[str]) -> dict:
    """Collect the axioms of every required theorem of `module` (kernel-checked constants)."""
    d = LEAN / ".audit"
    d.mkdir(exist_ok=True)
    f = d / f"Audit{prop}.lean"
    names = ", ".join(f"``{n}" for n in required)
    f.write_text(f"import {module}\nimport TopSearch.Audit\n"
                 f"open TopSearch in\n#eval auditNames [{names}]\n")
    p = subprocess.run(["lake", "env", "lean", str(f)], cwd=LEAN, capture_output=True, text=True,
                       timeout=900)
    res = {}
    for line in p.stdout.split("\n"):
        if line.startswith("AUDIT "):
            _, name, kind, *ax = line.split(" ")
            res[name] = {"kind": kind, "axioms": [a for a in ax if a]}
    res["_raw_rc"] = p.returncode
    res["_raw_err"] = (p.stdout + p.stderr)[-1500:] if p.returncode != 0 else ""
    return res


# ----------------------------------------------------------------------------- evidence etc.


def load_known() -> list[dict]:
    if KNOWN.exists():
        return json.loads(KNOWN.read_text())["findings"]
    return []


def write_replay(prop: str, seed: int, n: int, failure: Failure) -> Path:
    REPLAY.mkdir(parents=True, exist_ok=True)
    p = REPLAY / f"{prop}-{seed}-{n}.json"
    p.write_text(json.dumps({"property": prop, "kind": failure.kind, "key": failure.key,
                             "what": failure.what, "seed": seed, **failure.replay},
                            indent=1, default=str))
    return p


def frac(x) -> str:
    """exact rational text of a float / int for the line protocol"""
    from fractions import Fraction
    f = Fraction(x)
    return str(f.numerator) if f.denominator == 1 else f"{f.numerator}/{f.denominator}"
