#!/bin/sh
# Which lines of the library do the checks (quick tier) actually execute?  A line of an anchored file that no
# check ever runs is a place where a change cannot be noticed by correspondence or predicates.
#   harness/coverage_report.sh [Cxx ...]      -> /tmp/verif-cov/report.txt (per file: missing line ranges)
cd "$(dirname "$0")/.." || exit 2
out=/tmp/verif-cov; rm -rf $out; mkdir -p $out
cat > $out/rc <<EOC
[run]
source = /repo/src/topsearch
parallel = True
data_file = $out/.coverage
concurrency = multiprocessing
EOC
props="$@"; [ -z "$props" ] && props="C01 C02 C03 C04 C05 C06 C07 C08 C09 C10 C11 C12 C13 C14 C15 C16 C17 C18 C19 C20"
for p in $props; do
  COVERAGE_RCFILE=$out/rc /venv/bin/python -m coverage run --rcfile=$out/rc harness/check.py $p --tier quick > $out/$p.log 2>&1
  tail -1 $out/$p.log
done
cd $out && /venv/bin/python -m coverage combine --rcfile=$out/rc > /dev/null 2>&1
/venv/bin/python -m coverage report --rcfile=$out/rc -m --skip-covered > $out/report.txt 2>&1
tail -40 $out/report.txt
