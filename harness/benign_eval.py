"""Run a check against a behaviour-preserving change (a harmless refactor produced by an independent sub-agent):

    benign_eval.py <Cxx> <patch file> [label]

Expected: exit 0.  `VIOLATION … no-failing-input-found` is the protocol's answer to a tie that no longer checks (the
refactor left a translator's grammar); a VIOLATION with a concrete replay on a harmless change is a FALSE ALARM of the
machinery (or the change is not harmless — the replay says which).  Prints one JSON line."""
from __future__ import annotations

import json
import os
import shutil
import subprocess
import sys
import tempfile
from pathlib import Path

V = Path(__file__).resolve().parent.parent


def main() -> int:
    pid, patch = sys.argv[1], Path(sys.argv[2]).resolve()
    label = sys.argv[3] if len(sys.argv) > 3 else patch.stem
    work = Path(tempfile.mkdtemp(prefix=f"benign-{pid}-"))
    copy = work / "repo"
    subprocess.run(f"rsync -a --exclude .git --exclude htmlcov /repo/ {copy}/", shell=True, check=True)
    p = subprocess.run(f"patch -p1 --no-backup-if-mismatch < {patch}", shell=True, cwd=copy, capture_output=True, text=True)
    if p.returncode != 0:
        print(json.dumps({"id": f"{pid}-{label}", "error": "patch does not apply"}))
        shutil.rmtree(work, ignore_errors=True)
        return 2
    # private copies of the Lean project and the evidence directory: several patches can be evaluated side by side
    subprocess.run(f"rsync -a {V / 'lean'}/ {work / 'lean'}/", shell=True, check=True)
    (work / "evidence" / "replay").mkdir(parents=True)
    env = dict(os.environ, TOPSEARCH_REPO=str(copy), VERIF_LEAN_DIR=str(work / "lean"), VERIF_EVIDENCE_DIR=str(work / "evidence"))
    r = subprocess.run(["./check", pid, "--tier", "quick"], cwd=V, env=env, capture_output=True, text=True, timeout=6000)
    out = r.stdout + r.stderr
    lines = [l for l in out.splitlines() if l.startswith("VIOLATION") or l.startswith("  ") or "tier=" in l]
    concrete = [l for l in lines if l.startswith("VIOLATION") and "no-failing-input-found" not in l]
    nfi = [l for l in lines if l.startswith("VIOLATION") and "no-failing-input-found" in l]
    res = {"id": f"{pid}-{label}", "rc": r.returncode, "concrete_violations": len(concrete), "no_failing_input_found": len(nfi),
           "source_drift_noted": "source drift" in out, "detail": [l[:260] for l in lines[:5]]}
    shutil.rmtree(work, ignore_errors=True)
    print(json.dumps(res))
    return 0


if __name__ == "__main__":
    sys.exit(main())
