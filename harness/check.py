"""Entry point of every check:  ./check <Cxx> [--tier quick|thorough] [--replay file]

One run = regenerate Gen/*.lean from /repo's working tree -> build + audit the property's
theorems -> correspondence (model vs implementation) -> direct property predicates on the real
code (these produce the concrete replays) -> decide -> evidence/<Cxx>.json.

Exit 0: the property is shown for the current tree (only KNOWN-FINDING lines, if any).
Exit 1: a `VIOLATION property=<id> replay=<path>` line was printed.
Exit 2: infrastructure trouble (never a verdict).
"""
from __future__ import annotations

import argparse
import importlib
import json
import os
import sys
import time
import traceback
from pathlib import Path

sys.path.insert(0, str(Path(__file__).resolve().parent))
import common  # noqa: E402
from common import (Ctx, Failure, InfraError, LEAN, EVIDENCE, TRUSTED_BASE,  # noqa: E402
                    ALLOWED_AXIOMS)


def _unavailable(status, path=""):
    """(where, text) for every generated kernel whose status says it could not be read from the source"""
    out = []
    if isinstance(status, dict):
        for k, v in status.items():
            out += _unavailable(v, f"{path}/{k}" if path else str(k))
    elif isinstance(status, (list, tuple)):
        for i, v in enumerate(status):
            out += _unavailable(v, f"{path}[{i}]")
    elif isinstance(status, str):
        if "unavailable" in status.lower() or path.endswith("_error"):
            out.append((path, status))
    return out


def _rel(p):
    try:
        return p.relative_to(common.VERIF)
    except ValueError:                     # a private evidence directory of the evaluation tools
        return p


def main() -> int:
    ap = argparse.ArgumentParser()
    ap.add_argument("prop")
    ap.add_argument("--tier", default=os.environ.get("VERIF_TIER", "quick"))
    ap.add_argument("--replay", default=None)
    args = ap.parse_args()
    tier = args.tier if args.tier in ("quick", "thorough") else "quick"
    try:
        seed = int(os.environ.get("VERIF_SEED", "0"))
    except ValueError:
        seed = 0
    prop = args.prop.upper()
    os.chdir(common.VERIF)
    # the real code writes `logfile` etc. into the cwd: work in a private scratch directory
    import tempfile
    scratch = tempfile.mkdtemp(prefix=f"verif-{prop}-")
    # watchdog: the real code runs in-process; a change that makes it loop for ever must not hang the check.
    # A time-out is infrastructure trouble (exit 2), never a verdict.
    import signal

    def _watchdog(signum, frame):
        # not an exception: harness code that catches exceptions around calls of the real code must not be able to
        # turn the time-out into a "raises" finding
        print(f"INFRA-ERROR {prop}: watchdog: the {tier} run exceeded {limit} s (VERIF_WATCHDOG_S)", flush=True)
        import shutil
        shutil.rmtree(scratch, ignore_errors=True)
        os._exit(2)
    try:
        limit = int(os.environ.get("VERIF_WATCHDOG_S", "5400" if tier == "quick" else "14400"))
    except ValueError:
        limit = 5400
    if hasattr(signal, "SIGALRM") and limit > 0:
        signal.signal(signal.SIGALRM, _watchdog)
        signal.alarm(limit)
    try:
        return run(prop, tier, seed, args.replay, scratch)
    except InfraError as e:
        print(f"INFRA-ERROR {prop}: {e}")
        return 2
    finally:
        import shutil
        os.chdir(common.VERIF)
        shutil.rmtree(scratch, ignore_errors=True)


def run(prop: str, tier: str, seed: int, replay: str | None, scratch: str) -> int:
    common.make_src_importable()
    mod = importlib.import_module(f"props.{prop.lower()}")
    ctx = Ctx(prop, tier, seed)
    ctx.scratch = scratch

    if replay:
        os.chdir(scratch)
        data = json.loads(Path(replay if os.path.isabs(replay) else common.VERIF / replay).read_text())
        ok = mod.replay(ctx, data)
        print(f"REPLAY {prop}: {'property holds on this input' if ok else 'FAILS on this input'}")
        return 0 if ok else 1

    # 1. regenerate the generated kernels from the current source ------------------------
    try:
        mod.regenerate(ctx)
    except Exception as e:  # a translator crash is 'kernel unavailable', not a verdict
        ctx.gen_status["_error"] = f"{type(e).__name__}: {e}"

    # 1a. the transcription tie: do the functions whose control flow the hand model transcribes still read, in
    #     normal form, as the text they were transcribed from?  (harness/translate/skeleton.py)
    if os.environ.get("VERIF_NO_TRANSCRIPT_TIE") != "1":
        try:
            from translate import skeleton
            tr = skeleton.check(prop)
            if tr:
                ctx.gen_status["Transcription"] = tr
        except Exception as e:  # noqa: BLE001
            ctx.gen_status["Transcription_error"] = f"{type(e).__name__}: {e}"

    # 1a'. state carried between calls (read-before-write of object attributes from the entry points, shared class
    #      attributes, mutable defaults, module-level state): the models take every entry point as a function of its
    #      inputs (harness/translate/carried.py)
    if os.environ.get("VERIF_NO_TRANSCRIPT_TIE") != "1":
        try:
            from translate import carried
            cs = carried.check(prop, write=True)          # also regenerates Gen/Carried.lean
            if cs:
                ctx.gen_status["CarriedState"] = cs
        except Exception as e:  # noqa: BLE001
            ctx.gen_status["CarriedState_error"] = f"{type(e).__name__}: {e}"

    # 1b. has the code the hand-written parts of the model were validated against changed?  Not a verdict —
    #     it only moves this run to the thorough case counts (see harness/fingerprint.py)
    try:
        import fingerprint
        ctx.source_drift = fingerprint.drift(prop)
    except Exception as e:  # noqa: BLE001
        ctx.source_drift = [f"<fingerprint error: {type(e).__name__}: {e}>"]
    if ctx.source_drift and tier == "quick" and os.environ.get("VERIF_NO_ESCALATE") != "1":
        ctx.escalated = True

    # 2. prove: build the property module, audit its theorems ---------------------------
    required = list(mod.REQUIRED)
    ctx.obligations = required
    drv_ok, drv_log = common.lake_build(list(getattr(mod, "EXTRA_TARGETS", [])) or [mod.LEAN_MODULE])
    ok, log = common.lake_build([mod.LEAN_MODULE])
    if not drv_ok:
        log = drv_log + log
    ctx.lean_ok = ok
    ctx.lean_log = log[-4000:] if not ok else ""
    broken: list[str] = []
    # a kernel the translator can no longer read from the source (the code left the translator's grammar) is a
    # broken tie: the theorems are then about the fallback kernel, not about what the code says now
    for where, what in _unavailable(ctx.gen_status):
        broken.append(f"translator: {where}: {what}"[:300])
    if ok:
        files = [LEAN / (m.replace(".", "/") + ".lean") for m in mod.LEAN_FILES]
        bad = common.lean_sources_clean(files)
        if bad:
            broken.append("forbidden construct: " + "; ".join(bad[:5]))
        au = common.audit(prop, mod.LEAN_MODULE, required)
        ctx.audit = {k: v for k, v in au.items() if not k.startswith("_")}
        if au.get("_raw_rc", 1) != 0:
            broken.append("audit failed: " + au.get("_raw_err", "")[-400:])
        for n in required:
            a = au.get(n)
            if a is None or a["kind"] != "theorem":
                broken.append(f"{n}: not a checked theorem ({a})")
            elif not set(a["axioms"]) <= ALLOWED_AXIOMS:
                broken.append(f"{n}: axioms {a['axioms']}")
            else:
                ctx.discharged.append(n)
        # the premise of every hand model — an entry point is a function of its inputs — as a Lean obligation over the
        # regenerated list of carried state that is not on record (Props/StateCarry.lean)
        if "CarriedState" in ctx.gen_status:
            sc_names = ["TopSearch.Props.StateCarry." + n for n in
                        ("no_unrecorded_carried_state", "call_independent_of_history", "calls_like_fresh")]
            ctx.obligations = list(ctx.obligations) + sc_names
            sc_ok, sc_log = common.lake_build(["TopSearch.Props.StateCarry"])
            if not sc_ok:
                broken.append("TopSearch.Props.StateCarry.no_unrecorded_carried_state no longer checks: the current source "
                              "carries state between calls that is not on record (Gen/Carried.lean)")
            else:
                au2 = common.audit(prop + "State", "TopSearch.Props.StateCarry", sc_names)
                for n in sc_names:
                    a = au2.get(n)
                    if a is None or a["kind"] != "theorem" or not set(a["axioms"]) <= ALLOWED_AXIOMS:
                        broken.append(f"{n}: not a checked theorem ({a})")
                    else:
                        ctx.discharged.append(n)
                        ctx.audit[n] = a
        if tier == "thorough":
            # independent re-check of the compiled property module by the toolchain's separate checker
            import subprocess
            try:
                lc = subprocess.run(["lake", "env", "leanchecker", mod.LEAN_MODULE], cwd=LEAN, capture_output=True,
                                    text=True, timeout=1800)
                ctx.audit["_leanchecker"] = {"kind": "leanchecker", "axioms": [], "rc": lc.returncode}
                if lc.returncode != 0:
                    broken.append("leanchecker rejects the property module: " + (lc.stdout + lc.stderr)[-300:])
            except subprocess.TimeoutExpired:
                raise InfraError("leanchecker timed out")
    else:
        broken.append("lake build failed")

    # 3. correspondence: model vs implementation ----------------------------------------
    os.chdir(scratch)
    corr_error = None
    if not drv_ok:
        ctx.diverge("driver-build", "the model driver no longer builds against the regenerated kernels",
                    {"log": drv_log[-1500:]})
    if drv_ok:
        try:
            mod.correspond(ctx)
        except InfraError:
            raise
        except common.DriverError as e:
            corr_error = f"driver error: {e}"
        except Exception as e:
            corr_error = f"{type(e).__name__}: {e}\n{traceback.format_exc()[-1500:]}"
    if corr_error:
        ctx.diverge("correspondence-crash", corr_error[:300], {"error": corr_error})

    # 4. direct property predicates on the real code (cheap; give the concrete replays) ---
    # VERIF_FORCE_DEEP=1 runs the failing-input search at full depth on a tree where nothing is broken (used to
    # shake latent false alarms out of the deep generators: they must hold on the unchanged tree too)
    deep = bool(broken or ctx.divergences or os.environ.get("VERIF_FORCE_DEEP") == "1")
    ctx.deep_search = deep
    try:
        mod.predicates(ctx)
    except InfraError:
        raise
    except Exception as e:
        ctx.fail("predicate-crash", f"property predicate crashed on the real code: "
                 f"{type(e).__name__}: {e}", {"traceback": traceback.format_exc()[-3000:]})
    os.chdir(common.VERIF)

    # 5. decide --------------------------------------------------------------------------
    known = [k for k in common.load_known() if k["property"] == prop and k["status"] == "known"]
    known_keys = {k["key"]: k for k in known}
    rc = 0
    lines = []
    nviol = 0
    new_failures = []
    for f in ctx.failures:
        if f.key in known_keys:
            lines.append(f"KNOWN-FINDING: property={prop} {known_keys[f.key]['what']}")
        else:
            new_failures.append(f)
    n = 0
    for f in new_failures:
        p = common.write_replay(prop, seed, n, f)
        n += 1
        lines.append(f"VIOLATION property={prop} replay={_rel(p)}")
        lines.append(f"  {f.key}: {f.what}")
        nviol += 1
        rc = 1
    if (broken or ctx.divergences) and not new_failures:
        # not shown any more, and no concrete failing input on the real code
        what = "; ".join(broken[:3] + [f"{d.key}: {d.what}" for d in ctx.divergences[:3]])
        f = Failure(prop, "unshown", what, "proof-broken" if broken else "model-impl-divergence",
                    {"broken_obligations": broken, "lean_log": ctx.lean_log,
                     "divergences": [{"key": d.key, "what": d.what, **d.replay}
                                     for d in ctx.divergences[:5]]})
        p = common.write_replay(prop, seed, n, f)
        lines.append(f"VIOLATION property={prop} replay={_rel(p)} "
                     f"no-failing-input-found")
        lines.append(f"  {what[:400]}")
        nviol += 1
        rc = 1
    elif broken or ctx.divergences:
        for d in ctx.divergences[:3]:
            lines.append(f"  (model/implementation divergence {d.key}: {d.what[:200]})")
        for b in broken[:3]:
            lines.append(f"  (broken obligation: {b[:200]})")

    # 6. evidence -------------------------------------------------------------------------
    st = ctx.stats
    cov = {
        "obligations": len(ctx.obligations),
        "discharged": len(ctx.discharged),
        "checker_cmd": f"cd lean && lake build {mod.LEAN_MODULE} && lake env lean .audit/Audit{prop}.lean",
        "trusted_base": TRUSTED_BASE + list(getattr(mod, "TRUSTED_EXTRA", [])),
        "theorems": {k: v.get("axioms", []) for k, v in ctx.audit.items() if not k.startswith("_")},
        "leanchecker": ctx.audit.get("_leanchecker", {}).get("rc", "not run (thorough tier only)"),
        "evaluations": st.evaluations,
        "distinct_nontrivial": len(st.nontrivial),
        "rule": getattr(mod, "RULE", ""),
        "samples": st.samples[:12] if st.samples else [{"obligation": o} for o in ctx.obligations[:3]],
        "traces_validated_against_impl": st.traces,
        "branch_histogram": st.branches,
        "near_ties_skipped": st.near_ties,
        "generated_kernels": ctx.gen_status,
        "source_drift_vs_fingerprinted_baseline": ctx.source_drift,
        "escalated_to_thorough_counts": ctx.escalated,
        "oracle_contracts": ctx.contracts,
        "notes": st.notes,
        "model_impl_divergences": len(ctx.divergences),
        "broken_obligations": broken,
        "known_findings_seen": [f.key for f in ctx.failures if f.key in known_keys],
        "partial": getattr(mod, "PARTIAL", ""),
    }
    if not ctx.discharged:
        # nothing was proved on this run (the property module no longer builds against the regenerated kernels): the
        # proof-level keys are withheld rather than written as 0 — what remains is what the run did cover, the
        # correspondence and the failing-input search
        cov["obligations_stated"] = cov.pop("obligations")
        cov.pop("discharged")
        cov["explanation"] = ("no proof obligation was discharged on this run: " + "; ".join(broken)[:400])
    ev = {"property_id": prop, "tier": tier, "seed": seed, "level": "proof", "coverage": cov,
          "assumptions": list(getattr(mod, "ASSUMPTIONS", [])) + ctx.assumptions,
          "wall_s": round(time.time() - ctx.t0, 2), "violations": nviol}
    EVIDENCE.mkdir(exist_ok=True)
    (EVIDENCE / f"{prop}.json").write_text(json.dumps(ev, indent=1, default=str))
    for ln in lines:
        print(ln)
    if ctx.source_drift:
        print(f"  (source drift, not a verdict: {len(ctx.source_drift)} anchored function(s) differ from the fingerprinted "
              f"baseline, e.g. {ctx.source_drift[0]}" + ("; run with the thorough case counts)" if ctx.escalated else ")"))
    print(f"{prop} tier={tier} seed={seed}: obligations {len(ctx.discharged)}/{len(ctx.obligations)}, "
          f"correspondence cases {st.evaluations} ({len(st.nontrivial)} distinct non-trivial), "
          f"divergences {len(ctx.divergences)}, violations {nviol}, {ev['wall_s']} s")
    return rc


if __name__ == "__main__":
    sys.exit(main())
