"""Source fingerprints of the code each property is anchored in.

The hand-written parts of a model (loop structure, control flow between the translated kernels) were
validated against one text of the source.  `baseline_fingerprints.json` (committed) records, for every
function of every file a property is anchored in, a hash of its abstract syntax tree with docstrings,
comments, formatting and type annotations removed.  On every run the current tree is fingerprinted again:

* no difference  -> the check runs as configured;
* a difference   -> NOT a violation (a harmless rewrite changes the hash too).  It only redirects effort:
  the check escalates itself to the thorough-tier case counts and to the deep failing-input search even
  in the quick tier, because the code that was modelled by hand is no longer the code that is there.
  The drifted functions are listed in the evidence file.

    fingerprint.py --update     rewrite the baseline from the tree under $TOPSEARCH_REPO (/repo)
"""
from __future__ import annotations

import ast
import hashlib
import json
import sys
from pathlib import Path

HERE = Path(__file__).resolve().parent
sys.path.insert(0, str(HERE))
from common import REPO, VERIF  # noqa: E402

BASELINE = HERE / "baseline_fingerprints.json"

# files beyond the anchors of properties.jsonl that a check's hand model leans on
EXTRA = {
    "C01": ["src/topsearch/similarity/similarity.py", "src/topsearch/data/kinetic_transition_network.py",
            "src/topsearch/global_optimisation/basin_hopping.py", "src/topsearch/minimisation/lbfgs.py"],
    "C02": ["src/topsearch/analysis/minima_properties.py", "src/topsearch/analysis/pair_selection.py",
            "src/topsearch/analysis/batch_selection.py", "src/topsearch/analysis/graph_properties.py",
            "src/topsearch/analysis/roughness.py", "src/topsearch/potentials/potential.py"],
    "C05": ["src/topsearch/similarity/similarity.py", "src/topsearch/data/kinetic_transition_network.py"],
    "C07": ["src/topsearch/data/coordinates.py"],
    "C08": ["src/topsearch/data/coordinates.py"],
    "C13": ["src/topsearch/data/kinetic_transition_network.py"],
    "C14": ["src/topsearch/similarity/molecular_similarity.py", "src/topsearch/analysis/pair_selection.py"],
    "C17": ["src/topsearch/analysis/graph_properties.py", "src/topsearch/analysis/minima_properties.py"],
    "C19": ["src/topsearch/potentials/gaussian_process.py"],
}


class _Strip(ast.NodeTransformer):
    def _body(self, node):
        self.generic_visit(node)
        b = node.body
        if b and isinstance(b[0], ast.Expr) and isinstance(b[0].value, ast.Constant) and isinstance(b[0].value.value, str):
            node.body = b[1:] or [ast.Pass()]
        return node

    def visit_FunctionDef(self, node):
        node.returns = None
        for a in node.args.args + node.args.kwonlyargs + node.args.posonlyargs:
            a.annotation = None
        if node.args.vararg:
            node.args.vararg.annotation = None
        if node.args.kwarg:
            node.args.kwarg.annotation = None
        return self._body(node)

    visit_AsyncFunctionDef = visit_FunctionDef

    def visit_ClassDef(self, node):
        return self._body(node)

    def visit_AnnAssign(self, node):
        self.generic_visit(node)
        if node.value is None:
            return ast.Pass()
        return ast.Assign(targets=[node.target], value=node.value, lineno=0)


def file_fingerprints(path: Path) -> dict[str, str]:
    """qualified name -> hash, for every function / method and for the module-level and class-level statements"""
    try:
        tree = ast.parse(path.read_text())
    except (OSError, SyntaxError) as e:
        return {"<unreadable>": f"{type(e).__name__}"}
    tree = _Strip().visit(tree)
    out: dict[str, str] = {}

    def h(node) -> str:
        return hashlib.sha256(ast.dump(node, annotate_fields=False, include_attributes=False).encode()).hexdigest()[:16]

    def walk(body, prefix):
        rest = []
        for n in body:
            if isinstance(n, (ast.FunctionDef, ast.AsyncFunctionDef)):
                out[prefix + n.name] = h(n)
            elif isinstance(n, ast.ClassDef):
                walk(n.body, prefix + n.name + ".")
            elif isinstance(n, (ast.Import, ast.ImportFrom)):
                continue
            else:
                rest.append(h(n))
        if rest:
            out[prefix + "<statements>"] = hashlib.sha256("".join(rest).encode()).hexdigest()[:16]
    walk(tree.body, "")
    return out


def files_of(prop: str) -> list[str]:
    files: list[str] = []
    for line in (VERIF / "properties.jsonl").read_text().splitlines():
        if not line.strip():
            continue
        d = json.loads(line)
        if d["id"] == prop:
            files = list(d.get("anchors", {}).get("files", []))
    for f in EXTRA.get(prop, []):
        if f not in files:
            files.append(f)
    return files


def all_files() -> list[str]:
    seen: list[str] = []
    for line in (VERIF / "properties.jsonl").read_text().splitlines():
        if line.strip():
            for f in files_of(json.loads(line)["id"]):
                if f not in seen:
                    seen.append(f)
    return sorted(seen)


def drift(prop: str) -> list[str]:
    """functions of the property's files whose fingerprint differs from the committed baseline"""
    try:
        base = json.loads(BASELINE.read_text())
    except (OSError, ValueError):
        return ["<no baseline>"]
    out = []
    for f in files_of(prop):
        now = file_fingerprints(REPO / f)
        was = base.get(f, {})
        for name in sorted(set(now) | set(was)):
            if now.get(name) != was.get(name):
                out.append(f"{f}:{name}")
    return out


def update() -> None:
    data = {f: file_fingerprints(REPO / f) for f in all_files()}
    BASELINE.write_text(json.dumps(data, indent=1, sort_keys=True) + "\n")
    print(f"baseline written: {len(data)} files, {sum(len(v) for v in data.values())} units")


if __name__ == "__main__":
    if "--update" in sys.argv:
        update()
    else:
        for p in sys.argv[1:]:
            print(p, drift(p))
