"""How much of the code they read do the translators account for?

For every function of the library that any translator touches, every top-level and nested simple statement is
removed in turn (replaced by `pass`) and ALL translators are re-run in memory (nothing is written to
lean/TopSearch/Gen).  A removal that changes neither a generated file nor a kernel status is a statement the
translators do not account for: a change there can only be noticed by the correspondence check and the
predicates.  The result is the "statement coverage of the translators" reported in DESIGN.md; it is an audit
tool, not part of any check.

    translator_audit.py            -> summary per function on stdout, details in /tmp/translator_audit.json
"""
from __future__ import annotations

import ast
import copy
import importlib
import json
import sys
from pathlib import Path

HERE = Path(__file__).resolve().parent
sys.path.insert(0, str(HERE))
import common  # noqa: E402
from translate import base  # noqa: E402

MODULES = ["ktn_cfg", "hef", "similarity", "io_spec", "bh", "neb", "lbfgs_wiring", "align", "pairs", "history",
           "graph", "model_data", "moves", "surfaces", "hash_sites", "bonds", "transcripts"]
import os  # noqa: E402
if os.environ.get("AUDIT_NO_SKELETON") != "1":      # the transcription tie (control flow of the hand-modelled functions)
    MODULES.append("skeleton")


class Session:
    """runs every translator with `parse` / `write_if_changed` (and hash_sites' direct reads) redirected"""

    def __init__(self):
        self.mods = {m: importlib.import_module(f"translate.{m}") for m in MODULES}
        self.override: dict[str, ast.Module] = {}
        self.parsed: set[str] = set()
        self.touched: set[tuple] = set()
        self.out: dict[str, str] = {}
        real_parse = base.parse
        real_find = base.find_function

        def parse(rel):
            self.parsed.add(rel)
            if rel in self.override:
                return copy.deepcopy(self.override[rel])
            return real_parse(rel)

        def write_if_changed(name, text):
            self.out[name] = text
            return False

        def find_function(tree, name, cls=None):
            fn = real_find(tree, name, cls)
            self.touched.add((getattr(tree, "_rel", None), cls, name))
            return fn
        self.parse, self.wic, self.find = parse, write_if_changed, find_function
        for m in list(self.mods.values()) + [base, importlib.import_module("translate.symexec")]:
            for attr, fn in (("parse", parse), ("write_if_changed", write_if_changed)):
                if hasattr(m, attr):
                    setattr(m, attr, fn)

    def run(self) -> tuple[dict, dict]:
        self.out = {}
        status = {}
        for name, m in self.mods.items():
            try:
                r = m.regenerate()
                st = r[0] if isinstance(r, tuple) else r
                status[name] = json.loads(json.dumps(st, default=str, sort_keys=True))
            except Exception as e:  # noqa: BLE001
                status[name] = f"CRASH {type(e).__name__}: {str(e)[:120]}"
        for k in list(status):
            if isinstance(status[k], dict):
                status[k] = {a: b for a, b in status[k].items() if "rewritten" not in a}
        return dict(self.out), status


def simple_statements(fn: ast.FunctionDef):
    """(path description, parent list, index) of every statement that can be replaced by `pass`"""
    out = []

    def walk(body, where):
        for i, s in enumerate(body):
            if i == 0 and isinstance(s, ast.Expr) and isinstance(s.value, ast.Constant) and isinstance(s.value.value, str):
                continue
            if isinstance(s, (ast.If, ast.For, ast.While, ast.With, ast.Try)):
                out.append((where + [i], "compound"))
                for fld in ("body", "orelse", "finalbody"):
                    if getattr(s, fld, None):
                        walk(getattr(s, fld), where + [i, fld])
            else:
                out.append((where + [i], "simple"))
    walk(fn.body, [])
    return out


def get_at(fn, path):
    body = fn.body
    k = 0
    while k < len(path) - 1:
        node = body[path[k]]
        body = getattr(node, path[k + 1])
        k += 2
    return body, path[-1]


def main() -> None:
    S = Session()
    base_out, base_status = S.run()
    files = sorted(S.parsed)
    # hash_sites reads files directly: include the two it names
    report = {}
    total = acc = 0
    for rel in files:
        tree = base.parse.__wrapped__(rel) if hasattr(base.parse, "__wrapped__") else ast.parse((common.SRC / rel).read_text())
        funcs = []
        for n in tree.body:
            if isinstance(n, ast.FunctionDef):
                funcs.append((None, n))
            elif isinstance(n, ast.ClassDef):
                funcs += [(n.name, f) for f in n.body if isinstance(f, ast.FunctionDef)]
        for cls, fn in funcs:
            sts = simple_statements(fn)
            if not sts:
                continue
            unacc = []
            any_effect = False
            for path, kind in sts:
                t2 = copy.deepcopy(tree)
                # locate the same function in the copy
                scope = t2.body
                if cls:
                    scope = next(c for c in t2.body if isinstance(c, ast.ClassDef) and c.name == cls).body
                f2 = next(f for f in scope if isinstance(f, ast.FunctionDef) and f.name == fn.name)
                body, idx = get_at(f2, path)
                removed = ast.unparse(body[idx]).split("\n")[0][:90]
                body[idx] = ast.Pass()
                ast.fix_missing_locations(t2)
                S.override = {rel: t2}
                out, status = S.run()
                if out == base_out and status == base_status:
                    unacc.append(removed)
                else:
                    any_effect = True
            S.override = {}
            if any_effect:                      # a function some translator reads
                name = f"{rel}:{cls + '.' if cls else ''}{fn.name}"
                report[name] = {"statements": len(sts), "unaccounted": unacc}
                total += len(sts)
                acc += len(sts) - len(unacc)
    json.dump(report, open("/tmp/translator_audit.json", "w"), indent=1)
    for name, r in sorted(report.items()):
        print(f"{name}: {r['statements'] - len(r['unaccounted'])}/{r['statements']} statements accounted for")
        for u in r["unaccounted"]:
            print(f"      not accounted: {u}")
    print(f"TOTAL: {acc}/{total} statements of {len(report)} translated functions are accounted for by a translator")


if __name__ == "__main__":
    main()
