"""Evaluate one seeded defect produced by an independent sub-agent:

    seeded_eval.py <property id> <dir with patchK.diff demoK.py metaK.json> <K> [--keep]

1. the demo passes on the unmodified /repo and fails on a scratch copy with the patch applied;
2. the repository's own test suite passes on the patched copy;
3. `./check <id>` (quick, then thorough if quick misses) is run against the patched copy
   (TOPSEARCH_REPO) and must exit 1 with a VIOLATION line;
4. the check is re-run against /repo so that Gen/*.lean is regenerated from the real tree.
The outcome is written to /verif/seeded/<id>-<K>/ (patch.diff, demo.py, meta.json).
Never touches /repo itself."""
from __future__ import annotations

import json
import os
import re
import shutil
import subprocess
import sys
import tempfile
from pathlib import Path

V = Path(__file__).resolve().parent.parent
PY = "/venv/bin/python"


def sh(cmd, cwd=None, env=None, timeout=3600):
    p = subprocess.run(cmd, cwd=cwd, env=env, capture_output=True, text=True, timeout=timeout, shell=isinstance(cmd, str))
    return p.returncode, p.stdout + p.stderr


def recheck(name: str) -> int:
    """seeded_eval.py --recheck <id>-<label>: run the current check against the stored patch again (no test suite,
    no demo) and record the outcome as evaluation.recheck in its meta.json"""
    d = V / "seeded" / name
    pid = name.split("-")[0]
    work = Path(tempfile.mkdtemp(prefix=f"seedre-{name}-"))
    copy = work / "repo"
    sh(f"rsync -a --exclude .git --exclude htmlcov /repo/ {copy}/")
    rc, out = sh(f"patch -p1 --no-backup-if-mismatch < {d / 'patch.diff'}", cwd=copy)
    if rc != 0:
        print(f"{name}: patch does not apply"); shutil.rmtree(work, ignore_errors=True); return 2
    # a private copy of the Lean project and a private evidence directory: rechecks of different seeds can run side by side
    sh(f"rsync -a {V / 'lean'}/ {work / 'lean'}/")
    (work / "evidence" / "replay").mkdir(parents=True)
    envc = dict(os.environ, TOPSEARCH_REPO=str(copy), VERIF_LEAN_DIR=str(work / "lean"), VERIF_EVIDENCE_DIR=str(work / "evidence"))
    res = {}
    for tier in ("quick", "thorough"):
        rcq, oq = sh(["./check", pid, "--tier", tier], cwd=V, env=envc, timeout=6000)
        lines = [l for l in oq.splitlines() if l.startswith("VIOLATION") or l.startswith("  ") or "tier=" in l]
        if rcq == 1:
            break
    txt = "\n".join(lines)
    by = []
    if "broken obligation" in txt or "lake build failed" in txt or "not a checked theorem" in txt or "translator:" in txt:
        by.append("bridge/proof obligation/translator")
    if "divergence" in txt and "divergences 0" not in txt:
        by.append("correspondence")
    concrete = any(l.startswith("VIOLATION") and "no-failing-input-found" not in l for l in lines)
    if concrete:
        by.append("predicate (concrete replay)")
    res = {"caught": rcq == 1, "tier": tier, "by": by, "concrete_replay": concrete, "output": [l[:300] for l in lines[:6]]}
    m = json.loads((d / "meta.json").read_text())
    m.setdefault("evaluation", {})["recheck"] = res
    (d / "meta.json").write_text(json.dumps(m, indent=1))
    shutil.rmtree(work, ignore_errors=True)
    print(f"{name}: recheck caught={res['caught']} tier={tier} concrete={concrete} by={'+'.join(by)}")
    return 0


def main():
    if sys.argv[1] == "--recheck":
        return recheck(sys.argv[2])
    pid, src, k = sys.argv[1], Path(sys.argv[2]), sys.argv[3]
    label = str(int(k) + int(os.environ.get("SEED_LABEL_OFFSET", "0")))      # round 2 is stored as <id>-3, <id>-4
    also = [a for a in sys.argv[4:] if a.startswith("C")]          # further properties to run against it
    patch, demo, meta = src / f"patch{k}.diff", src / f"demo{k}.py", src / f"meta{k}.json"
    if not patch.exists() or not demo.exists():
        print(f"{pid}-{k}: missing files"); return 2
    work = Path(tempfile.mkdtemp(prefix=f"seedev-{pid}-{k}-"))
    copy = work / "repo"
    sh(f"rsync -a --exclude .git --exclude htmlcov /repo/ {copy}/")
    rc, out = sh(f"patch -p1 --no-backup-if-mismatch < {patch}", cwd=copy)
    res = {"patch_applies": rc == 0}
    if rc != 0:
        print(f"{pid}-{k}: patch does not apply\n{out[-500:]}")
        shutil.rmtree(work, ignore_errors=True)
        return 2
    env0 = dict(os.environ, PYTHONPATH="/repo/src")
    env1 = dict(os.environ, PYTHONPATH=str(copy / "src"))
    d0 = tempfile.mkdtemp(dir=work); d1 = tempfile.mkdtemp(dir=work)
    rc0, o0 = sh([PY, str(demo)], cwd=d0, env=env0, timeout=1800)
    rc1, o1 = sh([PY, str(demo)], cwd=d1, env=env1, timeout=1800)
    res["demo_passes_without_change"] = rc0 == 0
    res["demo_fails_with_change"] = rc1 != 0
    res["demo_output_with_change"] = o1[-600:]
    rct, ot = sh([PY, "-m", "pytest", "-q", "-p", "no:cacheprovider", "--no-cov", "-n", "4", "--timeout=900"],
                 cwd=copy, env=env1, timeout=3000)
    tail = ot.strip().splitlines()[-1] if ot.strip() else ""
    failed = re.findall(r"FAILED (\S+)", ot)
    res["tests"] = tail
    ok_tests = rct == 0
    if not ok_tests and failed and len(failed) <= 3:
        # the suite has a few tests that flake under parallel load on the unmodified tree: a failed
        # test counts only if it also fails when re-run alone (3 tries)
        ok_tests = True
        for f in failed:
            passed = False
            for _ in range(3):
                r1, _o = sh([PY, "-m", "pytest", "-q", "-p", "no:cacheprovider", "--no-cov", f.split(" ")[0]],
                            cwd=copy, env=env1, timeout=1800)
                if r1 == 0:
                    passed = True
                    break
            ok_tests = ok_tests and passed
        res["tests_rerun_alone"] = failed
    res["tests_pass"] = bool(ok_tests)
    checks = {}
    # a private copy of the Lean project and a private evidence directory: seeds can be evaluated side by side
    sh(f"rsync -a {V / 'lean'}/ {work / 'lean'}/")
    (work / "evidence" / "replay").mkdir(parents=True)
    for prop in [pid] + also:
        envc = dict(os.environ, TOPSEARCH_REPO=str(copy), VERIF_LEAN_DIR=str(work / "lean"),
                    VERIF_EVIDENCE_DIR=str(work / "evidence"))
        rcq, oq = sh(["./check", prop, "--tier", "quick"], cwd=V, env=envc, timeout=3000)
        lines = [l for l in oq.splitlines() if l.startswith("VIOLATION") or l.startswith("  ") or "tier=" in l]
        tier = "quick"
        if rcq != 1:
            rcq, oq2 = sh(["./check", prop, "--tier", "thorough"], cwd=V, env=envc, timeout=6000)
            lines = [l for l in oq2.splitlines() if l.startswith("VIOLATION") or l.startswith("  ") or "tier=" in l]
            tier = "thorough"
        caught = rcq == 1
        by = []
        txt = "\n".join(lines)
        if "broken obligation" in txt or "lake build failed" in txt or "not a checked theorem" in txt or "translator:" in txt:
            by.append("bridge/proof obligation")
        if "divergence" in txt and "divergences 0" not in txt:
            by.append("correspondence")
        if any(l.startswith("VIOLATION") and "no-failing-input-found" not in l for l in lines):
            by.append("predicate (concrete replay)")
        checks[prop] = {"caught": caught, "tier": tier, "by": by, "output": [l[:300] for l in lines[:8]]}
    res["checks"] = checks
    ok = res["demo_passes_without_change"] and res["demo_fails_with_change"] and res["tests_pass"]
    res["qualifies"] = bool(ok)
    m = json.loads(meta.read_text()) if meta.exists() else {}
    m.update({"evaluation": res, "property": pid,
              "what_i_ran": "harness/seeded_eval.py: demo on /repo and on a patched scratch copy; full pytest suite on the "
                            "patched copy; ./check <id> with TOPSEARCH_REPO=<patched copy> (quick, then thorough)"})
    if ok or "--keep" in sys.argv:
        dst = V / "seeded" / f"{pid}-{label}"
        dst.mkdir(parents=True, exist_ok=True)
        shutil.copy(patch, dst / "patch.diff"); shutil.copy(demo, dst / "demo.py")
        (dst / "meta.json").write_text(json.dumps(m, indent=1))
    shutil.rmtree(work, ignore_errors=True)
    print(f"{pid}-{label}: qualifies={ok} tests='{tail[:60]}' demo0={rc0} demo1={rc1} " +
          " ".join(f"{p}:caught={c['caught']}({c['tier']};{'+'.join(c['by'])})" for p, c in checks.items()))
    return 0


if __name__ == "__main__":
    sys.exit(main())
