"""Seeded end-to-end pipelines run in a *separate interpreter* (so that PYTHONHASHSEED takes
effect).  Prints one line: a byte-level digest of the final network.
    run_pipeline.py <standard|atomic|molecular> <rng seed> [repo path]
Also used by C01 with --dump to print the network itself as JSON."""
import hashlib
import json
import os
import random
import sys
import tempfile

kind, seed = sys.argv[1], int(sys.argv[2])
repo = sys.argv[3] if len(sys.argv) > 3 and not sys.argv[3].startswith("--") else "/repo"
sys.path.insert(0, os.path.join(repo, "src"))
os.chdir(tempfile.mkdtemp(prefix="verif-pipe-"))
import warnings
warnings.filterwarnings("ignore")
import numpy as np
np.seterr(all="ignore")
np.random.seed(seed)
random.seed(seed)

from topsearch.data.kinetic_transition_network import KineticTransitionNetwork
from topsearch.global_optimisation.basin_hopping import BasinHopping
from topsearch.sampling.exploration import NetworkSampling
from topsearch.transition_states.hybrid_eigenvector_following import HybridEigenvectorFollowing
from topsearch.transition_states.nudged_elastic_band import NudgedElasticBand

ktn = KineticTransitionNetwork()
if kind == "standard":
    from topsearch.data.coordinates import StandardCoordinates
    from topsearch.potentials.test_functions import Camelback
    from topsearch.similarity.similarity import StandardSimilarity
    from topsearch.global_optimisation.perturbations import StandardPerturbation
    coords = StandardCoordinates(ndim=2, bounds=[(-3.0, 3.0), (-2.0, 2.0)])
    pot = Camelback()
    sim = StandardSimilarity(0.05, 1e-2, proportional_distance=True)
    step = StandardPerturbation(max_displacement=1.0, proportional_distance=True)
    hef = HybridEigenvectorFollowing(pot, 1e-4, 50, 0.5)
    neb = NudgedElasticBand(pot, 10.0, 10.0, 30, 1e-2)
    steps, temp, cycles = 40, 1.0, 2
elif kind == "atomic":
    from topsearch.data.coordinates import AtomicCoordinates
    from topsearch.potentials.atomic import LennardJones
    from topsearch.similarity.molecular_similarity import MolecularSimilarity
    from topsearch.global_optimisation.perturbations import AtomicPerturbation
    position = np.array([[0.0, 0.0, 0.0], [1.1, 0.0, 0.0], [1.1, 1.1, 0.0], [0.0, 1.1, 0.0],
                         [0.0, 0.0, 1.1], [0.0, 1.1, 1.1], [1.1, 1.1, 1.1]])
    coords = AtomicCoordinates(['C'] * 7, position.flatten(), bond_cutoff=1.5)
    pot = LennardJones()
    sim = MolecularSimilarity(0.2, 1e-1, weighted=False, allow_inversion=True)
    step = AtomicPerturbation(max_displacement=0.5, max_atoms=3)
    hef = HybridEigenvectorFollowing(pot, 1e-4, 60, 1e-1, max_uphill_step_size=0.3,
                                     positive_eigenvalue_step=0.3)
    neb = NudgedElasticBand(pot, 50.0, 10.0, 12, 1e-2)
    steps, temp, cycles = 12, 1.0, 1
elif kind == "schwefel":
    # many minima and saddles: retried pairs and later rounds keep finding NEW transition states, so anything that
    # disturbs the random streams shows up in the stored coordinates
    from topsearch.data.coordinates import StandardCoordinates
    from topsearch.potentials.test_functions import Schwefel
    from topsearch.similarity.similarity import StandardSimilarity
    from topsearch.global_optimisation.perturbations import StandardPerturbation
    coords = StandardCoordinates(ndim=2, bounds=[(-500.0, 500.0), (-500.0, 500.0)])
    pot = Schwefel()
    sim = StandardSimilarity(0.02, 1.0, proportional_distance=True)
    step = StandardPerturbation(max_displacement=0.3, proportional_distance=True)
    hef = HybridEigenvectorFollowing(pot, 1e-3, 50, 20.0, max_uphill_step_size=100.0, positive_eigenvalue_step=20.0)
    neb = NudgedElasticBand(pot, 10.0, 0.06, 20, 1e-1)
    steps, temp, cycles = 25, 500.0, 1
else:
    raise SystemExit("unknown pipeline")
bh = BasinHopping(ktn, pot, sim, step)
ns = NetworkSampling(ktn, coords, bh, hef, neb, sim)
ns.get_minima(coords, steps, 1e-5, temp, test_valid=True)
ns.get_transition_states('ClosestEnumeration', cycles, remove_bounds_minima=False)
ns.get_transition_states('ConnectUnconnected', 1, remove_bounds_minima=False)
# a further nearest-neighbour round: pairs that an earlier round attempted without joining them are RETRIED here
ns.get_transition_states('ClosestEnumeration', 1, remove_bounds_minima=False)
# and the two most distant minima, attempted three times over (they are rarely joined directly: the second and third
# attempts are retries at raised image density, followed by fresh pairs)
if ktn.n_minima >= 3:
    far = max(((i, j) for i in range(ktn.n_minima) for j in range(i + 1, ktn.n_minima)),
              key=lambda p: float(np.linalg.norm(np.asarray(ktn.get_minimum_coords(p[0])) - np.asarray(ktn.get_minimum_coords(p[1])))))
    for _ in range(3):
        ns.run_connection_attempts([list(far)])
    ns.get_transition_states('ClosestEnumeration', 2, remove_bounds_minima=False)

h = hashlib.sha256()
rows = []
for i in range(ktn.n_minima):
    c, e = np.asarray(ktn.get_minimum_coords(i), float), float(ktn.get_minimum_energy(i))
    h.update(c.tobytes()); h.update(np.float64(e).tobytes())
    rows.append(("min", i, c.tolist(), e))
for u, v in ktn.G.edges():
    c, e = np.asarray(ktn.get_ts_coords(u, v), float), float(ktn.get_ts_energy(u, v))
    h.update(bytes([int(u), int(v)])); h.update(c.tobytes()); h.update(np.float64(e).tobytes())
    rows.append(("ts", int(u), int(v), c.tolist(), e))
h.update(np.asarray(ktn.pairlist, dtype=np.int64).tobytes())
print(f"DIGEST {h.hexdigest()} minima={ktn.n_minima} ts={ktn.n_ts} history={len(ktn.pairlist)}")
if "--dump" in sys.argv:
    print("DUMP " + json.dumps(rows))
