/-
  C16 — surfaces: coded derivatives are exact; energies have the right symmetries.
  Property theorems only.  The expressions `Gen.Surfaces.*` are regenerated from the current
  Python source by symbolic execution on every run, so each theorem is about what the code says
  *now*; `E.sound` (Lemmas/Deriv.lean) turns an identity between expression trees into a
  statement about real derivatives (`HasDerivAt`).
-/
import TopSearch.Lemmas.Deriv
import TopSearch.Gen.Surfaces
import Mathlib.Tactic.IntervalCases
import Mathlib.Tactic.LinearCombination
import Mathlib.Tactic.NormNum

namespace TopSearch.Props.C16
open TopSearch.Py TopSearch.Gen.Surfaces TopSearch.Surfaces

/-! ### Camelback: coded gradient and Hessian are the derivatives of the coded function -/

theorem camel_ok (ρ : ℕ → ℝ) : camelF.ok ρ := by simp [camelF, E.ok]

/-- ∂f/∂xᵢ of the coded Camelback function is the coded gradient component `i`, at every point. -/
theorem C16_camel_grad (ρ : ℕ → ℝ) (i : ℕ) (hi : i < 2) :
    HasDerivAt (fun t => evalR (Function.update ρ i t) camelF) (evalR ρ (camelGrad.getD i (.c 0 1))) (ρ i) := by
  have h := E.sound i camelF ρ (camel_ok ρ)
  refine h.congr_deriv ?_
  interval_cases i <;> (simp [camelF, camelGrad, E.d]; ring)

/-- ∂gᵢ/∂xⱼ of the coded gradient is the coded Hessian entry `(i, j)`, at every point. -/
theorem C16_camel_hess (ρ : ℕ → ℝ) (i j : ℕ) (hi : i < 2) (hj : j < 2) :
    HasDerivAt (fun t => evalR (Function.update ρ j t) (camelGrad.getD i (.c 0 1)))
      (evalR ρ (camelHess.getD (2 * i + j) (.c 0 1))) (ρ j) := by
  have hok : (camelGrad.getD i (.c 0 1)).ok ρ := by
    interval_cases i <;> simp [camelGrad, E.ok]
  have h := E.sound j _ ρ hok
  refine h.congr_deriv ?_
  interval_cases i <;> interval_cases j <;> (simp [camelGrad, camelHess, E.d]; try ring)

/-- the coded Hessian is symmetric -/
theorem C16_camel_hess_symm (ρ : ℕ → ℝ) :
    evalR ρ (camelHess.getD 1 (.c 0 1)) = evalR ρ (camelHess.getD 2 (.c 0 1)) := by
  simp [camelHess]

/-! ### Lennard-Jones: coded gradient is the derivative of the coded energy (2, 3, 4 atoms) -/

set_option hygiene false in
/-- closes `evalR ρ (d k ljF) = evalR ρ (ljGrad k)` after both sides are unfolded: name the squared
    pair distances, clear denominators, normalise -/
local macro "lj_close" : tactic => `(tactic| (
  try generalize (ρ 0 - ρ 3) ^ 2 + (ρ 1 - ρ 4) ^ 2 + (ρ 2 - ρ 5) ^ 2 = D01 at *
  try generalize (ρ 0 - ρ 6) ^ 2 + (ρ 1 - ρ 7) ^ 2 + (ρ 2 - ρ 8) ^ 2 = D02 at *
  try generalize (ρ 0 - ρ 9) ^ 2 + (ρ 1 - ρ 10) ^ 2 + (ρ 2 - ρ 11) ^ 2 = D03 at *
  try generalize (ρ 3 - ρ 6) ^ 2 + (ρ 4 - ρ 7) ^ 2 + (ρ 5 - ρ 8) ^ 2 = D12 at *
  try generalize (ρ 3 - ρ 9) ^ 2 + (ρ 4 - ρ 10) ^ 2 + (ρ 5 - ρ 11) ^ 2 = D13 at *
  try generalize (ρ 6 - ρ 9) ^ 2 + (ρ 7 - ρ 10) ^ 2 + (ρ 8 - ρ 11) ^ 2 = D23 at *
  field_simp
  ring))

/-- two atoms (the pair kernel): wherever the two atoms do not coincide, the coded gradient is the
    gradient of the coded energy; variables 0..5 are the coordinates, 6 = ε, 7 = σ. -/
theorem C16_lj_grad_2 (ρ : ℕ → ℝ) (hok : ljF2.ok ρ) (k : ℕ) (hk : k < 6) :
    HasDerivAt (fun t => evalR (Function.update ρ k t) ljF2) (evalR ρ (ljGrad2.getD k (.c 0 1))) (ρ k) := by
  have h := E.sound k ljF2 ρ hok
  refine h.congr_deriv ?_
  simp [ljF2, E.ok] at hok
  interval_cases k <;> (simp [ljF2, ljGrad2, E.d]; lj_close)

/-- three atoms; variables 0..8 coordinates, 9 = ε, 10 = σ -/
theorem C16_lj_grad_3 (ρ : ℕ → ℝ) (hok : ljF3.ok ρ) (k : ℕ) (hk : k < 9) :
    HasDerivAt (fun t => evalR (Function.update ρ k t) ljF3) (evalR ρ (ljGrad3.getD k (.c 0 1))) (ρ k) := by
  have h := E.sound k ljF3 ρ hok
  refine h.congr_deriv ?_
  simp [ljF3, E.ok] at hok
  obtain ⟨⟨h1, h2⟩, h3⟩ := hok
  interval_cases k <;> (simp [ljF3, ljGrad3, E.d]; lj_close)

/-- four atoms; variables 0..11 coordinates, 12 = ε, 13 = σ -/
theorem C16_lj_grad_4 (ρ : ℕ → ℝ) (hok : ljF4.ok ρ) (k : ℕ) (hk : k < 12) :
    HasDerivAt (fun t => evalR (Function.update ρ k t) ljF4) (evalR ρ (ljGrad4.getD k (.c 0 1))) (ρ k) := by
  have h := E.sound k ljF4 ρ hok
  refine h.congr_deriv ?_
  simp [ljF4, E.ok] at hok
  obtain ⟨⟨⟨⟨⟨h1, h2⟩, h3⟩, h4⟩, h5⟩, h6⟩ := hok
  interval_cases k <;> (simp [ljF4, ljGrad4, E.d]; lj_close)

/-- the combined function-and-gradient call returns exactly the function followed by the
    gradient (as expression trees, hence for every input) -/
theorem C16_fg_agree : ljFG2 = ljF2 :: ljGrad2 ∧ ljFG3 = ljF3 :: ljGrad3 ∧ ljFG4 = ljF4 :: ljGrad4 :=
  ⟨rfl, rfl, rfl⟩

/-! ### Finite differences (the inherited `Potential.gradient` / `hessian`, executed symbolically
    on the Quadratic surface; variable 9 is the displacement `h`) -/

/-- central differences are exact on quadratics: for every `h ≠ 0` the finite-difference gradient
    computed by the code equals the true gradient of the coded function. -/
theorem C16_fd_exact_quadratic (ρ : ℕ → ℝ) (hh : ρ 9 ≠ 0) (k : ℕ) (hk : k < 3) :
    evalR ρ (quadFDGrad3.getD k (.c 0 1)) = evalR ρ (quadF3.d k) ∧
    HasDerivAt (fun t => evalR (Function.update ρ k t) quadF3)
      (evalR ρ (quadFDGrad3.getD k (.c 0 1))) (ρ k) := by
  have hok : quadF3.ok ρ := by simp [quadF3, E.ok]
  have key : evalR ρ (quadFDGrad3.getD k (.c 0 1)) = evalR ρ (quadF3.d k) := by
    interval_cases k <;> (simp [quadFDGrad3, quadF3, E.d]; field_simp; ring)
  exact ⟨key, (E.sound k quadF3 ρ hok).congr_deriv key.symm⟩

/-- the code's stencil is the central difference `(f(x+h) − f(x−h)) / 2h` of the coded function -/
theorem C16_fd_is_central_difference (ρ : ℕ → ℝ) (hh : ρ 9 ≠ 0) (k : ℕ) (hk : k < 3) :
    evalR ρ (quadFDGrad3.getD k (.c 0 1)) =
      centralDiff (fun x => evalR (Function.update ρ k x) quadF3) (ρ k) (ρ 9) := by
  interval_cases k <;>
    (simp [quadFDGrad3, quadF3, centralDiff, Function.update]; field_simp; ring)

/-- the same on a surface that is not separable (Camelback has an `x·y` term): component `k` of the
    inherited finite-difference gradient is the central difference of the coded function in coordinate `k`
    AT THE POINT ITSELF — every other coordinate is back at its value when `f` is evaluated -/
theorem C16_fd_camel_is_central_difference (ρ : ℕ → ℝ) (hh : ρ 9 ≠ 0) (k : ℕ) (hk : k < 2) :
    evalR ρ (camelFDGrad2.getD k (.c 0 1)) =
      centralDiff (fun x => evalR (Function.update ρ k x) camelF) (ρ k) (ρ 9) := by
  interval_cases k <;>
    (simp [camelFDGrad2, camelF, centralDiff, Function.update]; field_simp; ring)

/-- the inherited finite-difference Hessian on the same surface: entry `(i, j)`, `i ≤ j`, is the central
    difference in coordinate `i` (displacement `h` = variable 9) of component `j` of the inherited
    finite-difference gradient taken with its default displacement 10⁻⁶, at the point itself; the lower
    triangle is a copy of the upper one -/
theorem C16_fd_camel_hess_is_central_difference (ρ : ℕ → ℝ) (hh : ρ 9 ≠ 0) (i j : ℕ) (hij : i ≤ j) (hj : j < 2) :
    evalR ρ (camelFDHess2.getD (2 * i + j) (.c 0 1)) =
      centralDiff (fun x => evalR (Function.update (Function.update ρ 9 (1 / 1000000)) i x)
        (camelFDGrad2.getD j (.c 0 1))) (ρ i) (ρ 9) := by
  interval_cases j <;> interval_cases i <;>
    (simp [camelFDHess2, camelFDGrad2, centralDiff, Function.update]; field_simp; ring)

theorem C16_fd_camel_hess_symm : camelFDHess2.getD 1 (.c 0 1) = camelFDHess2.getD 2 (.c 0 1) := rfl

/-- truncation order: on a cubic the central difference is off by exactly `a₃·h²`
    (and therefore exact on quadratics, `a₃ = 0`) -/
theorem C16_fd_cubic_error (a0 a1 a2 a3 x h : ℝ) (hh : h ≠ 0) :
    centralDiff (fun t => a0 + a1 * t + a2 * t ^ 2 + a3 * t ^ 3) x h =
      (a1 + 2 * a2 * x + 3 * a3 * x ^ 2) + a3 * h ^ 2 := by
  simp only [centralDiff]
  field_simp
  ring

/-- the finite-difference Hessian the code builds is symmetric (entries (0,1) and (1,0) are the
    same expression) and, on the Quadratic surface, equals the true second derivatives -/
theorem C16_fd_hess_symm : quadFDHess2.getD 1 (.c 0 1) = quadFDHess2.getD 2 (.c 0 1) := rfl

theorem C16_fd_hess_exact_quadratic (ρ : ℕ → ℝ) (hh : ρ 9 ≠ 0) :
    evalR ρ (quadFDHess2.getD 0 (.c 0 1)) = 2 ∧ evalR ρ (quadFDHess2.getD 1 (.c 0 1)) = 0 ∧
    evalR ρ (quadFDHess2.getD 3 (.c 0 1)) = 2 := by
  refine ⟨?_, ?_, ?_⟩ <;> (simp [quadFDHess2] <;> field_simp <;> ring)

/-- the finite-difference routines leave the caller's array object untouched (they differentiate on
    a copy): read off the symbolic execution of the current source -/
theorem C16_fd_caller_array_untouched : fdLeavesCallerArray = true := rfl

/-! ### Symmetries of the cluster energies -/

/-- squared distance between atoms `i` and `j` (coordinates `3i..3i+2`) -/
def sq3 (ρ : ℕ → ℝ) (i j : ℕ) : ℝ :=
  (ρ (3*i) - ρ (3*j))^2 + (ρ (3*i+1) - ρ (3*j+1))^2 + (ρ (3*i+2) - ρ (3*j+2))^2

/-- the coded Lennard-Jones energy of three atoms depends on the configuration only through the
    inter-atomic distances: any map preserving them (rigid motion) preserves the energy -/
theorem C16_lj_invariant (ρ ρ' : ℕ → ℝ) (h01 : sq3 ρ' 0 1 = sq3 ρ 0 1) (h02 : sq3 ρ' 0 2 = sq3 ρ 0 2)
    (h12 : sq3 ρ' 1 2 = sq3 ρ 1 2) (he : ρ' 9 = ρ 9) (hs : ρ' 10 = ρ 10) :
    evalR ρ' ljF3 = evalR ρ ljF3 := by
  simp only [sq3] at h01 h02 h12
  norm_num at h01 h02 h12
  simp only [ljF3, evalR_add, evalR_mul, evalR_sub, evalR_div, evalR_pow, evalR_v, evalR_c]
  rw [h01, h02, h12, he, hs]

/-- the same for the coded binary Gupta energy (species Au, Ag, Au), whatever `exp` and `sqrt` are -/
theorem C16_gupta_invariant (f : Fn → ℝ → ℝ) (ρ ρ' : ℕ → ℝ) (h01 : sq3 ρ' 0 1 = sq3 ρ 0 1)
    (h02 : sq3 ρ' 0 2 = sq3 ρ 0 2) (h12 : sq3 ρ' 1 2 = sq3 ρ 1 2) :
    evalF f ρ' guptaF3 = evalF f ρ guptaF3 := by
  simp only [sq3] at h01 h02 h12
  norm_num at h01 h02 h12
  simp only [guptaF3, evalF_add, evalF_mul, evalF_sub, evalF_div, evalF_pow, evalF_v, evalF_c,
    evalF_fn, evalF_neg]
  rw [h01, h02, h12]

/-- applying a 3×3 matrix `Q` to every atom and translating by `t` -/
def moveAtoms (Q : Fin 3 → Fin 3 → ℝ) (t : Fin 3 → ℝ) (ρ : ℕ → ℝ) (i : ℕ) : ℝ :=
  if h : i < 9 then
    let c : Fin 3 := ⟨i % 3, Nat.mod_lt _ (by norm_num)⟩
    Q c 0 * ρ (3 * (i / 3)) + Q c 1 * ρ (3 * (i / 3) + 1) + Q c 2 * ρ (3 * (i / 3) + 2) + t c
  else ρ i

/-- an orthogonal matrix preserves the squared length of a vector -/
theorem orth_sq (Q : Fin 3 → Fin 3 → ℝ) (d0 d1 d2 : ℝ)
    (h00 : Q 0 0 * Q 0 0 + Q 1 0 * Q 1 0 + Q 2 0 * Q 2 0 = 1)
    (h11 : Q 0 1 * Q 0 1 + Q 1 1 * Q 1 1 + Q 2 1 * Q 2 1 = 1)
    (h22 : Q 0 2 * Q 0 2 + Q 1 2 * Q 1 2 + Q 2 2 * Q 2 2 = 1)
    (h01 : Q 0 0 * Q 0 1 + Q 1 0 * Q 1 1 + Q 2 0 * Q 2 1 = 0)
    (h02 : Q 0 0 * Q 0 2 + Q 1 0 * Q 1 2 + Q 2 0 * Q 2 2 = 0)
    (h12 : Q 0 1 * Q 0 2 + Q 1 1 * Q 1 2 + Q 2 1 * Q 2 2 = 0) :
    (Q 0 0 * d0 + Q 0 1 * d1 + Q 0 2 * d2) ^ 2 + (Q 1 0 * d0 + Q 1 1 * d1 + Q 1 2 * d2) ^ 2 +
      (Q 2 0 * d0 + Q 2 1 * d1 + Q 2 2 * d2) ^ 2 = d0 ^ 2 + d1 ^ 2 + d2 ^ 2 := by
  linear_combination d0 ^ 2 * h00 + d1 ^ 2 * h11 + d2 ^ 2 * h22 + 2 * d0 * d1 * h01 +
    2 * d0 * d2 * h02 + 2 * d1 * d2 * h12

/-- an orthogonal map (QᵀQ = 1, proper or improper) followed by a translation preserves every
    inter-atomic distance -/
theorem sq3_moveAtoms (Q : Fin 3 → Fin 3 → ℝ) (t : Fin 3 → ℝ) (ρ : ℕ → ℝ)
    (h00 : Q 0 0 * Q 0 0 + Q 1 0 * Q 1 0 + Q 2 0 * Q 2 0 = 1)
    (h11 : Q 0 1 * Q 0 1 + Q 1 1 * Q 1 1 + Q 2 1 * Q 2 1 = 1)
    (h22 : Q 0 2 * Q 0 2 + Q 1 2 * Q 1 2 + Q 2 2 * Q 2 2 = 1)
    (h01 : Q 0 0 * Q 0 1 + Q 1 0 * Q 1 1 + Q 2 0 * Q 2 1 = 0)
    (h02 : Q 0 0 * Q 0 2 + Q 1 0 * Q 1 2 + Q 2 0 * Q 2 2 = 0)
    (h12 : Q 0 1 * Q 0 2 + Q 1 1 * Q 1 2 + Q 2 1 * Q 2 2 = 0)
    (i j : ℕ) (hi : i < 3) (hj : j < 3) :
    sq3 (moveAtoms Q t ρ) i j = sq3 ρ i j := by
  have key := orth_sq Q (ρ (3*i) - ρ (3*j)) (ρ (3*i+1) - ρ (3*j+1)) (ρ (3*i+2) - ρ (3*j+2))
    h00 h11 h22 h01 h02 h12
  interval_cases i <;> interval_cases j <;>
    (simp [sq3, moveAtoms] at key ⊢ <;> linear_combination key)

/-- Lennard-Jones and Gupta energies are invariant under every rigid motion (rotation,
    reflection, translation) of the cluster -/
theorem C16_lj_rigid_motion (Q : Fin 3 → Fin 3 → ℝ) (t : Fin 3 → ℝ) (ρ : ℕ → ℝ)
    (h00 : Q 0 0 * Q 0 0 + Q 1 0 * Q 1 0 + Q 2 0 * Q 2 0 = 1)
    (h11 : Q 0 1 * Q 0 1 + Q 1 1 * Q 1 1 + Q 2 1 * Q 2 1 = 1)
    (h22 : Q 0 2 * Q 0 2 + Q 1 2 * Q 1 2 + Q 2 2 * Q 2 2 = 1)
    (h01 : Q 0 0 * Q 0 1 + Q 1 0 * Q 1 1 + Q 2 0 * Q 2 1 = 0)
    (h02 : Q 0 0 * Q 0 2 + Q 1 0 * Q 1 2 + Q 2 0 * Q 2 2 = 0)
    (h12 : Q 0 1 * Q 0 2 + Q 1 1 * Q 1 2 + Q 2 1 * Q 2 2 = 0) (f : Fn → ℝ → ℝ) :
    evalR (moveAtoms Q t ρ) ljF3 = evalR ρ ljF3 ∧
    evalF f (moveAtoms Q t ρ) guptaF3 = evalF f ρ guptaF3 := by
  have h := sq3_moveAtoms Q t ρ h00 h11 h22 h01 h02 h12
  exact ⟨C16_lj_invariant ρ _ (h 0 1 (by norm_num) (by norm_num)) (h 0 2 (by norm_num) (by norm_num))
      (h 1 2 (by norm_num) (by norm_num)) (by simp [moveAtoms]) (by simp [moveAtoms]),
    C16_gupta_invariant f ρ _ (h 0 1 (by norm_num) (by norm_num)) (h 0 2 (by norm_num) (by norm_num))
      (h 1 2 (by norm_num) (by norm_num))⟩

/-- exchanging two atoms' coordinates -/
def swapAtoms (a b : ℕ) (i : ℕ) : ℕ :=
  if i / 3 = a ∧ i < 9 then 3 * b + i % 3 else if i / 3 = b ∧ i < 9 then 3 * a + i % 3 else i

/-- exchange of like atoms: any two of the three Lennard-Jones atoms; the two Au atoms (0 and 2)
    of the Au–Ag–Au Gupta cluster -/
theorem C16_exchange_like_atoms (ρ : ℕ → ℝ) (f : Fn → ℝ → ℝ) :
    evalR (ρ ∘ swapAtoms 0 1) ljF3 = evalR ρ ljF3 ∧ evalR (ρ ∘ swapAtoms 0 2) ljF3 = evalR ρ ljF3 ∧
    evalR (ρ ∘ swapAtoms 1 2) ljF3 = evalR ρ ljF3 ∧
    evalF f (ρ ∘ swapAtoms 0 2) guptaF3 = evalF f ρ guptaF3 := by
  refine ⟨?_, ?_, ?_, ?_⟩
  · simp [ljF3, swapAtoms]; ring
  · simp [ljF3, swapAtoms]; ring
  · simp [ljF3, swapAtoms]; ring
  · simp [guptaF3, swapAtoms]; ring_nf

/-! ### The minimum / transition-state classifiers agree with the Hessian spectrum
    (`eigs` = ascending `eigvalsh` output; thresholds and slice starts are the generated ones) -/

theorem classify_all (c : EigCond) (hc : c.all = true) (eigs : List Rat) :
    classify [c] eigs = some true ↔ ∀ x ∈ eigs.drop c.start, c.op.holds x c.thr = true := by
  simp only [classify, EigCond.eval, hc, if_true]
  cases h : (eigs.drop c.start).all (fun x => c.op.holds x c.thr)
  · constructor
    · intro hcon; exact absurd hcon (by simp)
    · intro hall
      rw [List.all_eq_false] at h
      obtain ⟨x, hx, hn⟩ := h
      exact absurd (hall x hx) hn
  · constructor
    · intro _; exact List.all_eq_true.1 h
    · intro _; rfl

theorem classify_idx (c : EigCond) (hc : c.all = false) (cs : List EigCond) (eigs : List Rat) :
    classify (c :: cs) eigs = some true ↔
      ∃ x, eigs[c.start]? = some x ∧ c.op.holds x c.thr = true ∧ classify cs eigs = some true := by
  simp only [classify, EigCond.eval, hc]
  cases h : eigs[c.start]? with
  | none => simp
  | some x => cases hh : c.op.holds x c.thr <;> simp [hh]

/-- a point at the bounds is always accepted (no spectrum is computed) -/
theorem C16_classifier_at_bounds (a : Bool) (ca cs : List EigCond) (eigs : List Rat) :
    checkValid true a ca cs eigs = some true := rfl

/-- standard surfaces: accepted as a minimum iff every eigenvalue exceeds 1e-9 -/
theorem C16_classifier_min_std (eigs : List Rat) :
    checkValid false false validMinAtom validMinStd eigs = some true ↔
      ∀ x ∈ eigs, (1 / 1000000000 : Rat) < x := by
  have := classify_all ⟨0, true, .gt, (1 : Rat) / 1000000000⟩ rfl eigs
  simpa [checkValid, validMinStd, Cmp.holds] using this

/-- standard surfaces: accepted as a transition state iff the lowest eigenvalue is below −1e-5 and
    every other eigenvalue exceeds 1e-9 -/
theorem C16_classifier_ts_std (eigs : List Rat) :
    checkValid false false validTsAtom validTsStd eigs = some true ↔
      ∃ x rest, eigs = x :: rest ∧ x < (-1 / 100000 : Rat) ∧ ∀ y ∈ rest, (1 / 1000000000 : Rat) < y := by
  have h1 := classify_idx ⟨0, false, .lt, (-1 : Rat) / 100000⟩ rfl [⟨1, true, .gt, (1 : Rat) / 1000000000⟩] eigs
  have h2 := classify_all ⟨1, true, .gt, (1 : Rat) / 1000000000⟩ rfl eigs
  simp only [checkValid, validTsStd, Bool.false_eq_true, if_false]
  rw [h1, h2]
  cases eigs with
  | nil => simp
  | cons x rest => simp [Cmp.holds]

/-- hence exactly one eigenvalue is negative at an accepted transition state -/
theorem C16_ts_exactly_one_negative (eigs : List Rat)
    (h : checkValid false false validTsAtom validTsStd eigs = some true) :
    (eigs.filter (fun x => decide (x < 0))).length = 1 := by
  obtain ⟨x, rest, rfl, hx, hr⟩ := (C16_classifier_ts_std eigs).1 h
  have hx0 : x < 0 := lt_trans hx (by norm_num)
  have : rest.filter (fun x => decide (x < 0)) = [] := by
    rw [List.filter_eq_nil_iff]
    intro y hy
    have := hr y hy
    have : (0 : Rat) < y := lt_trans (by norm_num) this
    simp; exact le_of_lt this
  simp [List.filter_cons, hx0, this]

/-- atomistic systems: six zero modes are skipped for a minimum, seven for a transition state -/
theorem C16_classifier_min_atom (eigs : List Rat) :
    checkValid false true validMinAtom validMinStd eigs = some true ↔
      ∃ x rest, eigs = x :: rest ∧ (-1 : Rat) < x ∧ ∀ y ∈ eigs.drop 6, (1 / 1000000 : Rat) < y := by
  have h1 := classify_idx ⟨0, false, .gt, (-1 : Rat) / 1⟩ rfl [⟨6, true, .gt, (1 : Rat) / 1000000⟩] eigs
  have h2 := classify_all ⟨6, true, .gt, (1 : Rat) / 1000000⟩ rfl eigs
  simp only [checkValid, validMinAtom, Bool.false_eq_true, if_false, if_true]
  rw [h1, h2]
  cases eigs with
  | nil => simp
  | cons x rest => simp [Cmp.holds]

theorem C16_classifier_ts_atom (eigs : List Rat) :
    checkValid false true validTsAtom validTsStd eigs = some true ↔
      ∃ x rest, eigs = x :: rest ∧ x < (-1 / 1000 : Rat) ∧ ∀ y ∈ eigs.drop 7, (1 / 1000000 : Rat) < y := by
  have h1 := classify_idx ⟨0, false, .lt, (-1 : Rat) / 1000⟩ rfl [⟨7, true, .gt, (1 : Rat) / 1000000⟩] eigs
  have h2 := classify_all ⟨7, true, .gt, (1 : Rat) / 1000000⟩ rfl eigs
  simp only [checkValid, validTsAtom, Bool.false_eq_true, if_false, if_true]
  rw [h1, h2]
  cases eigs with
  | nil => simp
  | cons x rest => simp [Cmp.holds]

/-! ### non-vacuity -/

/-- the Lennard-Jones hypotheses are satisfiable: a concrete 3-atom configuration with distinct
    atoms has no vanishing denominator -/
example : ljF3.ok (fun i => if i = 0 then 1 else if i = 4 then 1 else if i = 8 then 1 else
    if i = 9 then 1 else if i = 10 then 1 else 0) := by
  simp [ljF3, E.ok]

example : checkValid false false validTsAtom validTsStd [-1, 2, 3] = some true := by
  rw [C16_classifier_ts_std]; exact ⟨-1, [2, 3], rfl, by norm_num, by simp; norm_num⟩

end TopSearch.Props.C16
