/-
  C17 ∘ C18 — the Barrier scheme in terms of the TRUE barrier.

  `C17_barrier_pairwise` speaks about the *scanned* height that `disconnected_height` returns.  With
  the explicit minimax theorems of Props/C18Minimax.lean the clause of the property
  "'Barrier' returns minima that are mutually connected and pairwise separated by at least the cutoff
  barrier" is stated here about the lowest barrier itself — the minimum over walks of the highest
  transition state — for every network, exclusion list and cut-off.
-/
import TopSearch.Props.C17
import TopSearch.Props.C18Minimax

namespace TopSearch.Props.C17
open TopSearch TopSearch.Graph TopSearch.Batch TopSearch.Props.C18

variable {α : Type} [Field α] [LinearOrder α] [IsStrictOrderedRing α]

/-- a height returned by the scan is a threshold at which the pair is **not** connected; it therefore
    lies strictly below the minimax barrier, whatever the window -/
theorem height_lt_minimax (n : Nat) (es : List (WEdge α)) (i j : Nat) (hi : i < n)
    (maxTs eRange hv m : α) (hr : 0 ≤ eRange)
    (hh : height stdCfg n es i j maxTs eRange = some hv) (hm : IsMinimax n es i j m) : hv < m := by
  have hanti := thr_anti maxTs eRange hr
  have hspec := scanLoop_spec n i j es (thr stdCfg maxTs eRange) hanti stdCfg.iters 0 es
    (fun E _ => removeAbove_eq_filterLE es E)
  have hrm : stdCfg.rmCmp = Cmp.gt := rfl
  simp only [height] at hh
  split at hh
  · rw [hrm] at hh
    rcases hspec with ⟨h1, _⟩ | ⟨d, _, h1, h2, _⟩
    · rw [h1] at hh; cases hh
    · rw [h1] at hh
      have : thr stdCfg maxTs eRange (0 + d) = hv := Option.some.inj hh
      rw [this] at h2
      by_contra hge
      exact h2 (connAt_mono (not_lt.1 hge) hi hm.1)
  · cases hh

/-- **Barrier, about the true barrier.**  Take the minima the Barrier scheme picks (in pick order,
    all of them `< n`).  For a later pick `i` and an earlier pick `j`: they are different minima, they
    are connected, their lowest barrier `m` exists, is unique, is the energy of a stored transition
    state and is the minimum over walks of the highest transition state on the walk — and it leaves
    MORE than the cut-off from both minima: `cutoff < m − E i` and `cutoff < m − E j`. -/
theorem C17_barrier_true_barrier (net : Net α) (excl : List Nat) (cutoff : α)
    (hr : 0 ≤ scanRange stdBCfg net)
    (hlt : ∀ i ∈ (barrierSel stdCfg stdBCfg net excl cutoff []).1, i < net.n) :
    (barrierSel stdCfg stdBCfg net excl cutoff []).1.Pairwise (fun j i =>
      i ≠ j ∧ reach net.n (adj net.edges) i j = true ∧
      ∃ m, IsMinimax net.n net.edges i j m ∧ (∀ m', IsMinimax net.n net.edges i j m' → m' = m) ∧
        (∃ x ∈ net.edges, x.e = m) ∧
        (∀ w, Walk net.n net.edges w i j → w ≠ [] → ∃ x ∈ w, m ≤ x.e) ∧
        cutoff < m - net.energy i ∧ cutoff < m - net.energy j) := by
  have hp := C17_barrier_pairwise stdCfg net excl cutoff
  -- carry membership along so that `i < n` is available
  have hp' : (barrierSel stdCfg stdBCfg net excl cutoff []).1.Pairwise (fun j i =>
      (i ∈ (barrierSel stdCfg stdBCfg net excl cutoff []).1) ∧
      (reach net.n (adj net.edges) i j = true ∧
      ∃ hv, height stdCfg net.n net.edges i j (maxTs stdBCfg net.edges) (scanRange stdBCfg net) = some hv ∧
        cutoff ≤ hv - net.energy i ∧ cutoff ≤ hv - net.energy j)) := by
    refine List.Pairwise.imp_of_mem ?_ hp
    intro j i _ hi h
    exact ⟨hi, h⟩
  refine hp'.imp ?_
  rintro j i ⟨himem, hconn, hv, hh, hci, hcj⟩
  have hi : i < net.n := hlt i himem
  have hij : i ≠ j := by
    intro h
    have := (C18_height_sentinel net.n net.edges i j hi (maxTs stdBCfg net.edges)
      (scanRange stdBCfg net) hr).2.1 h
    rw [this] at hh
    cases hh
  obtain ⟨m, hm, hx⟩ := C18_minimax_exists net.n net.edges hi hij hconn
  have hlt' : hv < m := height_lt_minimax net.n net.edges i j hi _ _ hv m hr hh hm
  refine ⟨hij, hconn, m, hm, fun m' hm' => C18_minimax_unique net.n net.edges i j m' m hm' hm, hx,
    ((C18_minimax_is_min_over_walks net.n net.edges hi hij m).1 hm).2, ?_, ?_⟩ <;> linarith

end TopSearch.Props.C17
