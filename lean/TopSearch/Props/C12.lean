/-
  C12 — pair selection proposes valid, distinct, useful pairs.
  Property theorems about Model/Pairs.lean.  `Gen/Pairs.lean` is regenerated from the source on
  every run; `C12_bridge_*` tie its kernels to the hand-written reference kernels `Pairs.ref` the
  theorems are about.

  Reading (DESIGN §4.0): generic positions — `d i i = 0 < d i j` and the entries of every row
  distinct (`Generic`).  Oracles: `comp` (component id per minimum, any function — the theorems
  hold for every `comp`, "connected" *means* equal ids), `sorted i` (any answer of argsort
  satisfying `SortedPerm`).  The output lists are sets (their order comes out of a Python `set`):
  the statements are about membership and `Nodup`.
-/
import TopSearch.Model.Pairs
import TopSearch.Gen.Pairs
import Mathlib.Data.List.Sort
import Mathlib.Data.List.Perm.Basic
import Mathlib.Data.List.Nodup
import Mathlib.Data.List.Range
import Mathlib.Order.Basic
import Mathlib.Order.Defs.LinearOrder

namespace TopSearch.Props.C12
open TopSearch TopSearch.Pairs

set_option linter.unusedTactic false
set_option linter.unreachableTactic false

/-! ### bridge lemmas (tie #1) -/

theorem kernels_ext {A B : Kernels}
    (h1 : ∀ N l, A.closestSlice N l = B.closestSlice N l)
    (h2 : ∀ l, A.nearestSlice l = B.nearestSlice l)
    (h3 : ∀ c l, A.cyclesSlice c l = B.cyclesSlice c l)
    (h4 : ∀ p, A.keepPair p = B.keepPair p)
    (h5 : A.sortTuple = B.sortTuple) (h6 : A.filterInF = B.filterInF) : A = B := by
  cases A; cases B
  simp only [Kernels.mk.injEq] at *
  exact ⟨funext fun N => funext (h1 N), funext h2, funext fun c => funext (h3 c), funext h4, h5, h6⟩

theorem C12_bridge_kernels : Gen.Pairs.kernels = ref := by
  apply kernels_ext
  · intro N l
    first
      | rfl
      | (simp [Gen.Pairs.kernels, ref, pySlice, List.drop_take]; done)
      | (simp only [Gen.Pairs.kernels, ref, pySlice, List.drop_take]; congr 1; omega)
  · intro l
    first | rfl | (simp [Gen.Pairs.kernels, ref, pySlice, List.drop_take]; done)
  · intro c l
    first
      | rfl
      | (simp [Gen.Pairs.kernels, ref, pySlice, List.drop_take]; done)
      | (simp only [Gen.Pairs.kernels, ref, pySlice, List.drop_take, List.drop_zero]; congr 1; omega)
  · intro p
    first | rfl | (simp [Gen.Pairs.kernels, ref]; done)
  · rfl
  · rfl

theorem C12_bridge_dispatch (s : String) : Gen.Pairs.dispatch s = dispatchRef s := by
  unfold Gen.Pairs.dispatch dispatchRef
  repeat' split
  all_goals simp_all

theorem C12_bridge_viaSet : Gen.Pairs.viaSet = true := by decide

/-! ### definitions used in the statements -/

section defs
variable {α : Type} [LinearOrder α] [Zero α]

/-- the contract of `np.argsort` on `row 0 … row (n-1)`: a permutation of the indices along which
    the entries do not decrease -/
def SortedPerm (row : Nat → α) (n : Nat) (p : List Nat) : Prop :=
  p.Perm (List.range n) ∧ p.Pairwise (fun a b => row a ≤ row b)

/-- generic positions: `d i i = 0 < d i j`, and the entries of every row are distinct -/
def Generic (d : Nat → Nat → α) (n : Nat) : Prop :=
  ∀ i, i < n → d i i = 0 ∧ (∀ j, j < n → j ≠ i → 0 < d i j) ∧
    (∀ j k, j < n → k < n → j ≠ k → d i j ≠ d i k)

/-- `j` is among the `N` closest *other* minima of `i`: fewer than `N` others are closer -/
def NClosest (d : Nat → Nat → α) (n N i j : Nat) : Prop :=
  j < n ∧ j ≠ i ∧ ((List.range n).filter (fun k => decide (k ≠ i ∧ d i k < d i j))).length < N

/-- valid and distinct: as a list no pair occurs twice, every pair is `(a, b)` with `a < b < n`
    (two different existing minima), and no unordered pair occurs in two different forms -/
def Valid (n : Nat) (out : List Pair) : Prop :=
  out.Nodup ∧ (∀ p ∈ out, p.1 < p.2 ∧ p.2 < n) ∧
  ∀ p ∈ out, ∀ q ∈ out, ((p.1 = q.1 ∧ p.2 = q.2) ∨ (p.1 = q.2 ∧ p.2 = q.1)) → p = q

end defs

/-! ### helper lemmas -/

@[simp] theorem ref_closestSlice (N : Nat) (l : List Nat) : ref.closestSlice N l = (l.drop 1).take N := rfl
@[simp] theorem ref_nearestSlice (l : List Nat) : ref.nearestSlice l = l.drop 1 := rfl
@[simp] theorem ref_cyclesSlice (c : Nat) (l : List Nat) : ref.cyclesSlice c l = l.take c := rfl
@[simp] theorem ref_keepPair (p : Pair) : ref.keepPair p = (p != (0, 0)) := rfl
@[simp] theorem ref_sortTuple : ref.sortTuple = true := rfl
@[simp] theorem ref_filterInF : ref.filterInF = true := rfl

theorem mem_dedup (l : List Pair) (p : Pair) : p ∈ dedup l ↔ p ∈ l := by
  induction l with
  | nil => simp [dedup]
  | cons a t ih =>
    simp only [dedup]
    split
    · rename_i h
      have : a ∈ t := by simpa using h
      rw [ih, List.mem_cons]
      constructor
      · exact Or.inr
      · rintro (rfl | h') <;> assumption
    · simp [ih]

theorem nodup_dedup (l : List Pair) : (dedup l).Nodup := by
  induction l with
  | nil => simp [dedup]
  | cons a t ih =>
    simp only [dedup]
    split
    · exact ih
    · rename_i h
      have : a ∉ t := by simpa using h
      exact List.nodup_cons.mpr ⟨fun h' => this ((mem_dedup t a).mp h'), ih⟩

theorem sortPair_of_ne (i j : Nat) (h : j ≠ i) :
    (sortPair (i, j)).1 < (sortPair (i, j)).2 ∧
    ((sortPair (i, j)).1 = i ∧ (sortPair (i, j)).2 = j ∨ (sortPair (i, j)).1 = j ∧ (sortPair (i, j)).2 = i) := by
  simp only [sortPair]
  rcases Nat.lt_or_gt_of_ne h with h' | h'
  · rw [Nat.min_eq_right h'.le, Nat.max_eq_left h'.le]; exact ⟨h', Or.inr ⟨rfl, rfl⟩⟩
  · rw [Nat.min_eq_left h'.le, Nat.max_eq_right h'.le]; exact ⟨h', Or.inl ⟨rfl, rfl⟩⟩

theorem sortPair_idem (p : Pair) : sortPair (sortPair p) = sortPair p := by
  simp only [sortPair]
  rw [Nat.min_eq_left (Nat.le_trans (Nat.min_le_left _ _) (Nat.le_max_left _ _)),
    Nat.max_eq_right (Nat.le_trans (Nat.min_le_left _ _) (Nat.le_max_left _ _))]

theorem sortPair_le (p : Pair) : (sortPair p).1 ≤ (sortPair p).2 :=
  Nat.le_trans (Nat.min_le_left _ _) (Nat.le_max_left _ _)

/-- membership in the result of `unique_pairs` -/
theorem mem_uniquePairs (l : List Pair) (p : Pair) :
    p ∈ uniquePairs ref l ↔ ∃ q ∈ l, q ≠ (0, 0) ∧ sortPair q = p := by
  simp only [uniquePairs, ref_sortTuple, if_true, mem_dedup, List.mem_map, List.mem_filter, ref_keepPair,
    bne_iff_ne, ne_eq]
  constructor
  · rintro ⟨q, ⟨h1, h2⟩, rfl⟩; exact ⟨q, h1, h2, rfl⟩
  · rintro ⟨q, h1, h2, rfl⟩; exact ⟨q, ⟨h1, h2⟩, rfl⟩

theorem nodup_uniquePairs (K : Kernels) (l : List Pair) : (uniquePairs K l).Nodup := nodup_dedup _

/-- a list of sorted pairs with `a < b < n` and no repetition is `Valid` -/
theorem valid_of (n : Nat) (out : List Pair) (hn : out.Nodup) (h : ∀ p ∈ out, p.1 < p.2 ∧ p.2 < n) :
    Valid n out := by
  refine ⟨hn, h, ?_⟩
  intro p hp q hq hpq
  have := h p hp; have := h q hq
  rcases hpq with ⟨h1, h2⟩ | ⟨h1, h2⟩
  · exact Prod.ext h1 h2
  · omega

section order
variable {α : Type} [LinearOrder α] [Zero α]

omit [Zero α] in
/-- in a list sorted strictly along a key, the first `m` elements are those with fewer than `m`
    elements of smaller key -/
theorem mem_take_sorted (f : Nat → α) (t : List Nat) (ht : t.Pairwise (fun a b => f a < f b)) (m x : Nat) :
    x ∈ t.take m ↔ x ∈ t ∧ t.countP (fun k => decide (f k < f x)) < m := by
  induction t generalizing m with
  | nil => simp
  | cons a t ih =>
    obtain ⟨ha, ht'⟩ := List.pairwise_cons.mp ht
    cases m with
    | zero => simp
    | succ m =>
      rw [List.take_succ_cons, List.mem_cons, List.mem_cons, List.countP_cons, ih ht']
      constructor
      · rintro (rfl | ⟨hx, hc⟩)
        · refine ⟨Or.inl rfl, ?_⟩
          have : t.countP (fun k => decide (f k < f x)) = 0 := by
            rw [List.countP_eq_zero]
            intro b hb
            simpa using (ha b hb).le
          simp [this]
        · refine ⟨Or.inr hx, ?_⟩
          simp only [decide_eq_true_eq, ha x hx, if_true]
          omega
      · rintro ⟨rfl | hx, hc⟩
        · exact Or.inl rfl
        · right
          refine ⟨hx, ?_⟩
          simp only [decide_eq_true_eq, ha x hx, if_true] at hc
          omega

/-- under generic positions an argsorted row is `i` followed by the other indices in strictly
    increasing distance -/
theorem sorted_head_tail (d : Nat → Nat → α) (n : Nat) (hg : Generic d n) (i : Nat) (hi : i < n)
    (p : List Nat) (hp : SortedPerm (d i) n p) :
    ∃ t, p = i :: t ∧ t.Pairwise (fun a b => d i a < d i b) ∧ t.Perm ((List.range n).erase i) ∧
      (∀ x, x ∈ t ↔ x < n ∧ x ≠ i) := by
  obtain ⟨hperm, hsort⟩ := hp
  obtain ⟨h0, hpos, hdist⟩ := hg i hi
  have hmem : ∀ x, x ∈ p ↔ x < n := fun x => by rw [hperm.mem_iff, List.mem_range]
  have hnd : p.Nodup := hperm.nodup_iff.mpr List.nodup_range
  have hstrict : p.Pairwise (fun a b => d i a < d i b) := by
    have := hsort.and hnd
    refine this.imp_of_mem ?_
    intro a b ha hb hab
    exact lt_of_le_of_ne hab.1 (hdist a b ((hmem a).mp ha) ((hmem b).mp hb) hab.2)
  cases p with
  | nil => exact absurd ((hmem i).mpr hi) (by simp)
  | cons h t =>
    obtain ⟨hh, ht⟩ := List.pairwise_cons.mp hstrict
    have hhi : h = i := by
      by_contra hne
      have hit : i ∈ t := by
        rcases List.mem_cons.mp ((hmem i).mpr hi) with e | e
        · exact absurd e.symm hne
        · exact e
      have h1 := hh i hit
      have h2 := hpos h ((hmem h).mp (List.mem_cons_self)) hne
      rw [h0] at h1
      exact absurd h1 (not_lt.mpr h2.le)
    subst hhi
    have hnt : h ∉ t := (List.nodup_cons.mp hnd).1
    refine ⟨t, rfl, ht, ?_, ?_⟩
    · have := hperm.erase h
      simpa using this
    · intro x
      constructor
      · intro hx
        exact ⟨(hmem x).mp (List.mem_cons_of_mem _ hx), fun e => hnt (e ▸ hx)⟩
      · rintro ⟨hx, hne⟩
        rcases List.mem_cons.mp ((hmem x).mpr hx) with e | e
        · exact absurd e hne
        · exact e

omit [Zero α] in
/-- the count of closer others, computed along the sorted tail -/
theorem countP_tail (d : Nat → Nat → α) (n i : Nat) (t : List Nat)
    (ht : t.Perm ((List.range n).erase i)) (x : Nat) :
    t.countP (fun k => decide (d i k < d i x)) =
      ((List.range n).filter (fun k => decide (k ≠ i ∧ d i k < d i x))).length := by
  rw [ht.countP_eq, List.nodup_range.erase_eq_filter, List.countP_filter, List.countP_eq_length_filter]
  congr 1
  apply List.filter_congr
  intro k _
  by_cases h1 : k = i <;> by_cases h2 : d i k < d i x <;> simp [h1, h2]

end order


/-! ### the oracles' reference implementations -/

section oracles
variable {α : Type} [LinearOrder α]

/-- the model's own argsort (merge sort of the indices) satisfies the argsort contract -/
theorem C12_argsort_contract (row : Nat → α) (n : Nat) : SortedPerm row n (argsort row n) := by
  refine ⟨List.mergeSort_perm _ _, ?_⟩
  have := List.pairwise_mergeSort (le := fun a b => decide (row a ≤ row b))
    (by intro a b c; simpa using le_trans)
    (by intro a b; simpa using le_total (row a) (row b)) (List.range n)
  simpa [argsort] using this

/-- when the entries of the row are distinct the contract has exactly one solution: whatever
    `np.argsort` answers (stable or not) is the model's `argsort` -/
theorem C12_argsort_unique (row : Nat → α) (n : Nat)
    (hd : ∀ j k, j < n → k < n → j ≠ k → row j ≠ row k) (p : List Nat) (hp : SortedPerm row n p) :
    p = argsort row n := by
  obtain ⟨hperm, hsort⟩ := hp
  obtain ⟨hperm', hsort'⟩ := C12_argsort_contract row n
  refine List.Perm.eq_of_pairwise ?_ hsort hsort' (hperm.trans hperm'.symm)
  intro a b ha _ hab hba
  by_contra hne
  have ha' : a < n := List.mem_range.mp (hperm.mem_iff.mp ha)
  have hb' : b < n := by
    have : b ∈ p := by
      rw [hperm.mem_iff, ← hperm'.mem_iff]; assumption
    exact List.mem_range.mp (hperm.mem_iff.mp this)
  exact hd a b ha' hb' hne (le_antisymm hab hba)

theorem argminFrom_spec (t : List α) (pre : List α) (best : Nat) (bv : α)
    (hb : pre[best]? = some bv) (hmin : ∀ w ∈ pre, bv ≤ w)
    (hfirst : ∀ k w, k < best → pre[k]? = some w → bv < w) :
    ∃ v, (pre ++ t)[argminFrom t pre.length best bv]? = some v ∧ (∀ w ∈ pre ++ t, v ≤ w) ∧
      ∀ k w, k < argminFrom t pre.length best bv → (pre ++ t)[k]? = some w → v < w := by
  induction t generalizing pre best bv with
  | nil =>
    simp only [argminFrom, List.append_nil]
    exact ⟨bv, hb, hmin, hfirst⟩
  | cons x t ih =>
    have hbl : best < pre.length := by
      by_contra h
      rw [List.getElem?_eq_none (not_lt.mp h)] at hb
      exact absurd hb (by simp)
    simp only [argminFrom]
    split
    · rename_i hx
      have := ih (pre ++ [x]) pre.length x (by simp)
        (by
          intro w hw
          rcases List.mem_append.mp hw with h | h
          · exact (lt_of_lt_of_le hx (hmin w h)).le
          · simp at h; exact h ▸ le_refl _)
        (by
          intro k w hk hkw
          rw [List.getElem?_append_left hk] at hkw
          exact lt_of_lt_of_le hx (hmin w (List.mem_of_getElem? hkw)))
      simpa using this
    · rename_i hx
      have := ih (pre ++ [x]) best bv
        (by rw [List.getElem?_append_left hbl]; exact hb)
        (by
          intro w hw
          rcases List.mem_append.mp hw with h | h
          · exact hmin w h
          · simp at h; exact h ▸ not_lt.mp hx)
        (by
          intro k w hk hkw
          rw [List.getElem?_append_left (lt_trans hk hbl)] at hkw
          exact hfirst k w hk hkw)
      simpa using this

/-- `np.argmin` as modelled picks a global minimum of the energies — the first one: its entry is
    `≤` every entry and `<` every earlier entry -/
theorem C12_gmin_is_global_minimum (es : List α) (hne : es ≠ []) :
    argmin es < es.length ∧
    ∃ v, es[argmin es]? = some v ∧ (∀ w ∈ es, v ≤ w) ∧ ∀ k w, k < argmin es → es[k]? = some w → v < w := by
  cases es with
  | nil => exact absurd rfl hne
  | cons x t =>
    have := argminFrom_spec t [x] 0 x (by simp) (by simp) (by simp)
    simp only [List.length_singleton, List.singleton_append] at this
    obtain ⟨v, h1, h2, h3⟩ := this
    refine ⟨?_, v, h1, h2, h3⟩
    by_contra h
    have h' : (x :: t).length ≤ argminFrom t 1 0 x := not_lt.mp h
    rw [List.getElem?_eq_none h'] at h1
    exact absurd h1 (by simp)

end oracles

/-! ### the property -/

section props
variable {α : Type} [LinearOrder α] [Zero α]

/-- the raw proposals of `closest_enumeration`, before `unique_pairs` -/
theorem mem_closest_raw (d : Nat → Nat → α) (n N : Nat) (hg : Generic d n) (sorted : Nat → List Nat)
    (hs : ∀ i, i < n → SortedPerm (d i) n (sorted i)) (q : Pair) :
    q ∈ ((List.range n).flatMap fun i => (ref.closestSlice N (sorted i)).map fun j => (i, j)) ↔
      q.1 < n ∧ NClosest d n N q.1 q.2 := by
  simp only [List.mem_flatMap, List.mem_range, List.mem_map, ref_closestSlice]
  constructor
  · rintro ⟨i, hi, j, hj, rfl⟩
    obtain ⟨t, ht, hsort, hperm, hmem⟩ := sorted_head_tail d n hg i hi (sorted i) (hs i hi)
    rw [ht, List.drop_one, List.tail_cons, mem_take_sorted (d i) t hsort, countP_tail d n i t hperm] at hj
    exact ⟨hi, ((hmem j).mp hj.1).1, ((hmem j).mp hj.1).2, hj.2⟩
  · rintro ⟨hi, hj1, hj2, hj3⟩
    obtain ⟨t, ht, hsort, hperm, hmem⟩ := sorted_head_tail d n hg q.1 hi (sorted q.1) (hs q.1 hi)
    refine ⟨q.1, hi, q.2, ?_, rfl⟩
    rw [ht, List.drop_one, List.tail_cons, mem_take_sorted (d q.1) t hsort, countP_tail d n q.1 t hperm]
    exact ⟨(hmem q.2).mpr ⟨hj1, hj2⟩, hj3⟩

/-- Nearest-neighbour enumeration proposes, for each minimum, exactly its `N` closest other
    minima: the proposed set is `⋃ᵢ { {i, j} : j among the N closest others of i }` (each unordered
    pair in its sorted form, once). -/
theorem C12_closest_exact (d : Nat → Nat → α) (n N : Nat) (hg : Generic d n) (sorted : Nat → List Nat)
    (hs : ∀ i, i < n → SortedPerm (d i) n (sorted i)) (p : Pair) :
    p ∈ closestEnumeration ref n N sorted ↔ ∃ i j, i < n ∧ NClosest d n N i j ∧ p = sortPair (i, j) := by
  unfold closestEnumeration
  rw [mem_uniquePairs]
  constructor
  · rintro ⟨q, hq, _, rfl⟩
    obtain ⟨h1, h2⟩ := (mem_closest_raw d n N hg sorted hs q).mp hq
    exact ⟨q.1, q.2, h1, h2, rfl⟩
  · rintro ⟨i, j, hi, hj, rfl⟩
    refine ⟨(i, j), (mem_closest_raw d n N hg sorted hs (i, j)).mpr ⟨hi, hj⟩, ?_, rfl⟩
    intro h
    have := hj.2.1
    simp only [Prod.mk.injEq] at h
    omega

/-- Under generic positions no self-pair is ever generated (the first entry of an argsorted row is
    the minimum itself and is sliced off), so the filter `i != [0, 0]` of `unique_pairs` removes
    nothing.  NB the filter is not a self-pair filter: it drops the literal pair `[0, 0]` only
    (see the `example` below: `[3, 3]` survives). -/
theorem C12_no_self_pairs_filter_inert (d : Nat → Nat → α) (n N : Nat) (hg : Generic d n)
    (sorted : Nat → List Nat) (hs : ∀ i, i < n → SortedPerm (d i) n (sorted i)) (q : Pair)
    (hq : q ∈ ((List.range n).flatMap fun i => (ref.closestSlice N (sorted i)).map fun j => (i, j))) :
    q.1 ≠ q.2 ∧ ref.keepPair q = true := by
  obtain ⟨_, h2⟩ := (mem_closest_raw d n N hg sorted hs q).mp hq
  have := h2.2.1
  refine ⟨fun h => this h.symm, ?_⟩
  simp only [ref_keepPair, bne_iff_ne, ne_eq]
  intro h
  rw [h] at this
  exact this rfl

/-- membership in the result of `connect_to_set` for a node whose argsorted row starts with itself -/
theorem mem_connectToSet (n : Nat) (comp : Nat → Nat) (i : Nat) (t : List Nat) (N : Nat) (p : Pair) :
    p ∈ connectToSet ref n comp (i :: t) i N ↔
      ∃ j ∈ (t.filter fun k => decide (k < n ∧ comp k ≠ comp i)).take N, p = sortPair (i, j) := by
  have hF : ∀ k, ((List.range n).filter fun k => !(comp k == comp i)).contains k =
      decide (k < n ∧ comp k ≠ comp i) := by
    intro k
    by_cases h1 : k < n <;> by_cases h2 : comp k = comp i <;> simp [h1, h2]
  simp only [connectToSet, ref_filterInF, if_true, ref_nearestSlice, ref_cyclesSlice, List.drop_one,
    List.tail_cons, hF]
  split
  · rename_i hempty
    constructor
    · simp
    · rintro ⟨j, hj, _⟩
      have hj' := List.mem_of_mem_take hj
      simp only [List.mem_filter, decide_eq_true_eq] at hj'
      have : j ∈ (List.range n).filter fun k => !(comp k == comp i) := by
        simp [hj'.2.1, hj'.2.2]
      rw [List.isEmpty_iff] at hempty
      rw [hempty] at this
      simp at this
  · rw [mem_uniquePairs]
    constructor
    · rintro ⟨q, hq, _, rfl⟩
      obtain ⟨j, hj, rfl⟩ := List.mem_map.mp hq
      exact ⟨j, hj, rfl⟩
    · rintro ⟨j, hj, rfl⟩
      refine ⟨(i, j), List.mem_map.mpr ⟨j, hj, rfl⟩, ?_, rfl⟩
      have hj' := List.mem_of_mem_take hj
      simp only [List.mem_filter, decide_eq_true_eq] at hj'
      intro h
      simp only [Prod.mk.injEq] at h
      exact hj'.2.2 (by rw [h.1, h.2])

/-- membership in the result of `connect_unconnected`, for argsorted rows that start with the
    minimum itself -/
theorem mem_connectUnconnected (n gmin : Nat) (comp : Nat → Nat) (sorted : Nat → List Nat) (N : Nat)
    (hhead : ∀ i, i < n → ∃ t, sorted i = i :: t) (p : Pair) :
    p ∈ connectUnconnected ref n gmin comp sorted N ↔
      ∃ i j, i < n ∧ comp i ≠ comp gmin ∧
        j ∈ (((sorted i).drop 1).filter fun k => decide (k < n ∧ comp k ≠ comp i)).take N ∧
        p = sortPair (i, j) := by
  unfold connectUnconnected
  split
  · rename_i h0
    have : n = 0 := by simpa using h0
    subst this
    simp
  · rw [mem_uniquePairs]
    simp only [unconnectedComponent, List.mem_flatMap, List.mem_filter, List.mem_range, bne_iff_ne, ne_eq]
    constructor
    · rintro ⟨q, ⟨i, ⟨hi, hc⟩, hq⟩, _, rfl⟩
      obtain ⟨t, ht⟩ := hhead i hi
      rw [ht, mem_connectToSet] at hq
      obtain ⟨j, hj, rfl⟩ := hq
      refine ⟨i, j, hi, hc, ?_, (sortPair_idem _)⟩
      rw [ht]; simpa using hj
    · rintro ⟨i, j, hi, hc, hj, rfl⟩
      obtain ⟨t, ht⟩ := hhead i hi
      refine ⟨sortPair (i, j), ⟨i, ⟨hi, hc⟩, ?_⟩, ?_, sortPair_idem _⟩
      · rw [ht, mem_connectToSet]
        refine ⟨j, ?_, rfl⟩
        rw [ht] at hj; simpa using hj
      · have hj' := List.mem_of_mem_take hj
        simp only [List.mem_filter, decide_eq_true_eq] at hj'
        have hne : j ≠ i := fun e => hj'.2.2 (by rw [e])
        have := (sortPair_of_ne i j hne).1
        intro h
        rw [h] at this
        exact absurd this (by simp)

/-- the rows start with the minimum itself (a consequence of generic positions) -/
theorem head_of_generic (d : Nat → Nat → α) (n : Nat) (hg : Generic d n) (sorted : Nat → List Nat)
    (hs : ∀ i, i < n → SortedPerm (d i) n (sorted i)) : ∀ i, i < n → ∃ t, sorted i = i :: t := by
  intro i hi
  obtain ⟨t, ht, _⟩ := sorted_head_tail d n hg i hi (sorted i) (hs i hi)
  exact ⟨t, ht⟩

/-- The connect-unconnected scheme proposes only pairs lying in different connected components
    (and both ends exist, and one end is outside the global minimum's component). -/
theorem C12_bridge_only (d : Nat → Nat → α) (n gmin N : Nat) (hg : Generic d n) (comp : Nat → Nat)
    (sorted : Nat → List Nat) (hs : ∀ i, i < n → SortedPerm (d i) n (sorted i)) (p : Pair)
    (hp : p ∈ connectUnconnected ref n gmin comp sorted N) :
    comp p.1 ≠ comp p.2 ∧ p.1 < p.2 ∧ p.2 < n ∧ (comp p.1 ≠ comp gmin ∨ comp p.2 ≠ comp gmin) := by
  obtain ⟨i, j, hi, hc, hj, rfl⟩ :=
    (mem_connectUnconnected n gmin comp sorted N (head_of_generic d n hg sorted hs) p).mp hp
  have hj' := List.mem_of_mem_take hj
  simp only [List.mem_filter, decide_eq_true_eq] at hj'
  have hne : j ≠ i := fun e => hj'.2.2 (by rw [e])
  obtain ⟨hlt, h | h⟩ := sortPair_of_ne i j hne
  · rw [h.1, h.2] at hlt ⊢
    exact ⟨fun e => hj'.2.2 e.symm, hlt, hj'.2.1, Or.inl hc⟩
  · rw [h.1, h.2] at hlt ⊢
    exact ⟨hj'.2.2, hlt, hi, Or.inr hc⟩

/-- for a minimum outside the global minimum's component the nearest minimum outside its own
    component exists and its pair is proposed -/
theorem nearest_outside_proposed (d : Nat → Nat → α) (n gmin N : Nat) (hN : 1 ≤ N) (hg : Generic d n)
    (comp : Nat → Nat) (sorted : Nat → List Nat) (hs : ∀ i, i < n → SortedPerm (d i) n (sorted i))
    (hgm : gmin < n) (i : Nat) (hi : i < n) (hc : comp i ≠ comp gmin) :
    ∃ h, h < n ∧ comp h ≠ comp i ∧ (∀ k, k < n → comp k ≠ comp i → d i h ≤ d i k) ∧
      sortPair (i, h) ∈ connectUnconnected ref n gmin comp sorted N := by
  obtain ⟨t, ht, hsort, _, hmem⟩ := sorted_head_tail d n hg i hi (sorted i) (hs i hi)
  have hgt : gmin ∈ t.filter fun k => decide (k < n ∧ comp k ≠ comp i) := by
    simp only [List.mem_filter, decide_eq_true_eq]
    exact ⟨(hmem gmin).mpr ⟨hgm, fun e => hc (by rw [e])⟩, hgm, fun e => hc e.symm⟩
  have hsortL := hsort.filter (fun k => decide (k < n ∧ comp k ≠ comp i))
  cases hL : t.filter fun k => decide (k < n ∧ comp k ≠ comp i) with
  | nil => rw [hL] at hgt; simp at hgt
  | cons h L =>
    rw [hL] at hsortL
    have hh : h ∈ t.filter fun k => decide (k < n ∧ comp k ≠ comp i) := by rw [hL]; simp
    simp only [List.mem_filter, decide_eq_true_eq] at hh
    refine ⟨h, hh.2.1, hh.2.2, ?_, ?_⟩
    · intro k hk hkc
      have hkL : k ∈ h :: L := by
        rw [← hL]
        simp only [List.mem_filter, decide_eq_true_eq]
        exact ⟨(hmem k).mpr ⟨hk, fun e => hkc (by rw [e])⟩, hk, hkc⟩
      rcases List.mem_cons.mp hkL with rfl | hkL
      · exact le_refl _
      · exact ((List.pairwise_cons.mp hsortL).1 k hkL).le
    · rw [mem_connectUnconnected n gmin comp sorted N (head_of_generic d n hg sorted hs)]
      refine ⟨i, h, hi, hc, ?_, rfl⟩
      rw [ht, List.drop_one, List.tail_cons, hL]
      obtain ⟨N', rfl⟩ : ∃ N', N = N' + 1 := ⟨N - 1, by omega⟩
      simp

/-- For every minimum `i` outside the global minimum's component, the pair `{i, j}` with `j` its
    closest minimum outside its own component is proposed (for every `N ≥ 1`). -/
theorem C12_bridge_complete (d : Nat → Nat → α) (n gmin N : Nat) (hN : 1 ≤ N) (hg : Generic d n)
    (comp : Nat → Nat) (sorted : Nat → List Nat) (hs : ∀ i, i < n → SortedPerm (d i) n (sorted i))
    (hgm : gmin < n) (i : Nat) (hi : i < n) (hc : comp i ≠ comp gmin)
    (j : Nat) (hj : j < n) (hjc : comp j ≠ comp i) (hnear : ∀ k, k < n → comp k ≠ comp i → d i j ≤ d i k) :
    sortPair (i, j) ∈ connectUnconnected ref n gmin comp sorted N := by
  obtain ⟨h, hh, hhc, hhmin, hmem⟩ := nearest_outside_proposed d n gmin N hN hg comp sorted hs hgm i hi hc
  have heq : d i j = d i h := le_antisymm (hnear h hh hhc) (hhmin j hj hjc)
  have : j = h := by
    by_contra hne
    exact (hg i hi).2.2 j h hj hh hne heq
  rw [this]; exact hmem

/-- The scheme proposes nothing exactly when the network is already connected (every minimum is in
    the global minimum's component; for `n = 0` both sides hold trivially). -/
theorem C12_empty_iff_connected (d : Nat → Nat → α) (n gmin N : Nat) (hN : 1 ≤ N) (hg : Generic d n)
    (comp : Nat → Nat) (sorted : Nat → List Nat) (hs : ∀ i, i < n → SortedPerm (d i) n (sorted i))
    (hgm : 0 < n → gmin < n) :
    connectUnconnected ref n gmin comp sorted N = [] ↔ ∀ i, i < n → comp i = comp gmin := by
  constructor
  · intro hempty i hi
    by_contra hc
    obtain ⟨h, _, _, _, hmem⟩ :=
      nearest_outside_proposed d n gmin N hN hg comp sorted hs (hgm (by omega)) i hi hc
    rw [hempty] at hmem
    simp at hmem
  · intro hall
    rw [List.eq_nil_iff_forall_not_mem]
    intro p hp
    obtain ⟨i, j, hi, hc, _⟩ :=
      (mem_connectUnconnected n gmin comp sorted N (head_of_generic d n hg sorted hs) p).mp hp
    exact hc (hall i hi)

/-- … and "every minimum is in the global minimum's component" is "any two minima are connected" -/
theorem connected_iff (n gmin : Nat) (comp : Nat → Nat) (hgm : 0 < n → gmin < n) :
    (∀ i, i < n → comp i = comp gmin) ↔ ∀ i j, i < n → j < n → comp i = comp j := by
  constructor
  · intro h i j hi hj; rw [h i hi, h j hj]
  · intro h i hi; exact h i gmin hi (hgm (by omega))

/-- Every pair proposed by `closest_enumeration` and by `connect_unconnected` names two different
    existing minima (`a < b < n`), and no unordered pair is proposed twice. -/
theorem C12_valid_distinct (d : Nat → Nat → α) (n gmin N : Nat) (hg : Generic d n) (comp : Nat → Nat)
    (sorted : Nat → List Nat) (hs : ∀ i, i < n → SortedPerm (d i) n (sorted i)) :
    Valid n (closestEnumeration ref n N sorted) ∧ Valid n (connectUnconnected ref n gmin comp sorted N) := by
  constructor
  · refine valid_of n _ (nodup_uniquePairs _ _) ?_
    intro p hp
    obtain ⟨i, j, hi, hj, rfl⟩ := (C12_closest_exact d n N hg sorted hs p).mp hp
    obtain ⟨hlt, h | h⟩ := sortPair_of_ne i j hj.2.1
    · rw [h.1, h.2] at hlt ⊢; exact ⟨hlt, hj.1⟩
    · rw [h.1, h.2] at hlt ⊢; exact ⟨hlt, hi⟩
  · refine valid_of n _ ?_ ?_
    · unfold connectUnconnected; split
      · exact List.nodup_nil
      · exact nodup_uniquePairs _ _
    · intro p hp
      have := C12_bridge_only d n gmin N hg comp sorted hs p hp
      exact ⟨this.2.1, this.2.2.1⟩

/-- `read_pairs` (`ReadPairs`): the rows of the file other than the literal `0 0`, each unordered
    pair once, in sorted form.  (What the file names is the user's business: a row `k k` with
    `k ≠ 0` or an index `≥ n` passes through — only the two computed schemes are covered by
    `C12_valid_distinct`.) -/
theorem C12_read_pairs_distinct (file : List Pair) :
    (readPairs ref file).Nodup ∧
    (∀ p, p ∈ readPairs ref file ↔ ∃ q ∈ file, q ≠ (0, 0) ∧ sortPair q = p) ∧
    (∀ p ∈ readPairs ref file, p.1 ≤ p.2) ∧
    ∀ p ∈ readPairs ref file, ∀ q ∈ readPairs ref file,
      ((p.1 = q.1 ∧ p.2 = q.2) ∨ (p.1 = q.2 ∧ p.2 = q.1)) → p = q := by
  have hle : ∀ p ∈ readPairs ref file, p.1 ≤ p.2 := by
    intro p hp
    obtain ⟨q, _, _, rfl⟩ := (mem_uniquePairs file p).mp hp
    exact sortPair_le q
  refine ⟨nodup_uniquePairs _ _, mem_uniquePairs file, hle, ?_⟩
  intro p hp q hq hpq
  have := hle p hp; have := hle q hq
  rcases hpq with ⟨h1, h2⟩ | ⟨h1, h2⟩
  · exact Prod.ext h1 h2
  · exact Prod.ext (by omega) (by omega)

/-- `NetworkSampling.select_minima` with the regenerated kernels and dispatch: the three scheme
    strings select the three selectors (anything else assigns nothing — the code raises), and the
    two computed schemes return valid, distinct pairs. -/
theorem C12_select_minima (d : Nat → Nat → α) (n gmin N : Nat) (hg : Generic d n) (comp : Nat → Nat)
    (sorted : Nat → List Nat) (hs : ∀ i, i < n → SortedPerm (d i) n (sorted i)) (file : List Pair)
    (option : String) :
    (option = "ClosestEnumeration" ∧
      selectMinima Gen.Pairs.kernels Gen.Pairs.dispatch option n gmin comp sorted file N =
        some (closestEnumeration ref n N sorted) ∧ Valid n (closestEnumeration ref n N sorted)) ∨
    (option = "ConnectUnconnected" ∧
      selectMinima Gen.Pairs.kernels Gen.Pairs.dispatch option n gmin comp sorted file N =
        some (connectUnconnected ref n gmin comp sorted N) ∧
        Valid n (connectUnconnected ref n gmin comp sorted N)) ∨
    (option = "ReadPairs" ∧
      selectMinima Gen.Pairs.kernels Gen.Pairs.dispatch option n gmin comp sorted file N =
        some (readPairs ref file)) ∨
    (option ≠ "ClosestEnumeration" ∧ option ≠ "ConnectUnconnected" ∧ option ≠ "ReadPairs" ∧
      selectMinima Gen.Pairs.kernels Gen.Pairs.dispatch option n gmin comp sorted file N = none) := by
  have hv := C12_valid_distinct d n gmin N hg comp sorted hs
  have hd : Gen.Pairs.dispatch = dispatchRef := funext C12_bridge_dispatch
  rw [C12_bridge_kernels, hd]
  unfold selectMinima dispatchRef
  by_cases h1 : option = "ClosestEnumeration"
  · left; subst h1; exact ⟨rfl, by simp, hv.1⟩
  · by_cases h2 : option = "ConnectUnconnected"
    · right; left; subst h2; exact ⟨rfl, by simp, hv.2⟩
    · by_cases h3 : option = "ReadPairs"
      · right; right; left; subst h3; exact ⟨rfl, by simp⟩
      · right; right; right
        refine ⟨h1, h2, h3, ?_⟩
        simp [h1, h2, h3]

end props

/-! ### non-vacuity -/

/-- the `[0, 0]` filter drops the literal pair `[0, 0]` and nothing else: the self-pair `[3, 3]`
    survives, `[1, 0]` and `[0, 1]` are one pair -/
example : uniquePairs ref [(0, 0), (3, 3), (1, 0), (0, 1)] = [(3, 3), (0, 1)] := by decide

/-- `genericB` decides `Generic` (so the driver's guard is the theorems' hypothesis) -/
theorem genericB_iff {α : Type} [LinearOrder α] [Zero α] (d : Nat → Nat → α) (n : Nat) :
    genericB d n = true ↔ Generic d n := by
  simp only [genericB, Generic, List.all_eq_true, List.mem_range, Bool.and_eq_true, decide_eq_true_eq,
    Bool.or_eq_true, beq_iff_eq, ne_eq]
  constructor
  · intro h i hi
    obtain ⟨h0, h1⟩ := h i hi
    refine ⟨h0, ?_, ?_⟩
    · intro j hj hne
      rcases (h1 j hj).1 with e | e
      · exact absurd e hne
      · exact e
    · intro j k hj hk hne
      rcases (h1 j hj).2 k hk with e | e
      · exact absurd e hne
      · exact e
  · intro h i hi
    obtain ⟨h0, h1, h2⟩ := h i hi
    refine ⟨h0, ?_⟩
    intro j hj
    refine ⟨?_, ?_⟩
    · by_cases e : j = i
      · exact Or.inl e
      · exact Or.inr (h1 j hj e)
    · intro k hk
      by_cases e : j = k
      · exact Or.inl e
      · exact Or.inr (h2 j k hj hk e)

/-- four minima on a line at 0, 1, 3, 7 (squared distances): generic; 0–1 connected, 2 and 3
    isolated, global minimum 1.  The argsorted rows satisfy the contract, the closest enumeration
    with N = 1 is {0,1},{1,2},{2,3}, the bridge scheme proposes {1,2},{2,3}: the hypotheses of the
    theorems above are satisfiable and the conclusions are not trivial. -/
example :
    let d : Nat → Nat → Int := fun i j => (([0, 1, 3, 7].getD i 0 : Int) - [0, 1, 3, 7].getD j 0) ^ 2
    let sorted : Nat → List Nat := fun i => [[0, 1, 2, 3], [1, 0, 2, 3], [2, 1, 0, 3], [3, 2, 1, 0]].getD i []
    let comp : Nat → Nat := fun k => [0, 0, 1, 2].getD k 0
    Generic d 4 ∧ (∀ i, i < 4 → SortedPerm (d i) 4 (sorted i)) ∧
    closestEnumeration ref 4 1 sorted = [(0, 1), (1, 2), (2, 3)] ∧
    connectUnconnected ref 4 1 comp sorted 1 = [(1, 2), (2, 3)] := by
  intro d sorted comp
  refine ⟨(genericB_iff d 4).mp (by decide), ?_, by decide, by decide⟩
  unfold SortedPerm
  decide

end TopSearch.Props.C12
