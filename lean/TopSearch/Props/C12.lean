import TopSearch.Model.Pairs
import TopSearch.Gen.Pairs
import Mathlib.Tactic.Ring
namespace TopSearch.Props.C12
open TopSearch TopSearch.Pairs

theorem kernels_ext {A B : Kernels}
    (h1 : ∀ N l, A.closestSlice N l = B.closestSlice N l)
    (h2 : ∀ l, A.nearestSlice l = B.nearestSlice l)
    (h3 : ∀ c l, A.cyclesSlice c l = B.cyclesSlice c l)
    (h4 : ∀ p, A.keepPair p = B.keepPair p)
    (h5 : A.sortTuple = B.sortTuple) (h6 : A.filterInF = B.filterInF) : A = B := by
  cases A; cases B
  simp only [Kernels.mk.injEq] at *
  exact ⟨funext fun N => funext (h1 N), funext h2, funext fun c => funext (h3 c), funext h4, h5, h6⟩

theorem C12_bridge_kernels : Gen.Pairs.kernels = ref := by
  apply kernels_ext
  · intro N l
    first
      | rfl
      | (simp [Gen.Pairs.kernels, ref, pySlice, List.drop_take]; done)
      | (simp only [Gen.Pairs.kernels, ref, pySlice, List.drop_take]; congr 1; omega)
  · intro l
    first | rfl | (simp [Gen.Pairs.kernels, ref, pySlice, List.drop_take]; done)
  · intro c l
    first
      | rfl
      | (simp [Gen.Pairs.kernels, ref, pySlice, List.drop_take]; done)
      | (simp only [Gen.Pairs.kernels, ref, pySlice, List.drop_take, List.drop_zero]; congr 1; omega)
  · intro p
    first | rfl | (simp [Gen.Pairs.kernels, ref]; done)
  · rfl
  · rfl

theorem C12_bridge_dispatch (s : String) : Gen.Pairs.dispatch s = dispatchRef s := by
  unfold Gen.Pairs.dispatch dispatchRef
  repeat' split
  all_goals simp_all

theorem C12_bridge_viaSet : Gen.Pairs.viaSet = true := by decide
end TopSearch.Props.C12
