/-
  C06 ∘ C02 — every network an edit history can produce survives save / restore.

  `C06_roundtrip` assumes a coherent network (`Ktn.Inv`).  `C02_inv` proves that every history of
  `add_minimum / add_ts / remove_minimum / remove_minima / remove_ts / remove_tss / reset` from the empty
  network — with the counter rule and the history rule READ FROM THE CURRENT SOURCE — ends in one.  Hence
  the round-trip statement holds for every reachable network, with no coherence hypothesis left.
-/
import TopSearch.Props.C02
import TopSearch.Props.C06

namespace TopSearch.Props.C06
open TopSearch TopSearch.Ktn TopSearch.IO

variable {α : Type}

/-- **Every reachable network round-trips.**  Take ANY history of the mutators from the empty network
    (mutator variants as found in the current source) that ends with at least one minimum, all
    stored coordinate vectors of one dimension `k ≥ 1`: `dump_network` succeeds and `read_network`
    (loader kernels as found in the current source) returns the same network — numbering,
    coordinates, pairs, counts and attempt history — with energies rounded to the five decimals
    written. -/
theorem C06_roundtrip_reachable (round5 : α → α) (ops : List (Ktn.Op (Pt α))) (net : Ktn (Pt α))
    (h : Ktn.run Gen.Ktn.cfg Ktn.empty ops = some net) (hn : 1 ≤ net.nMin)
    (k : Nat) (hk : 1 ≤ k) (hdn : ∀ nd ∈ net.nodes, nd.data.coords.length = k)
    (hde : ∀ e ∈ net.edges, e.data.coords.length = k) :
    ∃ files, dumpNetwork round5 Gen.IOSpec.dumpSpec net = .ok files ∧
      readNetwork Gen.IOSpec.readSpec files = .ok (roundNet round5 net) :=
  C06_roundtrip round5 net
    (TopSearch.Props.C02.C02_inv Gen.Ktn.cfg TopSearch.Props.C02.C02_bridge_counter ops net h)
    hn k hk hdn hde

/-- and the restored network is itself coherent, so every further edit history on it is covered by
    C02 again -/
theorem C06_restored_coherent (round5 : α → α) (ops : List (Ktn.Op (Pt α))) (net : Ktn (Pt α))
    (h : Ktn.run Gen.Ktn.cfg Ktn.empty ops = some net) : Ktn.Inv (roundNet round5 net) :=
  inv_roundNet round5 net
    (TopSearch.Props.C02.C02_inv Gen.Ktn.cfg TopSearch.Props.C02.C02_bridge_counter ops net h)

end TopSearch.Props.C06
