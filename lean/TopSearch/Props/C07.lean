/-
  C07 — basin-hopping always restarts from the last accepted minimum.
  Property theorems only (model: Model/BasinHopping.lean, helpers: Lemmas/BasinHopping.lean,
  kernels read from the source: Gen/BasinHopping.lean).

  Reading of the statement.  "The walker" is `coords.position` on entry to
  `step_taking.perturb`.  "The last accepted minimum" is defined without the state machine
  (`lastAccepted`): start from the first minimisation's outcome, and replace it by a step's
  minimum exactly when that step converged (as the loop tests it), kept its bonds and passed the
  acceptance test against the current energy.  A minimum's coordinates are the ones the
  similarity gate leaves in `coords.position` (`gated`): identical to the minimiser's output for
  the standard similarity, recentred ("the overall translation applied when structures are
  compared") for the molecular one.
-/
import TopSearch.Lemmas.BasinHopping
import TopSearch.Gen.BasinHopping
import Mathlib.Algebra.Order.Field.Basic

set_option linter.unusedSectionVars false
set_option linter.unusedTactic false
set_option linter.unusedSimpArgs false
set_option linter.unreachableTactic false

namespace TopSearch.Props.C07
open TopSearch TopSearch.BH

/-! ### bridges (tie #1) -/

/-- Bridge: every one of the five save/restore sites of the current `run` copies the array. -/
theorem C07_bridge_copies : Gen.BasinHopping.copies = true := by decide

section ordered
variable {α : Type} [Field α] [LinearOrder α] [IsStrictOrderedRing α]

/-- Bridge: the failure test of the loop read from the current source is
    `warnflag ≠ 0 ∨ task = REL_REDUCTION`. -/
theorem C07_bridge_fail_test (w : Int) (r : Bool) :
    Gen.BasinHopping.loopFails w r = true ↔ (w ≠ 0 ∨ r = true) := by
  by_cases h : w = 0 <;> cases r <;> simp [Gen.BasinHopping.loopFails, h]

/-- Bridge: the Metropolis kernel read from the current source accepts every downhill move,
    whatever the Boltzmann factor and the draw. -/
theorem C07_bridge_downhill (e1 e2 b u : α) (h : e2 < e1) :
    Gen.BasinHopping.metropolisDecide e1 e2 b u = true := by
  first
    | simp [Gen.BasinHopping.metropolisDecide, h]
    | (simp only [Gen.BasinHopping.metropolisDecide]; grind)

end ordered

variable {α : Type}

/-! ### the walker invariant -/

/-- For every run length and every sequence of step-taker moves, minimiser answers, bond
    checks, Boltzmann factors and draws: at the entry of perturbation number `t` (after the
    first `t` steps; `t` may be the whole run) the walker is at the coordinates of the last
    accepted minimum (the first minimisation's outcome if none was accepted), the energy kept
    for the next acceptance test is that same minimum's energy, and the saved copy
    `markov_coords` is a separate array holding the same coordinates.
    Needs: all five save/restore sites copy (`C07_bridge_copies`). -/
theorem C07_walker (k : Kern α) (hk : k.copy.all = true) (same : Pt α → Pt α → Bool)
    (atomic : Bool) (net0 : Ktn (Pt α)) (i0 : InitIn α) (ins : List (StepIn α)) (t : Nat) :
    let s := runAll k same atomic net0 i0 (ins.take t)
    let m := lastAccepted k atomic (initPt k i0) (ins.take t)
    s.walker = m.pos ∧ s.markovE = m.e ∧ s.markov = Saved.val m.pos := by
  intro s m
  obtain ⟨hc0, he0⟩ := init_clean k hk same net0 i0
  obtain ⟨hc, he⟩ := run_spec k hk same atomic (ins.take t) _ hc0
  rw [he0] at he
  have hw : s.walker = m.pos := congrArg Pt.pos he
  have hE : s.markovE = m.e := congrArg Pt.e he
  refine ⟨hw, hE, ?_⟩
  have : s.markov = Saved.val s.walker := hc
  rw [this, hw]

/-- The same, for the kernels read from the current source (no hypothesis left). -/
theorem C07_walker_gen [Field α] [LinearOrder α] [IsStrictOrderedRing α]
    (same : Pt α → Pt α → Bool) (atomic : Bool) (net0 : Ktn (Pt α)) (i0 : InitIn α)
    (ins : List (StepIn α)) (t : Nat) :
    let s := runAll Gen.BasinHopping.kern same atomic net0 i0 (ins.take t)
    let m := lastAccepted Gen.BasinHopping.kern atomic (initPt Gen.BasinHopping.kern i0) (ins.take t)
    s.walker = m.pos ∧ s.markovE = m.e ∧ s.markov = Saved.val m.pos :=
  C07_walker Gen.BasinHopping.kern C07_bridge_copies same atomic net0 i0 ins t

/-- The walker's starting point is always the outcome of a local minimisation of this run —
    the first one, or one that converged with its bonds intact — and therefore has every
    property all those outcomes have (`P` = "lies in the box": the walker is inside the box
    whenever the minimiser's outputs are). -/
theorem C07_walker_is_minimiser_output (k : Kern α) (hk : k.copy.all = true)
    (same : Pt α → Pt α → Bool) (atomic : Bool) (net0 : Ktn (Pt α)) (i0 : InitIn α)
    (ins : List (StepIn α)) (P : List α → Prop) (h0 : P (initPt k i0).pos)
    (hP : ∀ i ∈ ins, archived k atomic i = true → P i.gated) :
    P (runAll k same atomic net0 i0 ins).walker := by
  have hw := (C07_walker k hk same atomic net0 i0 ins ins.length).1
  simp only [List.take_length] at hw
  rw [hw]
  clear hw
  suffices H : ∀ (l : List (StepIn α)) (p : Pt α), P p.pos →
      (∀ i ∈ l, archived k atomic i = true → P i.gated) → P (lastAccepted k atomic p l).pos from
    H ins _ h0 hP
  intro l
  induction l with
  | nil => intro p hp _; exact hp
  | cons i rest ih =>
    intro p hp hl
    simp only [lastAccepted, List.foldl_cons]
    apply ih
    · unfold specStep
      split_ifs with hc
      · simp only [Bool.and_eq_true] at hc
        exact hl i List.mem_cons_self hc.1
      · exact hp
    · intro j hj; exact hl j (List.mem_cons_of_mem _ hj)

/-- Standard (non-atomic) systems, where the similarity leaves `coords.position` alone
    (`gated = minPos`): the walker's starting point is exactly — coordinate for coordinate —
    the array some local minimisation of this run returned. -/
theorem C07_walker_standard (k : Kern α) (hk : k.copy.all = true) (same : Pt α → Pt α → Bool)
    (atomic : Bool) (net0 : Ktn (Pt α)) (i0 : InitIn α) (ins : List (StepIn α))
    (h0 : i0.gated = i0.minPos) (hg : ∀ i ∈ ins, i.gated = i.minPos) :
    (runAll k same atomic net0 i0 ins).walker ∈ i0.minPos :: ins.map (·.minPos) := by
  apply C07_walker_is_minimiser_output k hk same atomic net0 i0 ins
    (fun p => p ∈ i0.minPos :: ins.map (·.minPos))
  · unfold initPt
    split_ifs
    · rw [h0]; exact List.mem_cons_self
    · exact List.mem_cons_self
  · intro i hi _
    rw [hg i hi]
    exact List.mem_cons_of_mem _ (List.mem_map_of_mem hi)

/-- The energy handed to the next acceptance test is the energy of the minimum the walker sits
    at: the step after `ins` takes the `accept` path exactly when its minimisation converged
    with bonds intact and the kernel accepts against `(lastAccepted …).e`. -/
theorem C07_energy_in_next_test (k : Kern α) (hk : k.copy.all = true) (same : Pt α → Pt α → Bool)
    (atomic : Bool) (net0 : Ktn (Pt α)) (i0 : InitIn α) (ins : List (StepIn α)) (i : StepIn α) :
    decision k atomic (runAll k same atomic net0 i0 ins) i = Decision.accept ↔
      archived k atomic i = true ∧
        k.accept (lastAccepted k atomic (initPt k i0) ins).e i.minE i.boltz i.u = true := by
  have hE := (C07_walker k hk same atomic net0 i0 ins ins.length).2.1
  simp only [List.take_length] at hE
  rw [decision_accept_iff, hE]

/-! ### single steps -/

/-- After a rejected step the walker is back at exactly the coordinates it started the step
    from, the energy for the next test is unchanged, and the saved copy is still separate. -/
theorem C07_reject_restores (k : Kern α) (hk : k.copy.all = true) (same : Pt α → Pt α → Bool)
    (atomic : Bool) (s : State α) (hs : Clean s) (i : StepIn α)
    (hd : decision k atomic s i = Decision.reject) :
    (step k same atomic s i).walker = s.walker ∧ (step k same atomic s i).markovE = s.markovE ∧
      Clean (step k same atomic s i) := by
  obtain ⟨hc, he⟩ := step_spec k hk same atomic s hs i
  have h := (decision_reject_iff k atomic s i).1 hd
  simp only [specStep, h.1, h.2, Bool.and_false, Bool.false_eq_true, if_false] at he
  exact ⟨congrArg Pt.pos he, congrArg Pt.e he, hc⟩

/-- The same after a minimisation that failed to converge. -/
theorem C07_fail_restores (k : Kern α) (hk : k.copy.all = true) (same : Pt α → Pt α → Bool)
    (atomic : Bool) (s : State α) (hs : Clean s) (i : StepIn α)
    (hd : decision k atomic s i = Decision.fail) :
    (step k same atomic s i).walker = s.walker ∧ (step k same atomic s i).markovE = s.markovE ∧
      Clean (step k same atomic s i) := by
  obtain ⟨hc, he⟩ := step_spec k hk same atomic s hs i
  have h := (decision_fail_iff k atomic s i).1 hd
  simp only [specStep, archived, h, Bool.not_true, Bool.false_and, Bool.false_eq_true,
    if_false] at he
  exact ⟨congrArg Pt.pos he, congrArg Pt.e he, hc⟩

/-- The same after a step whose minimum broke the bonds (atomic / molecular systems). -/
theorem C07_bond_restores (k : Kern α) (hk : k.copy.all = true) (same : Pt α → Pt α → Bool)
    (atomic : Bool) (s : State α) (hs : Clean s) (i : StepIn α)
    (hd : decision k atomic s i = Decision.bonds) :
    (step k same atomic s i).walker = s.walker ∧ (step k same atomic s i).markovE = s.markovE ∧
      Clean (step k same atomic s i) := by
  obtain ⟨_, rfl, hb⟩ := (decision_bonds_iff k atomic s i).1 hd
  obtain ⟨hc, he⟩ := step_spec k hk same true s hs i
  simp only [specStep, archived, hb, Bool.not_true, Bool.or_self, Bool.and_false,
    Bool.false_and, Bool.false_eq_true, if_false] at he
  exact ⟨congrArg Pt.pos he, congrArg Pt.e he, hc⟩

/-- After an accepted step the walker is at the newly found minimum and its energy is the one
    kept for the next test. -/
theorem C07_accept_moves (k : Kern α) (hk : k.copy.all = true) (same : Pt α → Pt α → Bool)
    (atomic : Bool) (s : State α) (hs : Clean s) (i : StepIn α)
    (hd : decision k atomic s i = Decision.accept) :
    (step k same atomic s i).walker = i.gated ∧ (step k same atomic s i).markovE = i.minE ∧
      Clean (step k same atomic s i) := by
  obtain ⟨hc, he⟩ := step_spec k hk same atomic s hs i
  have h := (decision_accept_iff k atomic s i).1 hd
  simp only [specStep, h.1, h.2, Bool.and_self, if_true] at he
  exact ⟨congrArg Pt.pos he, congrArg Pt.e he, hc⟩

/-- A converged, bonds-intact result with lower energy is always accepted by the current
    code's kernels — whatever the Boltzmann factor and the draw — and the walker moves there. -/
theorem C07_downhill_accepted [Field α] [LinearOrder α] [IsStrictOrderedRing α]
    (same : Pt α → Pt α → Bool) (atomic : Bool) (s : State α) (hs : Clean s) (i : StepIn α)
    (hconv : i.warn = 0 ∧ i.relRed = false) (hbonds : atomic = true → i.bondsOk = true)
    (hdown : i.minE < s.markovE) :
    decision Gen.BasinHopping.kern atomic s i = Decision.accept ∧
      (step Gen.BasinHopping.kern same atomic s i).walker = i.gated ∧
      (step Gen.BasinHopping.kern same atomic s i).markovE = i.minE := by
  have hd : decision (Gen.BasinHopping.kern : Kern α) atomic s i = Decision.accept := by
    rw [decision_accept_iff]
    have hl : Gen.BasinHopping.loopFails i.warn i.relRed = false := by
      cases hh : Gen.BasinHopping.loopFails i.warn i.relRed
      · rfl
      · rcases (C07_bridge_fail_test _ _).1 hh with h | h
        · exact absurd hconv.1 h
        · rw [hconv.2] at h; cases h
    refine ⟨?_, C07_bridge_downhill _ _ _ _ hdown⟩
    cases hb : atomic
    · simp [archived, Gen.BasinHopping.kern, hl]
    · simp [archived, Gen.BasinHopping.kern, hl, hbonds hb]
  have := C07_accept_moves Gen.BasinHopping.kern C07_bridge_copies same atomic s hs i hd
  exact ⟨hd, this.1, this.2.1⟩

/-- The local variable `energy` is never read before it is overwritten by the next
    minimisation: after a failed step it keeps the failed minimiser's value, and nothing
    depends on it. -/
theorem C07_energy_variable_unobservable (k : Kern α) (same : Pt α → Pt α → Bool) (atomic : Bool)
    (s : State α) (e' : α) (i : StepIn α) :
    step k same atomic { s with energy := e' } i = step k same atomic s i := by
  unfold step decision perturb
  rfl

/-! ### what goes wrong without the copies -/

/-- reference kernels with a chosen copy configuration -/
def kernWith (c : CopyCfg) : Kern Int := { (Kern.model : Kern Int) with copy := c }

/-- one-coordinate step records over `Int` -/
def mk (perturbed left minPos : Int) (minE : Int) (warn : Int) : StepIn Int :=
  ⟨[perturbed], [left], [minPos], minE, warn, false, true, [minPos], 0, 0⟩

/-- The original code (restore and save by reference) violates the property: the first step is
    accepted at `[10]` (saved by reference), the second displaces the walker in place by `+3`
    and fails to converge; the walker is "restored" to `[13]` although the last accepted
    minimum is `[10]`. -/
theorem C07_alias_displaces_saved_minimum :
    ∃ (i0 : InitIn Int) (ins : List (StepIn Int)),
      (runAll (kernWith CopyCfg.original) (fun _ _ => false) false {} i0 ins).walker ≠
        (lastAccepted (kernWith CopyCfg.original) false (initPt (kernWith CopyCfg.original) i0) ins).pos :=
  ⟨⟨[0], 0, 0, [0]⟩, [mk 5 5 10 (-1) 0, mk 13 13 20 (-2) 1], by decide⟩

/-- Each of the five copies is needed: switching off any single one admits a run whose walker
    is not at the last accepted minimum. -/
theorem C07_each_copy_needed :
    ∀ c ∈ [(⟨false, true, true, true, true⟩ : CopyCfg), ⟨true, false, true, true, true⟩,
            ⟨true, true, false, true, true⟩, ⟨true, true, true, false, true⟩,
            ⟨true, true, true, true, false⟩],
      ∃ (atomic : Bool) (ins : List (StepIn Int)),
        (runAll (kernWith c) (fun _ _ => false) atomic {} ⟨[0], 0, 0, [0]⟩ ins).walker ≠
          (lastAccepted (kernWith c) atomic (initPt (kernWith c) ⟨[0], 0, 0, [0]⟩) ins).pos := by
  intro c hc
  simp only [List.mem_cons, List.mem_nil_iff, or_false] at hc
  rcases hc with rfl | rfl | rfl | rfl | rfl
  · -- initial save by reference: the first in-place move displaces the saved minimum
    exact ⟨false, [mk 3 3 7 (-1) 1], by decide⟩
  · -- failed step restored by reference, the next in-place move displaces it
    exact ⟨false, [mk 3 3 7 (-1) 1, mk 4 4 9 (-1) 1], by decide⟩
  · -- the same through the bond check
    exact ⟨true, [⟨[3], [3], [7], -1, 0, false, false, [7], 0, 0⟩, mk 4 4 9 (-1) 1], by decide⟩
  · -- accepted minimum saved by reference
    exact ⟨false, [mk 5 5 10 (-1) 0, mk 13 13 20 (-2) 1], by decide⟩
  · -- rejected step restored by reference
    exact ⟨false, [mk 3 3 7 5 0, mk 4 4 9 (-1) 1], by decide⟩

/-! ### non-vacuity -/

/-- a concrete run of the repaired configuration that takes all four paths (accept, reject,
    fail, bond failure) satisfies the hypotheses and ends at the last accepted minimum `[10]` -/
example :
    let k := kernWith CopyCfg.byValue
    let i0 : InitIn Int := ⟨[0], 0, 0, [0]⟩
    let ins := [mk 5 5 10 (-1) 0, mk 13 13 20 5 0, mk 14 14 30 (-7) 2,
                ⟨[11], [11], [40], -9, 0, false, false, [40], 0, 0⟩]
    k.copy.all = true ∧
    (runAll k (fun _ _ => false) true {} i0 ins).walker = [10] ∧
    lastAccepted k true (initPt k i0) ins = ⟨[10], -1⟩ ∧
    (List.range 4).map (fun t => decision k true (runAll k (fun _ _ => false) true {} i0 (ins.take t))
        (ins.getD t (mk 0 0 0 0 0)))
      = [.accept, .reject, .fail, .bonds] := by
  decide

end TopSearch.Props.C07
