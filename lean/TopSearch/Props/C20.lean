import TopSearch.Model.Moves
import TopSearch.Gen.Moves
import Mathlib.Tactic.Ring
import Mathlib.Tactic.Linarith
import Mathlib.Algebra.Order.Field.Basic
namespace TopSearch.Props.C20
open TopSearch TopSearch.Moves

section bridge
set_option linter.unusedTactic false
set_option linter.unreachableTactic false
set_option linter.unusedSectionVars false
variable {α : Type} [Field α] [LinearOrder α] [IsStrictOrderedRing α]

theorem m3_ext {A B : M3 α} (h11 : A.a11 = B.a11) (h12 : A.a12 = B.a12) (h13 : A.a13 = B.a13)
    (h21 : A.a21 = B.a21) (h22 : A.a22 = B.a22) (h23 : A.a23 = B.a23)
    (h31 : A.a31 = B.a31) (h32 : A.a32 = B.a32) (h33 : A.a33 = B.a33) : A = B := by
  cases A; cases B; simp_all

theorem cmp_cases (x b : α) :
    (x < b ∧ x ≤ b ∧ ¬ b < x ∧ ¬ b ≤ x) ∨ x = b ∨ (b < x ∧ b ≤ x ∧ ¬ x < b ∧ ¬ x ≤ b) := by
  rcases lt_trichotomy x b with h | h | h
  · exact Or.inl ⟨h, h.le, h.not_gt, h.not_ge⟩
  · exact Or.inr (Or.inl h)
  · exact Or.inr (Or.inr ⟨h, h.le, h.not_gt, h.not_ge⟩)

theorem C20_bridge_box (x lo hi : α) :
    Gen.Moves.checkBounds1 x lo hi = checkBounds1 x lo hi ∧
    Gen.Moves.activeBounds1 x lo hi = activeBounds1 x lo hi ∧
    Gen.Moves.clip1 x lo hi = clip1 x lo hi ∧
    (∀ m, Gen.Moves.atBounds m = m.any id) ∧ (∀ m, Gen.Moves.allBounds m = m.all id) := by
  refine ⟨?_, ?_, ?_, fun _ => rfl, fun _ => rfl⟩
  · unfold Gen.Moves.checkBounds1 checkBounds1
    rcases cmp_cases x lo with ⟨a1, a2, a3, a4⟩ | rfl | ⟨a1, a2, a3, a4⟩ <;>
      rcases cmp_cases x hi with ⟨b1, b2, b3, b4⟩ | rfl | ⟨b1, b2, b3, b4⟩ <;> simp [*]
  · unfold Gen.Moves.activeBounds1 activeBounds1
    rcases cmp_cases x lo with ⟨a1, a2, a3, a4⟩ | rfl | ⟨a1, a2, a3, a4⟩ <;>
      rcases cmp_cases x hi with ⟨b1, b2, b3, b4⟩ | rfl | ⟨b1, b2, b3, b4⟩ <;> simp [*]
  · rfl

theorem C20_bridge_steps (u s m lo hi : α) :
    Gen.Moves.stdPerturbation u s = stdPerturbation u s ∧
    Gen.Moves.stepSizeProp m lo hi = stepSize true m lo hi ∧
    Gen.Moves.stdAdds = true ∧ Gen.Moves.stdClips = true ∧
    Gen.Moves.atomicPerturbation u m = atomicPerturbation u m ∧
    Gen.Moves.molecularAngle u m = molecularAngle u m := by
  refine ⟨?_, ?_, by decide, by decide, ?_, ?_⟩ <;>
    first
      | rfl
      | (simp only [Gen.Moves.stdPerturbation, stdPerturbation, Gen.Moves.stepSizeProp, stepSize, half,
          Gen.Moves.atomicPerturbation, atomicPerturbation, Gen.Moves.molecularAngle, molecularAngle,
          if_true]
         push_cast
         ring)

theorem C20_bridge_sample (ndim : Nat) :
    Gen.Moves.sampleLo = 1 ∧ Gen.Moves.sampleHi ndim = ndim / 3 := by
  refine ⟨by decide, ?_⟩
  first | rfl | (simp only [Gen.Moves.sampleHi]; omega)

theorem C20_bridge_rotation (Q : M3 α) (c s : α) :
    Gen.Moves.rotX c s = rotX c s ∧ Gen.Moves.undo Q = M3.transpose Q := by
  refine ⟨?_, rfl⟩
  refine m3_ext ?_ ?_ ?_ ?_ ?_ ?_ ?_ ?_ ?_ <;> first | rfl | (simp only [Gen.Moves.rotX, rotX]; ring)
end bridge
end TopSearch.Props.C20
