/-
  C20 — moves respect their limits and act rigidly; box predicates are exact.
  Property theorems about Model/Moves.lean, over every ordered field (so over ℚ — every value a
  float can hold — and ℝ).  `Gen/Moves.lean` is regenerated from the source on every run; the
  bridge lemmas `C20_bridge_*` tie its kernels to the model definitions the theorems are about.
  Reading (DESIGN §4.0): boxes have `lo ≤ hi`; uniform draws satisfy `0 ≤ u < 1`; `cos`/`sin`
  enter as `c`, `s` with `c² + s² = 1`; scipy's rotations enter as orthogonal matrices.
-/
import TopSearch.Model.Moves
import TopSearch.Gen.Moves
import Mathlib.Tactic.Ring
import Mathlib.Tactic.Linarith
import Mathlib.Tactic.LinearCombination
import Mathlib.Algebra.Order.Field.Basic
namespace TopSearch.Props.C20
open TopSearch TopSearch.Moves

section bridge
set_option linter.unusedTactic false
set_option linter.unreachableTactic false
set_option linter.unusedSectionVars false
variable {α : Type} [Field α] [LinearOrder α] [IsStrictOrderedRing α]

omit [Field α] [LinearOrder α] [IsStrictOrderedRing α] in
theorem m3_ext {A B : M3 α} (h11 : A.a11 = B.a11) (h12 : A.a12 = B.a12) (h13 : A.a13 = B.a13)
    (h21 : A.a21 = B.a21) (h22 : A.a22 = B.a22) (h23 : A.a23 = B.a23)
    (h31 : A.a31 = B.a31) (h32 : A.a32 = B.a32) (h33 : A.a33 = B.a33) : A = B := by
  cases A; cases B; simp_all

theorem cmp_cases (x b : α) :
    (x < b ∧ x ≤ b ∧ ¬ b < x ∧ ¬ b ≤ x) ∨ x = b ∨ (b < x ∧ b ≤ x ∧ ¬ x < b ∧ ¬ x ≤ b) := by
  rcases lt_trichotomy x b with h | h | h
  · exact Or.inl ⟨h, h.le, h.not_gt, h.not_ge⟩
  · exact Or.inr (Or.inl h)
  · exact Or.inr (Or.inr ⟨h, h.le, h.not_gt, h.not_ge⟩)

theorem C20_bridge_box (x lo hi : α) :
    Gen.Moves.checkBounds1 x lo hi = checkBounds1 x lo hi ∧
    Gen.Moves.activeBounds1 x lo hi = activeBounds1 x lo hi ∧
    Gen.Moves.clip1 x lo hi = clip1 x lo hi ∧
    (∀ m, Gen.Moves.atBounds m = m.any id) ∧ (∀ m, Gen.Moves.allBounds m = m.all id) := by
  refine ⟨?_, ?_, ?_, fun _ => rfl, fun _ => rfl⟩
  · unfold Gen.Moves.checkBounds1 checkBounds1
    rcases cmp_cases x lo with ⟨a1, a2, a3, a4⟩ | rfl | ⟨a1, a2, a3, a4⟩ <;>
      rcases cmp_cases x hi with ⟨b1, b2, b3, b4⟩ | rfl | ⟨b1, b2, b3, b4⟩ <;> simp [*]
  · unfold Gen.Moves.activeBounds1 activeBounds1
    rcases cmp_cases x lo with ⟨a1, a2, a3, a4⟩ | rfl | ⟨a1, a2, a3, a4⟩ <;>
      rcases cmp_cases x hi with ⟨b1, b2, b3, b4⟩ | rfl | ⟨b1, b2, b3, b4⟩ <;> simp [*]
  · rfl

theorem C20_bridge_steps (u s m lo hi : α) :
    Gen.Moves.stdPerturbation u s = stdPerturbation u s ∧
    Gen.Moves.stepSizeProp m lo hi = stepSize true m lo hi ∧
    Gen.Moves.stdAdds = true ∧ Gen.Moves.stdClips = true ∧
    Gen.Moves.atomicPerturbation u m = atomicPerturbation u m ∧
    Gen.Moves.molecularAngle u m = molecularAngle u m := by
  refine ⟨?_, ?_, by decide, by decide, ?_, ?_⟩ <;>
    first
      | rfl
      | (simp only [Gen.Moves.stdPerturbation, stdPerturbation, Gen.Moves.stepSizeProp, stepSize, half,
          Gen.Moves.atomicPerturbation, atomicPerturbation, Gen.Moves.molecularAngle, molecularAngle,
          if_true]
         push_cast
         ring)

theorem C20_bridge_sample (ndim : Nat) :
    Gen.Moves.sampleLo = 1 ∧ Gen.Moves.sampleHi ndim = ndim / 3 := by
  refine ⟨by decide, ?_⟩
  first | rfl | (simp only [Gen.Moves.sampleHi]; omega)

theorem C20_bridge_rotation (Q : M3 α) (c s : α) :
    Gen.Moves.rotX c s = rotX c s ∧ Gen.Moves.undo Q = M3.transpose Q := by
  refine ⟨?_, rfl⟩
  refine m3_ext ?_ ?_ ?_ ?_ ?_ ?_ ?_ ?_ ?_ <;> first | rfl | (simp only [Gen.Moves.rotX, rotX]; ring)
end bridge

/-! ### the property -/

section props
variable {α : Type} [Field α] [LinearOrder α] [IsStrictOrderedRing α]

/-- Box predicates agree with direct comparison against the box: `check_bounds` is
    "on or outside a bound" and is the disjunction of the two `active_bounds` masks, which are
    `x ≤ lo` and `x ≥ hi`; for `lo ≤ hi` the clip is `min (max x lo) hi`, lands in the box, is the
    identity inside the box, is idempotent, and the clipped coordinate is flagged exactly when the
    original was on or outside a bound (for `lo < hi` also mask by mask). -/
theorem C20_box_predicates (x lo hi : α) :
    (checkBounds1 x lo hi = true ↔ (x ≤ lo ∨ x ≥ hi)) ∧
    ((activeBounds1 x lo hi).1 = true ↔ x ≤ lo) ∧ ((activeBounds1 x lo hi).2 = true ↔ x ≥ hi) ∧
    checkBounds1 x lo hi = ((activeBounds1 x lo hi).1 || (activeBounds1 x lo hi).2) ∧
    (lo ≤ hi →
      clip1 x lo hi = min (max x lo) hi ∧ lo ≤ clip1 x lo hi ∧ clip1 x lo hi ≤ hi ∧
      (lo ≤ x → x ≤ hi → clip1 x lo hi = x) ∧
      clip1 (clip1 x lo hi) lo hi = clip1 x lo hi ∧
      (checkBounds1 (clip1 x lo hi) lo hi = true ↔ (x ≤ lo ∨ x ≥ hi)) ∧
      (lo < hi → (((activeBounds1 (clip1 x lo hi) lo hi).1 = true ↔ x ≤ lo) ∧
                  ((activeBounds1 (clip1 x lo hi) lo hi).2 = true ↔ x ≥ hi)))) := by
  refine ⟨?_, ?_, ?_, ?_, ?_⟩
  · unfold checkBounds1
    rcases cmp_cases x lo with ⟨a1, a2, a3, a4⟩ | rfl | ⟨a1, a2, a3, a4⟩ <;>
      rcases cmp_cases x hi with ⟨b1, b2, b3, b4⟩ | rfl | ⟨b1, b2, b3, b4⟩ <;> simp [*]
  · simp [activeBounds1]
  · simp [activeBounds1]
  · unfold checkBounds1 activeBounds1
    rcases cmp_cases x lo with ⟨a1, a2, a3, a4⟩ | rfl | ⟨a1, a2, a3, a4⟩ <;>
      rcases cmp_cases x hi with ⟨b1, b2, b3, b4⟩ | rfl | ⟨b1, b2, b3, b4⟩ <;> simp [*]
  · intro hb
    have hclip : clip1 x lo hi = min (max x lo) hi := by
      unfold clip1 npClip
      rcases cmp_cases x lo with ⟨a1, a2, a3, a4⟩ | rfl | ⟨a1, a2, a3, a4⟩ <;>
        rcases cmp_cases x hi with ⟨b1, b2, b3, b4⟩ | rfl | ⟨b1, b2, b3, b4⟩ <;>
        simp [*, not_lt.mpr hb]
    have h1 : lo ≤ clip1 x lo hi := by rw [hclip]; exact le_min (le_max_right _ _) hb
    have h2 : clip1 x lo hi ≤ hi := by rw [hclip]; exact min_le_right _ _
    have hid : ∀ y, lo ≤ y → y ≤ hi → clip1 y lo hi = y := by
      intro y hy1 hy2
      unfold clip1 npClip
      simp [not_lt.mpr hy1, not_lt.mpr hy2]
    have hcases : (x ≤ lo ∧ clip1 x lo hi = lo) ∨ (x ≥ hi ∧ clip1 x lo hi = hi) ∨
        (lo < x ∧ x < hi ∧ clip1 x lo hi = x) := by
      rcases le_or_gt x lo with h | h
      · left; refine ⟨h, ?_⟩; rw [hclip, max_eq_right h, min_eq_left hb]
      · rcases le_or_gt hi x with h' | h'
        · right; left; refine ⟨h', ?_⟩; rw [hclip, max_eq_left h.le, min_eq_right h']
        · right; right; exact ⟨h, h', hid x h.le h'.le⟩
    refine ⟨hclip, h1, h2, hid x, hid _ h1 h2, ?_, ?_⟩
    · unfold checkBounds1
      rcases hcases with ⟨h, e⟩ | ⟨h, e⟩ | ⟨h, h', e⟩
      · rw [e]; simp [h]
      · rw [e]; simp [h]
      · rw [e]; simp [h, h', not_le.mpr h, not_le.mpr h']
    · intro hlt
      unfold activeBounds1
      rcases hcases with ⟨h, e⟩ | ⟨h, e⟩ | ⟨h, h', e⟩
      · rw [e]; simp [h, not_le.mpr hlt]; exact lt_of_le_of_lt h hlt
      · rw [e]; simp [h, not_le.mpr hlt]; exact lt_of_lt_of_le hlt h
      · rw [e]; simp [not_le.mpr h, not_le.mpr h']

/-- The list-level predicates: `at_bounds` = some coordinate on or outside a bound, `all_bounds` =
    every coordinate, `active_bounds` = the two coordinate-wise masks, `move_to_bounds` keeps the
    bounds and puts every coordinate into its interval. -/
theorem C20_box_predicates_lists (cs : List (Coord α)) :
    (atBounds cs = true ↔ ∃ c ∈ cs, c.x ≤ c.lo ∨ c.x ≥ c.hi) ∧
    (allBounds cs = true ↔ ∀ c ∈ cs, c.x ≤ c.lo ∨ c.x ≥ c.hi) ∧
    (activeBounds cs).1 = cs.map (fun c => decide (c.x ≤ c.lo)) ∧
    (activeBounds cs).2 = cs.map (fun c => decide (c.x ≥ c.hi)) ∧
    (moveToBounds cs).length = cs.length ∧
    ∀ c ∈ moveToBounds cs, c.lo ≤ c.hi → c.lo ≤ c.x ∧ c.x ≤ c.hi := by
  refine ⟨?_, ?_, ?_, ?_, ?_, ?_⟩
  · simp only [atBounds, checkBounds, List.any_map, List.any_eq_true, Function.comp, id]
    constructor
    · rintro ⟨c, hc, h⟩; exact ⟨c, hc, (C20_box_predicates c.x c.lo c.hi).1.mp h⟩
    · rintro ⟨c, hc, h⟩; exact ⟨c, hc, (C20_box_predicates c.x c.lo c.hi).1.mpr h⟩
  · simp only [allBounds, checkBounds, List.all_map, List.all_eq_true, Function.comp, id]
    constructor
    · intro h c hc; exact (C20_box_predicates c.x c.lo c.hi).1.mp (h c hc)
    · intro h c hc; exact (C20_box_predicates c.x c.lo c.hi).1.mpr (h c hc)
  · simp [activeBounds, activeBounds1]
  · simp [activeBounds, activeBounds1]
  · simp [moveToBounds]
  · intro c hc hb
    simp only [moveToBounds, List.mem_map] at hc
    obtain ⟨c0, _, rfl⟩ := hc
    have := (C20_box_predicates c0.x c0.lo c0.hi).2.2.2.2 hb
    exact ⟨this.2.1, this.2.2.1⟩

/-- `StandardPerturbation`: a draw `u ∈ [0,1)` and a step `s ≥ 0` give a perturbation of at most
    half the step (the lower end `−s/2` is attained at `u = 0`, the upper end is not attained);
    after the clip the coordinate is inside the box; and starting inside the box the coordinate
    moves by at most the unclipped perturbation, hence by at most half the configured step —
    `max_displacement` (absolute) or `max_displacement × width` (proportional). -/
theorem C20_std_step (u s : α) (hu0 : 0 ≤ u) (hu1 : u < 1) (hs : 0 ≤ s) :
    |stdPerturbation u s| ≤ s / 2 ∧ -(s / 2) ≤ stdPerturbation u s ∧ (0 < s → stdPerturbation u s < s / 2) ∧
    ∀ (proportional : Bool) (m : α) (c : Coord α), 0 ≤ m → c.lo ≤ c.hi →
      s = stepSize proportional m c.lo c.hi →
      0 ≤ stepSize proportional m c.lo c.hi ∧
      c.lo ≤ stdPerturb1 proportional m u c ∧ stdPerturb1 proportional m u c ≤ c.hi ∧
      (c.lo ≤ c.x → c.x ≤ c.hi →
        |stdPerturb1 proportional m u c - c.x| ≤ |stdPerturbation u s| ∧
        |stdPerturb1 proportional m u c - c.x| ≤ stepSize proportional m c.lo c.hi / 2) := by
  have e : stdPerturbation u s = (u - 1 / 2) * s := by
    simp only [stdPerturbation, half]; push_cast; ring
  have hlo : -(s / 2) ≤ stdPerturbation u s := by rw [e]; nlinarith
  have hhi : stdPerturbation u s ≤ s / 2 := by rw [e]; nlinarith
  refine ⟨abs_le.mpr ⟨hlo, hhi⟩, hlo, ?_, ?_⟩
  · intro hs'; rw [e]; nlinarith
  · intro proportional m c hm hb hs_eq
    have hstep : 0 ≤ stepSize proportional m c.lo c.hi := by
      unfold stepSize; split
      · exact mul_nonneg (sub_nonneg.mpr hb) hm
      · exact hm
    have hbox := (C20_box_predicates (c.x + stdPerturbation u s) c.lo c.hi).2.2.2.2 hb
    have hdef : stdPerturb1 proportional m u c = clip1 (c.x + stdPerturbation u s) c.lo c.hi := by
      simp only [stdPerturb1, hs_eq]
    refine ⟨hstep, ?_, ?_, ?_⟩
    · rw [hdef]; exact hbox.2.1
    · rw [hdef]; exact hbox.2.2.1
    · intro hx1 hx2
      have hmove : |stdPerturb1 proportional m u c - c.x| ≤ |stdPerturbation u s| := by
        rw [hdef, hbox.1]
        set p := stdPerturbation u s
        rcases le_total 0 p with hp | hp
        · rw [abs_of_nonneg hp, max_eq_left (by linarith)]
          have : c.x ≤ min (c.x + p) c.hi := le_min (by linarith) hx2
          rw [abs_of_nonneg (by linarith)]
          have := min_le_left (c.x + p) c.hi
          linarith
        · rw [abs_of_nonpos hp]
          have h1 : c.x + p ≤ c.hi := by linarith
          have h2 : max (c.x + p) c.lo ≤ c.hi := max_le h1 hb
          rw [min_eq_left h2]
          have h3 : max (c.x + p) c.lo ≤ c.x := max_le (by linarith) hx1
          rw [abs_of_nonpos (by linarith)]
          have := le_max_left (c.x + p) c.lo
          linarith
      refine ⟨hmove, le_trans hmove ?_⟩
      rw [← hs_eq]
      exact abs_le.mpr ⟨hlo, hhi⟩

/-- `MolecularPerturbation`: a draw `u ∈ [0,1)` gives an angle in `[−m, m)`. -/
theorem C20_molecular_angle_range (u m : α) (hu0 : 0 ≤ u) (hu1 : u < 1) (hm : 0 ≤ m) :
    -m ≤ molecularAngle u m ∧ molecularAngle u m ≤ m ∧ |molecularAngle u m| ≤ m := by
  have e : molecularAngle u m = (u * 2 - 1) * m := by
    simp only [molecularAngle]; push_cast; ring
  have h1 : -m ≤ molecularAngle u m := by rw [e]; nlinarith
  have h2 : molecularAngle u m ≤ m := by rw [e]; nlinarith
  exact ⟨h1, h2, abs_le.mpr ⟨h1, h2⟩⟩

/-! #### atomic displacement -/

omit [LinearOrder α] [IsStrictOrderedRing α] in
theorem addAtom_get (pos : List α) (a : Nat) (p0 p1 p2 : α) (k : Nat) :
    (addAtom pos a p0 p1 p2)[k]? = (pos[k]?).map fun v =>
      if k = 3 * a then v + p0 else if k = 3 * a + 1 then v + p1 else if k = 3 * a + 2 then v + p2 else v := by
  simp only [addAtom, List.getElem?_modify]
  cases pos[k]? with
  | none => simp
  | some v =>
    simp only [Option.map_eq_map, Option.map_some]
    by_cases h0 : k = 3 * a
    · subst h0; simp
    · by_cases h1 : k = 3 * a + 1
      · subst h1; simp
      · by_cases h2 : k = 3 * a + 2
        · subst h2; simp
        · have e0 : ¬ 3 * a = k := fun h => h0 h.symm
          have e1 : ¬ 3 * a + 1 = k := fun h => h1 h.symm
          have e2 : ¬ 3 * a + 2 = k := fun h => h2 h.symm
          simp [h0, h1, h2, e0, e1, e2]

omit [LinearOrder α] [IsStrictOrderedRing α] in
theorem atomicPerturb_length (m : α) (atoms : List Nat) (draws : List (α × α × α)) (pos : List α) :
    (atomicPerturb m atoms draws pos).length = pos.length := by
  induction atoms generalizing draws pos with
  | nil => simp [atomicPerturb]
  | cons a as ih =>
    cases draws with
    | nil => simp [atomicPerturb]
    | cons u us =>
      obtain ⟨u0, u1, u2⟩ := u
      simp only [atomicPerturb, ih, addAtom, List.length_modify]

omit [LinearOrder α] [IsStrictOrderedRing α] in
/-- coordinates of atoms that were not sampled are untouched -/
theorem atomicPerturb_untouched (m : α) (atoms : List Nat) (draws : List (α × α × α)) (pos : List α)
    (k : Nat) (hk : k / 3 ∉ atoms) : (atomicPerturb m atoms draws pos)[k]? = pos[k]? := by
  induction atoms generalizing draws pos with
  | nil => simp [atomicPerturb]
  | cons a as ih =>
    cases draws with
    | nil => simp [atomicPerturb]
    | cons u us =>
      obtain ⟨u0, u1, u2⟩ := u
      simp only [List.mem_cons, not_or] at hk
      simp only [atomicPerturb]
      rw [ih _ _ hk.2, addAtom_get]
      have h0 : ¬ k = 3 * a := by omega
      have h1 : ¬ k = 3 * a + 1 := by omega
      have h2 : ¬ k = 3 * a + 2 := by omega
      simp [h0, h1, h2]

omit [LinearOrder α] [IsStrictOrderedRing α] in
/-- the three coordinates of a sampled atom receive exactly the three entries of its own draw -/
theorem atomicPerturb_touched (m : α) (atoms : List Nat) (draws : List (α × α × α)) (pos : List α)
    (hn : atoms.Nodup) (a : Nat) (u : α × α × α) (hmem : (a, u) ∈ atoms.zip draws) :
    (atomicPerturb m atoms draws pos)[3 * a]? = (pos[3 * a]?).map (· + atomicPerturbation u.1 m) ∧
    (atomicPerturb m atoms draws pos)[3 * a + 1]? = (pos[3 * a + 1]?).map (· + atomicPerturbation u.2.1 m) ∧
    (atomicPerturb m atoms draws pos)[3 * a + 2]? = (pos[3 * a + 2]?).map (· + atomicPerturbation u.2.2 m) := by
  induction atoms generalizing draws pos with
  | nil => simp at hmem
  | cons b bs ih =>
    cases draws with
    | nil => simp at hmem
    | cons w ws =>
      obtain ⟨w0, w1, w2⟩ := w
      simp only [List.zip_cons_cons, List.mem_cons] at hmem
      have hn' := List.nodup_cons.mp hn
      simp only [atomicPerturb]
      rcases hmem with h | h
      · obtain ⟨rfl, rfl⟩ := Prod.mk.inj h
        have hA : ∀ j, j < 3 → (3 * a + j) / 3 ∉ bs := by
          intro j hj; have : (3 * a + j) / 3 = a := by omega
          rw [this]; exact hn'.1
        have e0 := atomicPerturb_untouched m bs ws (addAtom pos a (atomicPerturbation w0 m)
          (atomicPerturbation w1 m) (atomicPerturbation w2 m)) (3 * a) (by simpa using hA 0 (by omega))
        have e1 := atomicPerturb_untouched m bs ws (addAtom pos a (atomicPerturbation w0 m)
          (atomicPerturbation w1 m) (atomicPerturbation w2 m)) (3 * a + 1) (hA 1 (by omega))
        have e2 := atomicPerturb_untouched m bs ws (addAtom pos a (atomicPerturbation w0 m)
          (atomicPerturbation w1 m) (atomicPerturbation w2 m)) (3 * a + 2) (hA 2 (by omega))
        rw [e0, e1, e2, addAtom_get, addAtom_get, addAtom_get]
        refine ⟨?_, ?_, ?_⟩ <;> congr 1 <;> funext v <;> simp
      · have hab : a ≠ b := by
          intro hab; subst hab
          exact hn'.1 (List.of_mem_zip h).1
        obtain ⟨i0, i1, i2⟩ := ih ws (addAtom pos b (atomicPerturbation w0 m)
          (atomicPerturbation w1 m) (atomicPerturbation w2 m)) hn'.2 h
        rw [i0, i1, i2, addAtom_get, addAtom_get, addAtom_get]
        have n0 : ∀ j, j < 3 → ¬ 3 * a + j = 3 * b ∧ ¬ 3 * a + j = 3 * b + 1 ∧ ¬ 3 * a + j = 3 * b + 2 := by
          intro j hj; omega
        have := n0 0 (by omega); have := n0 1 (by omega); have := n0 2 (by omega)
        simp_all

/-- `AtomicPerturbation`: given the sample is distinct and drawn from atoms `1 … n−1`
    (`random.sample(range(1, n), max_atoms)`) and the draws lie in `[0,1)`: the position keeps its
    length; every coordinate of every atom outside the sample — in particular of atom 0 — is
    unchanged; the three coordinates of the i-th sampled atom receive exactly the three entries of
    the i-th draw; and every such entry is at most half the step in size.  So exactly the sampled
    atoms (`max_atoms` many, distinct) are displaced, never the first, each axis by ≤ step/2. -/
theorem C20_atomic_move (m : α) (hm : 0 ≤ m) (atoms : List Nat) (draws : List (α × α × α))
    (pos : List α) (hn : atoms.Nodup) (hrange : ∀ a ∈ atoms, 1 ≤ a) :
    (atomicPerturb m atoms draws pos).length = pos.length ∧
    (∀ k, k / 3 ∉ atoms → (atomicPerturb m atoms draws pos)[k]? = pos[k]?) ∧
    (∀ k, k < 3 → (atomicPerturb m atoms draws pos)[k]? = pos[k]?) ∧
    (∀ a u, (a, u) ∈ atoms.zip draws →
      (atomicPerturb m atoms draws pos)[3 * a]? = (pos[3 * a]?).map (· + atomicPerturbation u.1 m) ∧
      (atomicPerturb m atoms draws pos)[3 * a + 1]? = (pos[3 * a + 1]?).map (· + atomicPerturbation u.2.1 m) ∧
      (atomicPerturb m atoms draws pos)[3 * a + 2]? = (pos[3 * a + 2]?).map (· + atomicPerturbation u.2.2 m)) ∧
    (∀ u : α, 0 ≤ u → u < 1 → |atomicPerturbation u m| ≤ m / 2) := by
  refine ⟨atomicPerturb_length m atoms draws pos, atomicPerturb_untouched m atoms draws pos, ?_,
    atomicPerturb_touched m atoms draws pos hn, ?_⟩
  · intro k hk
    apply atomicPerturb_untouched
    intro h
    have := hrange _ h
    omega
  · intro u hu0 hu1
    have e : atomicPerturbation u m = u * m - 1 / 2 * m := by
      simp only [atomicPerturbation, half]; push_cast; ring
    rw [e]
    exact abs_le.mpr ⟨by nlinarith, by nlinarith⟩

omit [Field α] [LinearOrder α] [IsStrictOrderedRing α] in
/-- the atoms `random.sample(range(1, n), k)` can return are `≥ 1` and `< n` -/
theorem sampleAtoms_range (hi : Nat) (idx atoms : List Nat) (h : sampleAtoms 1 hi idx = some atoms) :
    ∀ a ∈ atoms, 1 ≤ a ∧ a < hi := by
  induction idx generalizing atoms with
  | nil => simp [sampleAtoms] at h; subst h; simp
  | cons k ks ih =>
    simp only [sampleAtoms, List.mapM_cons, Option.bind_eq_bind, Option.bind_eq_some_iff] at h
    obtain ⟨a, ha, as, has, hpure⟩ := h
    simp only [Option.pure_def, Option.some.injEq] at hpure
    subst hpure
    intro x hx
    rcases List.mem_cons.mp hx with rfl | hx
    · have hm := List.mem_of_getElem? ha
      simp only [population, List.mem_drop_iff_getElem, List.getElem_range] at hm
      obtain ⟨i, hi', rfl⟩ := hm
      simp at hi'
      omega
    · exact ih as has x hx

/-! #### rotation algebra -/

end props

section rot
variable {α : Type} [Field α]

omit [Field α] in
theorem v3_ext {u v : V3 α} (hx : u.x = v.x) (hy : u.y = v.y) (hz : u.z = v.z) : u = v := by
  cases u; cases v; simp_all

/-- orthogonality, both products (equivalent for square matrices; both are what is used) -/
def Orthogonal (Q : M3 α) : Prop :=
  (M3.transpose Q).mul Q = M3.one ∧ Q.mul (M3.transpose Q) = M3.one

theorem mul_assoc3 (A B C : M3 α) : (A.mul B).mul C = A.mul (B.mul C) := by
  refine m3_ext ?_ ?_ ?_ ?_ ?_ ?_ ?_ ?_ ?_ <;> simp only [M3.mul] <;> ring

theorem transpose_mul (A B : M3 α) : M3.transpose (A.mul B) = (M3.transpose B).mul (M3.transpose A) := by
  refine m3_ext ?_ ?_ ?_ ?_ ?_ ?_ ?_ ?_ ?_ <;> simp only [M3.mul, M3.transpose] <;> ring

omit [Field α] in
theorem transpose_transpose (A : M3 α) : M3.transpose (M3.transpose A) = A := rfl

theorem one_mul3 (A : M3 α) : M3.one.mul A = A := by
  refine m3_ext ?_ ?_ ?_ ?_ ?_ ?_ ?_ ?_ ?_ <;> simp only [M3.mul, M3.one] <;> ring

theorem mul_one3 (A : M3 α) : A.mul M3.one = A := by
  refine m3_ext ?_ ?_ ?_ ?_ ?_ ?_ ?_ ?_ ?_ <;> simp only [M3.mul, M3.one] <;> ring

theorem mulVec_mul (A B : M3 α) (v : V3 α) : (A.mul B).mulVec v = A.mulVec (B.mulVec v) := by
  refine v3_ext ?_ ?_ ?_ <;> simp only [M3.mul, M3.mulVec] <;> ring

theorem one_mulVec (v : V3 α) : (M3.one : M3 α).mulVec v = v := by
  refine v3_ext ?_ ?_ ?_ <;> simp only [M3.one, M3.mulVec] <;> ring

theorem mulVec_sub (A : M3 α) (u v : V3 α) : A.mulVec (u.sub v) = (A.mulVec u).sub (A.mulVec v) := by
  refine v3_ext ?_ ?_ ?_ <;> simp only [M3.mulVec, V3.sub] <;> ring

/-- a matrix with `AᵀA = 1` preserves the squared length of every vector -/
theorem dot_mulVec (A : M3 α) (h : (M3.transpose A).mul A = M3.one) (w : V3 α) :
    V3.dot (A.mulVec w) (A.mulVec w) = V3.dot w w := by
  have h11 := congrArg M3.a11 h; have h12 := congrArg M3.a12 h; have h13 := congrArg M3.a13 h
  have h22 := congrArg M3.a22 h; have h23 := congrArg M3.a23 h; have h33 := congrArg M3.a33 h
  simp only [M3.mul, M3.transpose, M3.one] at h11 h12 h13 h22 h23 h33
  simp only [V3.dot, M3.mulVec]
  linear_combination (w.x * w.x) * h11 + (2 * w.x * w.y) * h12 + (2 * w.x * w.z) * h13 +
    (w.y * w.y) * h22 + (2 * w.y * w.z) * h23 + (w.z * w.z) * h33

/-- … hence all distances -/
theorem dist2_mulVec (A : M3 α) (h : (M3.transpose A).mul A = M3.one) (u v : V3 α) :
    V3.dist2 (A.mulVec u) (A.mulVec v) = V3.dist2 u v := by
  simp only [V3.dist2, ← mulVec_sub, dot_mulVec A h]

theorem dist2_add_right (u v t : V3 α) : V3.dist2 (u.add t) (v.add t) = V3.dist2 u v := by
  simp only [V3.dist2, V3.dot, V3.sub, V3.add]; ring

theorem dist2_sub_right (u v t : V3 α) : V3.dist2 (u.sub t) (v.sub t) = V3.dist2 u v := by
  simp only [V3.dist2, V3.dot, V3.sub]; ring

theorem sub_add_cancel3 (p a : V3 α) : (p.sub a).add a = p := by
  refine v3_ext ?_ ?_ ?_ <;> simp only [V3.sub, V3.add] <;> ring

theorem rotX_orthogonal (c s : α) (h : c * c + s * s = 1) : Orthogonal (rotX c s) := by
  constructor <;> refine m3_ext ?_ ?_ ?_ ?_ ?_ ?_ ?_ ?_ ?_ <;>
    simp only [M3.mul, M3.transpose, M3.one, rotX] <;> first | ring1 | linear_combination h

theorem rotX_inverse (c s : α) (h : c * c + s * s = 1) :
    (rotX c s).mul (rotX c (-s)) = M3.one ∧ (rotX c (-s)).mul (rotX c s) = M3.one := by
  constructor <;> refine m3_ext ?_ ?_ ?_ ?_ ?_ ?_ ?_ ?_ ?_ <;>
    simp only [M3.mul, M3.one, rotX] <;> first | ring1 | linear_combination h

theorem orthogonal_mul {A B : M3 α} (hA : Orthogonal A) (hB : Orthogonal B) : Orthogonal (A.mul B) := by
  constructor
  · rw [transpose_mul, mul_assoc3, ← mul_assoc3 (M3.transpose A), hA.1, one_mul3, hB.1]
  · rw [transpose_mul, mul_assoc3, ← mul_assoc3 B, hB.2, one_mul3, hA.2]

theorem orthogonal_transpose {A : M3 α} (hA : Orthogonal A) : Orthogonal (M3.transpose A) :=
  ⟨hA.2, hA.1⟩

/-- Rotation rigidity.  For any orthogonal `Q` (the alignment rotation) and `(c, s)` with
    `c² + s² = 1`: the matrix `Qᵀ·Rₓ(c,s)·Q` applied to the moved atoms is orthogonal, hence
    preserves every distance; it fixes the rotation axis `Qᵀx̂` (every multiple `t·Qᵀx̂`); and the
    opposite rotation `(c, −s)` undoes it, as matrices and on positions.  On atoms that are not
    moved the coded sequence "rotate everything by Q, then by Qᵀ" is the identity. -/
theorem C20_rotation_rigid (Q : M3 α) (hQ : Orthogonal Q) (c s : α) (hcs : c * c + s * s = 1) :
    Orthogonal (dihedralMatrix Q c s) ∧
    (∀ u v, V3.dist2 ((dihedralMatrix Q c s).mulVec u) ((dihedralMatrix Q c s).mulVec v) = V3.dist2 u v) ∧
    (∀ t : α, (dihedralMatrix Q c s).mulVec ((M3.transpose Q).mulVec ⟨t, 0, 0⟩) =
      (M3.transpose Q).mulVec ⟨t, 0, 0⟩) ∧
    (dihedralMatrix Q c s).mul (dihedralMatrix Q c (-s)) = M3.one ∧
    (dihedralMatrix Q c (-s)).mul (dihedralMatrix Q c s) = M3.one ∧
    (∀ a p, rotateDihedral1 Q c s a true p = ((dihedralMatrix Q c s).mulVec (p.sub a)).add a) ∧
    (∀ a p, rotateDihedral1 Q c s a false p = p) ∧
    (∀ a p, rotateDihedral1 Q c (-s) a true (rotateDihedral1 Q c s a true p) = p) := by
  have hR := rotX_orthogonal c s hcs
  have hT : Orthogonal (dihedralMatrix Q c s) :=
    orthogonal_mul (orthogonal_transpose hQ) (orthogonal_mul hR hQ)
  have hinv : ∀ s' : α, c * c + s' * s' = 1 → (rotX c s').mul (rotX c (-s')) = M3.one →
      (dihedralMatrix Q c s').mul (dihedralMatrix Q c (-s')) = M3.one := by
    intro s' _ h
    unfold dihedralMatrix
    rw [mul_assoc3, mul_assoc3, ← mul_assoc3 Q, hQ.2, one_mul3, ← mul_assoc3 (rotX c s'), h, one_mul3, hQ.1]
  have hform : ∀ (s' : α) a p, rotateDihedral1 Q c s' a true p =
      ((dihedralMatrix Q c s').mulVec (p.sub a)).add a := by
    intro s' a p
    simp only [rotateDihedral1, rotateDihedralWith, dihedralMatrix, mulVec_mul, if_true]
  have hm1 := hinv s hcs (rotX_inverse c s hcs).1
  have hm2 : (dihedralMatrix Q c (-s)).mul (dihedralMatrix Q c s) = M3.one := by
    have := hinv (-s) (by linear_combination hcs) (by simpa using (rotX_inverse c s hcs).2)
    simpa using this
  refine ⟨hT, dist2_mulVec _ hT.1, ?_, hm1, hm2, hform s, ?_, ?_⟩
  · intro t
    unfold dihedralMatrix
    rw [mulVec_mul, mulVec_mul, ← mulVec_mul Q, hQ.2, one_mulVec]
    congr 1
    refine v3_ext ?_ ?_ ?_ <;> simp only [rotX, M3.mulVec] <;> ring
  · intro a p
    simp only [rotateDihedral1, rotateDihedralWith, Bool.false_eq_true, if_false]
    rw [← mulVec_mul, hQ.1, one_mulVec, sub_add_cancel3]
  · intro a p
    rw [hform, hform]
    have : (((dihedralMatrix Q c s).mulVec (p.sub a)).add a).sub a = (dihedralMatrix Q c s).mulVec (p.sub a) := by
      refine v3_ext ?_ ?_ ?_ <;> simp only [V3.sub, V3.add] <;> ring
    rw [this, ← mulVec_mul, hm2, one_mulVec, sub_add_cancel3]

/-- Bond lengths (and bond angles) under a fragment move.  Let `f` act rigidly on the moved
    fragment (it preserves the distance between any two points) and let the molecule be mapped by
    "apply `f` to moved atoms, identity elsewhere".  Then the distance between atoms `i` and `j` is
    unchanged whenever both are moved, both are fixed, or one of them lies on the set `f` fixes
    pointwise (the rotation axis: the two atoms of the axis bond).  So if every reference bond has
    both ends moved, both fixed, or an end on the axis, every bond length is preserved; and a bond
    angle `i–j–k` is preserved as soon as its three pairs satisfy the same condition (an angle is a
    function of its three distances) — which is the case for every angle when the central bond is in
    no ring, since then the moved set is one side of a bridge. -/
theorem C20_dihedral_bonds (f : V3 α → V3 α) (hrigid : ∀ p q, V3.dist2 (f p) (f q) = V3.dist2 p q)
    (moved : Nat → Bool) (pos : Nat → V3 α) :
    let g : Nat → V3 α := fun k => if moved k then f (pos k) else pos k
    (∀ i j, (moved i = moved j ∨ f (pos i) = pos i ∨ f (pos j) = pos j) →
      V3.dist2 (g i) (g j) = V3.dist2 (pos i) (pos j)) ∧
    (∀ i j k, (moved i = moved j ∨ f (pos i) = pos i ∨ f (pos j) = pos j) →
      (moved j = moved k ∨ f (pos j) = pos j ∨ f (pos k) = pos k) →
      (moved i = moved k ∨ f (pos i) = pos i ∨ f (pos k) = pos k) →
      V3.dist2 (g i) (g j) = V3.dist2 (pos i) (pos j) ∧ V3.dist2 (g j) (g k) = V3.dist2 (pos j) (pos k) ∧
      V3.dist2 (g i) (g k) = V3.dist2 (pos i) (pos k)) := by
  intro g
  have key : ∀ i j, (moved i = moved j ∨ f (pos i) = pos i ∨ f (pos j) = pos j) →
      V3.dist2 (g i) (g j) = V3.dist2 (pos i) (pos j) := by
    intro i j h
    simp only [g]
    cases hi : moved i <;> cases hj : moved j <;> simp only [hi, hj, if_true, if_false, Bool.false_eq_true] at h ⊢
    · rcases h with h | h | h
      · simp at h
      · rw [← hrigid (pos i) (pos j), h]
      · rw [h]
    · rcases h with h | h | h
      · simp at h
      · rw [h]
      · rw [← hrigid (pos i) (pos j), h]
    · exact hrigid _ _
  exact ⟨key, fun i j k h1 h2 h3 => ⟨key i j h1, key j k h2, key i k h3⟩⟩

/-- the dihedral move of the code is such an `f`: rigid, and it fixes every point of the axis
    (the points `p` that the alignment puts on the x axis: `Q(p − atom1) = (t,0,0)`; `atom1`
    itself is the case `t = 0`, `atom2` the case `t = |bond|` by the alignment contract) -/
theorem C20_dihedral_move_is_rigid (Q : M3 α) (hQ : Orthogonal Q) (c s : α) (hcs : c * c + s * s = 1)
    (a : V3 α) :
    (∀ p q, V3.dist2 (rotateDihedral1 Q c s a true p) (rotateDihedral1 Q c s a true q) = V3.dist2 p q) ∧
    (∀ p t, Q.mulVec (p.sub a) = ⟨t, 0, 0⟩ → rotateDihedral1 Q c s a true p = p) ∧
    rotateDihedral1 Q c s a true a = a := by
  obtain ⟨_, hd, hax, _, _, hform, _, _⟩ := C20_rotation_rigid Q hQ c s hcs
  have hfix : ∀ p t, Q.mulVec (p.sub a) = ⟨t, 0, 0⟩ → rotateDihedral1 Q c s a true p = p := by
    intro p t h
    have e : p.sub a = (M3.transpose Q).mulVec ⟨t, 0, 0⟩ := by
      rw [← h, ← mulVec_mul, hQ.1, one_mulVec]
    rw [hform, e, hax t, ← e, sub_add_cancel3]
  refine ⟨?_, hfix, ?_⟩
  · intro p q
    rw [hform, hform, dist2_add_right, hd, dist2_sub_right]
  · apply hfix a 0
    refine v3_ext ?_ ?_ ?_ <;> simp only [M3.mulVec, V3.sub] <;> ring

/-- `change_bond_length` translates the moved fragment: distances inside the fragment and inside
    the rest are unchanged, atoms outside the fragment do not move, and when `atom1` stays and
    `atom2` moves the bond vector becomes `(1 + length) ×` the old one (squared length
    `(1 + length)² ×` the old one). -/
theorem C20_bond_length_rigid (len : α) (a1 a2 : V3 α) :
    (∀ p q, V3.dist2 (changeBondLength1 len a1 a2 true p) (changeBondLength1 len a1 a2 true q) = V3.dist2 p q) ∧
    (∀ p, changeBondLength1 len a1 a2 false p = p) ∧
    (changeBondLength1 len a1 a2 true a2).sub (changeBondLength1 len a1 a2 false a1) =
      V3.smul (1 + len) (a2.sub a1) ∧
    V3.dist2 (changeBondLength1 len a1 a2 true a2) (changeBondLength1 len a1 a2 false a1) =
      (1 + len) * (1 + len) * V3.dist2 a2 a1 := by
  refine ⟨?_, ?_, ?_, ?_⟩
  · intro p q; simp only [changeBondLength1, if_true]; exact dist2_add_right _ _ _
  · intro p; simp [changeBondLength1]
  · refine v3_ext ?_ ?_ ?_ <;>
      simp only [changeBondLength1, if_true, Bool.false_eq_true, if_false, V3.sub, V3.add, V3.smul] <;> ring
  · simp only [changeBondLength1, if_true, Bool.false_eq_true, if_false, V3.dist2, V3.dot, V3.sub, V3.add,
      V3.smul]
    ring

/-- `rotate_angle` rotates the moved fragment about the central atom `atom2` by an orthogonal
    matrix `R` (scipy's rotation from the rotation vector): distances inside the fragment are
    preserved, so are the distances from the pivot to every moved atom (the pivot is a fixed point
    of the move), and atoms outside the fragment do not move. -/
theorem C20_angle_rigid (R : M3 α) (hR : (M3.transpose R).mul R = M3.one) (a2 : V3 α) :
    (∀ p q, V3.dist2 (rotateAngle1 R a2 true p) (rotateAngle1 R a2 true q) = V3.dist2 p q) ∧
    rotateAngle1 R a2 true a2 = a2 ∧
    (∀ p, V3.dist2 (rotateAngle1 R a2 true p) a2 = V3.dist2 p a2) ∧
    (∀ p, rotateAngle1 R a2 false p = p) := by
  have h1 : ∀ p q, V3.dist2 (rotateAngle1 R a2 true p) (rotateAngle1 R a2 true q) = V3.dist2 p q := by
    intro p q
    simp only [rotateAngle1, if_true]
    rw [dist2_add_right, dist2_mulVec R hR, dist2_sub_right]
  have h2 : rotateAngle1 R a2 true a2 = a2 := by
    refine v3_ext ?_ ?_ ?_ <;> simp only [rotateAngle1, if_true, M3.mulVec, V3.sub, V3.add] <;> ring
  refine ⟨h1, h2, ?_, ?_⟩
  · intro p
    have := h1 p a2
    rwa [h2] at this
  · intro p
    simp only [rotateAngle1, Bool.false_eq_true, if_false]
    exact sub_add_cancel3 p a2

omit [Field α] in
/-- how a per-atom move acts on a molecule given as a list of positions -/
theorem applyMove_get (f : Bool → V3 α → V3 α) (movedAtoms : List Nat) (pos : List (V3 α)) (i : Nat) :
    (applyMove f movedAtoms pos)[i]? = (pos[i]?).map (f (movedAtoms.contains i)) := by
  simp only [applyMove, List.getElem?_map, List.getElem?_zipIdx, Nat.zero_add, Option.map_map]
  rfl

/-- non-vacuity: a rotation by a (3,4,5)-angle about an axis in general position is an instance of
    `C20_rotation_rigid` (Q = the orthogonal matrix with rows (2,−2,1)/3, (1,2,2)/3, (2,1,−2)/3) -/
example : Orthogonal (⟨2/3, -2/3, 1/3, 1/3, 2/3, 2/3, 2/3, 1/3, -2/3⟩ : M3 ℚ) ∧
    ((3 : ℚ) / 5) * (3 / 5) + (4 / 5) * (4 / 5) = 1 ∧
    (dihedralMatrix (⟨2/3, -2/3, 1/3, 1/3, 2/3, 2/3, 2/3, 1/3, -2/3⟩ : M3 ℚ) (3/5) (4/5)).mulVec ⟨1, 0, 0⟩
      ≠ ⟨1, 0, 0⟩ := by
  refine ⟨⟨?_, ?_⟩, by norm_num, ?_⟩
  · simp only [M3.mul, M3.transpose, M3.one, M3.mk.injEq]; norm_num
  · simp only [M3.mul, M3.transpose, M3.one, M3.mk.injEq]; norm_num
  · simp only [dihedralMatrix, M3.mul, M3.transpose, rotX, M3.mulVec, ne_eq, V3.mk.injEq]; norm_num

end rot

/-- non-vacuity of `C20_std_step` / `C20_atomic_move`: the extreme draw `u = 0` attains `−s/2`;
    a two-atom sample on four atoms moves exactly atoms 1 and 3. -/
example : stdPerturbation (0 : ℚ) 3 = -(3 / 2) ∧
    atomicPerturb (1 : ℚ) [3, 1] [(0, 1/2, 3/4), (1/4, 0, 1/2)] [0, 0, 0, 1, 1, 1, 2, 2, 2, 3, 3, 3] =
      [0, 0, 0, 3/4, 1/2, 1, 2, 2, 2, 5/2, 3, 13/4] := by
  constructor
  · norm_num [stdPerturbation, half]
  · decide +kernel

end TopSearch.Props.C20
