/-
  State carried between calls.  `Gen/Carried.lean` is regenerated on every run by
  `harness/translate/carried.py`: the read-before-write findings, shared class attributes, mutable defaults
  and module-level state found in the current source that are NOT on record as harmless.  The first theorem
  is the obligation (none), the others say what that buys: a call on a used object is the call on a fresh
  one, for every history of earlier calls.
-/
import TopSearch.Model.State
import TopSearch.Gen.Carried

namespace TopSearch.Props.StateCarry
open TopSearch.State

/-- Bridge (tie #1): the current source carries no state between calls beyond what is on record -/
theorem no_unrecorded_carried_state : Gen.Carried.unrecorded = [] := by decide

variable {Mut In Out : Type}

/-- written-before-read: the result of a call does not depend on what earlier calls left behind -/
theorem call_independent_of_history (e : Entry Mut In Out) (h : e.Fresh) (m₁ m₂ : Mut) (i : In) :
    e.call m₁ i = e.call m₂ i := by
  unfold Entry.call
  rw [h m₁ m₂ i]

/-- "a second search on the same object": the results of any sequence of calls on one object are the
    results of the same calls made each on a fresh object `m₀` — for every sequence, of every length -/
theorem calls_like_fresh (e : Entry Mut In Out) (h : e.Fresh) (m₀ m : Mut) (is : List In) :
    (e.calls m is).1 = is.map (fun i => (e.call m₀ i).1) := by
  induction is generalizing m with
  | nil => rfl
  | cons i is ih =>
    simp only [Entry.calls, List.map_cons]
    rw [ih, call_independent_of_history e h m m₀ i]

/-- and the converse direction of the premise matters: an entry point that reads an attribute before it
    writes it can answer differently on a used object (a counter-model, so that `Fresh` is not vacuous) -/
theorem stale_read_shows : ∃ (e : Entry Nat Unit Nat), ¬ e.Fresh ∧ e.call 0 () ≠ e.call 1 () := by
  refine ⟨⟨fun m _ => m, fun m _ => (m, m + 1)⟩, ?_, ?_⟩
  · intro h
    have := h 0 1 ()
    simp at this
  · simp [Entry.call]

/-- premises satisfiable: an entry point that resets its counter is `Fresh` -/
example : (⟨fun _ _ => 0, fun m _ => (m, m + 1)⟩ : Entry Nat Unit Nat).Fresh := fun _ _ _ => rfl

end TopSearch.Props.StateCarry
