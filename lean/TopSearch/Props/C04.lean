/-
  C04 — a reported transition state is converged, in the box and consistently labelled.
  Property theorems only (helpers live in Lemmas/Hef.lean).
-/
import TopSearch.Lemmas.Hef
import TopSearch.Gen.Hef

set_option linter.unusedSectionVars false
set_option linter.unusedSimpArgs false
set_option linter.unusedVariables false

namespace TopSearch.Props.C04
open TopSearch TopSearch.Hef
variable {α : Type} [Field α] [LinearOrder α] [IsStrictOrderedRing α]

/-! ### bridges (tie #1): what the translator read from the current source -/

/-- the bound masks of `test_convergence` and `check_valid_eigenvector` are reduced per
    coordinate (`axis=1`) -/
theorem C04_bridge_axes : Gen.Hef.cfg.convAxis = 1 ∧ Gen.Hef.cfg.validAxis = 1 := by decide

/-- `np.max(np.abs(grad)) < ts_conv_crit`, `eigenvalue == 0.0`, `eig_steps < 5`, and
    `take_uphill_step` ends with `move_to_bounds()` -/
theorem C04_bridge_operators :
    Gen.Hef.cfg.convCmp = .lt ∧ Gen.Hef.cfg.eigenvalueCmp = .eq ∧
    Gen.Hef.cfg.subspaceMaxEigSteps = 5 ∧ Gen.Hef.cfg.stepClips = true := by decide

/-- the push-off acceptance test `ts_energy > current_energy and np.max(grad) > 5.0*tol`, the
    10 increments, the fallback 20, `/10.0`, the local-box fraction 0.02 and the 50 descent loops -/
theorem C04_bridge_pushoff :
    Gen.Hef.cfg.pushEnergyCmp = .gt ∧ Gen.Hef.cfg.pushGradCmp = .gt ∧
    Gen.Hef.cfg.pushGradFactor = 5 ∧ Gen.Hef.cfg.pushIncrements = 10 ∧
    Gen.Hef.cfg.pushFallback = 20 ∧ Gen.Hef.cfg.pushDivisor = 10 ∧
    Gen.Hef.cfg.localFracNum = 1 ∧ Gen.Hef.cfg.localFracDen = 50 ∧ Gen.Hef.cfg.sdLoops = 50 := by
  decide

/-- every refusal of `check_valid_eigenvector` stores a reason, in this order -/
theorem C04_bridge_reasons :
    Gen.Hef.validReasons = [Reason.eigenvector.str, Reason.eigenvalue.str, Reason.bounds.str] := by
  rfl

/-! ### the convergence test -/

/-- **Convergence test, any dimension `d ≥ 1`, any pinning pattern.**  With the masks reduced
    per coordinate (`axis = 1`) and tolerance `tol > 0`, `test_convergence` answers `True`
    exactly when `|gᵢ| < tol` in every coordinate that is pinned at neither bound — whatever the
    gradient is in the pinned coordinates. -/
theorem C04_convergence_iff (g : List α) (lo up : List Bool) (tol : α) (hd : g ≠ [])
    (hlo : lo.length = g.length) (hup : up.length = g.length) (htol : 0 < tol) :
    ∃ b, testConvergence 1 .lt g lo up tol = .ok b ∧
      (b = true ↔ ∀ i (hg : i < g.length) (hl : i < lo.length) (hu : i < up.length),
          ¬(lo[i] = true ∨ up[i] = true) → |g[i]| < tol) := by
  obtain ⟨b, hb, hiff⟩ := testConvergence_axis1 g lo up tol hd hlo hup
  refine ⟨b, hb, hiff.trans ?_⟩
  rw [List.forall_mem_iff_forall_getElem]
  have hlen : ((maskedGrad g lo up).map absV).length = g.length := by
    simp [maskedGrad, hlo, hup]
  constructor
  · intro h i hg hl hu hfree
    have := h i (by omega)
    simp only [maskedGrad, List.getElem_map, List.getElem_zipWith, absV_eq] at this
    have hm : (lo[i] || up[i]) = false := by
      cases h1 : lo[i] <;> cases h2 : up[i] <;> simp_all
    simpa [hm] using this
  · intro h i hi
    have hg : i < g.length := by omega
    simp only [maskedGrad, List.getElem_map, List.getElem_zipWith, absV_eq]
    by_cases hm : (lo[i]'(by omega) || up[i]'(by omega)) = true
    · simp [hm, htol]
    · have hm' : (lo[i]'(by omega) || up[i]'(by omega)) = false := by simpa using hm
      simp only [hm', Bool.false_eq_true, if_false]
      apply h i hg (by omega) (by omega)
      intro hc
      rcases hc with hc | hc <;> simp [hc] at hm'

/-- the same statement about the axis and operator the translator read from the source -/
theorem C04_convergence_iff_gen (g : List α) (lo up : List Bool) (tol : α) (hd : g ≠ [])
    (hlo : lo.length = g.length) (hup : up.length = g.length) (htol : 0 < tol) :
    ∃ b, testConvergence Gen.Hef.cfg.convAxis Gen.Hef.cfg.convCmp g lo up tol = .ok b ∧
      (b = true ↔ ∀ i (hg : i < g.length) (hl : i < lo.length) (hu : i < up.length),
          ¬(lo[i] = true ∨ up[i] = true) → |g[i]| < tol) := by
  rw [C04_bridge_axes.1, C04_bridge_operators.1]
  exact C04_convergence_iff g lo up tol hd hlo hup htol

/-- dimension 0 is outside the property (dimensions 1–6): `np.max` of an empty array raises -/
theorem C04_convergence_dim0 (tol : α) :
    testConvergence 1 .lt ([] : List α) [] [] tol = .error "ValueError" ∧
    testConvergence 0 .lt ([] : List α) [] [] tol = .error "ValueError" := by
  constructor <;> rfl

/-- non-vacuity: 3-D, coordinate 2 pinned with gradient 5 there, tolerance 1/1000: converged -/
example : testConvergence 1 .lt ([0, 0, 5] : List ℚ) [false, false, true] [false, false, false]
    (1 / 1000) = .ok true := by decide +kernel

/-! ### validity of the eigenvector -/

/-- every coordinate sits at one of its bounds -/
def AllPinned (lo up : List Bool) : Prop :=
  ∀ i (hl : i < lo.length) (hu : i < up.length), lo[i] = true ∨ up[i] = true

theorem allPinned_axis1 (lo up : List Bool) (hlen : lo.length = up.length) :
    ∃ b, allPinned 1 lo up = some b ∧ (b = true ↔ AllPinned lo up) := by
  refine ⟨(List.zipWith (fun a b => a || b) lo up).all id, by simp [allPinned, anyAxis_one], ?_⟩
  simp only [List.all_eq_true, id]
  rw [List.forall_mem_iff_forall_getElem]
  unfold AllPinned
  constructor
  · intro h i hl hu
    have := h i (by simp; omega)
    simpa [List.getElem_zipWith] using this
  · intro h i hi
    have hi' : i < lo.length ∧ i < up.length := by simpa using hi
    simpa [List.getElem_zipWith] using h i hi'.1 hi'.2

/-- **Validity, any dimension.**  `check_valid_eigenvector` (masks per coordinate) refuses
    iff the vector is zero or flagged NaN, or the eigenvalue is 0, or *every* coordinate is
    pinned; in each case a reason is stored (in the code's order), and on acceptance none is. -/
theorem C04_valid_iff (v : List α) (nan : Bool) (ev : α) (lo up : List Bool)
    (hlen : lo.length = up.length) :
    ∃ r, checkValidEigenvector 1 .eq v nan ev lo up = .ok r ∧
      (r ≠ none ↔ ((∀ x ∈ v, x = 0) ∨ nan = true) ∨ ev = 0 ∨ AllPinned lo up) ∧
      (((∀ x ∈ v, x = 0) ∨ nan = true) → r = some .eigenvector) ∧
      (¬((∀ x ∈ v, x = 0) ∨ nan = true) → ev = 0 → r = some .eigenvalue) ∧
      (¬((∀ x ∈ v, x = 0) ∨ nan = true) → ev ≠ 0 → AllPinned lo up → r = some .bounds) := by
  obtain ⟨b, hb, hbiff⟩ := allPinned_axis1 lo up hlen
  unfold checkValidEigenvector
  have hz : ((!(v.any (fun x => decide (x ≠ 0)))) || nan) = true ↔ ((∀ x ∈ v, x = 0) ∨ nan = true) := by
    simp [List.any_eq_true]
  by_cases h1 : ((!(v.any (fun x => decide (x ≠ 0)))) || nan) = true
  · rw [if_pos h1]
    have h1' := hz.1 h1
    exact ⟨_, rfl, by simp [h1'], fun _ => rfl, fun h => absurd h1' h, fun h => absurd h1' h⟩
  · rw [if_neg h1]
    have h1' : ¬((∀ x ∈ v, x = 0) ∨ nan = true) := fun h => h1 (hz.2 h)
    by_cases h2 : ev = 0
    · have : Cmp.eval .eq ev (0 : α) = true := by simp [Cmp.eval, h2]
      rw [if_pos this]
      exact ⟨_, rfl, by simp [h2], fun h => absurd h h1', fun _ _ => rfl, fun _ h => absurd h2 h⟩
    · have : ¬ Cmp.eval .eq ev (0 : α) = true := by simp [Cmp.eval, h2]
      rw [if_neg this, hb]
      cases b with
      | true =>
        have hp := hbiff.1 rfl
        exact ⟨_, rfl, by simp [hp], fun h => absurd h h1', fun _ h => absurd h h2, fun _ _ _ => rfl⟩
      | false =>
        have hp : ¬ AllPinned lo up := fun h => by simpa using hbiff.2 h
        exact ⟨_, rfl, by simp [h1', h2, hp], fun h => absurd h h1', fun _ h => absurd h h2,
          fun _ _ h => absurd h hp⟩

/-- a point pinned in every coordinate is refused, with a reason -/
theorem C04_all_pinned_refused (v : List α) (nan : Bool) (ev : α) (lo up : List Bool)
    (hlen : lo.length = up.length) (hp : AllPinned lo up) :
    ∃ r, checkValidEigenvector 1 .eq v nan ev lo up = .ok (some r) := by
  obtain ⟨r, hr, hiff, _⟩ := C04_valid_iff v nan ev lo up hlen
  have : r ≠ none := hiff.2 (Or.inr (Or.inr hp))
  cases r with
  | none => exact absurd rfl this
  | some r => exact ⟨r, hr⟩

/-- the same statement about the axis and operator read from the source -/
theorem C04_valid_iff_gen (v : List α) (nan : Bool) (ev : α) (lo up : List Bool)
    (hlen : lo.length = up.length) :
    ∃ r, checkValidEigenvector Gen.Hef.cfg.validAxis Gen.Hef.cfg.eigenvalueCmp v nan ev lo up = .ok r ∧
      (r ≠ none ↔ ((∀ x ∈ v, x = 0) ∨ nan = true) ∨ ev = 0 ∨ AllPinned lo up) := by
  rw [C04_bridge_axes.2, C04_bridge_operators.2.1]
  obtain ⟨r, hr, hiff, _⟩ := C04_valid_iff v nan ev lo up hlen
  exact ⟨r, hr, hiff⟩

/-- non-vacuity: one-low / one-high / one-free is accepted, all-lower is refused as `bounds` -/
example : checkValidEigenvector 1 .eq ([1, 0, 0] : List ℚ) false (-1) [true, false, false]
    [false, true, false] = .ok none := by decide +kernel
example : checkValidEigenvector 1 .eq ([1, 0, 0] : List ℚ) false (-1) [true, true, true]
    [false, false, false] = .ok (some .bounds) := by decide +kernel

/-! ### negation witnesses for the original reduction axis (DESIGN §6 row 4)

With `axis = 0` the two *columns* are reduced: the index set is `{0 | some lower bound active} ∪
{1 | some upper bound active}` and gradient components 0/1 are zeroed. -/

/-- 3-D, coordinate 2 pinned, gradient (0,0,5): not converged although every free coordinate is flat -/
theorem C04_axis0_witness_pinned_gradient :
    testConvergence 0 .lt ([0, 0, 5] : List ℚ) [false, false, true] [false, false, false]
      (1 / 1000) = .ok false := by decide +kernel

/-- 3-D, coordinate 2 pinned, gradient (5,0,0): converged although free coordinate 0 has gradient 5 -/
theorem C04_axis0_witness_free_gradient :
    testConvergence 0 .lt ([5, 0, 0] : List ℚ) [false, false, true] [false, false, false]
      (1 / 1000) = .ok true := by decide +kernel

/-- a point at all three lower bounds is accepted -/
theorem C04_axis0_witness_all_lower_accepted :
    checkValidEigenvector 0 .eq ([1, 0, 0] : List ℚ) false (-1) [true, true, true]
      [false, false, false] = .ok none := by decide +kernel

/-- one-low / one-high / one-free is refused as "at all bounds" -/
theorem C04_axis0_witness_mixed_refused :
    checkValidEigenvector 0 .eq ([1, 0, 0] : List ℚ) false (-1) [true, false, false]
      [false, true, false] = .ok (some .bounds) := by decide +kernel

/-! ### staying in the box -/

/-- `move_to_bounds` puts any point into the box (`lo ≤ up` coordinate-wise) -/
theorem C04_clip_in_box (x lo up : List α) (hl : x.length = lo.length) (hu : x.length = up.length)
    (hbox : ∀ i (h2 : i < lo.length) (h3 : i < up.length), lo[i] ≤ up[i]) :
    InBox (clip x lo up) lo up := clip_inBox x lo up hl hu hbox

/-- the position after `take_uphill_step` lies in the box, whatever the step length, direction,
    eigenvalue and gradient are — because the step ends with `move_to_bounds()` -/
theorem C04_uphill_step_in_box (posStep maxStep minStep : α) (x v g lo up : List α) (ev s : α)
    (hv : v.length = x.length) (hl : x.length = lo.length) (hu : x.length = up.length)
    (hbox : ∀ i (h2 : i < lo.length) (h3 : i < up.length), lo[i] ≤ up[i]) :
    InBox (takeUphillStep Gen.Hef.cfg.stepClips posStep maxStep minStep x v g lo up ev s) lo up := by
  rw [C04_bridge_operators.2.2.2]
  simp only [takeUphillStep, if_true]
  apply clip_inBox _ _ _ _ _ hbox
  · simp [axpy, hv, hl]
  · simp [axpy, hv, hu]

/-- the local box of `get_local_bounds` is a non-empty sub-box of the global box that contains
    the point when the point is in the box -/
theorem C04_local_bounds_in_box (frac : α) (x lo up : List α) (hfrac : 0 ≤ frac)
    (hl : x.length = lo.length) (hu : x.length = up.length)
    (hbox : ∀ i (h2 : i < lo.length) (h3 : i < up.length), lo[i] ≤ up[i]) :
    (getLocalBounds frac x lo up).length = x.length ∧
    ∀ i (h : i < (getLocalBounds frac x lo up).length) (h1 : i < x.length) (h2 : i < lo.length)
      (h3 : i < up.length),
      lo[i] ≤ ((getLocalBounds frac x lo up)[i]).1 ∧
      ((getLocalBounds frac x lo up)[i]).1 ≤ ((getLocalBounds frac x lo up)[i]).2 ∧
      ((getLocalBounds frac x lo up)[i]).2 ≤ up[i] ∧
      (lo[i] ≤ x[i] → x[i] ≤ up[i] →
        ((getLocalBounds frac x lo up)[i]).1 ≤ x[i] ∧ x[i] ≤ ((getLocalBounds frac x lo up)[i]).2) := by
  refine ⟨by simp [getLocalBounds, length_zip3, ← hl, ← hu], ?_⟩
  intro i h h1 h2 h3
  have hb := hbox i h2 h3
  have hs : 0 ≤ (up[i] - lo[i]) * frac := mul_nonneg (sub_nonneg.2 hb) hfrac
  have e : (getLocalBounds frac x lo up)[i] =
      (clip1 (x[i] - (up[i] - lo[i]) * frac) lo[i] up[i], clip1 (x[i] + (up[i] - lo[i]) * frac) lo[i] up[i]) := by
    unfold getLocalBounds; exact getElem_zip3 _ _ _ _ _ _ h1 h2 h3
  rw [e]
  refine ⟨(clip1_mem hb).1, clip1_mono (by linarith), (clip1_mem hb).2, ?_⟩
  intro hx1 hx2
  constructor
  · calc clip1 (x[i] - (up[i] - lo[i]) * frac) lo[i] up[i] ≤ clip1 x[i] lo[i] up[i] := clip1_mono (by linarith)
      _ = x[i] := clip1_of_mem hx1 hx2
  · calc x[i] = clip1 x[i] lo[i] up[i] := (clip1_of_mem hx1 hx2).symm
      _ ≤ _ := clip1_mono (by linarith)

/-! ### push-off -/

/-- a push-off increment is accepted only if the energy drops strictly below the transition
    state's; otherwise the fallback index is used and the failure is flagged -/
theorem C04_pushoff_accept (cfg : Cfg) (hc : cfg.pushEnergyCmp = .gt) (sdTol eTs : α)
    (probe : Nat → α × List α) (i : Nat) (failed : Bool)
    (h : findPushoffDir cfg sdTol eTs probe = (i, failed)) :
    (failed = false → i < cfg.pushIncrements ∧ (probe i).1 < eTs) ∧
    (failed = true → i = cfg.pushFallback) := by
  unfold findPushoffDir at h
  split at h
  · rename_i j hj
    have hacc := List.find?_some hj
    have hmem := List.mem_of_find?_eq_some hj
    simp only [Prod.mk.injEq] at h
    obtain ⟨rfl, rfl⟩ := h
    refine ⟨fun _ => ⟨by simpa using hmem, ?_⟩, fun h => by simp at h⟩
    simp only [pushAccept, hc, Cmp.eval, Bool.and_eq_true, decide_eq_true_eq] at hacc
    exact hacc.1
  · simp only [Prod.mk.injEq] at h
    obtain ⟨rfl, rfl⟩ := h
    exact ⟨fun h => by simp at h, fun _ => rfl⟩

/-- increment `i = 0` is no displacement at all: a deterministic potential returns the
    transition state's own energy there, so it is never the accepted increment -/
theorem C04_pushoff_zero_never_accepted (cfg : Cfg) (hc : cfg.pushEnergyCmp = .gt) (sdTol eTs : α)
    (probe : Nat → α × List α) (h0 : (probe 0).1 = eTs) :
    findPushoffDir cfg sdTol eTs probe ≠ (0, false) := by
  intro h
  have := (C04_pushoff_accept cfg hc sdTol eTs probe 0 false h).1 rfl
  rw [h0] at this
  exact lt_irrefl _ this.2

/-! ### the control skeleton of `run` -/

/-- `finish` read backwards from a success -/
theorem finish_success (cfg : Cfg) (env : Env α) (x : List α) (o : IterOra α) (fl : Option Reason)
    (tr : List Call) (a : List α) (b : α) (c : List α) (d : α) (e : List α) (f' : α) (v : List α)
    (flag : Option Reason) (h : (finish cfg env x o fl tr).out = .success a b c d e f' v flag) :
    ∃ ev nit, o.eig2 = .ok v ev nit ∧ a = x ∧ b = o.eTs ∧ o.descP = some (c, d) ∧
      o.descM = some (e, f') ∧
      flag = (if (findPushoff cfg env.sdTol env.pushoff o.ePush x v env.lo env.up
                (probeFn o.probeP) (probeFn o.probeM)).failed then some Reason.pushoff else fl) ∧
      (finish cfg env x o fl tr).wit =
        some ⟨x, activeLower x env.lo, activeUpper x env.up, o.gradConv,
          findPushoff cfg env.sdTol env.pushoff o.ePush x v env.lo env.up
            (probeFn o.probeP) (probeFn o.probeM)⟩ := by
  unfold finish at h ⊢
  cases he : o.eig2 with
  | refused r => simp [he] at h
  | nanDirection n => simp [he] at h
  | ok v' ev nit =>
    simp only [he] at h ⊢
    cases hp : o.descP with
    | none => simp [hp] at h
    | some pp =>
      cases hm : o.descM with
      | none => simp [hp, hm] at h
      | some mm =>
        obtain ⟨xP, eP⟩ := pp
        obtain ⟨xM, eM⟩ := mm
        simp only [hp, hm, Outcome.success.injEq] at h ⊢
        obtain ⟨rfl, rfl, rfl, rfl, rfl, rfl, rfl, rfl⟩ := h
        exact ⟨ev, nit, rfl, rfl, rfl, rfl, rfl, rfl, rfl⟩

/-- a failure produced by `finish` carries a reason and no data -/
theorem finish_failure (cfg : Cfg) (env : Env α) (x : List α) (o : IterOra α) (fl : Option Reason)
    (tr : List Call) (reason : Option Reason)
    (h : (finish cfg env x o fl tr).out = .failure reason) :
    reason ≠ none ∧ (finish cfg env x o fl tr).wit = none := by
  unfold finish at h ⊢
  cases he : o.eig2 with
  | refused r => simp only [he, Outcome.failure.injEq] at h ⊢; subst h; simp
  | nanDirection n => simp [he] at h
  | ok v' ev nit =>
    simp only [he] at h ⊢
    cases hp : o.descP with
    | none =>
      simp only [hp, Outcome.failure.injEq] at h ⊢
      subst h
      refine ⟨?_, trivial⟩
      split_ifs with h1 h2 <;> simp_all
    | some pp =>
      cases hm : o.descM with
      | none =>
        simp only [hp, hm, Outcome.failure.injEq] at h ⊢
        subst h
        refine ⟨?_, trivial⟩
        split_ifs with h1 h2 <;> simp_all
      | some mm => simp [hp, hm] at h

/-- **Every failure return of `run` carries a reason and no data**, for every number of steps
    and every sequence of oracle answers (induction on the step count).  Path by path: a refused
    eigenvector carries the reason `check_valid_eigenvector` stored (`C04_valid_iff`: always
    one); exhausted steps → `steps`; a `None` descent → `SDpaths` unless `pushoff` is already
    flagged. -/
theorem C04_failure_has_reason (cfg : Cfg) (env : Env α) (n : Nat) (x : List α)
    (fl : Option Reason) (tr : List Call) (os : List (IterOra α)) (r : RunRes α)
    (h : runLoop cfg env n x fl tr os = some r) (reason : Option Reason)
    (hf : r.out = .failure reason) : reason ≠ none ∧ r.wit = none := by
  induction n generalizing x tr os with
  | zero =>
    simp only [runLoop, Option.some.injEq] at h
    subst h
    simp only [Outcome.failure.injEq] at hf
    subst hf
    simp
  | succ n ih =>
    cases os with
    | nil => simp [runLoop] at h
    | cons o os =>
      unfold runLoop at h
      cases he : o.eig1 with
      | refused r' =>
        simp only [he, Option.some.injEq] at h
        subst h
        simp only [Outcome.failure.injEq] at hf
        subst hf
        simp
      | nanDirection k =>
        simp only [he, Option.some.injEq] at h
        subst h
        simp at hf
      | ok v ev nit =>
        simp only [he] at h
        split at h
        · simp only [Option.some.injEq] at h
          subst h
          simp at hf
        · exact ih _ _ _ h
        · simp only [Option.some.injEq] at h
          subst h
          exact finish_failure cfg env _ o fl _ reason hf

/-- the pass got past its first eigen-solver call (so the uphill step was taken and the
    convergence test was evaluated) -/
def StepTaken (o : IterOra α) : Prop := ∃ v ev nit, o.eig1 = .ok v ev nit

/-- a success of the loop comes from `finish` at a position that passed the convergence test
    against the active-bound masks of that very position -/
theorem runLoop_success (cfg : Cfg) (env : Env α) (n : Nat) (x : List α)
    (fl : Option Reason) (tr : List Call) (os : List (IterOra α)) (r : RunRes α)
    (h : runLoop cfg env n x fl tr os = some r)
    (a : List α) (b : α) (c : List α) (d : α) (e : List α) (f' : α) (v : List α)
    (flag : Option Reason) (hs : r.out = .success a b c d e f' v flag) :
    ∃ o ∈ os, ∃ tr', r = finish cfg env (o.tested cfg) o fl tr' ∧ StepTaken o ∧
      testConvergence cfg.convAxis cfg.convCmp o.gradConv (activeLower (o.tested cfg) env.lo)
        (activeUpper (o.tested cfg) env.up) env.tol = .ok true := by
  induction n generalizing x tr os with
  | zero =>
    simp only [runLoop, Option.some.injEq] at h
    subst h
    simp at hs
  | succ n ih =>
    cases os with
    | nil => simp [runLoop] at h
    | cons o os =>
      unfold runLoop at h
      cases he : o.eig1 with
      | refused r' =>
        simp only [he, Option.some.injEq] at h
        subst h
        simp at hs
      | nanDirection k =>
        simp only [he, Option.some.injEq] at h
        subst h
        simp at hs
      | ok v' ev nit =>
        simp only [he] at h
        split at h
        · simp only [Option.some.injEq] at h
          subst h
          simp at hs
        · obtain ⟨o', ho', tr', h1, h2⟩ := ih _ _ _ h
          exact ⟨o', List.mem_cons_of_mem _ ho', tr', h1, h2⟩
        · rename_i hconv
          simp only [Option.some.injEq] at h
          exact ⟨o, List.mem_cons_self, _, h.symm, ⟨v', ev, nit, he⟩, hconv⟩

/-- on success `self.failure` is `None` or `'pushoff'`, and it is `'pushoff'` exactly when one
    of the two push-off scans fell back -/
theorem C04_success_flag (cfg : Cfg) (env : Env α) (n : Nat) (x0 : List α) (os : List (IterOra α))
    (r : RunRes α) (h : run cfg env n x0 os = some r)
    (a : List α) (b : α) (c : List α) (d : α) (e : List α) (f' : α) (v : List α)
    (flag : Option Reason) (hs : r.out = .success a b c d e f' v flag) :
    (flag = none ∨ flag = some .pushoff) ∧
    ∃ w, r.wit = some w ∧ (flag = some .pushoff ↔ w.push.failed = true) := by
  obtain ⟨o, _, tr', rfl, _, _⟩ := runLoop_success cfg env n x0 none [] os r h a b c d e f' v flag hs
  obtain ⟨ev, nit, _, _, _, _, _, hflag, hw⟩ := finish_success cfg env _ o none tr' a b c d e f' v flag hs
  refine ⟨?_, _, hw, ?_⟩
  · rw [hflag]; split_ifs <;> simp
  · rw [hflag]; split_ifs with hp <;> simp [hp]

/-- the oracle contracts under which the post-condition of `run` is proved; `f` is the surface,
    `gradF` its coded gradient -/
structure Contracts (cfg : Cfg) (env : Env α) (f : List α → α) (gradF : List α → List α)
    (os : List (IterOra α)) : Prop where
  /-- the box is a box -/
  box : env.lo.length = env.up.length ∧
    ∀ i (h2 : i < env.lo.length) (h3 : i < env.up.length), env.lo[i] ≤ env.up[i]
  /-- in every pass that takes its step, the tested position lies in the box:
      `take_uphill_step` ends in the box (`C04_uphill_step_in_box`) and L-BFGS-B stays inside
      the local bounds ⊆ box (`C04_local_bounds_in_box`, LBFGSB in-box) -/
  inBox : ∀ o ∈ os, StepTaken o → InBox (o.tested cfg) env.lo env.up
  /-- the gradient handed to the convergence test is the gradient at the tested position -/
  grad : ∀ o ∈ os, StepTaken o → o.gradConv = gradF (o.tested cfg)
  /-- the potential is a function of the position: both energy evaluations at the transition
      state, and the probes at the push-off points (passes that reach the push-off) -/
  energy : ∀ o ∈ os, ∀ v ev nit, o.eig2 = .ok v ev nit →
    o.eTs = f (o.tested cfg) ∧ o.ePush = f (o.tested cfg)
  probes : ∀ o ∈ os, ∀ v ev nit, o.eig2 = .ok v ev nit → ∀ i,
    (probeFn o.probeP i).1 =
      f (pushPoint (o.tested cfg) v env.lo env.up (env.pushoff / (cfg.pushDivisor : α)) i) ∧
    (probeFn o.probeM i).1 =
      f (pushPoint (o.tested cfg) (vneg v) env.lo env.up (env.pushoff / (cfg.pushDivisor : α)) i)
  /-- `steepest_descent_paths` (a chain of L-BFGS-B calls inside local boxes): result in the
      box, returned energy = `f` at the result, never above the start -/
  descent : ∀ o ∈ os, ∀ v ev nit, o.eig2 = .ok v ev nit →
    let p := findPushoff cfg env.sdTol env.pushoff o.ePush (o.tested cfg) v env.lo env.up
              (probeFn o.probeP) (probeFn o.probeM)
    (∀ xP eP, o.descP = some (xP, eP) → InBox xP env.lo env.up ∧ eP = f xP ∧ f xP ≤ f p.plus) ∧
    (∀ xM eM, o.descM = some (xM, eM) → InBox xM env.lo env.up ∧ eM = f xM ∧ f xM ≤ f p.minus)

/-- **Post-condition of `run`**, for every number of steps and every sequence of oracle answers
    satisfying the contracts: on success
    * the returned position lies in the box and is the one that passed the convergence test
      against *its own* active-bound masks, so the gradient of the surface there is below the
      tolerance in every coordinate that is not pinned (dimension ≥ 1, `tol > 0`);
    * `e_ts = f x_ts`, `e₊ = f x₊`, `e₋ = f x₋`, both minima lie in the box;
    * unless `failure = 'pushoff'`, both minima are strictly lower than the transition state. -/
theorem C04_run_post (env : Env α) (f : List α → α) (gradF : List α → List α) (n : Nat)
    (x0 : List α) (os : List (IterOra α)) (r : RunRes α)
    (hc : Contracts Gen.Hef.cfg env f gradF os) (htol : 0 < env.tol)
    (h : run Gen.Hef.cfg env n x0 os = some r)
    (xTs : List α) (eTs : α) (xP : List α) (eP : α) (xM : List α) (eM : α) (v : List α)
    (flag : Option Reason) (hs : r.out = .success xTs eTs xP eP xM eM v flag) :
    InBox xTs env.lo env.up ∧ InBox xP env.lo env.up ∧ InBox xM env.lo env.up ∧
    eTs = f xTs ∧ eP = f xP ∧ eM = f xM ∧
    (xTs ≠ [] → ∀ i (h1 : i < xTs.length) (h2 : i < env.lo.length) (h3 : i < env.up.length)
        (h4 : i < (gradF xTs).length), (gradF xTs).length = xTs.length →
        ¬(xTs[i] ≤ env.lo[i] ∨ env.up[i] ≤ xTs[i]) → |(gradF xTs)[i]| < env.tol) ∧
    (flag ≠ some .pushoff → eP < eTs ∧ eM < eTs) := by
  obtain ⟨o, ho, tr', rfl, hst, hconv⟩ :=
    runLoop_success Gen.Hef.cfg env n x0 none [] os r h xTs eTs xP eP xM eM v flag hs
  obtain ⟨ev, nit, he2, rfl, rfl, hdP, hdM, hflag, hw⟩ :=
    finish_success Gen.Hef.cfg env _ o none tr' _ _ _ _ _ _ _ _ hs
  have hbox : InBox (o.tested Gen.Hef.cfg) env.lo env.up := hc.inBox o ho hst
  obtain ⟨hP, hM⟩ := hc.descent o ho v ev nit he2
  obtain ⟨hPbox, hPe, hPle⟩ := hP xP eP hdP
  obtain ⟨hMbox, hMe, hMle⟩ := hM xM eM hdM
  refine ⟨hbox, hPbox, hMbox, (hc.energy o ho v ev nit he2).1, hPe, hMe, ?_, ?_⟩
  · -- convergence against its own mask
    intro hne i h1 h2 h3 h4 hlen hfree
    set x := o.tested Gen.Hef.cfg with hx
    have hg : o.gradConv = gradF x := hc.grad o ho hst
    rw [hg] at hconv
    have hgne : gradF x ≠ [] := by
      intro h0; rw [h0] at hlen; exact hne (List.eq_nil_of_length_eq_zero hlen.symm)
    have hlo : (activeLower x env.lo).length = (gradF x).length := by
      simp [activeLower, hlen, ← hbox.1]
    have hup : (activeUpper x env.up).length = (gradF x).length := by
      simp [activeUpper, hlen, ← hbox.2.1]
    obtain ⟨b, hb, hiff⟩ := C04_convergence_iff_gen (gradF x) _ _ env.tol hgne hlo hup htol
    rw [hb] at hconv
    have hbt : b = true := by simpa using hconv
    have := hiff.1 hbt i h4 (by omega) (by omega)
    apply this
    simp only [activeLower, activeUpper, List.getElem_zipWith, decide_eq_true_eq]
    exact hfree
  · -- energies: push-off accepted only if the energy drops, descent is monotone
    intro hnf
    have hfailed : (findPushoff Gen.Hef.cfg env.sdTol env.pushoff o.ePush (o.tested Gen.Hef.cfg) v
        env.lo env.up (probeFn o.probeP) (probeFn o.probeM)).failed = false := by
      by_contra hc'
      have : (findPushoff Gen.Hef.cfg env.sdTol env.pushoff o.ePush (o.tested Gen.Hef.cfg) v
        env.lo env.up (probeFn o.probeP) (probeFn o.probeM)).failed = true := by simpa using hc'
      rw [this] at hflag
      exact hnf (by simpa using hflag)
    simp only [findPushoff, Bool.or_eq_false_iff] at hfailed
    have hgt := C04_bridge_pushoff.1
    obtain ⟨hpr1, hpr2⟩ := hc.probes o ho v ev nit he2
      (findPushoffDir Gen.Hef.cfg env.sdTol o.ePush (probeFn o.probeP)).1
    obtain ⟨hpr3, hpr4⟩ := hc.probes o ho v ev nit he2
      (findPushoffDir Gen.Hef.cfg env.sdTol o.ePush (probeFn o.probeM)).1
    have aP := (C04_pushoff_accept Gen.Hef.cfg hgt env.sdTol o.ePush (probeFn o.probeP) _ _ rfl).1 hfailed.1
    have aM := (C04_pushoff_accept Gen.Hef.cfg hgt env.sdTol o.ePush (probeFn o.probeM) _ _ rfl).1 hfailed.2
    have hePush := (hc.energy o ho v ev nit he2).2
    have heTs := (hc.energy o ho v ev nit he2).1
    simp only [findPushoff] at hPle hMle
    constructor
    · calc eP = f xP := hPe
        _ ≤ _ := hPle
        _ = (probeFn o.probeP _).1 := hpr1.symm
        _ < o.ePush := aP.2
        _ = o.eTs := by rw [hePush, heTs]
    · calc eM = f xM := hMe
        _ ≤ _ := hMle
        _ = (probeFn o.probeM _).1 := hpr4.symm
        _ < o.ePush := aM.2
        _ = o.eTs := by rw [hePush, heTs]

/-- non-vacuity of the skeleton: one pass, converged at an interior point, both push-offs
    accepted at increment 1, success without flag -/
example :
    (run Cfg.current (⟨[0, 0], [1, 1], 1 / 1000, 1 / 1000000, 5 / 4⟩ : Env ℚ) 3 [1 / 2, 1 / 2]
      [{ eig1 := .ok [1, 0] (-1) 3, stepped := [3 / 4, 1 / 2], sub := [1 / 2, 1 / 4],
         gradConv := [0, 0], eig2 := .ok [1, 0] (-1) 0, ePush := 1,
         probeP := [(1, [0, 0]), (1 / 2, [1, 0])], probeM := [(1, [0, 0]), (1 / 2, [1, 0])],
         descP := some ([1, 1 / 4], 0), descM := some ([0, 1 / 4], 0), eTs := 1 }]).map (·.out) =
    some (.success [1 / 2, 1 / 4] 1 [1, 1 / 4] 0 [0, 1 / 4] 0 [1, 0] none) := by decide +kernel

end TopSearch.Props.C04
