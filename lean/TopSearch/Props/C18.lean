/-
  C18 — graph analyses agree with reference graph algorithms.
  Property theorems (helpers about the closure live in Lemmas/Graph.lean).
-/
import TopSearch.Lemmas.Graph
import TopSearch.Gen.Graph
import Mathlib.Tactic.Ring
import Mathlib.Tactic.Linarith
import Mathlib.Tactic.Positivity
import Mathlib.Tactic.FieldSimp
import Mathlib.Algebra.Order.Field.Basic
import Mathlib.Algebra.Order.BigOperators.Group.List
import Mathlib.Algebra.BigOperators.Group.List.Basic
import Mathlib.Algebra.BigOperators.Ring.List

namespace TopSearch.Props.C18
open TopSearch TopSearch.Graph

/-- Bridge (tie #1): the removal test `ts_energy > energy1`, the scan constants 510 / 10 / 530,
    `np.argmin`, the guard `n_minima in (0, 1)` and the clamp test `ts_energy < min_energy`, as
    read from the current source, are the ones the theorems below are stated for. -/
theorem C18_bridge_cfg : Gen.Graph.cfg = stdCfg := by decide

/-- The executable closure is the reflexive-transitive closure of adjacency on nodes `< n`. -/
theorem reach_iff {n : Nat} {r : Nat → Nat → Bool} {i : Nat} (hi : i < n) (j : Nat) :
    reach n r i j = true ↔
      Relation.ReflTransGen (fun a b => a < n ∧ b < n ∧ r a b = true) i j :=
  reach_iff_conn hi j

section order
variable {α : Type} [LinearOrder α]

/-- `np.argmin` as modelled: a global minimum, and the first one. -/
theorem C18_argmin_first (f : Nat → α) (k : Nat) :
    argminUpTo f k ≤ k ∧ (∀ m ≤ k, f (argminUpTo f k) ≤ f m) ∧
      (∀ m < argminUpTo f k, f (argminUpTo f k) < f m) := by
  induction k with
  | zero => simp [argminUpTo]
  | succ k ih =>
    obtain ⟨h1, h2, h3⟩ := ih
    simp only [argminUpTo]
    split
    · rename_i hlt
      refine ⟨le_refl _, ?_, ?_⟩
      · intro m hm
        rcases Nat.lt_or_ge m (k + 1) with h | h
        · exact le_of_lt (lt_of_lt_of_le hlt (h2 m (by omega)))
        · have : m = k + 1 := by omega
          subst this; exact le_refl _
      · intro m hm
        exact lt_of_lt_of_le hlt (h2 m (by omega))
    · rename_i hnlt
      refine ⟨by omega, ?_, h3⟩
      intro m hm
      rcases Nat.lt_or_ge m (k + 1) with h | h
      · exact h2 m (by omega)
      · have : m = k + 1 := by omega
        subst this; exact not_lt.1 hnlt

/-- The set reported as unconnected is exactly the complement (inside `0..n-1`) of the connected
    component of the first global minimum. -/
theorem C18_unconnected (n : Nat) (hn : 0 < n) (energy : Nat → α) (es : List (WEdge α)) (v : Nat) :
    v ∈ unconnected stdCfg n energy es ↔
      v < n ∧ ¬ Conn n (adj es) (argminUpTo energy (n - 1)) v := by
  have hlt : argminUpTo energy (n - 1) < n := by
    have := (C18_argmin_first energy (n - 1)).1; omega
  simp only [unconnected, stdCfg, if_true, List.mem_filter, List.mem_range, Bool.not_eq_true',
    ← reach_iff_conn hlt, Bool.not_eq_true]

/-! ### thresholds -/

theorem removeAbove_eq_filterLE (es : List (WEdge α)) (E : α) :
    removeAbove .gt es E = filterLE es E := by
  unfold removeAbove filterLE
  apply List.filter_congr
  intro x _
  simp only [Cmp.eval]
  by_cases h : x.e ≤ E
  · simp [h, not_lt.2 h]
  · simp [h, not_le.1 h]

theorem removeAbove_filterLE (es : List (WEdge α)) {E s : α} (h : E ≤ s) :
    removeAbove .gt (filterLE es s) E = filterLE es E := by
  rw [removeAbove_eq_filterLE]
  unfold filterLE
  rw [List.filter_filter]
  apply List.filter_congr
  intro x _
  by_cases hx : x.e ≤ E
  · simp [hx, le_trans hx h]
  · simp [hx]

/-- Cumulative removal at descending thresholds = filtering at the current threshold. -/
theorem C18_scan_is_filter (es : List (WEdge α)) (t : Nat → α) (hanti : ∀ k, t (k + 1) ≤ t k)
    (k : Nat) : cumEdges .gt t es k = filterLE es (t k) := by
  induction k with
  | zero => exact removeAbove_eq_filterLE es (t 0)
  | succ k ih => simp only [cumEdges, ih]; exact removeAbove_filterLE es (hanti k)

/-- connected using only transition states of energy `≤ E` -/
def connAt (n : Nat) (es : List (WEdge α)) (E : α) (i j : Nat) : Prop :=
  reach n (adj (filterLE es E)) i j = true

/-- `connAt E` says: there is a path from `i` to `j` all of whose transition states have
    energy `≤ E`.  Hence the least such `E` is the lowest achievable highest transition state. -/
theorem C18_conn_iff_path (n : Nat) (es : List (WEdge α)) (E : α) {i : Nat} (hi : i < n) (j : Nat) :
    connAt n es E i j ↔
      Relation.ReflTransGen (fun a b => a < n ∧ b < n ∧
        ∃ x ∈ es, x.e ≤ E ∧ ((x.u = a ∧ x.v = b) ∨ (x.u = b ∧ x.v = a))) i j := by
  unfold connAt
  rw [reach_iff hi]
  have : (fun a b => a < n ∧ b < n ∧ adj (filterLE es E) a b = true) =
      (fun a b => a < n ∧ b < n ∧
        ∃ x ∈ es, x.e ≤ E ∧ ((x.u = a ∧ x.v = b) ∨ (x.u = b ∧ x.v = a))) := by
    funext a b
    rw [adj_iff]
    simp only [filterLE, List.mem_filter, decide_eq_true_eq, and_assoc]
  rw [this]

theorem adj_filterLE_mono (es : List (WEdge α)) {E E' : α} (h : E ≤ E') (a b : Nat)
    (hab : adj (filterLE es E) a b = true) : adj (filterLE es E') a b = true := by
  rw [adj_iff] at hab ⊢
  obtain ⟨x, hx, hj⟩ := hab
  simp only [filterLE, List.mem_filter, decide_eq_true_eq] at hx ⊢
  exact ⟨x, ⟨hx.1, le_trans hx.2 h⟩, hj⟩

theorem connAt_mono {n : Nat} {es : List (WEdge α)} {E E' : α} (h : E ≤ E') {i j : Nat} (hi : i < n)
    (hc : connAt n es E i j) : connAt n es E' i j := by
  unfold connAt at *
  rw [reach_iff_conn hi] at hc ⊢
  exact hc.mono (adj_filterLE_mono es h)

theorem connAt_all {n : Nat} {es : List (WEdge α)} {E : α} {i j : Nat} (hi : i < n)
    (hc : connAt n es E i j) : reach n (adj es) i j = true := by
  unfold connAt at hc
  rw [reach_iff_conn hi] at hc ⊢
  refine hc.mono ?_
  intro a b hab
  rw [adj_iff] at hab ⊢
  obtain ⟨x, hx, hj⟩ := hab
  exact ⟨x, (List.mem_filter.1 hx).1, hj⟩

/-- the scan loop, given that `H` still yields the right filtered graph at every later threshold -/
theorem scanLoop_spec (n i j : Nat) (es : List (WEdge α)) (t : Nat → α)
    (hanti : ∀ k, t (k + 1) ≤ t k) :
    ∀ (fuel k : Nat) (H : List (WEdge α)),
      (∀ E, E ≤ t k → removeAbove .gt H E = filterLE es E) →
      (scanLoop .gt n i j t fuel k H = none ∧ ∀ d < fuel, connAt n es (t (k + d)) i j) ∨
      (∃ d < fuel, scanLoop .gt n i j t fuel k H = some (t (k + d)) ∧
        ¬ connAt n es (t (k + d)) i j ∧ ∀ d' < d, connAt n es (t (k + d')) i j) := by
  intro fuel
  induction fuel with
  | zero => intro k H _; left; exact ⟨rfl, fun d hd => absurd hd (Nat.not_lt_zero d)⟩
  | succ f ih =>
    intro k H hH
    have hk : removeAbove .gt H (t k) = filterLE es (t k) := hH _ (le_refl _)
    simp only [scanLoop, hk]
    by_cases hc : reach n (adj (filterLE es (t k))) i j = true
    · rw [if_pos hc]
      have hnext : ∀ E, E ≤ t (k + 1) → removeAbove .gt (filterLE es (t k)) E = filterLE es E :=
        fun E hE => removeAbove_filterLE es (le_trans hE (hanti k))
      rcases ih (k + 1) (filterLE es (t k)) hnext with ⟨h1, h2⟩ | ⟨d, hd, h1, h2, h3⟩
      · left
        refine ⟨h1, ?_⟩
        intro d hd
        cases d with
        | zero => exact hc
        | succ d => have := h2 d (by omega); rwa [show k + 1 + d = k + (d + 1) by omega] at this
      · right
        refine ⟨d + 1, by omega, ?_, ?_, ?_⟩
        · rw [h1]; congr 2; omega
        · rwa [show k + 1 + d = k + (d + 1) by omega] at h2
        · intro d' hd'
          cases d' with
          | zero => exact hc
          | succ d' => have := h3 d' (by omega); rwa [show k + 1 + d' = k + (d' + 1) by omega] at this
    · rw [if_neg hc]
      right
      exact ⟨0, by omega, rfl, hc, fun d' hd' => absurd hd' (Nat.not_lt_zero d')⟩

end order

section field
variable {α : Type} [Field α] [LinearOrder α] [IsStrictOrderedRing α]

theorem thr_succ (maxTs eRange : α) (k : Nat) :
    thr stdCfg maxTs eRange (k + 1) = thr stdCfg maxTs eRange k - eRange / 510 := by
  simp only [thr, stdCfg]; push_cast; ring

theorem thr_anti (maxTs eRange : α) (hr : 0 ≤ eRange) (k : Nat) :
    thr stdCfg maxTs eRange (k + 1) ≤ thr stdCfg maxTs eRange k := by
  rw [thr_succ]
  have : 0 ≤ eRange / 510 := by positivity
  linarith

/-- `m` is the minimax value of the pair: connected using transition states `≤ m`, not connected
    below (by `C18_conn_iff_path`: the lowest achievable highest transition state on a path) -/
def IsMinimax (n : Nat) (es : List (WEdge α)) (i j : Nat) (m : α) : Prop :=
  connAt n es m i j ∧ ∀ E, E < m → ¬ connAt n es E i j

/-- **Disconnection height.**  If the minimax value `m` of two minima lies inside the scanned
    window (`E₅₂₉ < m ≤ E₀`), `disconnected_height` returns a height `h` (not the sentinel) within
    one scan step `δ = e_range/510` below it: `m − δ ≤ h < m`. -/
theorem C18_height_minimax (n : Nat) (es : List (WEdge α)) (i j : Nat) (hi : i < n)
    (maxTs eRange m : α) (hr : 0 ≤ eRange) (hm : IsMinimax n es i j m)
    (hwin : thr stdCfg maxTs eRange 529 < m ∧ m ≤ thr stdCfg maxTs eRange 0) :
    ∃ h, height stdCfg n es i j maxTs eRange = some h ∧ m - eRange / 510 ≤ h ∧ h < m := by
  have hconn : reach n (adj es) i j = true := connAt_all hi hm.1
  have hanti := thr_anti maxTs eRange hr
  simp only [height, hconn, if_true]
  have hspec := scanLoop_spec n i j es (thr stdCfg maxTs eRange) hanti stdCfg.iters 0 es
    (fun E _ => removeAbove_eq_filterLE es E)
  have hrm : stdCfg.rmCmp = Cmp.gt := rfl
  have hit : stdCfg.iters = 530 := rfl
  rw [hrm]
  rcases hspec with ⟨_, h2⟩ | ⟨d, hd, h1, h2, h3⟩
  · exfalso
    have := h2 529 (by rw [hit]; omega)
    rw [Nat.zero_add] at this
    exact hm.2 _ hwin.1 this
  · refine ⟨_, h1, ?_, ?_⟩
    · rw [Nat.zero_add] at h2 ⊢
      cases d with
      | zero => exact absurd (connAt_mono hwin.2 hi hm.1) h2
      | succ d =>
        have hprev := h3 d (by omega)
        rw [Nat.zero_add] at hprev
        have hge : m ≤ thr stdCfg maxTs eRange d := by
          by_contra hlt
          exact hm.2 _ (not_le.1 hlt) hprev
        rw [thr_succ]; linarith
    · rw [Nat.zero_add] at h2 ⊢
      by_contra hge
      exact h2 (connAt_mono (not_lt.1 hge) hi hm.1)

/-- **Sentinel.**  `disconnected_height` returns the sentinel (`none`, i.e. `1e10`) when the two
    minima are not connected at all, when `i = j` (a minimum is never separated from itself), and
    when they are still connected at the lowest scanned threshold (minimax below the window). -/
theorem C18_height_sentinel (n : Nat) (es : List (WEdge α)) (i j : Nat) (hi : i < n)
    (maxTs eRange : α) (hr : 0 ≤ eRange) :
    (reach n (adj es) i j = false → height stdCfg n es i j maxTs eRange = none) ∧
    (i = j → height stdCfg n es i j maxTs eRange = none) ∧
    (connAt n es (thr stdCfg maxTs eRange 529) i j →
      height stdCfg n es i j maxTs eRange = none) := by
  have hanti := thr_anti maxTs eRange hr
  have hspec := scanLoop_spec n i j es (thr stdCfg maxTs eRange) hanti stdCfg.iters 0 es
    (fun E _ => removeAbove_eq_filterLE es E)
  have hrm : stdCfg.rmCmp = Cmp.gt := rfl
  have hit : stdCfg.iters = 530 := rfl
  have key : (∀ d < 530, connAt n es (thr stdCfg maxTs eRange d) i j) →
      height stdCfg n es i j maxTs eRange = none := by
    intro hall
    simp only [height]
    split
    · rw [hrm]
      rcases hspec with ⟨h1, _⟩ | ⟨d, hd, _, h2, _⟩
      · exact h1
      · rw [Nat.zero_add] at h2; exact absurd (hall d (by rw [hit] at hd; exact hd)) h2
    · rfl
  refine ⟨?_, ?_, ?_⟩
  · intro h; simp [height, h]
  · rintro rfl
    apply key
    intro d _
    unfold connAt
    rw [reach_iff_conn hi]
    exact Relation.ReflTransGen.refl
  · intro h
    apply key
    intro d hd
    have hle : thr stdCfg maxTs eRange 529 ≤ thr stdCfg maxTs eRange d := by
      have : ∀ a b, thr stdCfg maxTs eRange (a + b) ≤ thr stdCfg maxTs eRange a := by
        intro a b
        induction b with
        | zero => exact le_refl _
        | succ b ih => exact le_trans (hanti (a + b)) ih
      have := this d (529 - d)
      rwa [show d + (529 - d) = 529 by omega] at this
    exact connAt_mono hle hi h

end field

/-! ### hierarchy -/

section hier
variable {α : Type} [LinearOrder α]

theorem isSet_ext {n : Nat} {S T : List Nat} (hS : IsSet n S) (hT : IsSet n T)
    (h : ∀ a, a ∈ S ↔ a ∈ T) : S = T := by
  rw [hS, hT]
  apply List.filter_congr
  intro a _
  by_cases ha : a ∈ S
  · simp [ha, (h a).1 ha]
  · simp [ha, show a ∉ T from fun hh => ha ((h a).2 hh)]

theorem mem_components {n : Nat} {r : Nat → Nat → Bool} {g : List Nat} :
    g ∈ components n r ↔ ∃ v < n, g = reachSet n r v ∧ (reachSet n r v).head? = some v := by
  simp only [components, List.mem_filterMap, List.mem_range]
  constructor
  · rintro ⟨v, hv, h⟩
    split at h
    · rename_i hh
      exact ⟨v, hv, by simpa using h.symm, by simpa using hh⟩
    · simp at h
  · rintro ⟨v, hv, rfl, hh⟩
    exact ⟨v, hv, by simp [hh]⟩

theorem reachSet_eq_of_conn {n : Nat} {r : Nat → Nat → Bool} (hs : ∀ a b, r a b = r b a)
    {v w : Nat} (hv : v < n) (hw : w < n) (h : Conn n r v w) : reachSet n r v = reachSet n r w := by
  apply isSet_ext (reachSet_isSet v) (reachSet_isSet w)
  intro a
  rw [mem_reachSet hv, mem_reachSet hw]
  exact ⟨fun h1 => (h.symm hs).trans h1, fun h1 => h.trans h1⟩

/-- every node lies in a group; groups are inside `0..n-1`, non-empty; two groups sharing a
    member are the same group; no group is listed twice -/
theorem components_partition {n : Nat} {r : Nat → Nat → Bool} (hs : ∀ a b, r a b = r b a) :
    (∀ x < n, ∃ g ∈ components n r, x ∈ g) ∧
    (∀ g ∈ components n r, ∀ x ∈ g, x < n) ∧
    (∀ g ∈ components n r, g ≠ []) ∧
    (∀ g1 ∈ components n r, ∀ g2 ∈ components n r, ∀ x, x ∈ g1 → x ∈ g2 → g1 = g2) := by
  refine ⟨?_, ?_, ?_, ?_⟩
  · intro x hx
    have hxx : x ∈ reachSet n r x := (mem_reachSet hx).2 Relation.ReflTransGen.refl
    obtain ⟨w, hw⟩ : ∃ w, (reachSet n r x).head? = some w := by
      cases h : reachSet n r x with
      | nil => rw [h] at hxx; simp at hxx
      | cons a l => exact ⟨a, rfl⟩
    have hwmem : w ∈ reachSet n r x := List.mem_of_mem_head? (by rw [hw]; rfl)
    have hxw : Conn n r x w := (mem_reachSet hx).1 hwmem
    have hwn : w < n := hxw.lt_right hx
    have heq := reachSet_eq_of_conn hs hx hwn hxw
    refine ⟨reachSet n r w, mem_components.2 ⟨w, hwn, rfl, by rw [← heq]; exact hw⟩, ?_⟩
    rw [← heq]; exact hxx
  · intro g hg x hx
    obtain ⟨v, _, rfl, _⟩ := mem_components.1 hg
    exact (reachSet_isSet v).lt hx
  · intro g hg
    obtain ⟨v, _, rfl, hh⟩ := mem_components.1 hg
    intro h; rw [h] at hh; simp at hh
  · intro g1 hg1 g2 hg2 x hx1 hx2
    obtain ⟨v1, hv1, rfl, _⟩ := mem_components.1 hg1
    obtain ⟨v2, hv2, rfl, _⟩ := mem_components.1 hg2
    have h1 := (mem_reachSet hv1).1 hx1
    have h2 := (mem_reachSet hv2).1 hx2
    exact reachSet_eq_of_conn hs hv1 hv2 (h1.trans (h2.symm hs))

/-- **Every level of the disconnectivity hierarchy partitions all minima** (for any thresholds,
    any level): each minimum is in a group, groups hold minima only, are non-empty, and two groups
    of a level that share a minimum are the same group. -/
theorem C18_hierarchy_partition (c : Cmp) (n : Nat) (t : Nat → α) (es : List (WEdge α)) (lvl : Nat) :
    (∀ x < n, ∃ g ∈ levelGroups c n t es lvl, x ∈ g) ∧
    (∀ g ∈ levelGroups c n t es lvl, ∀ x ∈ g, x < n) ∧
    (∀ g ∈ levelGroups c n t es lvl, g ≠ []) ∧
    (∀ g1 ∈ levelGroups c n t es lvl, ∀ g2 ∈ levelGroups c n t es lvl, ∀ x,
      x ∈ g1 → x ∈ g2 → g1 = g2) :=
  components_partition (adj_symm _)

theorem adj_removeAbove (c : Cmp) (H : List (WEdge α)) (E : α) (a b : Nat)
    (h : adj (removeAbove c H E) a b = true) : adj H a b = true := by
  rw [adj_iff] at h ⊢
  obtain ⟨x, hx, hj⟩ := h
  exact ⟨x, (List.mem_filter.1 hx).1, hj⟩

/-- **Each group is contained in its parent group.**  For a group `g` of level `lvl+1` with first
    member `m`, `find_parent` finds a group `pg` of level `lvl` (index `k`), every member of `g`
    lies in `pg`, and `pg` is the only group of level `lvl` containing any member of `g` (so the
    parent does not depend on which member `list(j)[0]` happens to be). -/
theorem C18_hierarchy_nested (c : Cmp) (n : Nat) (t : Nat → α) (es : List (WEdge α)) (lvl : Nat)
    (g : List Nat) (hg : g ∈ levelGroups c n t es (lvl + 1)) (m : Nat) (hm : g.head? = some m) :
    ∃ k pg, findParent (levelGroups c n t es lvl) m = some k ∧
      (levelGroups c n t es lvl)[k]? = some pg ∧ (∀ x ∈ g, x ∈ pg) ∧
      (∀ pg' ∈ levelGroups c n t es lvl, ∀ x ∈ g, x ∈ pg' → pg' = pg) := by
  obtain ⟨hcov, _, _, hdis⟩ := C18_hierarchy_partition c n t es lvl
  obtain ⟨v, hv, rfl, hh⟩ := mem_components.1 hg
  have hmv : m = v := by rw [hh] at hm; exact (Option.some.inj hm).symm
  subst hmv
  obtain ⟨pg, hpg, hmpg⟩ := hcov m hv
  -- the group containing m is found by find_parent
  have hex : ∃ k, findParent (levelGroups c n t es lvl) m = some k := by
    unfold findParent
    cases hf : List.findIdx? (fun x => x.contains m) (levelGroups c n t es lvl) with
    | some k => exact ⟨k, rfl⟩
    | none =>
      rw [List.findIdx?_eq_none_iff] at hf
      have := hf pg hpg
      simp [hmpg] at this
  obtain ⟨k, hk⟩ := hex
  have hk' := hk
  unfold findParent at hk'
  rw [List.findIdx?_eq_some_iff_getElem] at hk'
  obtain ⟨hklt, hkc, _⟩ := hk'
  have hkmem : (levelGroups c n t es lvl)[k] ∈ levelGroups c n t es lvl := List.getElem_mem hklt
  have hkm : m ∈ (levelGroups c n t es lvl)[k] := by simpa using hkc
  have hpgk : (levelGroups c n t es lvl)[k] = pg := hdis _ hkmem _ hpg m hkm hmpg
  -- members of g are connected to m at level lvl too
  obtain ⟨w, hw, hpgw, _⟩ := mem_components.1 hpg
  have hwm : Conn n (adj (cumEdges c t es lvl)) w m := by
    rw [hpgw] at hmpg; exact (mem_reachSet hw).1 hmpg
  have hsub : ∀ x ∈ reachSet n (adj (cumEdges c t es (lvl + 1))) m, x ∈ pg := by
    intro x hx
    have h1 : Conn n (adj (cumEdges c t es (lvl + 1))) m x := (mem_reachSet hv).1 hx
    have h2 : Conn n (adj (cumEdges c t es lvl)) m x :=
      h1.mono (fun a b hab => adj_removeAbove c _ _ a b hab)
    rw [hpgw]; exact (mem_reachSet hw).2 (hwm.trans h2)
  refine ⟨k, pg, hk, ?_, hsub, ?_⟩
  · rw [List.getElem?_eq_getElem hklt, hpgk]
  · intro pg' hpg' x hx hxp
    exact hdis _ hpg' _ hpg x hxp (hsub x hx)

end hier

/-! ### roughness -/

section rough
variable {α : Type} [Field α] [LinearOrder α] [IsStrictOrderedRing α]

theorem barrier_nonneg (ts mn : α) : 0 ≤ barrier .lt ts mn := by
  unfold barrier
  simp only [Cmp.eval, decide_eq_true_eq]
  split
  · exact le_refl _
  · rename_i h; linarith [not_lt.1 h]

theorem contribAt_nonneg (energy : Nat → α) (i : Nat) (x : REdge α) (hu : 0 ≤ x.pu) (hv : 0 ≤ x.pv) :
    0 ≤ contribAt .lt energy i x := by
  unfold contribAt
  split
  · exact mul_nonneg hu (barrier_nonneg _ _)
  · split
    · exact mul_nonneg hv (barrier_nonneg _ _)
    · exact le_refl _

theorem frustration_nonneg (n : Nat) (energy : Nat → α) (es : List (REdge α))
    (hp : ∀ x ∈ es, 0 ≤ x.pu ∧ 0 ≤ x.pv) : 0 ≤ frustration .lt n energy es := by
  unfold frustration
  apply List.sum_nonneg
  intro a ha
  obtain ⟨i, _, rfl⟩ := List.mem_map.1 ha
  apply List.sum_nonneg
  intro b hb
  obtain ⟨x, hx, rfl⟩ := List.mem_map.1 hb
  exact contribAt_nonneg energy i x (hp x hx).1 (hp x hx).2

/-- roughness is non-negative (populations are non-negative: they are values of `np.exp`) -/
theorem C18_roughness_nonneg (n : Nat) (energy : Nat → α) (es : List (REdge α))
    (hp : ∀ x ∈ es, 0 ≤ x.pu ∧ 0 ≤ x.pv) : 0 ≤ roughness stdCfg n energy es := by
  unfold roughness
  split
  · exact le_refl _
  · exact div_nonneg (frustration_nonneg n energy es hp) (Nat.cast_nonneg n)

/-- roughness is zero for fewer than two minima -/
theorem C18_roughness_zero_small (n : Nat) (hn : n < 2) (energy : Nat → α) (es : List (REdge α)) :
    roughness stdCfg n energy es = 0 := by
  have : n = 0 ∨ n = 1 := by omega
  rcases this with rfl | rfl <;> simp [roughness, stdCfg]

theorem barrier_shift (ts mn c : α) : barrier .lt (ts + c) (mn + c) = barrier .lt ts mn := by
  unfold barrier
  simp only [Cmp.eval, decide_eq_true_eq, add_lt_add_iff_right]
  split <;> ring

theorem barrier_scale (ts mn l : α) (hl : 0 < l) :
    barrier .lt (l * ts) (l * mn) = l * barrier .lt ts mn := by
  unfold barrier
  simp only [Cmp.eval, decide_eq_true_eq, mul_lt_mul_iff_right₀ hl]
  split <;> ring

/-- roughness is unchanged by a constant energy shift of all minima and transition states -/
theorem C18_roughness_shift_invariant (n : Nat) (energy : Nat → α) (es : List (REdge α)) (c : α) :
    roughness stdCfg n (fun i => energy i + c) (es.map (fun x => { x with e := x.e + c })) =
      roughness stdCfg n energy es := by
  unfold roughness frustration
  simp only [List.map_map]
  have : ∀ i, ((contribAt stdCfg.roughCmp (fun i => energy i + c) i) ∘
      (fun x : REdge α => { x with e := x.e + c })) = contribAt stdCfg.roughCmp energy i := by
    intro i; funext x
    simp only [Function.comp, contribAt, stdCfg, barrier_shift]
  simp only [this]

/-- roughness is proportional to the energy scale (populations unchanged) -/
theorem C18_roughness_scale (n : Nat) (energy : Nat → α) (es : List (REdge α)) (l : α) (hl : 0 < l) :
    roughness stdCfg n (fun i => l * energy i) (es.map (fun x => { x with e := l * x.e })) =
      l * roughness stdCfg n energy es := by
  unfold roughness frustration
  simp only [List.map_map]
  have : ∀ i, ((contribAt stdCfg.roughCmp (fun i => l * energy i) i) ∘
      (fun x : REdge α => { x with e := l * x.e })) = fun x => l * contribAt stdCfg.roughCmp energy i x := by
    intro i; funext x
    simp only [Function.comp, contribAt, stdCfg, barrier_scale _ _ _ hl]
    split
    · ring
    · split <;> ring
  simp only [this]
  split
  · ring
  · simp only [List.sum_map_mul_left]
    ring

/-- renumbering of one edge -/
def relabelEdge (σ : Nat → Nat) (x : REdge α) : REdge α := { x with u := σ x.u, v := σ x.v }

/-- roughness is unchanged by any renumbering `σ` of the minima (a bijection of `0..n-1`; the
    energies move with their minima: `energy' (σ i) = energy i`) combined with any reordering of
    the stored transition states. -/
theorem C18_roughness_perm_invariant (n : Nat) (energy energy' : Nat → α) (es es' : List (REdge α))
    (σ : Nat → Nat) (hσ : ((List.range n).map σ).Perm (List.range n))
    (hinj : ∀ a b, σ a = σ b → a = b) (hE : ∀ i, energy' (σ i) = energy i)
    (hes : es'.Perm (es.map (relabelEdge σ))) :
    roughness stdCfg n energy' es' = roughness stdCfg n energy es := by
  unfold roughness
  have hfr : frustration stdCfg.roughCmp n energy' es' = frustration stdCfg.roughCmp n energy es := by
    unfold frustration
    have h1 : ∀ i, ((es'.map (contribAt stdCfg.roughCmp energy' i)).sum) =
        (((es.map (relabelEdge σ)).map (contribAt stdCfg.roughCmp energy' i)).sum) :=
      fun i => (hes.map _).sum_eq
    simp only [h1]
    have h2 : ((List.range n).map (fun i =>
          (((es.map (relabelEdge σ)).map (contribAt stdCfg.roughCmp energy' i)).sum))).sum =
        (((List.range n).map σ).map (fun i =>
          (((es.map (relabelEdge σ)).map (contribAt stdCfg.roughCmp energy' i)).sum))).sum :=
      ((hσ.map _).sum_eq).symm
    rw [h2, List.map_map]
    congr 1
    apply List.map_congr_left
    intro i _
    simp only [Function.comp, List.map_map]
    congr 1
    apply List.map_congr_left
    intro x _
    have hu : (σ x.u == σ i) = (x.u == i) := by
      by_cases h : x.u = i
      · simp [h]
      · have : σ x.u ≠ σ i := fun hh => h (hinj _ _ hh)
        simp [h, this]
    have hv : (σ x.v == σ i) = (x.v == i) := by
      by_cases h : x.v = i
      · simp [h]
      · have : σ x.v ≠ σ i := fun hh => h (hinj _ _ hh)
        simp [h, this]
    simp only [Function.comp_apply, contribAt, relabelEdge, hu, hv, hE]
  rw [hfr]

end rough

/-! ### non-vacuity -/

/-- the scan on a concrete network: minima 0-1-2 in a chain, transition states 2 and 51/10;
    window `e_range = 51/10` (δ = 1/100): the pair (0,1) has minimax 2 and the scan returns 199/100 -/
example : height stdCfg 3 [⟨0, 1, (2 : Rat)⟩, ⟨1, 2, 51/10⟩] 0 1 (51/10) (51/10) = some (199/100) := by
  decide +kernel

/-- unconnected component on a network with two components and a tie for the global minimum -/
example : unconnected stdCfg 4 (fun i => [(1 : Rat), 1, 2, 3].getD i 0)
    [⟨1, 2, (5 : Rat)⟩, ⟨3, 3, 6⟩] = [1, 2, 3] := by decide +kernel

/-- a three-level hierarchy with a split and its parent indices -/
example : hierarchy .gt 3 [⟨0, 1, (2 : Rat)⟩, ⟨1, 2, 4⟩] 4 0 2 =
    [[([0, 1, 2], none)], [([0, 1], some 0), ([2], some 0)], [([0], some 0), ([1], some 0), ([2], some 1)]] := by
  decide +kernel

end TopSearch.Props.C18
