/-
  C07 / C08 — what "with its bonding intact" means for molecular systems.

  The loop model of basin-hopping (Model/BasinHopping.lean) takes the verdict of the bonding test as an input.
  For molecular systems that verdict is `MolecularCoordinates.same_bonds`, transcribed in Model/Bonds.lean and
  checked statement by statement against the current source by harness/translate/bonds.py.  Here: the verdict is
  `true` exactly when the bonds of the geometry asked about are, kind by kind and WITH their multiplicities,
  those of the reference geometry — for every pair of bond lists, of any length, over any linearly ordered type
  of labels (Python compares the label pairs lexicographically).
-/
import TopSearch.Props.C08
import TopSearch.Model.Bonds
import TopSearch.Gen.Bonds
import Mathlib.Order.Defs.LinearOrder
import Mathlib.Data.List.Sort

namespace TopSearch.Props.C08
open TopSearch.Bonds

/-- Bridge (tie #1): the current source compares the two lists of label pairs as sorted lists, after the number
    of bonds, each bond contributing its sorted label pair. -/
theorem C08_bridge_bonds : Gen.Bonds.compare = .sortedLists ∧ Gen.Bonds.checksCount = true ∧
    Gen.Bonds.labelsSorted = true := by decide

variable {β : Type} [LinearOrder β]

theorem pySorted_perm (l : List β) : (pySorted (fun a b => decide (a ≤ b)) l).Perm l := by
  unfold pySorted
  exact List.mergeSort_perm l _

theorem pySorted_sorted (l : List β) : (pySorted (fun a b => decide (a ≤ b)) l).Pairwise (· ≤ ·) := by
  unfold pySorted
  have := List.pairwise_mergeSort (le := fun a b : β => decide (a ≤ b))
    (by intro a b c hab hbc; simp only [decide_eq_true_eq] at *; exact le_trans hab hbc)
    (by intro a b; simp only [Bool.or_eq_true, decide_eq_true_eq]; exact le_total a b) l
  exact this.imp (by intro a b h; simpa using h)

/-- **The molecular bonding test is equality of bond multisets.**  With the comparison the source uses,
    `same_bonds` answers `true` iff the list of label pairs of the current bonds is a permutation of the reference
    list: the same kinds of bond, each the same number of times, in whatever order networkx lists the edges. -/
theorem C08_same_bonds_iff_perm (cur ref : List β) :
    sameBonds (fun a b => decide (a ≤ b)) Gen.Bonds.compare Gen.Bonds.checksCount cur ref = true ↔ cur.Perm ref := by
  rw [C08_bridge_bonds.1, C08_bridge_bonds.2.1]
  unfold sameBonds
  constructor
  · intro h
    simp only [Bool.and_eq_true, beq_iff_eq] at h
    exact (pySorted_perm cur).symm.trans (h.2 ▸ pySorted_perm ref)
  · intro h
    simp only [Bool.and_eq_true, beq_iff_eq, Bool.or_eq_true, Bool.not_eq_true']
    refine ⟨Or.inr (by simpa using h.length_eq), ?_⟩
    have hp : (pySorted (fun a b => decide (a ≤ b)) cur).Perm (pySorted (fun a b => decide (a ≤ b)) ref) :=
      (pySorted_perm cur).trans (h.trans (pySorted_perm ref).symm)
    exact List.Perm.eq_of_pairwise (fun a b _ _ hab hba => le_antisymm hab hba) (pySorted_sorted cur)
      (pySorted_sorted ref) hp

/-- the label pair of a bond does not depend on the orientation in which the edge is listed -/
theorem C08_label_pair_symm {α : Type} [LinearOrder α] (a b : α) :
    labelPair (fun x y => decide (x ≤ y)) a b = labelPair (fun x y => decide (x ≤ y)) b a := by
  unfold labelPair
  by_cases h : a ≤ b <;> by_cases h' : b ≤ a <;> simp [h, h']
  · have := le_antisymm h h'; subst this; exact ⟨rfl, rfl⟩
  · exact absurd (le_total a b) (by simp [h, h'])

theorem pySorted_of_sorted (l : List Nat) (h : l.Pairwise (fun a b => decide (a ≤ b) = true)) :
    pySorted (fun a b : Nat => decide (a ≤ b)) l = l := by
  unfold pySorted
  exact List.mergeSort_of_pairwise h

/-- why the comparison matters: compared through their *unique rows*, two C–H and one O–H would pass for one C–H
    and two O–H (same number of bonds, same kinds) — which is a hydrogen moved from a carbon onto the oxygen. -/
theorem C08_unique_rows_forget_counts :
    sameBonds (fun a b : Nat => decide (a ≤ b)) .uniqueRows true [1, 1, 2] [1, 2, 2] = true ∧
    ¬ ([1, 1, 2] : List Nat).Perm [1, 2, 2] := by
  refine ⟨?_, by decide⟩
  have h1 := pySorted_of_sorted [1, 1, 2] (by decide)
  have h2 := pySorted_of_sorted [1, 2, 2] (by decide)
  simp only [sameBonds, uniqueRows, h1, h2]
  decide

/-- non-vacuity: the comparison read from the source separates them, and accepts a re-listing -/
example : sameBonds (fun a b : Nat => decide (a ≤ b)) Gen.Bonds.compare Gen.Bonds.checksCount [1, 1, 2] [1, 2, 2] = false ∧
    sameBonds (fun a b : Nat => decide (a ≤ b)) Gen.Bonds.compare Gen.Bonds.checksCount [2, 1, 1] [1, 2, 1] = true := by
  refine ⟨?_, (C08_same_bonds_iff_perm _ _).2 (by decide)⟩
  rw [Bool.eq_false_iff]
  intro h
  exact absurd ((C08_same_bonds_iff_perm _ _).1 h) (by decide)

end TopSearch.Props.C08
