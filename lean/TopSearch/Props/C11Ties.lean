/-
  C11, tie-breaking left open.  `Props/C11.lean` proves the clauses about the candidate loop for the
  loop exactly as the source spells it (`dist < best_dist`).  The property does not say which of
  several equally distant alignments is returned, so a source that breaks ties the other way
  (`<=`) still satisfies it.  Here the clauses are proved for EVERY admissible improvement test
  (replace only if not worse, keep only if not better), `improve strict` is shown admissible for both
  values of `strict`, and the reported DISTANCE is shown not to depend on the test at all.  The driver
  runs `optimalAlignmentG (improve Gen.Align.cfg.improveStrictLess)`, i.e. the loop with the operator
  read from the current source, so a change of tie-breaking neither breaks a theorem nor the
  correspondence.
-/
import TopSearch.Props.C11
import TopSearch.Gen.Align

namespace TopSearch.Props.C11
open TopSearch.Align

variable {α γ : Type} [LinearOrder α]

/-- an improvement test the clauses hold for: a candidate that replaces the best so far is not
    worse, one that does not is not better -/
def Admissible (imp : α → α → Bool) : Prop :=
  ∀ a b, (imp a b = true → a ≤ b) ∧ (imp a b = false → b ≤ a)

/-- both spellings of the source are admissible -/
theorem C11_improve_admissible (strict : Bool) : Admissible (improve (α := α) strict) := by
  intro a b
  cases strict <;> simp only [improve, if_true, if_false, Bool.false_eq_true, decide_eq_true_eq,
    decide_eq_false_iff_not]
  · exact ⟨id, fun h => le_of_lt (not_le.1 h)⟩
  · exact ⟨le_of_lt, not_lt.1⟩

/-- the loop of the source IS the general loop with the strict test -/
theorem C11_scanG_strict (crit : α) (best : Cand α γ) (cs : List (Cand α γ)) :
    scanG (improve true) crit best cs = scan crit best cs := by
  induction cs generalizing best with
  | nil => rfl
  | cons c cs ih =>
    simp only [scanG, scan, improve, if_true, decide_eq_true_eq]
    split_ifs <;> first | rfl | exact ih _

theorem C11_optimalAlignmentG_strict (crit : α) (exact : Cand α γ) (randoms : List (Cand α γ))
    (inversion : Option (Cand α γ × List (Cand α γ))) :
    optimalAlignmentG (improve true) crit exact randoms inversion =
      optimalAlignment crit exact randoms inversion := by
  unfold optimalAlignmentG optimalAlignment
  simp only [C11_scanG_strict]
  simp [improve]

/-- early exits do not look at the best-so-far: what the loop leaves early with, and whether it
    does, is the same for every improvement test and every starting candidate -/
theorem C11_scanG_early (imp imp' : α → α → Bool) (crit : α) (best best' : Cand α γ)
    (cs : List (Cand α γ)) :
    (∀ c, scanG imp crit best cs = .inl c → scanG imp' crit best' cs = .inl c) ∧
    ((∃ b, scanG imp crit best cs = .inr b) → ∃ b', scanG imp' crit best' cs = .inr b') := by
  induction cs generalizing best best' with
  | nil =>
    simp only [scanG]
    exact ⟨fun c h => (by cases h), fun _ => ⟨best', rfl⟩⟩
  | cons c cs ih =>
    simp only [scanG]
    by_cases h1 : c.dist < crit
    · simp only [if_pos h1]
      exact ⟨fun c' h => h, fun ⟨b, h⟩ => (by cases h)⟩
    · simp only [if_neg h1]
      by_cases h2 : imp c.dist best.dist = true <;> by_cases h3 : imp' c.dist best'.dist = true <;>
        simp only [h2, h3, if_true, if_false, Bool.false_eq_true] <;> exact ih _ _

theorem C11_scanG_mem (imp : α → α → Bool) (crit : α) (best : Cand α γ) (cs : List (Cand α γ)) :
    (∀ c, scanG imp crit best cs = .inl c → c ∈ cs ∧ c.dist < crit) ∧
    (∀ b, scanG imp crit best cs = .inr b → b ∈ best :: cs ∧ ∀ c ∈ cs, ¬ c.dist < crit) := by
  induction cs generalizing best with
  | nil =>
    simp only [scanG]
    refine ⟨fun c h => (by cases h), fun b h => ?_⟩
    cases h
    exact ⟨List.mem_cons_self, fun c hc => (by cases hc)⟩
  | cons c cs ih =>
    simp only [scanG]
    split_ifs with h1 h2
    · refine ⟨fun c' h => ?_, fun b h => by cases h⟩
      cases h
      exact ⟨List.mem_cons_self, h1⟩
    · obtain ⟨iha, ihb⟩ := ih c
      refine ⟨fun c' h => ?_, fun b h => ?_⟩
      · obtain ⟨m, l⟩ := iha c' h
        exact ⟨List.mem_cons_of_mem _ m, l⟩
      · obtain ⟨m, l⟩ := ihb b h
        refine ⟨List.mem_cons_of_mem _ m, fun c' hc' => ?_⟩
        rcases List.mem_cons.1 hc' with rfl | h'
        · exact h1
        · exact l _ h'
    · obtain ⟨iha, ihb⟩ := ih best
      refine ⟨fun c' h => ?_, fun b h => ?_⟩
      · obtain ⟨m, l⟩ := iha c' h
        exact ⟨List.mem_cons_of_mem _ m, l⟩
      · obtain ⟨m, l⟩ := ihb b h
        refine ⟨?_, fun c' hc' => ?_⟩
        · rcases List.mem_cons.1 m with rfl | m'
          · exact List.mem_cons_self
          · exact List.mem_cons_of_mem _ (List.mem_cons_of_mem _ m')
        · rcases List.mem_cons.1 hc' with rfl | h'
          · exact h1
          · exact l _ h'

theorem C11_scanG_min (imp : α → α → Bool) (hadm : Admissible imp) (crit : α) (best b : Cand α γ)
    (cs : List (Cand α γ)) (h : scanG imp crit best cs = .inr b) :
    b.dist ≤ best.dist ∧ ∀ c ∈ cs, b.dist ≤ c.dist := by
  induction cs generalizing best with
  | nil =>
    simp only [scanG] at h
    cases h
    exact ⟨le_refl _, fun c hc => by cases hc⟩
  | cons c cs ih =>
    simp only [scanG] at h
    split_ifs at h with h1 h2
    · obtain ⟨hb, hcs⟩ := ih c h
      refine ⟨le_trans hb ((hadm _ _).1 h2), fun c' hc' => ?_⟩
      rcases List.mem_cons.1 hc' with rfl | h'
      · exact hb
      · exact hcs _ h'
    · obtain ⟨hb, hcs⟩ := ih best h
      refine ⟨hb, fun c' hc' => ?_⟩
      rcases List.mem_cons.1 hc' with rfl | h'
      · exact le_trans hb ((hadm _ _).2 (by simpa using h2))
      · exact hcs _ h'

/-- whatever the tie-breaking: one of the alignments actually produced is returned -/
theorem C11_tie_returns_candidate (imp : α → α → Bool) (crit : α) (exact : Cand α γ)
    (randoms : List (Cand α γ)) (inversion : Option (Cand α γ × List (Cand α γ))) :
    optimalAlignmentG imp crit exact randoms inversion ∈ consulted exact randoms inversion := by
  unfold optimalAlignmentG consulted
  by_cases h0 : exact.dist < crit
  · simp [h0]
  · rw [if_neg h0]
    rcases hs : scanG imp crit exact randoms with c | best
    · have hc := ((C11_scanG_mem imp crit exact randoms).1 c hs).1
      simp [hc]
    · have hb := ((C11_scanG_mem imp crit exact randoms).2 best hs).1
      rcases inversion with _ | ⟨exactInv, randomsInv⟩
      · simpa using hb
      · dsimp only
        by_cases h1 : exactInv.dist < crit
        · simp [h1]
        · rw [if_neg h1]
          rcases hs' : scanG imp crit (if imp exactInv.dist best.dist = true then exactInv else best)
            randomsInv with c | b
          · have hc := ((C11_scanG_mem imp crit _ randomsInv).1 c hs').1
            simp [hc]
          · have hb' := ((C11_scanG_mem imp crit _ randomsInv).2 b hs').1
            rcases List.mem_cons.1 hb' with rfl | hb'
            · split_ifs
              · simp
              · rcases List.mem_cons.1 hb with h | h <;> simp [h]
            · simp [hb']

/-- whatever the tie-breaking: the result is below the criterion iff some consulted alignment is -/
theorem C11_tie_match_iff (imp : α → α → Bool) (crit : α) (exact : Cand α γ)
    (randoms : List (Cand α γ)) (inversion : Option (Cand α γ × List (Cand α γ))) :
    (optimalAlignmentG imp crit exact randoms inversion).dist < crit ↔
      ∃ c ∈ consulted exact randoms inversion, c.dist < crit := by
  constructor
  · intro h
    exact ⟨_, C11_tie_returns_candidate imp crit exact randoms inversion, h⟩
  · rintro ⟨c, hc, hlt⟩
    unfold optimalAlignmentG
    unfold consulted at hc
    by_cases h0 : exact.dist < crit
    · rw [if_pos h0]
      exact h0
    · rw [if_neg h0]
      rcases hs : scanG imp crit exact randoms with c' | best
      · exact ((C11_scanG_mem imp crit exact randoms).1 c' hs).2
      · have hno := ((C11_scanG_mem imp crit exact randoms).2 best hs).2
        rcases inversion with _ | ⟨exactInv, randomsInv⟩
        · exfalso
          rw [List.append_nil] at hc
          rcases List.mem_cons.1 hc with rfl | hc
          · exact h0 hlt
          · exact hno _ hc hlt
        · dsimp only at hc ⊢
          by_cases h1 : exactInv.dist < crit
          · rw [if_pos h1]
            exact h1
          · rw [if_neg h1]
            rcases hs' : scanG imp crit (if imp exactInv.dist best.dist = true then exactInv else best)
              randomsInv with c'' | b
            · exact ((C11_scanG_mem imp crit _ randomsInv).1 c'' hs').2
            · have hno' := ((C11_scanG_mem imp crit _ randomsInv).2 b hs').2
              exfalso
              rcases List.mem_cons.1 hc with rfl | hc
              · exact h0 hlt
              · rcases List.mem_append.1 hc with hc | hc
                · exact hno _ hc hlt
                · rcases List.mem_cons.1 hc with rfl | hc
                  · exact h1 hlt
                  · exact hno' _ hc hlt

/-- whatever the (admissible) tie-breaking: without a match the minimum over everything consulted
    is returned -/
theorem C11_tie_min_otherwise (imp : α → α → Bool) (hadm : Admissible imp) (crit : α)
    (exact : Cand α γ) (randoms : List (Cand α γ)) (inversion : Option (Cand α γ × List (Cand α γ)))
    (h : ∀ c ∈ consulted exact randoms inversion, ¬ c.dist < crit) :
    ∀ c ∈ consulted exact randoms inversion,
      (optimalAlignmentG imp crit exact randoms inversion).dist ≤ c.dist := by
  intro c hc
  unfold optimalAlignmentG
  unfold consulted at h hc
  have h0 : ¬ exact.dist < crit := h exact List.mem_cons_self
  rw [if_neg h0]
  rcases hs : scanG imp crit exact randoms with c' | best
  · exfalso
    obtain ⟨hm, hl⟩ := (C11_scanG_mem imp crit exact randoms).1 c' hs
    exact h c' (List.mem_cons_of_mem _ (List.mem_append_left _ hm)) hl
  · obtain ⟨hbe, hbr⟩ := C11_scanG_min imp hadm crit exact best randoms hs
    rcases inversion with _ | ⟨exactInv, randomsInv⟩
    · dsimp only at hc ⊢
      rw [List.append_nil] at hc
      rcases List.mem_cons.1 hc with rfl | hc
      · exact hbe
      · exact hbr _ hc
    · dsimp only at h hc ⊢
      have h1 : ¬ exactInv.dist < crit :=
        h exactInv (List.mem_cons_of_mem _ (List.mem_append_right _ List.mem_cons_self))
      rw [if_neg h1]
      rcases hs' : scanG imp crit (if imp exactInv.dist best.dist = true then exactInv else best)
        randomsInv with c'' | b
      · exfalso
        obtain ⟨hm, hl⟩ := (C11_scanG_mem imp crit _ randomsInv).1 c'' hs'
        exact h c'' (List.mem_cons_of_mem _
          (List.mem_append_right _ (List.mem_cons_of_mem _ hm))) hl
      · obtain ⟨hb1, hb2⟩ := C11_scanG_min imp hadm crit _ b randomsInv hs'
        have hbb : b.dist ≤ best.dist ∧ b.dist ≤ exactInv.dist := by
          split_ifs at hb1 with hlt
          · exact ⟨le_trans hb1 ((hadm _ _).1 hlt), hb1⟩
          · exact ⟨hb1, le_trans hb1 ((hadm _ _).2 (by simpa using hlt))⟩
        rcases List.mem_cons.1 hc with rfl | hc
        · exact le_trans hbb.1 hbe
        · rcases List.mem_append.1 hc with hc | hc
          · exact le_trans hbb.1 (hbr _ hc)
          · rcases List.mem_cons.1 hc with rfl | hc
            · exact hbb.2
            · exact hb2 _ hc

/-- The reported distance does not depend on how ties are broken: two admissible improvement
    tests (in particular `<` and `<=`) report the same distance on every sequence of candidates. -/
theorem C11_tie_distance_independent (imp imp' : α → α → Bool) (hadm : Admissible imp)
    (hadm' : Admissible imp') (crit : α) (exact : Cand α γ) (randoms : List (Cand α γ))
    (inversion : Option (Cand α γ × List (Cand α γ))) :
    (optimalAlignmentG imp crit exact randoms inversion).dist =
      (optimalAlignmentG imp' crit exact randoms inversion).dist := by
  by_cases hex : ∃ c ∈ consulted exact randoms inversion, c.dist < crit
  · -- some early exit fires: it is the same one for both
    unfold optimalAlignmentG
    by_cases h0 : exact.dist < crit
    · simp [h0]
    · simp only [if_neg h0]
      rcases hs : scanG imp crit exact randoms with c | best
      · rw [(C11_scanG_early imp imp' crit exact exact randoms).1 c hs]
      · obtain ⟨best', hs2⟩ := (C11_scanG_early imp imp' crit exact exact randoms).2 ⟨best, hs⟩
        rw [hs2]
        have hno := ((C11_scanG_mem imp crit exact randoms).2 best hs).2
        rcases inversion with _ | ⟨exactInv, randomsInv⟩
        · exfalso
          obtain ⟨c, hc, hlt⟩ := hex
          unfold consulted at hc
          rw [List.append_nil] at hc
          rcases List.mem_cons.1 hc with rfl | hc
          · exact h0 hlt
          · exact hno _ hc hlt
        · dsimp only
          by_cases h1 : exactInv.dist < crit
          · simp [h1]
          · simp only [if_neg h1]
            rcases hs' : scanG imp crit (if imp exactInv.dist best.dist = true then exactInv else best)
              randomsInv with c'' | b
            · rw [(C11_scanG_early imp imp' crit _ _ randomsInv).1 c'' hs']
            · exfalso
              have hno' := ((C11_scanG_mem imp crit _ randomsInv).2 b hs').2
              obtain ⟨c, hc, hlt⟩ := hex
              unfold consulted at hc
              rcases List.mem_cons.1 hc with rfl | hc
              · exact h0 hlt
              · rcases List.mem_append.1 hc with hc | hc
                · exact hno _ hc hlt
                · rcases List.mem_cons.1 hc with rfl | hc
                  · exact h1 hlt
                  · exact hno' _ hc hlt
  · -- no early exit: both return a minimum of the same list
    have hno : ∀ c ∈ consulted exact randoms inversion, ¬ c.dist < crit :=
      fun c hc hlt => hex ⟨c, hc, hlt⟩
    apply le_antisymm
    · exact C11_tie_min_otherwise imp hadm crit exact randoms inversion hno _
        (C11_tie_returns_candidate imp' crit exact randoms inversion)
    · exact C11_tie_min_otherwise imp' hadm' crit exact randoms inversion hno _
        (C11_tie_returns_candidate imp crit exact randoms inversion)

/-- what the driver runs: the loop with the improvement operator of the CURRENT source.  Whatever
    that operator is, the clauses hold for it and it reports the distance of the loop analysed in
    `Props/C11.lean`. -/
theorem C11_tie_current_source (crit : α) (exact : Cand α γ) (randoms : List (Cand α γ))
    (inversion : Option (Cand α γ × List (Cand α γ))) :
    Admissible (improve (α := α) Gen.Align.cfg.improveStrictLess) ∧
    (optimalAlignmentG (improve Gen.Align.cfg.improveStrictLess) crit exact randoms inversion).dist =
      (optimalAlignment crit exact randoms inversion).dist := by
  refine ⟨C11_improve_admissible _, ?_⟩
  rw [← C11_optimalAlignmentG_strict]
  exact C11_tie_distance_independent _ _ (C11_improve_admissible _) (C11_improve_admissible _) _ _ _ _

/-- `test_exact_same`, whatever its (admissible) tie-breaking: it returns the sentinel or one of the
    alignments produced; the result is below the criterion iff one of the alignments is (the first such
    one is returned); otherwise its distance is the minimum; and the reported distance is the same for
    every admissible improvement test. -/
theorem C11_tie_exact_same (imp imp' : α → α → Bool) (hadm : Admissible imp) (hadm' : Admissible imp')
    (crit : α) (sentinel : Cand α γ) (cands : List (Cand α γ)) (hs : ¬ sentinel.dist < crit) :
    testExactSameG imp crit sentinel cands ∈ sentinel :: cands ∧
    ((testExactSameG imp crit sentinel cands).dist < crit ↔ ∃ c ∈ cands, c.dist < crit) ∧
    ((∀ c ∈ cands, ¬ c.dist < crit) →
      ∀ c ∈ sentinel :: cands, (testExactSameG imp crit sentinel cands).dist ≤ c.dist) ∧
    (testExactSameG imp crit sentinel cands).dist = (testExactSameG imp' crit sentinel cands).dist := by
  unfold testExactSameG
  rcases h : scanG imp crit sentinel cands with c | b
  · obtain ⟨hm, hl⟩ := (C11_scanG_mem imp crit sentinel cands).1 c h
    rw [(C11_scanG_early imp imp' crit sentinel sentinel cands).1 c h]
    refine ⟨List.mem_cons_of_mem _ hm, ⟨fun _ => ⟨c, hm, hl⟩, fun _ => hl⟩, fun hno => absurd hl (hno c hm), rfl⟩
  · obtain ⟨hm, hno⟩ := (C11_scanG_mem imp crit sentinel cands).2 b h
    obtain ⟨hb0, hbc⟩ := C11_scanG_min imp hadm crit sentinel b cands h
    obtain ⟨b', h'⟩ := (C11_scanG_early imp imp' crit sentinel sentinel cands).2 ⟨b, h⟩
    rw [h']
    obtain ⟨hm', _⟩ := (C11_scanG_mem imp' crit sentinel cands).2 b' h'
    obtain ⟨hb0', hbc'⟩ := C11_scanG_min imp' hadm' crit sentinel b' cands h'
    have hmin : ∀ c ∈ sentinel :: cands, b.dist ≤ c.dist := by
      intro c hc
      rcases List.mem_cons.1 hc with rfl | hc
      · exact hb0
      · exact hbc _ hc
    have hmin' : ∀ c ∈ sentinel :: cands, b'.dist ≤ c.dist := by
      intro c hc
      rcases List.mem_cons.1 hc with rfl | hc
      · exact hb0'
      · exact hbc' _ hc
    refine ⟨hm, ⟨fun hlt => ?_, fun ⟨c, hc, hlt⟩ => absurd hlt (hno c hc)⟩, fun _ => hmin,
      le_antisymm (hmin _ hm') (hmin' _ hm)⟩
    exfalso
    rcases List.mem_cons.1 hm with rfl | hm
    · exact hs hlt
    · exact hno _ hm hlt

/-- not vacuous: on a tie the two spellings return DIFFERENT candidates with the SAME distance -/
example : (optimalAlignmentG (improve true) (1/8 : ℚ) ⟨1, 0⟩ [⟨(1:ℚ)/2, (1:Nat)⟩, ⟨1/2, 2⟩] none).data = 1 ∧
    (optimalAlignmentG (improve false) (1/8 : ℚ) ⟨1, 0⟩ [⟨(1:ℚ)/2, (1:Nat)⟩, ⟨1/2, 2⟩] none).data = 2 := by
  decide +kernel

end TopSearch.Props.C11
