/-
  C01 — composition with the search model of C04.
  `C01_inv` assumes that every offered search record carries its guarantee (`OkRec`).  This file
  discharges that assumption from the post-condition of the single-ended search proved in
  Props/C04 (`C04_run_post`): a success return of the modelled `HybridEigenvectorFollowing.run`
  (for the configuration read from the current source, for every number of steps and every
  sequence of oracle answers meeting the contracts) IS an admissible record.  Payloads are
  coordinates + energy (`Merge.Pt`) together with the ghost flag "this search flagged an unreliable
  push-off" (not stored by the code; the property exempts exactly those transition states).
-/
import TopSearch.Props.C01
import TopSearch.Props.C04
import TopSearch.Props.C10

namespace TopSearch.Props.C01
open TopSearch TopSearch.Ktn TopSearch.Merge TopSearch.Pipeline TopSearch.Hef

variable {α : Type} [Field α] [LinearOrder α] [IsStrictOrderedRing α]

/-- payload with the ghost push-off flag -/
abbrev FPt (α : Type) := Pt α × Bool

/-- in the box and stored energy = surface at the stored coordinates -/
def GoodMin (f : List α → α) (lo up : List α) (p : FPt α) : Prop :=
  InBox p.1.coords lo up ∧ p.1.energy = f p.1.coords

/-- additionally: gradient below the tolerance in every coordinate not pinned at a bound -/
def GoodTs (f : List α → α) (gradF : List α → List α) (lo up : List α) (tol : α) (p : FPt α) : Prop :=
  InBox p.1.coords lo up ∧ p.1.energy = f p.1.coords ∧
  (p.1.coords ≠ [] → ∀ i (_ : i < p.1.coords.length) (_ : i < lo.length) (_ : i < up.length)
      (_ : i < (gradF p.1.coords).length), (gradF p.1.coords).length = p.1.coords.length →
      ¬(p.1.coords[i] ≤ lo[i] ∨ up[i] ≤ p.1.coords[i]) → |(gradF p.1.coords)[i]| < tol)

/-- not lower than the minimum by more than `ε`, push-off-flagged searches excepted -/
def Barrier (ε : α) (ts m : FPt α) : Prop := ts.2 = true ∨ m.1.energy - ε ≤ ts.1.energy

/-- A success return of the modelled search is an admissible record for the pipeline theorem:
    C04's post-condition implies `OkRec`, whatever stored minima its two minima get matched to,
    provided matching implies an energy difference below `ε` (the energy criterion). -/
theorem C01_record_from_search (env : Env α) (f : List α → α) (gradF : List α → List α) (n : Nat)
    (x0 : List α) (os : List (IterOra α)) (r : RunRes α)
    (hc : TopSearch.Props.C04.Contracts Gen.Hef.cfg env f gradF os) (htol : 0 < env.tol)
    (h : run Gen.Hef.cfg env n x0 os = some r)
    (xTs : List α) (eTs : α) (xP : List α) (eP : α) (xM : List α) (eM : α) (v : List α)
    (flag : Option Reason) (hs : r.out = .success xTs eTs xP eP xM eM v flag)
    (ε : α) (hε : 0 ≤ ε) (same : FPt α → FPt α → Bool)
    (hsame : ∀ d x, same d x = true → |d.1.energy - x.1.energy| < ε) :
    OkRec same (GoodMin f env.lo env.up) (GoodTs f gradF env.lo env.up env.tol) (Barrier ε)
      ⟨(⟨xTs, eTs⟩, decide (flag = some .pushoff)), (⟨xP, eP⟩, false), (⟨xM, eM⟩, false)⟩ := by
  obtain ⟨bTs, bP, bM, e1, e2, e3, hgrad, hbar⟩ :=
    TopSearch.Props.C04.C04_run_post env f gradF n x0 os r hc htol h xTs eTs xP eP xM eM v flag hs
  have key : ∀ (m : FPt α) (em : α), m.1.energy = em → (flag ≠ some .pushoff → em < eTs) →
      ∀ x : FPt α, (x = m ∨ same m x = true) →
        Barrier ε ((⟨xTs, eTs⟩, decide (flag = some .pushoff)) : FPt α) x := by
    intro m em hm hlt x hx
    have := C01_barrier_from_matching (δ := FPt α) (fun p => p.1.energy) (fun p => p.2) ε hε same hsame
      ((⟨xTs, eTs⟩, decide (flag = some .pushoff)) : FPt α) m
      (by
        by_cases hf : flag = some .pushoff
        · left; simp [hf]
        · right; simp only [hm]; exact le_of_lt (hlt hf)) x hx
    exact this
  refine ⟨⟨bTs, e1, hgrad⟩, ⟨bP, e2⟩, ⟨bM, e3⟩, ?_, ?_⟩
  · exact key (⟨xP, eP⟩, false) eP rfl (fun hf => (hbar hf).1)
  · exact key (⟨xM, eM⟩, false) eM rfl (fun hf => (hbar hf).2)

/-- **End-to-end form of C01 for the search model**: run ANY sequence of pipeline operations whose
    transition-state offers are success returns of the modelled search (contracts met) and whose
    minimum offers are good; then every stored point is good and every stored, unflagged transition
    state is within `ε` of not being lower than either minimum it connects. -/
theorem C01_landscape_consistent (f : List α → α) (gradF : List α → List α) (lo up : List α) (tol ε : α)
    (same : FPt α → FPt α → Bool) (hsym : ∀ x y, same x y = same y x)
    (ops : List (POp (FPt α)))
    (hok : ∀ op ∈ ops, OkOp same (GoodMin f lo up) (GoodTs f gradF lo up tol) (Barrier ε) op)
    (s : Ktn (FPt α)) (h : prun same Gen.Ktn.cfg (empty : Ktn (FPt α)) ops = some s) :
    (∀ a x, s.nodeData? a = some x → GoodMin f lo up x) ∧
    (∀ a b y, s.edgeData? a b = some y → GoodTs f gradF lo up tol y ∧
      (∀ x, s.nodeData? a = some x → Barrier ε y x) ∧ (∀ x, s.nodeData? b = some x → Barrier ε y x)) := by
  obtain ⟨_, hc⟩ := C01_inv_current hsym ops hok s h
  exact ⟨hc.mins, fun a b y hy => ⟨hc.tss a b y hy, hc.bar a b y hy⟩⟩

/-! ### composition with the minimiser wrapper of C10 -/

/-- a finite box `[(lo₀, up₀), …]` as the wrapper receives it (`coords.bounds`) -/
def finiteBounds (lo up : List α) : List (TopSearch.Lbfgs.Bound α) :=
  List.zipWith (fun l u => (some l, some u)) lo up

omit [Field α] [IsStrictOrderedRing α] in
/-- `InBox` peels off the head coordinate -/
theorem InBox_cons (a l u : α) (xs ls us : List α) :
    InBox (a :: xs) (l :: ls) (u :: us) ↔ (l ≤ a ∧ a ≤ u) ∧ InBox xs ls us := by
  constructor
  · rintro ⟨h1, h2, h3⟩
    refine ⟨h3 0 (Nat.succ_pos _) (Nat.succ_pos _) (Nat.succ_pos _), ?_, ?_, ?_⟩
    · simpa using h1
    · simpa using h2
    · intro i g1 g2 g3
      exact h3 (i + 1) (Nat.succ_lt_succ g1) (Nat.succ_lt_succ g2) (Nat.succ_lt_succ g3)
  · rintro ⟨h0, h1, h2, h3⟩
    refine ⟨by simp [h1], by simp [h2], ?_⟩
    intro i g1 g2 g3
    cases i with
    | zero => exact h0
    | succ j =>
      exact h3 j (Nat.lt_of_succ_lt_succ g1) (Nat.lt_of_succ_lt_succ g2) (Nat.lt_of_succ_lt_succ g3)

/-- the two box predicates (C10's on bound pairs, C04's on lower/upper vectors) agree -/
theorem inBox_finiteBounds (lo up x : List α) (hl : lo.length = up.length) :
    TopSearch.Lbfgs.inBox (finiteBounds lo up) x ↔ InBox x lo up := by
  induction lo generalizing up x with
  | nil =>
    cases up with
    | cons u us => simp at hl
    | nil =>
      cases x with
      | nil => simp [finiteBounds, TopSearch.Lbfgs.inBox, InBox]
      | cons a xs => simp [finiteBounds, TopSearch.Lbfgs.inBox, InBox]
  | cons l ls ih =>
    cases up with
    | nil => simp at hl
    | cons u us =>
      have hl' : ls.length = us.length := by simpa using hl
      cases x with
      | nil => simp [finiteBounds, TopSearch.Lbfgs.inBox, InBox]
      | cons a xs =>
        rw [InBox_cons, ← ih us xs hl']
        simp [finiteBounds, TopSearch.Lbfgs.inBox, TopSearch.Lbfgs.inBound]

/-- Every minimum the pipeline offers is the output of `lbfgs.minimise` (C08_stored_subset_outputs
    for basin-hopping; `reconverge_minima` / `reconverge_landscape` call it directly).  Under the
    optimiser contract `LBFGSB` (C10) such an output, started inside the box with the surface's
    `function_gradient` as objective and no extra arguments, is a good minimum: in the box, stored
    energy = surface at the stored coordinates.  This discharges `C01_inv`'s assumption on minimum
    offers from the named contract. -/
theorem C01_minimum_from_minimiser {ι : Type} (opt : TopSearch.Lbfgs.Oracle α ι)
    (hopt : TopSearch.Lbfgs.LBFGSB opt) (f : List α → α) (gradF : List α → List α)
    (lo up x0 : List α) (hl : lo.length = up.length) (conv : α) (m n : Nat)
    (hstart : InBox x0 lo up) :
    ∃ r, TopSearch.Lbfgs.minimise Gen.Lbfgs.call opt
        ⟨fun x _ => (f x, gradF x), x0, finiteBounds lo up, conv, m, n, none⟩ = some r ∧
      GoodMin f lo up ((⟨r.x, r.f⟩, false) : FPt α) := by
  obtain ⟨r, hr, hbox, hf, _⟩ := TopSearch.Props.C10.C10_from_contract opt hopt
    ⟨fun x _ => (f x, gradF x), x0, finiteBounds lo up, conv, m, n, none⟩
    ((inBox_finiteBounds lo up x0 hl).mpr hstart)
  exact ⟨r, hr, (inBox_finiteBounds lo up r.x hl).mp hbox, hf⟩

end TopSearch.Props.C01
