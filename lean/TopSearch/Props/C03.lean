/-
  C03 — each distinct stationary point is stored exactly once.
  Property theorems only (helpers live in Lemmas/Merge.lean).

  Reading fixed in DESIGN §4.0: criteria and box ranges are positive; "exactly at the criterion"
  is NOT a match in the absolute mode (`<`) and IS a match in the proportional mode (`<= 1.0`).
  `same cand stored` is the direction in which the code calls `test_same`.
-/
import TopSearch.Lemmas.Merge
import TopSearch.Gen.Similarity
import TopSearch.Gen.Ktn
import Mathlib.Algebra.Order.Field.Basic
import Mathlib.Algebra.Order.Ring.Abs
import Mathlib.Tactic.Ring
import Mathlib.Tactic.Linarith

set_option linter.unusedSimpArgs false
set_option linter.unusedSectionVars false
set_option linter.unusedVariables false

namespace TopSearch.Props.C03
open TopSearch TopSearch.Ktn TopSearch.Merge TopSearch.Py

/-! ## A. the numeric relation of `StandardSimilarity.test_same` -/

section numeric
variable {α : Type} [Field α] [LinearOrder α] [IsStrictOrderedRing α]

theorem sumSq_comm (xs ys : List α) : sumSq xs ys = sumSq ys xs := by
  induction xs generalizing ys with
  | nil => cases ys <;> simp [sumSq]
  | cons x xs ih =>
    cases ys with
    | nil => simp [sumSq]
    | cons y ys => simp only [sumSq, ih ys]; ring

theorem sumSq_self (xs : List α) : sumSq xs xs = 0 := by
  induction xs with
  | nil => simp [sumSq]
  | cons x xs ih => simp [sumSq, ih]

theorem sumSq_nonneg (xs ys : List α) : 0 ≤ sumSq xs ys := by
  induction xs generalizing ys with
  | nil => cases ys <;> simp [sumSq]
  | cons x xs ih =>
    cases ys with
    | nil => simp [sumSq]
    | cons y ys => simp only [sumSq]; have := ih ys; have := mul_self_nonneg (x - y); linarith

theorem propTerm_comm (dc lo hi x y : α) : propTerm dc lo hi x y = propTerm dc lo hi y x := by
  unfold propTerm; ring

theorem propSum_comm (dc : α) (los his xs ys : List α) :
    propSum dc los his xs ys = propSum dc los his ys xs := by
  induction los generalizing his xs ys with
  | nil => simp [propSum]
  | cons lo los ih =>
    cases his with
    | nil => simp [propSum]
    | cons hi his =>
      cases xs with
      | nil => cases ys <;> simp [propSum]
      | cons x xs =>
        cases ys with
        | nil => simp [propSum]
        | cons y ys => simp only [propSum, ih his xs ys, propTerm_comm dc lo hi x y]

theorem propSum_self (dc : α) (los his xs : List α) : propSum dc los his xs xs = 0 := by
  induction los generalizing his xs with
  | nil => simp [propSum]
  | cons lo los ih =>
    cases his with
    | nil => simp [propSum]
    | cons hi his =>
      cases xs with
      | nil => simp [propSum]
      | cons x xs => simp [propSum, propTerm, ih his xs]

theorem absLt_iff (x c : α) : absLt x c = true ↔ |x| < c := by
  simp only [absLt, Bool.and_eq_true, decide_eq_true_eq, abs_lt]
  constructor
  · rintro ⟨h1, h2⟩; exact ⟨by linarith, h1⟩
  · rintro ⟨h1, h2⟩; exact ⟨h2, by linarith⟩

theorem sameEnergy_iff (ec e1 e2 : α) : sameEnergy ec e1 e2 = true ↔ |e1 - e2| < ec :=
  absLt_iff _ _

theorem sameEnergy_comm (ec e1 e2 : α) : sameEnergy ec e1 e2 = sameEnergy ec e2 e1 := by
  rw [Bool.eq_iff_iff, sameEnergy_iff, sameEnergy_iff, abs_sub_comm]

theorem sameEnergy_self {ec : α} (h : 0 < ec) (e : α) : sameEnergy ec e e = true := by
  rw [sameEnergy_iff]; simpa using h

/-- The match relation is symmetric, in the absolute and in the box-proportional mode (the box
    is a property of the system, the same for both points).  No positivity is needed. -/
theorem C03_same_symm (m : Mode α) (p q : Pt α) : testSame m p q = testSame m q p := by
  cases m with
  | abs dc ec =>
    simp only [testSame, testSameAbs, sumSq_comm p.coords q.coords, sameEnergy_comm ec p.energy q.energy]
  | prop dc ec los his =>
    simp only [testSame, testSameProp, propSum_comm dc los his p.coords q.coords,
      sameEnergy_comm ec p.energy q.energy]

/-- the guard under which the relation is reflexive: positive criteria, and for the proportional
    mode a box with positive ranges (with a zero range numpy divides by zero and nothing matches) -/
def _root_.TopSearch.Merge.Mode.positive : Mode α → Prop
  | .abs dc ec => 0 < dc ∧ 0 < ec
  | .prop dc ec los his => 0 < dc ∧ 0 < ec ∧ List.Forall₂ (· < ·) los his

/-- The match relation accepts identical points (positive criteria and ranges). -/
theorem C03_same_refl (m : Mode α) (hm : m.positive) (p : Pt α) : testSame m p p = true := by
  cases m with
  | abs dc ec =>
    obtain ⟨h1, h2⟩ := hm
    simp only [testSame, testSameAbs, sumSq_self, sameEnergy_self h2, Bool.and_true,
      Bool.and_eq_true, decide_eq_true_eq, Nat.cast_zero]
    exact ⟨le_of_lt h1, mul_pos h1 h1⟩
  | prop dc ec los his =>
    obtain ⟨_, h2, _⟩ := hm
    simp [testSame, testSameProp, propSum_self, sameEnergy_self h2]

/-- With a zero criterion not even an identical point matches (`<`): why positivity is needed. -/
theorem C03_zero_criterion_never_matches (ec : α) (p q : Pt α) : testSameAbs 0 ec p q = false := by
  have := sumSq_nonneg p.coords q.coords
  simp [testSameAbs, not_lt.2 this]

/-- exact characterisation of the absolute mode on squared distances -/
theorem C03_abs_iff (dc ec : α) (p q : Pt α) :
    testSameAbs dc ec p q = true ↔
      (0 ≤ dc ∧ sumSq p.coords q.coords < dc * dc) ∧ |p.energy - q.energy| < ec := by
  simp [testSameAbs, sameEnergy_iff]

/-- exact characterisation of the proportional mode -/
theorem C03_prop_iff (dc ec : α) (los his : List α) (p q : Pt α) :
    testSameProp dc ec los his p q = true ↔
      propSum dc los his p.coords q.coords ≤ 1 ∧ |p.energy - q.energy| < ec := by
  simp [testSameProp, sameEnergy_iff]

/-- Exactly AT the distance criterion the absolute mode does not match (`<`) … -/
theorem C03_abs_at_criterion_not_same (dc ec : α) (p q : Pt α)
    (h : sumSq p.coords q.coords = dc * dc) : testSameAbs dc ec p q = false := by
  cases hx : testSameAbs dc ec p q
  · rfl
  · have := ((C03_abs_iff dc ec p q).1 hx).1.2
    rw [h] at this; exact absurd this (lt_irrefl _)

/-- … and the proportional mode does (`<= 1.0`), energies permitting. -/
theorem C03_prop_at_criterion_same (dc ec : α) (los his : List α) (p q : Pt α)
    (h : propSum dc los his p.coords q.coords = 1) (he : |p.energy - q.energy| < ec) :
    testSameProp dc ec los his p q = true :=
  (C03_prop_iff dc ec los his p q).2 ⟨le_of_eq h, he⟩

/-- exactly at the energy criterion nothing matches, in either mode (`<`) -/
theorem C03_energy_at_criterion_not_same (m : Mode α) (p q : Pt α)
    (h : |p.energy - q.energy| = match m with | .abs _ ec => ec | .prop _ ec _ _ => ec) :
    testSame m p q = false := by
  cases m with
  | abs dc ec =>
    cases hx : testSame (.abs dc ec) p q
    · rfl
    · have := ((C03_abs_iff dc ec p q).1 hx).2
      simp only at h; rw [h] at this; exact absurd this (lt_irrefl _)
  | prop dc ec los his =>
    cases hx : testSame (.prop dc ec los his) p q
    · rfl
    · have := ((C03_prop_iff dc ec los his p q).1 hx).2
      simp only at h; rw [h] at this; exact absurd this (lt_irrefl _)

/-- The square-root contract, stated once: for a root `r` of `s` (`0 ≤ r`, `r*r = s`),
    `r < c` is `0 ≤ c ∧ s < c*c`.  This is all the model assumes about `np.linalg.norm`. -/
theorem C03_sqrt_contract {r s c : α} (hr : 0 ≤ r) (hs : r * r = s) :
    r < c ↔ 0 ≤ c ∧ s < c * c := by
  constructor
  · intro h
    exact ⟨le_trans hr (le_of_lt h), by rw [← hs]; exact mul_self_lt_mul_self hr h⟩
  · rintro ⟨hc, h⟩
    by_contra hn
    have := mul_self_le_mul_self hc (not_lt.1 hn)
    rw [hs] at this
    exact absurd h (not_lt.2 this)

/-- the decision as the code writes it (root as a parameter) is the executed squared form -/
theorem C03_testSameSqrt_eq (sqrt : α → α) (dc ec : α) (p q : Pt α)
    (h : 0 ≤ sqrt (sumSq p.coords q.coords) ∧
      sqrt (sumSq p.coords q.coords) * sqrt (sumSq p.coords q.coords) = sumSq p.coords q.coords) :
    testSameSqrt sqrt dc ec p q = testSameAbs dc ec p q := by
  unfold testSameSqrt testSameAbs
  congr 1
  rw [Bool.eq_iff_iff]
  simp only [decide_eq_true_eq, Bool.and_eq_true, Nat.cast_zero]
  exact C03_sqrt_contract h.1 h.2

/-! ### bridge lemmas: the kernels read from the current source (tie #1) -/

/-- Bridge: the boolean returned by the absolute branch of the current `test_same` is
    `distance < distance_criterion and |energy1 - energy2| < energy_criterion`. -/
theorem C03_bridge_abs (fnI : Fn → α → α) (habs : ∀ x, fnI .abs x = |x|) (β : Nat → Bool)
    (dist dc e1 e2 ec : α) :
    Gen.Similarity.absKernel.eval fnI (envOf [dist, dc, e1, e2, ec]) β =
      (decide (dist < dc) && sameEnergy ec e1 e2) := by
  rw [Bool.eq_iff_iff]
  simp only [Gen.Similarity.absKernel, B.eval, E.eval, envOf, habs, Bool.and_eq_true,
    decide_eq_true_eq, sameEnergy_iff, List.getD_cons_zero, List.getD_cons_succ, Bool.or_eq_true,
    Bool.not_eq_true', decide_eq_false_iff_not, not_lt, not_le, abs_sub_comm e2 e1]
  try tauto

/-- Bridge: the proportional branch returns
    `sum_distances <= 1.0 and |energy1 - energy2| < energy_criterion`. -/
theorem C03_bridge_prop (fnI : Fn → α → α) (habs : ∀ x, fnI .abs x = |x|) (β : Nat → Bool)
    (sum dc e1 e2 ec : α) :
    Gen.Similarity.propKernel.eval fnI (envOf [sum, dc, e1, e2, ec]) β =
      (decide (sum ≤ ((1 : Nat) : α)) && sameEnergy ec e1 e2) := by
  rw [Bool.eq_iff_iff]
  simp only [Gen.Similarity.propKernel, B.eval, E.eval, envOf, habs, Bool.and_eq_true,
    decide_eq_true_eq, sameEnergy_iff, List.getD_cons_zero, List.getD_cons_succ, Bool.or_eq_true,
    Bool.not_eq_true', decide_eq_false_iff_not, not_lt, not_le, abs_sub_comm e2 e1,
    Int.cast_one, Nat.cast_one, div_one, Int.cast_ofNat, Nat.cast_ofNat]
  try tauto

/-- Bridge: the term under `np.sum` is `((x - y) / ((hi - lo) * criterion))²`. -/
theorem C03_bridge_propTerm (fnI : Fn → α → α) (x y hi lo dc : α) :
    Gen.Similarity.propTermE.eval fnI (envOf [x, y, hi, lo, dc]) = propTerm dc lo hi x y := by
  simp only [Gen.Similarity.propTermE, E.eval, envOf, npow, propTerm, List.getD_cons_zero,
    List.getD_cons_succ, Nat.cast_one, Int.cast_one, Nat.cast_ofNat, Int.cast_ofNat]
  ring

/-- Bridge: `distance` is the Euclidean norm of the difference. -/
theorem C03_bridge_norm : Gen.Similarity.distanceIsNorm = true := by decide

end numeric

/-! ## B. the gate, for ANY match relation -/

variable {δ : Type}

/-- Bridge: the network-touching statements of the current `test_new_ts`, executed in source
    order, are the modelled gate (repeat check; plus looked up then inserted; THEN minus looked up
    against the network that already holds plus; `add_ts`).  The pre-repair order fails here. -/
theorem C03_bridge_steps (same : δ → δ → Bool) (c : Bool) (s : Ktn δ) (r : Rec δ) :
    runSteps same c Gen.Similarity.cfg.testNewTsSteps s r = testNewTs same c s r := by
  simp only [Gen.Similarity.cfg, runSteps, List.foldl_cons, List.foldl_nil, runStep, testNewTs,
    lookupOrInsert]
  cases h1 : isNewTs same s r.ts
  · simp
  · cases h2 : isNewMinimum same s r.plus <;>
      simp [TsRun.setIdx, TsRun.idx, Rec.side, h2] <;>
      (split <;> simp_all [TsRun.setIdx, TsRun.idx, Rec.side])

/-- Bridge: the store's counter rule is the repaired one (needed for `Ktn.Inv`). -/
theorem C03_bridge_counter : Gen.Ktn.cfg.addTsCountsOnlyNew = true := by decide

/-- A candidate that matches a stored point adds nothing (any relation, any network). -/
theorem C03_match_adds_nothing (same : δ → δ → Bool) (c : Bool) (s : Ktn δ) :
    (∀ d i, isNewMinimum same s d = some i → testNewMinimum same s d = s) ∧
    (∀ r, isNewTs same s r.ts = false → testNewTs same c s r = s) ∧
    (∀ d i, isNewMinimum same s d = some i → Inv s →
      ∃ x, s.nodeData? i = some x ∧ same d x = true ∧
        ∀ j, j < i → ∀ y, s.nodeData? j = some y → same d y = false) :=
  ⟨fun _ _ h => testNewMinimum_of_some h, fun _ h => testNewTs_repeat h,
   fun _ _ h hs => by
     obtain ⟨nd, _, _, h3, _, h5⟩ := isNewMinimum_some hs h
     exact ⟨nd.data, h5, h3, isNewMinimum_first hs h⟩⟩

/-- A candidate minimum that matches no stored minimum is stored: appended with the next label,
    everything else untouched. -/
theorem C03_new_minimum_is_stored (same : δ → δ → Bool) (s : Ktn δ) (hs : Inv s) (d : δ)
    (h : isNewMinimum same s d = none) :
    (testNewMinimum same s d).nodes = s.nodes ++ [⟨s.nMin, d⟩] ∧
    (testNewMinimum same s d).nMin = s.nMin + 1 ∧
    (testNewMinimum same s d).edges = s.edges ∧ (testNewMinimum same s d).nTs = s.nTs ∧
    (testNewMinimum same s d).nodeData? s.nMin = some d := by
  rw [testNewMinimum_of_none h]
  have := (nodeData_addMin hs d).1
  rw [addMin_eq hs] at *
  exact ⟨rfl, rfl, rfl, rfl, this⟩

/-- A candidate transition state that matches no stored one is stored — on the pair of minima
    its two sides resolve to (each the first stored minimum it matches, else newly appended;
    the two may coincide: a self-connection), replacing that pair's previous transition state
    and touching no other pair. -/
theorem C03_new_ts_is_stored (same : δ → δ → Bool) (hsym : ∀ x y, same x y = same y x)
    (s : Ktn δ) (hs : GateInv same s) (r : Rec δ) (h : isNewTs same s r.ts = true) :
    ∃ ip im,
      Rep same (testNewTs same true s r) ip r.plus ∧ Rep same (testNewTs same true s r) im r.minus ∧
      (testNewTs same true s r).edgeData? ip im = some r.ts ∧
      (∀ a b, Edge.joins (⟨a, b, r.ts⟩ : Edge δ) ip im = false →
        (testNewTs same true s r).edgeData? a b = s.edgeData? a b) ∧
      (testNewTs same true s r).nMin ≤ s.nMin + 2 := by
  obtain ⟨ip, im, _, _, h3, h4, h5, h6, _, _, h9, _⟩ := testNewTs_new_spec hsym hs r h
  exact ⟨ip, im, h3, h4, h5, h6, h9⟩

/-- what "pairwise non-matching" means for the stored points -/
def Distinct (same : δ → δ → Bool) (s : Ktn δ) : Prop :=
  s.nodes.Pairwise (fun a b => same a.data b.data = false ∧ same b.data a.data = false) ∧
  s.edges.Pairwise (fun a b => same a.data b.data = false ∧ same b.data a.data = false)

theorem distinct_of_gateInv {same : δ → δ → Bool} (hsym : ∀ x y, same x y = same y x) {s : Ktn δ}
    (h : GateInv same s) : Distinct same s :=
  ⟨h.mins.imp (fun {a b} hab => ⟨by rw [hsym]; exact hab, hab⟩),
   h.tss.imp (fun {a b} hab => ⟨hab.2, hab.1⟩)⟩

/-- **The gate-stream invariant.**  For ANY symmetric match relation (no transitivity, no
    reflexivity) and ANY stream of offers — minima, successful and failed searches, merges of
    whole networks, resets (reconvergence) — in any interleaving, starting from any network
    that satisfies the invariant (in particular the empty one): the store stays coherent
    (`Ktn.Inv`: labels `0..n-1`, counters = contents, one transition state per pair, endpoints
    exist), no two stored minima match and no two stored transition states match.
    Symmetry is needed only because a transition state may REPLACE the one of an already
    connected pair: the newcomer was tested as the candidate against the older ones, the
    invariant then needs the older ones not to match it as candidates either. -/
theorem C03_gate_stream (same : δ → δ → Bool) (hsym : ∀ x y, same x y = same y x)
    (s : Ktn δ) (hs : GateInv same s) (offers : List (Offer δ)) :
    GateInv same (run same Gen.Ktn.cfg.addTsCountsOnlyNew s offers) ∧
    Inv (run same Gen.Ktn.cfg.addTsCountsOnlyNew s offers) ∧
    Distinct same (run same Gen.Ktn.cfg.addTsCountsOnlyNew s offers) := by
  rw [C03_bridge_counter]
  have := run_gateInv hsym offers hs
  exact ⟨this, this.inv, distinct_of_gateInv hsym this⟩

/-- the same from the empty network, with the pairwise statement spelled out on labels -/
theorem C03_gate_stream_from_empty (same : δ → δ → Bool) (hsym : ∀ x y, same x y = same y x)
    (offers : List (Offer δ)) :
    let s := run same Gen.Ktn.cfg.addTsCountsOnlyNew (empty : Ktn δ) offers
    Inv s ∧
    (∀ a ∈ s.nodes, ∀ b ∈ s.nodes, a.label ≠ b.label → same a.data b.data = false) ∧
    (∀ a ∈ s.edges, ∀ b ∈ s.edges, Edge.joins a b.u b.v = false → same a.data b.data = false) := by
  intro s
  obtain ⟨_, hi, hn, he⟩ := C03_gate_stream same hsym empty (gateInv_empty same) offers
  refine ⟨hi, ?_, ?_⟩
  · intro a ha b hb hab
    have : Std.Symm (fun (a b : Node δ) => same a.data b.data = false ∧ same b.data a.data = false) :=
      ⟨fun _ _ h => ⟨h.2, h.1⟩⟩
    exact (hn.forall ha hb (fun h => hab (by rw [h]))).1
  · intro a ha b hb hab
    have : Std.Symm (fun (a b : Edge δ) => same a.data b.data = false ∧ same b.data a.data = false) :=
      ⟨fun _ _ h => ⟨h.2, h.1⟩⟩
    refine (he.forall ha hb ?_).1
    intro h
    subst h
    simp [Edge.joins] at hab

/-- For the minima alone no property of the relation is needed at all: in a stream of minimum
    offers (global optimisation, `reconverge_minima`) every stored minimum fails to match, as a
    candidate, every minimum stored before it — whatever `same` is. -/
theorem C03_minima_stream_any_relation (same : δ → δ → Bool) (mins : List δ) :
    (mins.foldl (testNewMinimum same) (empty : Ktn δ)).nodes.Pairwise
      (fun a b => same b.data a.data = false) ∧
    Inv (mins.foldl (testNewMinimum same) (empty : Ktn δ)) := by
  have := (foldMin_spec (same := same) mins (gateInv_empty same)).1
  exact ⟨this.mins, this.inv⟩

/-- With reflexivity, every minimum offered to the gate (directly or as part of a merged
    network) matches a stored minimum afterwards, and keeps doing so for the rest of the stream
    (as long as the network is not reset). -/
theorem C03_offered_minimum_represented (same : δ → δ → Bool) (hsym : ∀ x y, same x y = same y x)
    (hrefl : ∀ x, same x x = true) (s : Ktn δ) (hs : GateInv same s) (offers : List (Offer δ))
    (hnr : ∀ o ∈ offers, o.isReset = false) :
    ∀ o ∈ offers, ∀ d ∈ o.minima,
      ∃ nd ∈ (run same Gen.Ktn.cfg.addTsCountsOnlyNew s offers).nodes, same d nd.data = true := by
  rw [C03_bridge_counter]
  intro o ho d hd
  obtain ⟨i, x, hx, hd'⟩ := run_rep hsym offers hs hnr o ho d hd
  obtain ⟨nd, hnd, _, rfl⟩ := mem_of_nodeData hx
  refine ⟨nd, hnd, ?_⟩
  rcases hd' with h | h
  · rw [h]; exact hrefl d
  · exact h

/-- The minima a successful, non-repeated search descended to are represented as well. -/
theorem C03_ts_minima_represented (same : δ → δ → Bool) (hsym : ∀ x y, same x y = same y x)
    (hrefl : ∀ x, same x x = true) (s : Ktn δ) (hs : GateInv same s) (r : Rec δ)
    (h : isNewTs same s r.ts = true) :
    (∃ nd ∈ (testNewTs same true s r).nodes, same r.plus nd.data = true) ∧
    (∃ nd ∈ (testNewTs same true s r).nodes, same r.minus nd.data = true) := by
  obtain ⟨ip, im, _, _, ⟨x, hx, hxd⟩, ⟨y, hy, hyd⟩, _⟩ := testNewTs_new_spec hsym hs r h
  obtain ⟨nd1, hnd1, _, rfl⟩ := mem_of_nodeData hx
  obtain ⟨nd2, hnd2, _, rfl⟩ := mem_of_nodeData hy
  refine ⟨⟨nd1, hnd1, ?_⟩, ⟨nd2, hnd2, ?_⟩⟩
  · rcases hxd with h | h
    · rw [h]; exact hrefl _
    · exact h
  · rcases hyd with h | h
    · rw [h]; exact hrefl _
    · exact h

/-- The two results together for `StandardSimilarity`: over every ordered field, in both modes,
    with positive criteria and ranges, any stream of offers keeps the stored points pairwise
    non-matching and every offered minimum represented. -/
theorem C03_standard_similarity {α : Type} [Field α] [LinearOrder α] [IsStrictOrderedRing α]
    (m : Mode α) (offers : List (Offer (Pt α))) :
    Distinct (testSame m) (run (testSame m) Gen.Ktn.cfg.addTsCountsOnlyNew empty offers) ∧
    (m.positive → (∀ o ∈ offers, o.isReset = false) → ∀ o ∈ offers, ∀ d ∈ o.minima,
      ∃ nd ∈ (run (testSame m) Gen.Ktn.cfg.addTsCountsOnlyNew empty offers).nodes,
        testSame m d nd.data = true) :=
  ⟨(C03_gate_stream _ (C03_same_symm m) empty (gateInv_empty _) offers).2.2,
   fun hm hnr => C03_offered_minimum_represented _ (C03_same_symm m) (C03_same_refl m hm) empty
     (gateInv_empty _) offers hnr⟩

/-- Why the order of look-ups matters (the defect repaired in `test_new_ts`): with both
    look-ups before the insertions, a transition state whose two sides reach the same new
    minimum stores that minimum twice — two stored minima that match. -/
theorem C03_both_lookups_first_stores_twice :
    (runSteps (fun (a b : Nat) => a == b) true stepsBeforeFix empty ⟨0, 1, 1⟩).nodes.map (·.data) = [1, 1] ∧
    (testNewTs (fun (a b : Nat) => a == b) true empty ⟨0, 1, 1⟩).nodes.map (·.data) = [1] := by
  decide

/-- Symmetry cannot be dropped from `C03_gate_stream`: with a one-directional relation a
    replacement leaves two stored transition states of which one matches the other. -/
theorem C03_symmetry_needed :
    let same : Nat → Nat → Bool := fun cand stored => cand == stored || (cand == 7 && stored == 9)   -- 7 matches 9, not conversely
    let s := run same true (empty : Ktn Nat)
      [.ts ⟨5, 0, 1⟩, .ts ⟨7, 0, 2⟩, .ts ⟨9, 0, 1⟩]
    s.edges.map (·.data) = [9, 7] ∧ same 7 9 = true := by
  decide

/-! ### non-vacuity -/

/-- a stream with an exact repeat, a repeated transition state (105 ~ 100: dropped with its
    minima), a merge, a self-connection and a replacement reaches a
    non-trivial network that satisfies the hypotheses and the conclusions -/
example :
    let same : Nat → Nat → Bool := fun a b => a / 10 == b / 10      -- "same decade"
    let s := run same Gen.Ktn.cfg.addTsCountsOnlyNew (empty : Ktn Nat)
      [.minimum 10, .minimum 12, .minimum 20, .ts ⟨100, 11, 21⟩, .ts ⟨105, 30, 31⟩, .failed,
       .ts ⟨110, 22, 13⟩, .ts ⟨120, 40, 40⟩, .merge [50, 14] [⟨130, 50, 14⟩] [(0, 1)]]
    s.nodes.map (·.data) = [10, 20, 40, 50] ∧
    s.edges.map (fun e => (e.u, e.v, e.data)) = [(0, 1, 110), (2, 2, 120), (3, 0, 130)] ∧
    s.nTs = 3 ∧ s.pairlist = [(0, 3)] := by
  decide

example : testSame (.abs (5 : Rat) 1) ⟨[0, 0], 0⟩ ⟨[3, 4], 0⟩ = false ∧
    testSame (.abs (5 : Rat) 1) ⟨[0, 0], 0⟩ ⟨[3, 3], 0⟩ = true ∧
    testSame (.prop (1/4 : Rat) 1 [0, 0] [4, 8]) ⟨[0, 0], 0⟩ ⟨[1, 0], 0⟩ = true ∧
    testSame (.prop (1/4 : Rat) 1 [0, 0] [4, 8]) ⟨[0, 0], 0⟩ ⟨[1, 1/8], 0⟩ = false := by
  decide +kernel

end TopSearch.Props.C03
