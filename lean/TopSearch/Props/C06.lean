/-
  C06 — saving a network and reading it back reproduces it.
  Property theorems only (helpers live in Lemmas/IO.lean).
-/
import TopSearch.Lemmas.IO
import TopSearch.Gen.IOSpec

namespace TopSearch.Props.C06
open TopSearch TopSearch.Ktn TopSearch.IO
variable {α : Type}

/-- Bridge (tie #1): what the translator read from the current `read_network` / `dump_network`
    — `ndmin=2` for every table, the history `dtype=int` and reshaped to `(-1, 2)`, the index
    patterns `[i,0] [i,1] ([i,2]) [i,:]`, the formats `%i %8.5f`, `%i %i %8.5f`, `%.18e`, `%i` —
    is the specification the round-trip theorem is proved for. -/
theorem C06_bridge_spec :
    Gen.IOSpec.readSpec = ReadSpec.repaired ∧ Gen.IOSpec.dumpSpec = DumpSpec.standard := by
  decide

/-- **Round trip.**  For every coherent network (labels `0..n-1`, counters equal to contents, at
    most one transition state per pair — what C02 guarantees for every edit history) with
    `n ≥ 1` minima, any number `m ≥ 0` of transition states on any pairs (self-connections
    included), one coordinate dimension `k ≥ 1` and any attempt history: `dump_network` succeeds
    and `read_network` — with the `ndmin=`, `dtype`, reshape and index patterns found in the
    *current* source — returns, without error, the same network: same numbering, same
    coordinates, transition states on the same pairs with their coordinates, same counts, same
    history; energies are `round5 e` (the five decimals written). -/
theorem C06_roundtrip (round5 : α → α) (net : Ktn (Pt α)) (hinv : Inv net) (hn : 1 ≤ net.nMin)
    (k : Nat) (hk : 1 ≤ k) (hdn : ∀ nd ∈ net.nodes, nd.data.coords.length = k)
    (hde : ∀ e ∈ net.edges, e.data.coords.length = k) :
    ∃ files, dumpNetwork round5 Gen.IOSpec.dumpSpec net = .ok files ∧
      readNetwork Gen.IOSpec.readSpec files = .ok (roundNet round5 net) := by
  rw [C06_bridge_spec.1, C06_bridge_spec.2]
  exact ⟨_, dump_ok round5 net hinv hn k hdn hde, read_dumped round5 net hinv k hk hdn hde⟩


/-- What "the same network" means, clause by clause: the restored network `roundNet round5 net`
    has the same counts, the same numbering, the same history; every minimum has its
    coordinates unchanged and its energy rounded; every pair (in either orientation) carries a
    transition state iff it did, with the same coordinates and the rounded energy. -/
theorem C06_roundtrip_contents (round5 : α → α) (net : Ktn (Pt α)) :
    (roundNet round5 net).nMin = net.nMin ∧ (roundNet round5 net).nTs = net.nTs ∧
    (roundNet round5 net).pairlist = net.pairlist ∧
    (roundNet round5 net).nodes.map (·.label) = net.nodes.map (·.label) ∧
    (∀ i, (roundNet round5 net).nodeData? i = (net.nodeData? i).map (roundPt round5)) ∧
    (∀ u v, (roundNet round5 net).edgeData? u v = (net.edgeData? u v).map (roundPt round5)) ∧
    (∀ p : Pt α, (roundPt round5 p).coords = p.coords ∧ (roundPt round5 p).energy = round5 p.energy) := by
  refine ⟨rfl, rfl, rfl, ?_, ?_, ?_, fun p => ⟨rfl, rfl⟩⟩
  · simp [roundNet, List.map_map, Function.comp]
  · intro i
    simp only [roundNet, nodeData?, List.find?_map, Option.map_map]
    rfl
  · intro u v
    simp only [roundNet, edgeData?, List.find?_map, Option.map_map]
    rfl

/-- With the format contract "`%8.5f` is idempotent" a restored network round-trips *exactly*:
    saving and reading it again changes nothing at all. -/
theorem C06_roundtrip_twice (round5 : α → α) (hidem : ∀ x, round5 (round5 x) = round5 x)
    (net : Ktn (Pt α)) (hinv : Inv net) (hn : 1 ≤ net.nMin)
    (k : Nat) (hk : 1 ≤ k) (hdn : ∀ nd ∈ net.nodes, nd.data.coords.length = k)
    (hde : ∀ e ∈ net.edges, e.data.coords.length = k) :
    ∃ files, dumpNetwork round5 Gen.IOSpec.dumpSpec (roundNet round5 net) = .ok files ∧
      readNetwork Gen.IOSpec.readSpec files = .ok (roundNet round5 net) := by
  have hfix : roundNet round5 (roundNet round5 net) = roundNet round5 net := by
    simp [roundNet, roundPt, List.map_map, Function.comp, hidem]
  have := C06_roundtrip round5 (roundNet round5 net) (inv_roundNet round5 net hinv) hn k hk
    (by intro nd hnd
        simp only [roundNet, List.mem_map] at hnd
        obtain ⟨n0, hn0, rfl⟩ := hnd
        exact hdn n0 hn0)
    (by intro e he
        simp only [roundNet, List.mem_map] at he
        obtain ⟨e0, he0, rfl⟩ := he
        exact hde e0 he0)
  rw [hfix] at this
  exact this

/-! ### what the repair bought -/

/-- a network with a single minimum (2-D), as the store holds it -/
def oneMin : Ktn (Pt Nat) := { nodes := [⟨0, ⟨[7, 8], 3⟩⟩], nMin := 1 }

/-- With the ORIGINAL `read_network` (`np.loadtxt` without `ndmin=2` for the four tables) the
    round trip of a one-minimum network fails: `min.data` has one row, is squeezed to shape
    `(2,)`, `np.size(·, 0)` is then 2 and `minima_data[0, 0]` raises `IndexError`.  With the
    specification read from the current source the same files restore the network. -/
theorem C06_not_roundtrip_single_row :
    ∃ files, dumpNetwork id DumpSpec.standard oneMin = .ok files ∧
      readNetwork ReadSpec.original files = .error .indexError ∧
      (readNetwork Gen.IOSpec.readSpec files).toOption.map (fun s => (s.nMin, s.nodes, s.pairlist)) =
        some (1, oneMin.nodes, []) :=
  ⟨_, rfl, rfl, rfl⟩

/-- The other single-row shapes under the original specification: a single transition state
    (`ts.data` squeezed to 1-d → `IndexError`), one-dimensional coordinates (`min.coords`
    squeezed → `IndexError`), and an empty history (restored with shape `(0, 1)`). -/
theorem C06_not_roundtrip_original_cases :
    (∃ files, dumpNetwork id DumpSpec.standard
        ({ nodes := [⟨0, ⟨[1, 2], 3⟩⟩, ⟨1, ⟨[4, 5], 6⟩⟩], edges := [⟨0, 1, ⟨[7, 8], 9⟩⟩],
           nMin := 2, nTs := 1, pairlist := [(0, 1), (0, 1)] } : Ktn (Pt Nat)) = .ok files ∧
        readNetwork ReadSpec.original files = .error .indexError) ∧
    (∃ files, dumpNetwork id DumpSpec.standard
        ({ nodes := [⟨0, ⟨[1], 3⟩⟩, ⟨1, ⟨[4], 6⟩⟩], nMin := 2,
           pairlist := [(0, 1), (0, 1)] } : Ktn (Pt Nat)) = .ok files ∧
        readNetwork ReadSpec.original files = .error .indexError) ∧
    (∃ files, dumpNetwork id DumpSpec.standard
        ({ nodes := [⟨0, ⟨[1, 2], 3⟩⟩, ⟨1, ⟨[4, 5], 6⟩⟩], nMin := 2 } : Ktn (Pt Nat)) = .ok files ∧
        readNetwork ReadSpec.original files = .error .historyShape) :=
  ⟨⟨_, rfl, rfl⟩, ⟨_, rfl, rfl⟩, ⟨_, rfl, rfl⟩⟩

/-- "every non-empty network": `dump_network` itself needs a minimum 0 (it reads the dimension
    off it) — for the empty network it raises `KeyError`. -/
theorem C06_dump_needs_minimum (round5 : α → α) (ds : DumpSpec) :
    dumpNetwork round5 ds ({} : Ktn (Pt α)) = .error .keyError := rfl

/-- non-vacuity of `C06_roundtrip`: a 3-minimum network with a self-connection, a second
    transition state and a history satisfies every hypothesis -/
example : ∃ net : Ktn (Pt Nat), Inv net ∧ 1 ≤ net.nMin ∧
    (∀ nd ∈ net.nodes, nd.data.coords.length = 2) ∧ (∀ e ∈ net.edges, e.data.coords.length = 2) ∧
    net.nTs = 2 ∧ net.pairlist = [(0, 2), (1, 1)] :=
  ⟨{ nodes := [⟨0, ⟨[1, 2], 3⟩⟩, ⟨1, ⟨[4, 5], 6⟩⟩, ⟨2, ⟨[0, 9], 1⟩⟩],
     edges := [⟨2, 0, ⟨[7, 8], 9⟩⟩, ⟨1, 1, ⟨[3, 3], 4⟩⟩], nMin := 3, nTs := 2,
     pairlist := [(0, 2), (1, 1)] },
   by refine ⟨by decide, by decide, by decide, by decide⟩, by decide, by decide, by decide, rfl, rfl⟩

end TopSearch.Props.C06
