/-
  C09 — nudged elastic band: fixed ends, in-box images, exact candidates, nudged force,
  no residue.  Property theorems about `Model/Neb.lean` (helpers in `Lemmas/Neb.lean`), over
  every ordered field `α` (so over ℚ — every binary64 value — and ℝ), every dimension, every
  surface (the potential's answers are arbitrary inputs), every `sqrt` meeting its contract.

  Reading of the statement (DESIGN.md §4.0): `max_images ≥ 10`; straight-line interpolation for
  the end-point clause.  The spring-direction clause is FALSE of the code as written
  (DESIGN.md §6 row 12, known finding): `C09_spring_restoring_partial` states what does hold
  (row = coefficient · tangent, |coefficient| = k·|d_prev − d_next|, direction by the sign literal
  read from the source), `C09_spring_sign_as_coded` / `C09_spring_not_restoring_as_coded` prove
  that the coded sign is the wrong one (for all inputs / on the 4-image witness), and
  `C09_spring_restoring_of_repaired_sign` proves the clause for the repaired literal.
-/
import TopSearch.Lemmas.Neb
import TopSearch.Gen.Neb
import Mathlib.Data.List.Range
import Mathlib.Tactic.NormNum

set_option linter.unusedSectionVars false
set_option linter.unusedSimpArgs false
set_option linter.unusedVariables false
set_option linter.unusedTactic false
set_option linter.unreachableTactic false
set_option linter.unnecessarySeqFocus false

namespace TopSearch.Props.C09
open TopSearch TopSearch.Neb
variable {α : Type} [Field α] [LinearOrder α] [IsStrictOrderedRing α]

/-- Bridge (tie #1): the clamp read from the current `linear_interpolation` and
    `dihedral_interpolation` (`< 10`, `= 10`, `> self.max_images`) is the modelled clamp for all
    inputs of the property's domain (`10 ≤ max_images`), and the raw count is `int(self.image_density*dist)`.  A semantically equal rewrite
    (`<= 10`) still proves; a changed constant or operator does not. -/
theorem C09_bridge_clamp (m r : Int) (hm : 10 ≤ m) :
    Gen.Neb.clampLinear m r = clamp m r ∧ Gen.Neb.clampDihedral m r = clamp m r ∧
    Gen.Neb.rawCountIsIntDensityDist = true := by
  refine ⟨?_, ?_, by decide⟩ <;>
    simp only [Gen.Neb.clampLinear, Gen.Neb.clampDihedral, clamp] <;> split_ifs <;> omega

/-- Bridge: `update_image_density` multiplies the original density by `1.5` and `attempts`;
    `revert_image_density` restores the original; in `initial_interpolation` the update happens
    before and the revert after the interpolation, both under the guard `attempts > 0`. -/
theorem C09_bridge_retry :
    (Gen.Neb.retryNum = 3 ∧ Gen.Neb.retryDen = 2 ∧ Gen.Neb.retryOrigPow = 1 ∧
      Gen.Neb.retryAttemptsPow = 1) ∧
    Gen.Neb.revertRestoresOriginal = true ∧ Gen.Neb.revertAfterInterpolation = true ∧
    ∀ a : Int, Gen.Neb.updateGuard a = retryGuard a ∧ Gen.Neb.revertGuard a = retryGuard a := by
  refine ⟨by decide, by decide, by decide, fun a => ⟨?_, ?_⟩⟩ <;>
    simp only [Gen.Neb.updateGuard, Gen.Neb.revertGuard, retryGuard] <;> rw [decide_eq_decide] <;> omega

/-- Bridge: `find_ts_candidates` scans `range(1, n_images-1)` with the test
    `e[i] >= e[i+1] and e[i] >= e[i-1]` (read from the source, for every ordered field). -/
theorem C09_bridge_candidates :
    Gen.Neb.candLo = 1 ∧ Gen.Neb.candOff = 1 ∧
    ∀ (a b c : α), Gen.Neb.candTest a b c = true ↔ (b ≥ a ∧ b ≥ c) := by
  refine ⟨by decide, by decide, fun a b c => ?_⟩
  simp only [Gen.Neb.candTest, Bool.and_eq_true, Bool.or_eq_true, decide_eq_true_eq, ge_iff_le,
    gt_iff_lt] <;> tauto

/-- Bridge: the case analysis of `find_tangent_differences` as read from the source: literal
    `-1.0` in front of `np.diff(band)`, loop `range(1, n_images-1)`, thresholds `>= 1`, `<= -1`,
    `== 0` of the if/elif chain (compared on the reachable sums −2..2), the neighbour difference
    selected in each case, the extremum test and its `v_max`/`v_min` weights. -/
theorem C09_bridge_tangent :
    Gen.Neb.posDiffCoef = -1 ∧ Gen.Neb.tanLo = 1 ∧ Gen.Neb.tanOff = 1 ∧
    (∀ s : Int, -2 ≤ s → s ≤ 2 →
      Gen.Neb.tanUp s = decide (s ≥ 1) ∧
      (Gen.Neb.tanUp s = false → Gen.Neb.tanDown s = decide (s ≤ -1)) ∧
      (Gen.Neb.tanUp s = false → Gen.Neb.tanDown s = false → Gen.Neb.tanZero s = decide (s = 0))) ∧
    (Gen.Neb.tanUpSel = 0 ∧ Gen.Neb.tanDownSel = 1 ∧ Gen.Neb.tanFlatSel = 1) ∧
    (Gen.Neb.tanExtThen = (0, 1) ∧ Gen.Neb.tanExtElse = (1, 0)) ∧
    ∀ (a c : α), Gen.Neb.tanExtTest a c = true ↔ c ≥ a := by
  refine ⟨by decide, by decide, by decide, ?_, by decide, by decide, fun a c => ?_⟩
  · intro s h1 h2
    refine ⟨?_, fun h => ?_, fun h h' => ?_⟩ <;>
      simp only [Gen.Neb.tanUp, Gen.Neb.tanDown, Gen.Neb.tanZero, decide_eq_false_iff_not] at * <;>
      rw [decide_eq_decide] <;> omega
  · simp only [Gen.Neb.tanExtTest, Bool.and_eq_true, Bool.or_eq_true, decide_eq_true_eq, ge_iff_le,
      gt_iff_lt] <;> tauto

/-- Bridge: `perpendicular_component` cuts off with a strict `<` at a constant in (0, 1) (so a
    unit tangent is never cut and a zero tangent always is). -/
theorem C09_bridge_perp_cut :
    Gen.Neb.cutIsStrictLess = true ∧ 0 < Gen.Neb.cutNum ∧ Gen.Neb.cutNum < Gen.Neb.cutDen := by
  refine ⟨by decide, by decide, by decide⟩

/-- Bridge: `band_gradient` starts as zeros and is written only inside
    `for i in range(1, n_images-1)` at row `i`; the spring rows are `g_parallel[1:-1, :]`. -/
theorem C09_bridge_end_rows :
    Gen.Neb.asmLo = 1 ∧ Gen.Neb.asmOff = 1 ∧ Gen.Neb.bandGradientZeroInit = true ∧
    Gen.Neb.bandGradientOnlyLoopWrites = true ∧ Gen.Neb.springSliceInterior = true := by
  decide

/-- Bridge: the literals in front of `np.diff(distances)`, `np.diff(band)` are signs; the tangent
    literal is `-1` (the model's convention).  The spring literal may be either sign: the theorems
    below cover both (`-1` is the code as written — the known finding; `+1` is the repair). -/
theorem C09_bridge_spring_literals :
    (Gen.Neb.springCoef = -1 ∨ Gen.Neb.springCoef = 1) ∧ Gen.Neb.posDiffCoef = -1 ∧
    (Gen.Neb.diffCoef = -1 ∨ Gen.Neb.diffCoef = 1) := by
  decide

/-- For every raw count (every density, distance and retry count) the clamped number of images
    lies between 10 and `max_images`, provided `10 ≤ max_images` — for the model and for the
    kernels regenerated from the source (linear and dihedral interpolation). -/
theorem C09_image_count (maxImages raw : Int) (h : 10 ≤ maxImages) :
    10 ≤ clamp maxImages raw ∧ clamp maxImages raw ≤ maxImages ∧
    10 ≤ Gen.Neb.clampLinear maxImages raw ∧ Gen.Neb.clampLinear maxImages raw ≤ maxImages ∧
    10 ≤ Gen.Neb.clampDihedral maxImages raw ∧ Gen.Neb.clampDihedral maxImages raw ≤ maxImages := by
  rw [(C09_bridge_clamp maxImages raw h).1, (C09_bridge_clamp maxImages raw h).2.1]
  simp only [clamp]
  split_ifs <;> omega

theorem linInterp_length (x1 x2 : List α) (n : Nat) : (linInterp x1 x2 n).length = n := by
  simp [linInterp]

theorem linInterp_getElem? (x1 x2 : List α) (n i : Nat) (hi : i < n) :
    (linInterp x1 x2 n)[i]? =
      some (List.zipWith (fun a b => a + (b - a) / (((n - 1 : Nat)) : α) * ((i : Nat) : α)) x1 x2) := by
  simp [linInterp, hi, interp_row]

/-- Straight-line interpolation has `n` images, begins at `x₁` and ends at `x₂` (exact
    arithmetic; `n ≥ 2`, and `n ≥ 10` always holds by `C09_image_count`). -/
theorem C09_endpoints (x1 x2 : List α) (n : Nat) (hn : 2 ≤ n) (hl : x1.length = x2.length) :
    (linInterp x1 x2 n).length = n ∧ (linInterp x1 x2 n)[0]? = some x1 ∧
    (linInterp x1 x2 n)[n - 1]? = some x2 := by
  refine ⟨linInterp_length _ _ _, ?_, ?_⟩
  · rw [linInterp_getElem? x1 x2 n 0 (by omega)]
    congr 1
    exact zipWith_left_of_length _ (by intro a b; simp) x1 x2 hl
  · rw [linInterp_getElem? x1 x2 n (n - 1) (by omega)]
    congr 1
    have hc : (((n - 1 : Nat)) : α) ≠ 0 := by
      have : (n - 1 : Nat) ≠ 0 := by omega
      exact_mod_cast this
    exact zipWith_right_of_length _ (by intro a b; field_simp; ring) x1 x2 hl

/-- Convexity: every image of the straight-line interpolation lies in the box when both ends do —
    any dimension, any box. -/
theorem C09_interp_in_box (box : List (α × α)) (x1 x2 : List α) (n : Nat) (hn : 2 ≤ n)
    (h1 : InBox box x1) (h2 : InBox box x2) : ∀ row ∈ linInterp x1 x2 n, InBox box row := by
  intro row hrow
  simp only [linInterp, List.mem_map, List.mem_range] at hrow
  obtain ⟨i, hi, rfl⟩ := hrow
  rw [interp_row]
  have hc : (0 : α) < (((n - 1 : Nat)) : α) := by
    have : 0 < (n - 1 : Nat) := by omega
    exact_mod_cast this
  have ht : ((i : Nat) : α) ≤ (((n - 1 : Nat)) : α) := by
    have : i ≤ n - 1 := by omega
    exact_mod_cast this
  exact inBox_zipWith _ box
    (fun b u v hu hv => convex_coord b.1 b.2 u v _ _ hc (Nat.cast_nonneg i) ht hu hv) x1 x2 h1 h2

/-- non-vacuity of `C09_interp_in_box` / `C09_endpoints`: a 2-D pair in a box, 10 images -/
example : InBox [((-3 : ℚ), 3), (-2, 2)] [-1, 1] ∧ InBox [((-3 : ℚ), 3), (-2, 2)] [2, -2] := by
  constructor <;> (unfold InBox; repeat (first | exact List.Forall₂.nil | refine List.Forall₂.cons (by norm_num) ?_))

section gradient
variable (c1 : Int) (sqrt : α → α) (cut : α) (n : Nat) (ks : List α) (band : List (List α))
  (fg : List (α × List α))

theorem bandGradient_length : (bandGradient c1 sqrt cut n ks band fg).2.length = n := by
  simp [bandGradient]

/-- The first and the last row of the band gradient are zero vectors (of the band's dimension),
    for every band, every surface (`fg` are the potential's answers), every force constants. -/
theorem C09_end_gradient_zero (hn : 1 ≤ n) :
    (bandGradient c1 sqrt cut n ks band fg).2[0]? = some (zeros (band.getD 0 []).length) ∧
    (bandGradient c1 sqrt cut n ks band fg).2[n - 1]? = some (zeros (band.getD 0 []).length) := by
  constructor
  · simp [bandGradient, show 0 < n by omega]
  · simp [bandGradient, show n - 1 < n by omega]

/-- Assembly of the force: every interior row `i` (`1 ≤ i ≤ n−2`) of the band gradient is the spring
    row of that image plus `perp` of the *true* gradient the potential returned for that image,
    taken against that image's tangent (the zero-filling of the end rows of the potential
    gradient does not touch interior images). -/
theorem C09_interior_row (i : Nat) (h1 : 1 ≤ i) (h2 : i + 1 < n) :
    (bandGradient c1 sqrt cut n ks band fg).2[i]? =
      some (vadd ((springRows c1 (distances sqrt band) ks
                    (tangents sqrt n band (fg.map (·.1)))).getD (i - 1) [])
                 (perp cut ((fg.map (·.2)).getD i [])
                    ((tangents sqrt n band (fg.map (·.1))).getD (i - 1) []))) := by
  have hi : i < n := by omega
  have hi' : i < n - 1 := by omega
  have hz : (zeroEnds (band.getD 0 []).length n (fg.map (·.2))).getD i [] = (fg.map (·.2)).getD i [] := by
    simp only [zeroEnds, List.getD_eq_getElem?_getD]
    rw [List.getElem?_set_ne (by omega), List.getElem?_set_ne (by omega)]
  simp only [bandGradient, List.getElem?_map, List.getElem?_range hi, Option.map_some, hz]
  simp [h1, hi']

end gradient

/-- The part of the L-BFGS-B contract (`LBFGSB`, DESIGN.md §2.3) used by C09, for an objective
    whose gradient rows are `G band`, started at `x0` under the per-image box `box`, with result
    `xs`: the result has the shape of the start, every image of the result lies in the box, and an
    image whose gradient row is identically zero (for every band of that shape) and that starts
    inside the box does not move. -/
structure LBFGSB (G : List (List α) → List (List α)) (box : List (α × α))
    (x0 xs : List (List α)) : Prop where
  shape : xs.length = x0.length
  inBox : ∀ row ∈ xs, InBox box row
  zeroGradFixed : ∀ i : Nat, (∀ b : List (List α), b.length = x0.length →
      ∃ r, (G b)[i]? = some r ∧ ∀ v ∈ r, v = 0) →
      (∀ r, x0[i]? = some r → InBox box r) → xs[i]? = x0[i]?

/-- non-vacuity of the contract: the optimiser that returns its start satisfies it when the
    start lies in the box -/
example (G : List (List α) → List (List α)) (box : List (α × α)) (x0 : List (List α))
    (h : ∀ row ∈ x0, InBox box row) : LBFGSB G box x0 x0 :=
  ⟨rfl, h, fun _ _ _ => rfl⟩

/-- Under the `LBFGSB` contract the optimisation of the band does not move the end images: their
    gradient rows are identically zero (`C09_end_gradient_zero`) — for every surface `fgOf`. -/
theorem C09_ends_fixed_of_LBFGSB (c1 : Int) (sqrt : α → α) (cut : α) (n : Nat) (ks : List α)
    (fgOf : List α → α × List α) (box : List (α × α)) (x0 xs : List (List α)) (hn : 1 ≤ n)
    (hL : LBFGSB (fun b => (bandGradient c1 sqrt cut n ks b (b.map fgOf)).2) box x0 xs)
    (h0 : ∀ r, x0[0]? = some r → InBox box r) (h1 : ∀ r, x0[n - 1]? = some r → InBox box r) :
    xs[0]? = x0[0]? ∧ xs[n - 1]? = x0[n - 1]? := by
  constructor
  · exact hL.zeroGradFixed 0 (fun b _ => ⟨_, (C09_end_gradient_zero c1 sqrt cut n ks b _ hn).1,
      by simp [zeros]⟩) h0
  · exact hL.zeroGradFixed (n - 1) (fun b _ => ⟨_, (C09_end_gradient_zero c1 sqrt cut n ks b _ hn).2,
      by simp [zeros]⟩) h1

/-- End to end for straight-line interpolation between two points of the box, under the `LBFGSB`
    contract: every image is in the box before and after the optimisation, and the optimised band
    still begins at `x₁` and ends at `x₂`. -/
theorem C09_in_box_of_LBFGSB (c1 : Int) (sqrt : α → α) (cut : α) (n : Nat) (ks : List α)
    (fgOf : List α → α × List α) (box : List (α × α)) (x1 x2 : List α) (xs : List (List α))
    (hn : 2 ≤ n) (h1 : InBox box x1) (h2 : InBox box x2)
    (hL : LBFGSB (fun b => (bandGradient c1 sqrt cut n ks b (b.map fgOf)).2) box
      (linInterp x1 x2 n) xs) :
    (∀ row ∈ linInterp x1 x2 n, InBox box row) ∧ (∀ row ∈ xs, InBox box row) ∧
    xs.length = n ∧ xs[0]? = some x1 ∧ xs[n - 1]? = some x2 := by
  have hl : x1.length = x2.length := (List.Forall₂.length_eq h1).symm.trans (List.Forall₂.length_eq h2)
  obtain ⟨e0, e1, e2⟩ := C09_endpoints x1 x2 n hn hl
  have hf := C09_ends_fixed_of_LBFGSB c1 sqrt cut n ks fgOf box _ xs (by omega) hL
    (fun r hr => by rw [e1] at hr; cases hr; exact h1) (fun r hr => by rw [e2] at hr; cases hr; exact h2)
  exact ⟨C09_interp_in_box box x1 x2 n hn h1 h2, hL.inBox, hL.shape.trans e0, hf.1.trans e1,
    hf.2.trans e2⟩

/-- `i` is returned as a candidate iff it is an interior image (`1 ≤ i ≤ n−2`) whose energy is not
    exceeded by either neighbour (ties count). -/
theorem C09_candidates_iff (n : Nat) (e : List α) (h : e.length = n) (i : Nat) :
    i ∈ candidateIdx n e ↔
      1 ≤ i ∧ i + 2 ≤ n ∧ ∃ a b c, e[i - 1]? = some a ∧ e[i]? = some b ∧ e[i + 1]? = some c ∧
        b ≥ a ∧ b ≥ c := by
  simp only [candidateIdx, List.mem_filter, List.mem_range'_1, Bool.and_eq_true, decide_eq_true_eq]
  constructor
  · rintro ⟨⟨hk1, hk2⟩, h1, h2⟩
    have a1 : i - 1 < e.length := by omega
    have a2 : i < e.length := by omega
    have a3 : i + 1 < e.length := by omega
    refine ⟨by omega, by omega, e[i - 1], e[i], e[i + 1],
      List.getElem?_eq_getElem a1, List.getElem?_eq_getElem a2, List.getElem?_eq_getElem a3, ?_, ?_⟩
    · simpa [List.getD_eq_getElem?_getD, List.getElem?_eq_getElem a1, List.getElem?_eq_getElem a2] using h2
    · simpa [List.getD_eq_getElem?_getD, List.getElem?_eq_getElem a3, List.getElem?_eq_getElem a2] using h1
  · rintro ⟨h1, h2, a, b, c, ha, hb, hc, hba, hbc⟩
    refine ⟨⟨by omega, by omega⟩, ?_, ?_⟩
    · simpa [List.getD_eq_getElem?_getD, hb, hc] using hbc
    · simpa [List.getD_eq_getElem?_getD, hb, ha] using hba

/-- candidates are returned in ascending order (so without repetition) -/
theorem C09_candidates_ascending (n : Nat) (e : List α) :
    (candidateIdx n e).Pairwise (· < ·) := by
  unfold candidateIdx
  exact List.Pairwise.filter _ (List.pairwise_lt_range')

/-- the returned positions are the rows of the band at the candidate indices, in order -/
theorem C09_candidates_positions (n : Nat) (band : List (List α)) (e : List α)
    (hb : band.length = n) (he : e.length = n) :
    (findTsCandidates n band e).1 = candidateIdx n e ∧
    List.Forall₂ (fun i row => band[i]? = some row) (findTsCandidates n band e).1
      (findTsCandidates n band e).2 := by
  refine ⟨rfl, ?_⟩
  simp only [findTsCandidates]
  rw [List.forall₂_map_right_iff]
  apply List.forall₂_same.2
  intro i hi
  have := ((C09_candidates_iff n e he i).1 hi)
  have hlt : i < band.length := by omega
  simp [List.getD_eq_getElem?_getD, List.getElem?_eq_getElem hlt]

/-- Above the code's `|τ|²` cut-off the perpendicular component has no component along `τ`. -/
theorem C09_nudged_orthogonal (cut : α) (hc : 0 < cut) (v t : List α) (hl : v.length = t.length)
    (ht : cut ≤ dot t t) : dot (perp cut v t) t = 0 := by
  have hm : dot t t ≠ 0 := (lt_of_lt_of_le hc ht).ne'
  simp only [perp, if_neg (not_lt.2 ht)]
  rw [dot_vsub_left _ _ _ (by simp [hl]), dot_smul_left]
  field_simp
  ring

/-- `perp v τ` plus the part it removed is `v`; above the cut-off the removed part is the projection
    `(v·τ/τ·τ) τ` — with `C09_interior_row`: the non-spring part of an interior gradient row is the
    true gradient with its along-band component removed.  Below the cut-off (coincident images,
    zero tangent) the code returns the zero vector. -/
theorem C09_nudged_decomposition (cut : α) (v t : List α) (hl : v.length = t.length) :
    vadd (perp cut v t) (removedPart cut v t) = v ∧
    (cut ≤ dot t t → removedPart cut v t = smul (dot v t / dot t t) t) ∧
    (dot t t < cut → perp cut v t = zeros v.length) := by
  refine ⟨?_, fun h => by simp [removedPart, not_lt.2 h], fun h => by simp [perp, h]⟩
  by_cases h : dot t t < cut
  · simp only [perp, removedPart, if_pos h]; exact vadd_zeros_left v
  · simp only [perp, removedPart, if_neg h]; exact vadd_vsub_cancel _ _ (by simp [hl])

/-- every spring row is a scalar multiple of the tangent of its image -/
theorem C09_spring_parallel (c1 : Int) (ds ks : List α) (tau : List (List α)) (j : Nat)
    (row : List α) (h : (springRows c1 ds ks tau)[j]? = some row) :
    ∃ (t : List α) (c : α), tau[j]? = some t ∧ (springCoefs c1 ds ks)[j]? = some c ∧
      row = vscale t c := by
  simp only [springRows, List.getElem?_zipWith_eq_some] at h
  obtain ⟨t, c, ht, hc, rfl⟩ := h
  exact ⟨t, c, ht, hc, rfl⟩

/-- `sign` takes the values −1, 0, 1 -/
theorem sign_cases (x : α) : sign x = 1 ∨ sign x = 0 ∨ sign x = -1 := by
  unfold sign; split_ifs <;> simp

theorem sign_eq_one_iff (x : α) : sign x = 1 ↔ 0 < x := by
  unfold sign; split_ifs <;> simp_all
theorem sign_eq_neg_one_iff (x : α) : sign x = -1 ↔ x < 0 := by
  unfold sign; split_ifs with h1 h2 <;> simp_all
  exact le_of_lt h1
theorem sign_eq_zero_iff (x : α) : sign x = 0 ↔ x = 0 := by
  unfold sign; split_ifs with h1 h2
  · simp; exact h1.ne'
  · simp; exact h2.ne
  · simp; exact le_antisymm (not_lt.1 h1) (not_lt.1 h2)

/-- Which neighbour difference `find_tangent_differences` selects (`pd[i] = xᵢ − xᵢ₊₁`,
    `pd[i−1] = xᵢ₋₁ − xᵢ`; `s0`, `s1` the signs of the energy changes before/after image `i`):
    rising → `pd[i]`; falling → `pd[i−1]`; flat → `pd[i−1]`; strict extremum → the
    `v_max`/`v_min`-weighted sum, the larger weight on `pd[i]` iff `e[i+1] ≥ e[i−1]`; and the three
    tests of the if/elif chain are exhaustive (the all-zero initial row is never left in place). -/
theorem C09_tangent_upwind (d : Nat) (pd : List (List α)) (ed e : List α) (i : Nat) :
    let s0 := sign (ed.getD (i - 1) 0)
    let s1 := sign (ed.getD i 0)
    (s0 + s1 ≥ 1 → rawTangent d pd ed e i = pd.getD i []) ∧
    (s0 + s1 ≤ -1 → rawTangent d pd ed e i = pd.getD (i - 1) []) ∧
    (s0 = 0 → s1 = 0 → rawTangent d pd ed e i = pd.getD (i - 1) []) ∧
    (s0 + s1 = 0 → s0 ≠ 0 → e.getD (i + 1) 0 ≥ e.getD (i - 1) 0 →
      rawTangent d pd ed e i =
        vadd (vscale (pd.getD i []) (maxv (absv (ed.getD (i - 1) 0)) (absv (ed.getD i 0))))
             (vscale (pd.getD (i - 1) []) (minv (absv (ed.getD (i - 1) 0)) (absv (ed.getD i 0))))) ∧
    (s0 + s1 = 0 → s0 ≠ 0 → e.getD (i + 1) 0 < e.getD (i - 1) 0 →
      rawTangent d pd ed e i =
        vadd (vscale (pd.getD i []) (minv (absv (ed.getD (i - 1) 0)) (absv (ed.getD i 0))))
             (vscale (pd.getD (i - 1) []) (maxv (absv (ed.getD (i - 1) 0)) (absv (ed.getD i 0))))) ∧
    (s0 + s1 ≥ 1 ∨ s0 + s1 ≤ -1 ∨ s0 + s1 = 0) := by
  intro s0 s1
  have c0 := sign_cases (ed.getD (i - 1) 0)
  have c1 := sign_cases (ed.getD i 0)
  refine ⟨?_, ?_, ?_, ?_, ?_, ?_⟩
  · intro h; simp only [rawTangent]; rw [if_pos h]
  · intro h; simp only [rawTangent]; rw [if_neg (by omega), if_pos h]
  · intro h0 h1
    simp only [rawTangent]
    rw [if_neg (by omega), if_neg (by omega), if_pos (by omega), if_pos (Or.inl h0)]
  · intro h hs hge
    simp only [rawTangent]
    rw [if_neg (by omega), if_neg (by omega), if_pos h, if_neg (by omega), if_pos hge]
  · intro h hs hlt
    simp only [rawTangent]
    rw [if_neg (by omega), if_neg (by omega), if_pos h, if_neg (by omega), if_neg (not_le.2 hlt)]
  · omega

/-- Row `j` of `find_tangent_differences` belongs to interior image `j+1`: it is the normalised
    `rawTangent` of that image, built from `posDiffs band` whose row `i` is `xᵢ − xᵢ₊₁`
    (pointing from the next image back to image `i`). -/
theorem C09_tangent_rows (sqrt : α → α) (n : Nat) (band : List (List α)) (e : List α) (j : Nat)
    (hj : j < n - 2) :
    (tangents sqrt n band e)[j]? =
      some (normalise sqrt (rawTangent (band.getD 0 []).length (posDiffs band) (ediffs e) e (1 + j))) ∧
    ∀ (i : Nat) (a b : List α), band[i]? = some a → band[i + 1]? = some b →
      (posDiffs band)[i]? = some (vneg (vsub b a)) := by
  refine ⟨by simp [tangents, List.getElem?_range', hj], ?_⟩
  intro i a b ha hb
  simp only [posDiffs, List.getElem?_zipWith_eq_some]
  exact ⟨a, b, ha, by simpa using hb, rfl⟩


/-- After normalisation a tangent is the zero vector (exactly when the selected difference is
    zero) or a unit vector. -/
theorem C09_tangent_unit_or_zero (sqrt : α → α)
    (hs : ∀ x, 0 ≤ x → 0 ≤ sqrt x ∧ sqrt x * sqrt x = x) (v : List α) :
    (normalise sqrt v = zeros v.length ∧ dot v v = 0) ∨
    (dot (normalise sqrt v) (normalise sqrt v) = 1 ∧
      normalise sqrt v = vdiv v (sqrt (dot v v)) ∧ 0 < sqrt (dot v v)) := by
  obtain ⟨h0, h1⟩ := hs _ (dot_self_nonneg v)
  by_cases hr : sqrt (dot v v) = 0
  · left
    refine ⟨by simp [normalise, norm, hr], ?_⟩
    rw [← h1, hr]; simp
  · right
    refine ⟨?_, by simp [normalise, norm, hr], lt_of_le_of_ne h0 (Ne.symm hr)⟩
    have hn : normalise sqrt v = vdiv v (sqrt (dot v v)) := by simp [normalise, norm, hr]
    rw [hn, dot_vdiv, h1]
    have : dot v v ≠ 0 := by rw [← h1]; exact mul_ne_zero hr hr
    exact div_self this

def SameConfig (o o' : Obj α) : Prop :=
  o.forceConstant = o'.forceConstant ∧ o.maxImages = o'.maxImages ∧
  o.originalDensity = o'.originalDensity

def Clean (o : Obj α) : Prop := o.imageDensity = o.originalDensity

section residue
variable (trunc : α → Int) (sqrt : α → α) (pot : List α → α)
  (opt : Nat → List α → List (α × α) → List (List α) → List (List α))

/-- what `initial_interpolation` computes, in closed form -/
theorem initialInterpolation_eq (o : Obj α) (x1 x2 : List α) (box : List (α × α)) (a : Int) :
    o.initialInterpolation trunc sqrt x1 x2 box a =
      (let densEff := if a > 0 then retryDensity o.originalDensity a else o.imageDensity
       let n := imageCount trunc o.maxImages densEff (norm sqrt (vsub x1 x2))
       ({ o with imageDensity := if a > 0 then o.originalDensity else o.imageDensity,
                 nImages := some n, bandBounds := some (repeatBox box n),
                 forceConstants := some (forceConstantsOf o.forceConstant n) },
        linInterp x1 x2 n)) := by
  by_cases h : a > 0 <;>
    simp [Obj.initialInterpolation, Obj.linearInterpolation, Obj.updateDensity, Obj.revertDensity,
      retryGuard, h]

/-- After `initial_interpolation` / `run` with `attempts > 0` the image density is the original one;
    with `attempts ≤ 0` it is untouched (so `image_density = original` is an invariant); the
    configuration is never changed; `neb_count` counts the runs. -/
theorem C09_no_residue_density (o : Obj α) (x1 x2 : List α) (box : List (α × α)) (a : Int) :
    let o' := (o.initialInterpolation trunc sqrt x1 x2 box a).1
    let o'' := (o.run trunc sqrt pot opt x1 x2 box a).1
    (0 < a → Clean o' ∧ Clean o'') ∧ (Clean o → Clean o' ∧ Clean o'') ∧
    SameConfig o o' ∧ SameConfig o o'' ∧ o''.nebCount = o.nebCount + 1 := by
  simp only [Obj.run, initialInterpolation_eq, Obj.finish, Clean, SameConfig]
  by_cases h : a > 0 <;> simp [h]

/-- Two objects with equal configuration (and the invariant `image_density = original`) give the
    same band and the same `run` output for the same arguments, whatever their cached
    `n_images`, `band_bounds`, `force_constants`, `neb_count` are; the invariant is kept. -/
theorem C09_no_residue_outputs (o o' : Obj α) (hc : SameConfig o o') (h : Clean o) (h' : Clean o')
    (x1 x2 : List α) (box : List (α × α)) (a : Int) :
    (o.initialInterpolation trunc sqrt x1 x2 box a).2 =
      (o'.initialInterpolation trunc sqrt x1 x2 box a).2 ∧
    (o.run trunc sqrt pot opt x1 x2 box a).2 = (o'.run trunc sqrt pot opt x1 x2 box a).2 ∧
    SameConfig (o.run trunc sqrt pot opt x1 x2 box a).1 (o'.run trunc sqrt pot opt x1 x2 box a).1 ∧
    Clean (o.run trunc sqrt pot opt x1 x2 box a).1 ∧
    Clean (o'.run trunc sqrt pot opt x1 x2 box a).1 := by
  obtain ⟨c1, c2, c3⟩ := hc
  simp only [Clean] at h h'
  simp only [Obj.run, initialInterpolation_eq, Obj.finish, Clean, SameConfig, h, h', c1, c2, c3]
  by_cases ha : a > 0 <;> simp [ha]

/-- After any history of searches on one object (any arguments, any retry counts) every search
    returns what a fresh object would return. -/
theorem C09_no_residue_history (k dens : α) (mx : Int) (o : Obj α)
    (hc : SameConfig o (Obj.fresh k dens mx)) (h : Clean o)
    (hist : List (List α × List α × List (α × α) × Int)) :
    (Obj.runs trunc sqrt pot opt o hist).2 =
      hist.map (fun c => ((Obj.fresh k dens mx).run trunc sqrt pot opt c.1 c.2.1 c.2.2.1 c.2.2.2).2) ∧
    SameConfig (Obj.runs trunc sqrt pot opt o hist).1 (Obj.fresh k dens mx) ∧
    Clean (Obj.runs trunc sqrt pot opt o hist).1 := by
  induction hist generalizing o with
  | nil => exact ⟨rfl, hc, h⟩
  | cons c rest ih =>
    obtain ⟨x1, x2, box, a⟩ := c
    have hf : Clean (Obj.fresh k dens mx) := rfl
    obtain ⟨_, e2, e3, e4, e5⟩ := C09_no_residue_outputs trunc sqrt pot opt o _ hc h hf x1 x2 box a
    have hd := C09_no_residue_density trunc sqrt pot opt (Obj.fresh k dens mx) x1 x2 box a
    have hc' : SameConfig (o.run trunc sqrt pot opt x1 x2 box a).1 (Obj.fresh k dens mx) := by
      obtain ⟨a1, a2, a3⟩ := e3
      obtain ⟨b1, b2, b3⟩ := hd.2.2.2.1
      exact ⟨a1.trans b1.symm, a2.trans b2.symm, a3.trans b3.symm⟩
    obtain ⟨i1, i2, i3⟩ := ih _ hc' e4
    simp only [Obj.runs, List.map_cons]
    exact ⟨by rw [i1, e2], i2, i3⟩

/-- On the object: after `initial_interpolation` `n_images` is set to a value in `[10, max_images]`,
    the band has that many rows, `band_bounds` is the box repeated per image and
    `force_constants` has `n−1` entries equal to the configured constant. -/
theorem C09_image_count_object (o : Obj α) (x1 x2 : List α) (box : List (α × α)) (a : Int)
    (h : 10 ≤ o.maxImages) :
    ∃ n : Nat, (o.initialInterpolation trunc sqrt x1 x2 box a).1.nImages = some n ∧
      10 ≤ n ∧ (n : Int) ≤ o.maxImages ∧
      (o.initialInterpolation trunc sqrt x1 x2 box a).2.length = n ∧
      (o.initialInterpolation trunc sqrt x1 x2 box a).1.bandBounds = some (repeatBox box n) ∧
      (repeatBox box n).length = n * box.length ∧
      (o.initialInterpolation trunc sqrt x1 x2 box a).1.forceConstants =
        some (List.replicate (n - 1) o.forceConstant) := by
  rw [initialInterpolation_eq]
  refine ⟨_, rfl, ?_, ?_, by simp [linInterp], rfl, by simp [repeatBox], rfl⟩
  · simp only [imageCount, clamp]; split_ifs <;> omega
  · simp only [imageCount, clamp]; split_ifs <;> omega

end residue

theorem vneg_vscale (t : List α) (c : α) : vneg (vscale t c) = vscale t (-c) := by
  simp [vneg, vscale, List.map_map, Function.comp_def]

/-- PARTIAL (full statement: `C09_spring_restoring` — the spring force `−g_∥` has positive component
    towards the farther neighbour; false for the coded literal, see below).  For interior image
    `j+1` with spacings `dp` (to the previous image) and `dn` (to the next), spring constant `k` and
    tangent `t`: the spring row is `t` times the coefficient `σ·(dn − dp)·k`, `σ` the sign literal
    read from the source; its magnitude is `k·|dp − dn|`. -/
theorem C09_spring_restoring_partial (c1 : Int) (ds ks : List α) (tau : List (List α)) (j : Nat)
    (dp dn k : α) (t : List α) (h0 : ds[j]? = some dp) (h1 : ds[j + 1]? = some dn)
    (hk : ks[j]? = some k) (hk' : j + 1 < ks.length) (ht : tau[j]? = some t) :
    (springRows c1 ds ks tau)[j]? = some (vscale t (sgn c1 (dn - dp) * k)) ∧
    (c1 < 0 → sgn c1 (dn - dp) * k = (dp - dn) * k) ∧
    (¬ c1 < 0 → sgn c1 (dn - dp) * k = (dn - dp) * k) ∧
    (0 ≤ k → |sgn c1 (dn - dp) * k| = k * |dp - dn|) := by
  refine ⟨?_, ?_, ?_, ?_⟩
  · simp only [springRows, springCoefs, ediffs, List.getElem?_zipWith_eq_some]
    refine ⟨t, _, ht, ⟨dn - dp, k, ⟨dp, dn, h0, ?_, rfl⟩, ?_, rfl⟩, rfl⟩
    · simpa using h1
    · rw [List.getElem?_dropLast]; simp [hk, show j < ks.length - 1 by omega]
  · intro h; simp only [sgn, if_pos h]; ring
  · intro h; simp only [sgn, if_neg h]
  · intro hk0
    by_cases h : c1 < 0
    · simp only [sgn, if_pos h]
      rw [abs_mul, abs_of_nonneg hk0, abs_neg, abs_sub_comm, mul_comm]
    · simp only [sgn, if_neg h]
      rw [abs_mul, abs_of_nonneg hk0, abs_sub_comm, mul_comm]

/-- The sign of the spring force, for all inputs.  `t` is the tangent of the image: by
    `C09_tangent_upwind` it is built from the differences `xᵢ − xᵢ₊₁`, `xᵢ₋₁ − xᵢ`, i.e. it points
    from the *next* image towards the *previous* one.  With the repaired literal (`c1 = 1`) the force
    `−g_∥` is `c·t` with `c > 0` when the previous image is the farther one (`dn < dp`: pulled back),
    `c < 0` when the next one is farther (pulled forward), `c = 0` at equal spacing: it pulls
    towards equal spacing. -/
theorem C09_spring_restoring_of_repaired_sign (ds ks : List α) (tau : List (List α)) (j : Nat)
    (dp dn k : α) (t : List α) (h0 : ds[j]? = some dp) (h1 : ds[j + 1]? = some dn)
    (hk : ks[j]? = some k) (hk' : j + 1 < ks.length) (ht : tau[j]? = some t) (hk0 : 0 < k) :
    ∃ c : α, ((springRows 1 ds ks tau)[j]?).map vneg = some (vscale t c) ∧
      (dn < dp → 0 < c) ∧ (dp < dn → c < 0) ∧ (dp = dn → c = 0) := by
  obtain ⟨e, _, e2, _⟩ := C09_spring_restoring_partial 1 ds ks tau j dp dn k t h0 h1 hk hk' ht
  refine ⟨-((dn - dp) * k), ?_, ?_, ?_, ?_⟩
  · rw [e, e2 (by decide)]; simp [vneg_vscale]
  · intro h; nlinarith
  · intro h; nlinarith
  · intro h; rw [h]; simp

/-- The same for the literal of the code as written (`c1 = −1`): every sign is the opposite one —
    the force pushes the image *away* from its farther neighbour, for every band, spacing and
    positive force constant (the known finding, DESIGN.md §6 row 12). -/
theorem C09_spring_sign_as_coded (ds ks : List α) (tau : List (List α)) (j : Nat)
    (dp dn k : α) (t : List α) (h0 : ds[j]? = some dp) (h1 : ds[j + 1]? = some dn)
    (hk : ks[j]? = some k) (hk' : j + 1 < ks.length) (ht : tau[j]? = some t) (hk0 : 0 < k) :
    ∃ c : α, ((springRows (-1) ds ks tau)[j]?).map vneg = some (vscale t c) ∧
      (dn < dp → c < 0) ∧ (dp < dn → 0 < c) ∧ (dp = dn → c = 0) := by
  obtain ⟨e, e1, _, _⟩ := C09_spring_restoring_partial (-1) ds ks tau j dp dn k t h0 h1 hk hk' ht
  refine ⟨-((dp - dn) * k), ?_, ?_, ?_, ?_⟩
  · rw [e, e1 (by decide)]; simp [vneg_vscale]
  · intro h; nlinarith
  · intro h; nlinarith
  · intro h; rw [h]; simp

/-- The property's spring clause (`C09_spring_restoring`) at interior image `i`, as a predicate on a
    band and a gradient whose row `i` is the spring term: the force `−g` has a positive component
    towards the farther of the two neighbours. -/
def SpringRestoringAt (sqrt : α → α) (band g : List (List α)) (i : Nat) : Prop :=
  let x := band.getD i []
  let xp := band.getD (i - 1) []
  let xn := band.getD (i + 1) []
  let dp := norm sqrt (vsub x xp)
  let dn := norm sqrt (vsub xn x)
  (dp < dn → 0 < dot (vneg (g.getD i [])) (vsub xn x)) ∧
  (dn < dp → 0 < dot (vneg (g.getD i [])) (vsub xp x))

theorem sqrt_sq (sqrt : α → α) (hs : ∀ x, 0 ≤ x → 0 ≤ sqrt x ∧ sqrt x * sqrt x = x) (r : α)
    (hr : 0 ≤ r) : sqrt (r * r) = r := by
  obtain ⟨h0, h1⟩ := hs (r * r) (mul_self_nonneg r)
  exact (mul_self_inj_of_nonneg h0 hr).1 h1

/-- The correct clause is FALSE for the model as coded (`c1 = −1`): flat surface, 1-D band
    `0, 1, 3/2, 3`, `k = 1` — gradient rows `(0, −1/2, 1, 0)` (what the real code returns), and at
    both interior images the spring force has a *negative* component towards the farther neighbour.
    For every ordered field and every `sqrt` meeting its contract. -/
theorem C09_spring_not_restoring_as_coded (sqrt : α → α) (cut : α)
    (hs : ∀ x, 0 ≤ x → 0 ≤ sqrt x ∧ sqrt x * sqrt x = x) :
    let band : List (List α) := [[0], [1], [3 / 2], [3]]
    let fg : List (α × List α) := [(0, [0]), (0, [0]), (0, [0]), (0, [0])]
    let g := (bandGradient (-1) sqrt cut 4 [1, 1, 1] band fg).2
    g = [[0], [-1 / 2], [1], [0]] ∧ ¬ SpringRestoringAt sqrt band g 1 ∧
      ¬ SpringRestoringAt sqrt band g 2 := by
  have s1 : sqrt 1 = 1 := by simpa using sqrt_sq sqrt hs 1 (by norm_num)
  have s2 : sqrt (1 / 4) = 1 / 2 := by
    have := sqrt_sq sqrt hs (1 / 2) (by norm_num); norm_num at this ⊢; exact this
  have s3 : sqrt (9 / 4) = 3 / 2 := by
    have := sqrt_sq sqrt hs (3 / 2) (by norm_num); norm_num at this ⊢; exact this
  intro band fg g
  have r1 : List.range' 1 (4 - 2) = [1, 2] := rfl
  have r2 : List.range 4 = [0, 1, 2, 3] := rfl
  have hg : g = [[0], [-1 / 2], [1], [0]] := by
    simp only [g, band, fg, bandGradient, tangents, distances, posDiffs, ediffs, rawTangent, normalise,
      norm, springRows, springCoefs, zeroEnds, perp, sign, sgn, vadd, vsub, vneg, vscale, vdiv, smul,
      dot, zeros, absv, maxv, minv, r1, r2, List.map_cons, List.map_nil]
    norm_num [s1, s2, s3]
    norm_num [vscale, norm, dot, s1, s2, s3]
  refine ⟨hg, ?_, ?_⟩
  · rw [hg]
    simp only [SpringRestoringAt, band]
    norm_num [norm, dot, vsub, vneg, s1, s2, s3]
  · rw [hg]
    simp only [SpringRestoringAt, band]
    norm_num [norm, dot, vsub, vneg, s1, s2, s3]

/-! ### non-vacuity: concrete instances -/

example : clamp 50 37 = 37 ∧ clamp 15 1703 = 15 ∧ clamp 15 3 = 10 ∧ clamp 10 10 = 10 := by decide

/-- 5 images, energies 0 1 1 0 0: images 1 and 2 (a tie) are candidates, 3 is not -/
example : candidateIdx 5 ([0, 1, 1, 0, 0] : List ℚ) = [1, 2] := by
  norm_num [candidateIdx, List.range', List.filter]

/-- `perp` on a unit tangent: the component along it is removed -/
example : perp (1 / 10 ^ 13 : ℚ) [1, 2] [0, 1] = [1, 0] := by
  norm_num [perp, dot, vsub, smul]

/-- a retry on an object that carries stale caches: density restored, 10 ≤ n ≤ max -/
example (trunc : ℚ → Int) (sqrt : ℚ → ℚ) :
    let o : Obj ℚ := { Obj.fresh 1 2 15 with nImages := some 3, nebCount := 7 }
    Clean o ∧ SameConfig o (Obj.fresh 1 2 15) ∧
    Clean (o.initialInterpolation trunc sqrt [0, 0] [3, 4] [(-5, 5), (-5, 5)] 2).1 := by
  refine ⟨rfl, ⟨rfl, rfl, rfl⟩, ?_⟩
  exact ((C09_no_residue_density trunc sqrt (fun _ => 0) (fun _ _ _ b => b) _ _ _ _ 2).1 (by decide)).1

end TopSearch.Props.C09
