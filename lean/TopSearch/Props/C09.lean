import TopSearch.Lemmas.Neb
import TopSearch.Gen.Neb
import Mathlib.Data.List.Range

set_option linter.unusedSectionVars false
set_option linter.unusedSimpArgs false
namespace TopSearch.Props.C09
open TopSearch TopSearch.Neb
variable {α : Type} [Field α] [LinearOrder α] [IsStrictOrderedRing α]

theorem C09_bridge_clamp (m r : Int) :
    Gen.Neb.clampLinear m r = clamp m r ∧ Gen.Neb.clampDihedral m r = clamp m r ∧
    Gen.Neb.rawCountIsIntDensityDist = true := by
  refine ⟨?_, ?_, by decide⟩ <;>
    simp only [Gen.Neb.clampLinear, Gen.Neb.clampDihedral, clamp] <;> split_ifs <;> omega

theorem C09_bridge_retry :
    (Gen.Neb.retryNum = 3 ∧ Gen.Neb.retryDen = 2 ∧ Gen.Neb.retryOrigPow = 1 ∧
      Gen.Neb.retryAttemptsPow = 1) ∧
    Gen.Neb.revertRestoresOriginal = true ∧ Gen.Neb.revertAfterInterpolation = true ∧
    ∀ a : Int, Gen.Neb.updateGuard a = retryGuard a ∧ Gen.Neb.revertGuard a = retryGuard a := by
  refine ⟨by decide, by decide, by decide, fun a => ⟨?_, ?_⟩⟩ <;>
    simp only [Gen.Neb.updateGuard, Gen.Neb.revertGuard, retryGuard] <;> rw [decide_eq_decide] <;> omega

theorem C09_bridge_candidates :
    Gen.Neb.candLo = 1 ∧ Gen.Neb.candOff = 1 ∧
    ∀ (a b c : α), Gen.Neb.candTest a b c = true ↔ (b ≥ a ∧ b ≥ c) := by
  refine ⟨by decide, by decide, fun a b c => ?_⟩
  simp only [Gen.Neb.candTest, Bool.and_eq_true, Bool.or_eq_true, decide_eq_true_eq, ge_iff_le,
    gt_iff_lt] <;> tauto

theorem C09_bridge_tangent :
    Gen.Neb.posDiffCoef = -1 ∧ Gen.Neb.tanLo = 1 ∧ Gen.Neb.tanOff = 1 ∧
    (∀ s : Int, -2 ≤ s → s ≤ 2 →
      Gen.Neb.tanUp s = decide (s ≥ 1) ∧
      (Gen.Neb.tanUp s = false → Gen.Neb.tanDown s = decide (s ≤ -1)) ∧
      (Gen.Neb.tanUp s = false → Gen.Neb.tanDown s = false → Gen.Neb.tanZero s = decide (s = 0))) ∧
    (Gen.Neb.tanUpSel = 0 ∧ Gen.Neb.tanDownSel = 1 ∧ Gen.Neb.tanFlatSel = 1) ∧
    (Gen.Neb.tanExtThen = (0, 1) ∧ Gen.Neb.tanExtElse = (1, 0)) ∧
    ∀ (a c : α), Gen.Neb.tanExtTest a c = true ↔ c ≥ a := by
  refine ⟨by decide, by decide, by decide, ?_, by decide, by decide, fun a c => ?_⟩
  · intro s h1 h2
    refine ⟨?_, fun h => ?_, fun h h' => ?_⟩ <;>
      simp only [Gen.Neb.tanUp, Gen.Neb.tanDown, Gen.Neb.tanZero, decide_eq_false_iff_not] at * <;>
      rw [decide_eq_decide] <;> omega
  · simp only [Gen.Neb.tanExtTest, Bool.and_eq_true, Bool.or_eq_true, decide_eq_true_eq, ge_iff_le,
      gt_iff_lt] <;> tauto

theorem C09_bridge_perp_cut :
    Gen.Neb.cutIsStrictLess = true ∧ 0 < Gen.Neb.cutNum ∧ Gen.Neb.cutNum < Gen.Neb.cutDen := by
  refine ⟨by decide, by decide, by decide⟩

theorem C09_bridge_end_rows :
    Gen.Neb.asmLo = 1 ∧ Gen.Neb.asmOff = 1 ∧ Gen.Neb.bandGradientZeroInit = true ∧
    Gen.Neb.bandGradientOnlyLoopWrites = true ∧ Gen.Neb.springSliceInterior = true := by
  decide

theorem C09_bridge_spring_literals :
    (Gen.Neb.springCoef = -1 ∨ Gen.Neb.springCoef = 1) ∧ Gen.Neb.posDiffCoef = -1 ∧
    (Gen.Neb.diffCoef = -1 ∨ Gen.Neb.diffCoef = 1) := by
  decide

theorem C09_image_count (maxImages raw : Int) (h : 10 ≤ maxImages) :
    10 ≤ clamp maxImages raw ∧ clamp maxImages raw ≤ maxImages ∧
    10 ≤ Gen.Neb.clampLinear maxImages raw ∧ Gen.Neb.clampLinear maxImages raw ≤ maxImages ∧
    10 ≤ Gen.Neb.clampDihedral maxImages raw ∧ Gen.Neb.clampDihedral maxImages raw ≤ maxImages := by
  rw [(C09_bridge_clamp maxImages raw).1, (C09_bridge_clamp maxImages raw).2.1]
  simp only [clamp]
  split_ifs <;> omega

end TopSearch.Props.C09
