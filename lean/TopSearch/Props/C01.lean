/-
  C01 — the explored landscape is self-consistent (assume–guarantee composition).
  Property theorems only.

  `goodMin` / `goodTs` are the per-point clauses of the property (in the box, stored energy = surface
  at the stored coordinates, for a transition state: free-coordinate gradient below the tolerance);
  they are *guaranteed* for every point that is offered (by the minimiser contract `LBFGSB`, C10, and
  by the post-condition of a successful single-ended search, `C04_run_post`) and the theorems show
  the network never holds anything else.  The barrier clause is the non-obvious part: a found
  minimum may be *matched* to a stored one whose energy differs by less than the energy criterion
  `ε`, hence `e_ts ≥ e_found > e_stored − ε` — exactly the tolerance the property allows.
-/
import TopSearch.Model.Pipeline
import TopSearch.Lemmas.Merge
import TopSearch.Lemmas.Pipeline
import TopSearch.Gen.Ktn
import Mathlib.Algebra.Order.Field.Basic
import Mathlib.Algebra.Order.AbsoluteValue.Basic
import Mathlib.Tactic.Linarith

namespace TopSearch.Props.C01
open TopSearch TopSearch.Ktn TopSearch.Merge TopSearch.Pipeline

variable {δ : Type}

/-- the network holds only good points, and every transition state respects the barrier clause
    with respect to BOTH minima it connects -/
structure Consistent (goodMin goodTs : δ → Prop) (barrier : δ → δ → Prop) (s : Ktn δ) : Prop where
  mins : ∀ a x, s.nodeData? a = some x → goodMin x
  tss : ∀ a b y, s.edgeData? a b = some y → goodTs y
  bar : ∀ a b y, s.edgeData? a b = some y →
    (∀ x, s.nodeData? a = some x → barrier y x) ∧ (∀ x, s.nodeData? b = some x → barrier y x)

/-- what a successful search guarantees about its record (C04's post-condition): good points, and
    the barrier relation between the transition state and any stored minimum that *represents*
    one of its two minima (the minimum itself, or a stored one it matches) -/
structure OkRec (same : δ → δ → Bool) (goodMin goodTs : δ → Prop) (barrier : δ → δ → Prop)
    (r : Rec δ) : Prop where
  ts : goodTs r.ts
  plus : goodMin r.plus
  minus : goodMin r.minus
  barPlus : ∀ x, (x = r.plus ∨ same r.plus x = true) → barrier r.ts x
  barMinus : ∀ x, (x = r.minus ∨ same r.minus x = true) → barrier r.ts x

/-- admissible offers: every point presented to the gate carries its guarantee -/
def OkOffer (same : δ → δ → Bool) (goodMin goodTs : δ → Prop) (barrier : δ → δ → Prop) :
    Offer δ → Prop
  | .minimum d => goodMin d
  | .ts r => OkRec same goodMin goodTs barrier r
  | .failed => True
  | .merge mins recs _ => (∀ d ∈ mins, goodMin d) ∧ ∀ r ∈ recs, OkRec same goodMin goodTs barrier r
  | .reset => True

def OkOp (same : δ → δ → Bool) (goodMin goodTs : δ → Prop) (barrier : δ → δ → Prop) : POp δ → Prop
  | .offer o => OkOffer same goodMin goodTs barrier o
  | .prune _ => True

/-- Why the property allows exactly the matching tolerance: if matching implies an energy
    difference below `ε`, a record whose minima are not above its transition state (or whose
    push-off was flagged) satisfies the barrier relation against every stored representative. -/
theorem C01_barrier_from_matching {α : Type} [Field α] [LinearOrder α] [IsStrictOrderedRing α]
    (energy : δ → α) (flag : δ → Bool)
    (ε : α) (hε : 0 ≤ ε) (same : δ → δ → Bool)
    (hsame : ∀ d x, same d x = true → |energy d - energy x| < ε) (ts m : δ)
    (h : flag ts = true ∨ energy m ≤ energy ts) (x : δ) (hx : x = m ∨ same m x = true) :
    flag ts = true ∨ energy x - ε ≤ energy ts := by
  rcases h with h | h
  · exact Or.inl h
  · right
    rcases hx with rfl | hx
    · linarith
    · have h1 := (abs_lt.1 (hsame m x hx)).1
      linarith

/-- one transition-state offer preserves consistency -/
theorem C01_ts_offer {same : δ → δ → Bool} (hsym : ∀ x y, same x y = same y x)
    {goodMin goodTs : δ → Prop} {barrier : δ → δ → Prop} {s : Ktn δ} (hg : GateInv same s)
    (hc : Consistent goodMin goodTs barrier s) (r : Rec δ) (hr : OkRec same goodMin goodTs barrier r) :
    Consistent goodMin goodTs barrier (testNewTs same true s r) := by
  refine ⟨?_, ?_, ?_⟩
  · intro a x h
    rcases testNewTs_nodeData hg r h with h' | rfl | rfl
    · exact hc.mins a x h'
    · exact hr.plus
    · exact hr.minus
  · intro a b y h
    rcases testNewTs_edgeData hsym hg r h with ⟨h', _⟩ | ⟨rfl, _⟩
    · exact hc.tss a b y h'
    · exact hr.ts
  · intro a b y h
    rcases testNewTs_edgeData hsym hg r h with ⟨h', ha, hb⟩ | ⟨rfl, hends⟩
    · obtain ⟨h1, h2⟩ := hc.bar a b y h'
      exact ⟨fun x hx => h1 x (ha x hx), fun x hx => h2 x (hb x hx)⟩
    · have hbar : ∀ x, ((testNewTs same true s r).nodeData? a = some x ∨
          (testNewTs same true s r).nodeData? b = some x) → barrier r.ts x := by
        intro x hx
        rcases hends x hx with hp | hm
        · exact hr.barPlus x hp
        · exact hr.barMinus x hm
      exact ⟨fun x hx => hbar x (Or.inl hx), fun x hx => hbar x (Or.inr hx)⟩

/-- one minimum offer preserves consistency -/
theorem C01_minimum_offer {same : δ → δ → Bool}
    {goodMin goodTs : δ → Prop} {barrier : δ → δ → Prop} {s : Ktn δ} (hg : GateInv same s)
    (hc : Consistent goodMin goodTs barrier s) (d : δ) (hd : goodMin d) :
    Consistent goodMin goodTs barrier (testNewMinimum same s d) := by
  have hi := hg.inv
  have he := testNewMinimum_edges (same := same) hi d
  refine ⟨?_, ?_, ?_⟩
  · intro a x h
    rcases testNewMinimum_nodeData hi d h with h' | rfl
    · exact hc.mins a x h'
    · exact hd
  · intro a b y h
    rw [edgeData_congr he] at h
    exact hc.tss a b y h
  · intro a b y h
    rw [edgeData_congr he] at h
    obtain ⟨ha, hb⟩ := edgeData_lt hi h
    obtain ⟨h1, h2⟩ := hc.bar a b y h
    rw [testNewMinimum_nodeData_old hi d ha, testNewMinimum_nodeData_old hi d hb]
    exact ⟨h1, h2⟩

/-- removing any minimum (and with it its transition states) preserves consistency and the gate
    invariant: survivors keep their data and their mutual connections -/
theorem C01_prune_one (r : Bool) {same : δ → δ → Bool}
    {goodMin goodTs : δ → Prop} {barrier : δ → δ → Prop} {s : Ktn δ} (hg : GateInv same s)
    (hc : Consistent goodMin goodTs barrier s) (k : Nat) (hk : k < s.nMin) :
    GateInv same (s.removeMin r k) ∧ Consistent goodMin goodTs barrier (s.removeMin r k) := by
  have hi := hg.inv
  refine ⟨gateInv_removeMin r hg k hk, ?_, ?_, ?_⟩
  · intro a' x h
    obtain ⟨a, _, _, ha⟩ := removeMin_nodeData r hi k h
    exact hc.mins a x ha
  · intro a' b' y h
    obtain ⟨a, b, _, _, _, _, hab⟩ := removeMin_edgeData r hi k h
    exact hc.tss a b y hab
  · intro a' b' y h
    obtain ⟨a, b, hak, hbk, rfl, rfl, hab⟩ := removeMin_edgeData r hi k h
    obtain ⟨h1, h2⟩ := hc.bar a b y hab
    constructor
    · intro x hx
      obtain ⟨a2, ha2k, hsh, ha2⟩ := removeMin_nodeData r hi k hx
      have := shift_inj ha2k hak hsh
      subst this
      exact h1 x ha2
    · intro x hx
      obtain ⟨b2, hb2k, hsh, hb2⟩ := removeMin_nodeData r hi k hx
      have := shift_inj hb2k hbk hsh
      subst this
      exact h2 x hb2

/-- bulk pruning (`remove_minima` with any list of distinct existing indices, in any order) -/
theorem C01_prune_preserves (r : Bool) {same : δ → δ → Bool}
    {goodMin goodTs : δ → Prop} {barrier : δ → δ → Prop} {s : Ktn δ} (hg : GateInv same s)
    (hc : Consistent goodMin goodTs barrier s) (ks : List Nat) (hk : ∀ k ∈ ks, k < s.nMin)
    (hn : ks.Nodup) :
    GateInv same (s.removeMinima r ks) ∧ Consistent goodMin goodTs barrier (s.removeMinima r ks) :=
  removeMinima_preserves r (fun s => GateInv same s ∧ Consistent goodMin goodTs barrier s)
    (fun _ k hs hk => C01_prune_one r hs.1 hs.2 k hk) s ⟨hg, hc⟩ ks hk hn

/-- every admissible operation preserves the gate invariant and consistency -/
theorem C01_step {same : δ → δ → Bool} (hsym : ∀ x y, same x y = same y x)
    {goodMin goodTs : δ → Prop} {barrier : δ → δ → Prop} (cfg : Ktn.Cfg)
    (hcfg : cfg.addTsCountsOnlyNew = true) {s : Ktn δ} (hg : GateInv same s)
    (hc : Consistent goodMin goodTs barrier s) (op : POp δ) (hv : op.valid s = true)
    (hok : OkOp same goodMin goodTs barrier op) :
    GateInv same (pstep same cfg s op) ∧ Consistent goodMin goodTs barrier (pstep same cfg s op) := by
  cases op with
  | offer o =>
    simp only [pstep, hcfg]
    refine ⟨offer_gateInv hsym hg o, ?_⟩
    cases o with
    | minimum d => exact C01_minimum_offer hg hc d hok
    | ts r => exact C01_ts_offer hsym hg hc r hok
    | failed => exact hc
    | merge mins recs hist =>
      obtain ⟨hmins, hrecs⟩ : (∀ d ∈ mins, goodMin d) ∧
        ∀ r ∈ recs, OkRec same goodMin goodTs barrier r := hok
      have h1 := foldl_preserves (fun s => GateInv same s ∧ Consistent goodMin goodTs barrier s)
        goodMin (testNewMinimum same)
        (fun s d hs hd => ⟨(testNewMinimum_spec hs.1 d).1, C01_minimum_offer hs.1 hs.2 d hd⟩)
        mins s ⟨hg, hc⟩ hmins
      have h2 := foldl_preserves (fun s => GateInv same s ∧ Consistent goodMin goodTs barrier s)
        (OkRec same goodMin goodTs barrier) (testNewTs same true)
        (fun s r hs hr => ⟨(testNewTs_spec hsym hs.1 r).1, C01_ts_offer hsym hs.1 hs.2 r hr⟩)
        recs _ h1 hrecs
      have hn := addNetworkRecs_nodeData same true s mins recs hist
      have he := addNetworkRecs_edgeData same true s mins recs hist
      show Consistent goodMin goodTs barrier (addNetworkRecs same true s mins recs hist)
      refine ⟨?_, ?_, ?_⟩
      · intro a x h; rw [hn] at h; exact h2.2.mins a x h
      · intro a b y h; rw [he] at h; exact h2.2.tss a b y h
      · intro a b y h; rw [he] at h; rw [hn, hn]; exact h2.2.bar a b y h
    | reset =>
      exact ⟨fun a x h => by rw [show offer same true s Offer.reset = s.reset from rfl,
                nodeData?_reset] at h; exact absurd h (by simp),
        fun a b y h => by rw [show offer same true s Offer.reset = s.reset from rfl,
                edgeData?_reset] at h; exact absurd h (by simp),
        fun a b y h => by rw [show offer same true s Offer.reset = s.reset from rfl,
                edgeData?_reset] at h; exact absurd h (by simp)⟩
  | prune ks =>
    simp only [POp.valid, Bool.and_eq_true, List.all_eq_true, decide_eq_true_eq] at hv
    exact C01_prune_preserves _ hg hc ks hv.1 hv.2

/-- **C01**: after ANY sequence of pipeline operations — offers of minima from global optimisation
    and reconvergence, successful and failed search records from connection cycles and landscape
    reconvergence, merges, resets, and prunings, in any order and repetition — every stored minimum
    and transition state is good and every stored transition state respects the barrier clause. -/
theorem C01_inv {same : δ → δ → Bool} (hsym : ∀ x y, same x y = same y x)
    {goodMin goodTs : δ → Prop} {barrier : δ → δ → Prop} (cfg : Ktn.Cfg)
    (hcfg : cfg.addTsCountsOnlyNew = true) (ops : List (POp δ))
    (hok : ∀ op ∈ ops, OkOp same goodMin goodTs barrier op) (s : Ktn δ)
    (h : prun same cfg (empty : Ktn δ) ops = some s) :
    GateInv same s ∧ Consistent goodMin goodTs barrier s :=
  prun_preserves same cfg (fun s => GateInv same s ∧ Consistent goodMin goodTs barrier s)
    (OkOp same goodMin goodTs barrier)
    (fun _ op hs hv hq => C01_step hsym cfg hcfg hs.1 hs.2 op hv hq) ops empty s
    ⟨gateInv_empty same,
      fun a x h => by rw [nodeData?_empty] at h; exact absurd h (by simp),
      fun a b y h => by rw [edgeData?_empty] at h; exact absurd h (by simp),
      fun a b y h => by rw [edgeData?_empty] at h; exact absurd h (by simp)⟩ hok h

/-- the same for the store configuration the translator read from the current source -/
theorem C01_inv_current {same : δ → δ → Bool} (hsym : ∀ x y, same x y = same y x)
    {goodMin goodTs : δ → Prop} {barrier : δ → δ → Prop} (ops : List (POp δ))
    (hok : ∀ op ∈ ops, OkOp same goodMin goodTs barrier op) (s : Ktn δ)
    (h : prun same Gen.Ktn.cfg (empty : Ktn δ) ops = some s) :
    GateInv same s ∧ Consistent goodMin goodTs barrier s :=
  C01_inv hsym Gen.Ktn.cfg (by decide) ops hok s h

end TopSearch.Props.C01
