/-
  C01 — the explored landscape is self-consistent (assume–guarantee composition).
  Property theorems only.

  `goodMin` / `goodTs` are the per-point clauses of the property (in the box, stored energy = surface
  at the stored coordinates, for a transition state: free-coordinate gradient below the tolerance);
  they are *guaranteed* for every point that is offered (by the minimiser contract `LBFGSB`, C10, and
  by the post-condition of a successful single-ended search, `C04_run_post`) and the theorems show
  the network never holds anything else.  The barrier clause is the non-obvious part: a found
  minimum may be *matched* to a stored one whose energy differs by less than the energy criterion
  `ε`, hence `e_ts ≥ e_found > e_stored − ε` — exactly the tolerance the property allows.
-/
import TopSearch.Model.Pipeline
import TopSearch.Lemmas.Merge
import TopSearch.Lemmas.Pipeline
import TopSearch.Gen.Ktn
import Mathlib.Algebra.Order.Field.Basic
import Mathlib.Algebra.Order.AbsoluteValue.Basic
import Mathlib.Tactic.Linarith

namespace TopSearch.Props.C01
open TopSearch TopSearch.Ktn TopSearch.Merge TopSearch.Pipeline

variable {δ : Type}

/-- the network holds only good points, and every transition state respects the barrier clause
    with respect to BOTH minima it connects -/
structure Consistent (goodMin goodTs : δ → Prop) (barrier : δ → δ → Prop) (s : Ktn δ) : Prop where
  mins : ∀ a x, s.nodeData? a = some x → goodMin x
  tss : ∀ a b y, s.edgeData? a b = some y → goodTs y
  bar : ∀ a b y, s.edgeData? a b = some y →
    (∀ x, s.nodeData? a = some x → barrier y x) ∧ (∀ x, s.nodeData? b = some x → barrier y x)

/-- what a successful search guarantees about its record (C04's post-condition): good points, and
    the barrier relation between the transition state and any stored minimum that *represents*
    one of its two minima (the minimum itself, or a stored one it matches) -/
structure OkRec (same : δ → δ → Bool) (goodMin goodTs : δ → Prop) (barrier : δ → δ → Prop)
    (r : Rec δ) : Prop where
  ts : goodTs r.ts
  plus : goodMin r.plus
  minus : goodMin r.minus
  barPlus : ∀ x, (x = r.plus ∨ same r.plus x = true) → barrier r.ts x
  barMinus : ∀ x, (x = r.minus ∨ same r.minus x = true) → barrier r.ts x

/-- admissible offers: every point presented to the gate carries its guarantee -/
def OkOffer (same : δ → δ → Bool) (goodMin goodTs : δ → Prop) (barrier : δ → δ → Prop) :
    Offer δ → Prop
  | .minimum d => goodMin d
  | .ts r => OkRec same goodMin goodTs barrier r
  | .failed => True
  | .merge mins recs _ => (∀ d ∈ mins, goodMin d) ∧ ∀ r ∈ recs, OkRec same goodMin goodTs barrier r
  | .reset => True

def OkOp (same : δ → δ → Bool) (goodMin goodTs : δ → Prop) (barrier : δ → δ → Prop) : POp δ → Prop
  | .offer o => OkOffer same goodMin goodTs barrier o
  | .prune _ => True

/-- Why the property allows exactly the matching tolerance: if matching implies an energy
    difference below `ε`, a record whose minima are not above its transition state (or whose
    push-off was flagged) satisfies the barrier relation against every stored representative. -/
theorem C01_barrier_from_matching {α : Type} [Field α] [LinearOrder α] [IsStrictOrderedRing α]
    (energy : δ → α) (flag : δ → Bool)
    (ε : α) (hε : 0 ≤ ε) (same : δ → δ → Bool)
    (hsame : ∀ d x, same d x = true → |energy d - energy x| < ε) (ts m : δ)
    (h : flag ts = true ∨ energy m ≤ energy ts) (x : δ) (hx : x = m ∨ same m x = true) :
    flag ts = true ∨ energy x - ε ≤ energy ts := by sorry

/-- one transition-state offer preserves consistency -/
theorem C01_ts_offer {same : δ → δ → Bool} (hsym : ∀ x y, same x y = same y x)
    {goodMin goodTs : δ → Prop} {barrier : δ → δ → Prop} {s : Ktn δ} (hg : GateInv same s)
    (hc : Consistent goodMin goodTs barrier s) (r : Rec δ) (hr : OkRec same goodMin goodTs barrier r) :
    Consistent goodMin goodTs barrier (testNewTs same true s r) := by sorry

/-- one minimum offer preserves consistency -/
theorem C01_minimum_offer {same : δ → δ → Bool}
    {goodMin goodTs : δ → Prop} {barrier : δ → δ → Prop} {s : Ktn δ} (hg : GateInv same s)
    (hc : Consistent goodMin goodTs barrier s) (d : δ) (hd : goodMin d) :
    Consistent goodMin goodTs barrier (testNewMinimum same s d) := by sorry

/-- removing any minimum (and with it its transition states) preserves consistency and the gate
    invariant: survivors keep their data and their mutual connections -/
theorem C01_prune_one (r : Bool) {same : δ → δ → Bool}
    {goodMin goodTs : δ → Prop} {barrier : δ → δ → Prop} {s : Ktn δ} (hg : GateInv same s)
    (hc : Consistent goodMin goodTs barrier s) (k : Nat) (hk : k < s.nMin) :
    GateInv same (s.removeMin r k) ∧ Consistent goodMin goodTs barrier (s.removeMin r k) := by sorry

/-- bulk pruning (`remove_minima` with any list of distinct existing indices, in any order) -/
theorem C01_prune_preserves (r : Bool) {same : δ → δ → Bool}
    {goodMin goodTs : δ → Prop} {barrier : δ → δ → Prop} {s : Ktn δ} (hg : GateInv same s)
    (hc : Consistent goodMin goodTs barrier s) (ks : List Nat) (hk : ∀ k ∈ ks, k < s.nMin)
    (hn : ks.Nodup) :
    GateInv same (s.removeMinima r ks) ∧ Consistent goodMin goodTs barrier (s.removeMinima r ks) := by
  sorry

/-- every admissible operation preserves the gate invariant and consistency -/
theorem C01_step {same : δ → δ → Bool} (hsym : ∀ x y, same x y = same y x)
    {goodMin goodTs : δ → Prop} {barrier : δ → δ → Prop} (cfg : Ktn.Cfg)
    (hcfg : cfg.addTsCountsOnlyNew = true) {s : Ktn δ} (hg : GateInv same s)
    (hc : Consistent goodMin goodTs barrier s) (op : POp δ) (hv : op.valid s = true)
    (hok : OkOp same goodMin goodTs barrier op) :
    GateInv same (pstep same cfg s op) ∧ Consistent goodMin goodTs barrier (pstep same cfg s op) := by
  sorry

/-- **C01**: after ANY sequence of pipeline operations — offers of minima from global optimisation
    and reconvergence, successful and failed search records from connection cycles and landscape
    reconvergence, merges, resets, and prunings, in any order and repetition — every stored minimum
    and transition state is good and every stored transition state respects the barrier clause. -/
theorem C01_inv {same : δ → δ → Bool} (hsym : ∀ x y, same x y = same y x)
    {goodMin goodTs : δ → Prop} {barrier : δ → δ → Prop} (cfg : Ktn.Cfg)
    (hcfg : cfg.addTsCountsOnlyNew = true) (ops : List (POp δ))
    (hok : ∀ op ∈ ops, OkOp same goodMin goodTs barrier op) (s : Ktn δ)
    (h : prun same cfg (empty : Ktn δ) ops = some s) :
    GateInv same s ∧ Consistent goodMin goodTs barrier s := by sorry

/-- the same for the store configuration the translator read from the current source -/
theorem C01_inv_current {same : δ → δ → Bool} (hsym : ∀ x y, same x y = same y x)
    {goodMin goodTs : δ → Prop} {barrier : δ → δ → Prop} (ops : List (POp δ))
    (hok : ∀ op ∈ ops, OkOp same goodMin goodTs barrier op) (s : Ktn δ)
    (h : prun same Gen.Ktn.cfg (empty : Ktn δ) ops = some s) :
    GateInv same s ∧ Consistent goodMin goodTs barrier s := by sorry

end TopSearch.Props.C01
