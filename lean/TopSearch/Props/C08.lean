/-
  C08 — basin-hopping archives every converged minimum and nothing else.
  Property theorems only (model: Model/BasinHopping.lean, helpers: Lemmas/BasinHopping.lean,
  kernels read from the source: Gen/BasinHopping.lean).

  Reading of the statement.  "Successfully converged" is what each call site tests: the loop
  refuses `warnflag != 0` and the REL_REDUCTION exit, `prepare_initial_coordinates` tests only
  `warnflag`.  "Represented in the network" = stored itself, or matched (under the similarity's
  relation `same`, arbitrary here) by a stored minimum.  The archive theorem is an equation:
  the final network is the gate folded over the converged outputs in step order.
-/
import TopSearch.Lemmas.BasinHopping
import TopSearch.Gen.BasinHopping
import Mathlib.Algebra.Order.Field.Basic
import Mathlib.MeasureTheory.Measure.Lebesgue.Basic
import Mathlib.Analysis.SpecialFunctions.Exp

set_option linter.unusedSectionVars false
set_option linter.unusedTactic false
set_option linter.unusedSimpArgs false
set_option linter.unreachableTactic false

namespace TopSearch.Props.C08
open TopSearch TopSearch.BH

/-! ### bridges (tie #1) -/

section ordered
variable {α : Type} [Field α] [LinearOrder α] [IsStrictOrderedRing α]

/-- Bridge: the failure test of the loop and the storing test of the first minimisation, as
    read from the current source, are `warnflag ≠ 0 ∨ REL_REDUCTION` and `warnflag = 0`. -/
theorem C08_bridge_fail_tests :
    (∀ w r, Gen.BasinHopping.loopFails w r = true ↔ (w ≠ 0 ∨ r = true)) ∧
    (∀ w, Gen.BasinHopping.initStores w = true ↔ w = 0) := by
  constructor
  · intro w r
    by_cases h : w = 0 <;> cases r <;> simp [Gen.BasinHopping.loopFails, h]
  · intro w
    by_cases h : w = 0 <;> simp [Gen.BasinHopping.initStores, h]

/-- The acceptance rule of the current `metropolis`, draw `u`, exponential `expf`:
    accepted ⇔ `energy2 < energy1` or `expf(-(energy2-energy1)/temperature) > u`. -/
theorem C08_metropolis_rule (expf : α → α) (e1 e2 T u : α) :
    Gen.BasinHopping.metropolis expf e1 e2 T u = true ↔ (e2 < e1 ∨ expf (-(e2 - e1) / T) > u) := by
  have hx : Gen.BasinHopping.exponent e1 e2 T = -(e2 - e1) / T := by
    unfold Gen.BasinHopping.exponent
    first
      | rfl
      | ring
      | (field_simp; ring)
  unfold Gen.BasinHopping.metropolis
  rw [hx]
  by_cases h1 : e2 < e1 <;> by_cases h2 : u < expf (-(e2 - e1) / T) <;>
    first
      | simp [Gen.BasinHopping.metropolisDecide, h1, h2]
      | (simp only [Gen.BasinHopping.metropolisDecide]; grind)

/-- Bridge: the Metropolis decision structure read from the source is the reference one. -/
theorem C08_bridge_metropolis (e1 e2 b u : α) :
    Gen.BasinHopping.metropolisDecide e1 e2 b u = BH.metropolisDecide e1 e2 b u := by
  by_cases h1 : e2 < e1 <;> by_cases h2 : u < b <;>
    first
      | simp [Gen.BasinHopping.metropolisDecide, BH.metropolisDecide, h1, h2]
      | (simp only [Gen.BasinHopping.metropolisDecide, BH.metropolisDecide]; grind)

/-- "converged with bonds intact", for the current code's tests -/
theorem C08_converged_iff (atomic : Bool) (i : StepIn α) :
    archived Gen.BasinHopping.kern atomic i = true ↔
      (i.warn = 0 ∧ i.relRed = false) ∧ (atomic = true → i.bondsOk = true) := by
  have h := C08_bridge_fail_tests.1 i.warn i.relRed
  unfold archived
  simp only [Gen.BasinHopping.kern] at *
  cases hl : Gen.BasinHopping.loopFails i.warn i.relRed
  · have : ¬ (i.warn ≠ 0 ∨ i.relRed = true) := fun hh => by simpa [hl] using h.2 hh
    have h0 : i.warn = 0 := by by_contra hc; exact this (Or.inl hc)
    have h1 : i.relRed = false := by cases hr : i.relRed <;> simp_all
    cases atomic <;> cases i.bondsOk <;> simp [h0, h1]
  · have := h.1 hl
    constructor
    · intro hh; simp at hh
    · rintro ⟨⟨h0, h1⟩, _⟩
      rcases this with hw | hr
      · exact absurd h0 hw
      · rw [h1] at hr; cases hr

end ordered

variable {α : Type}

/-! ### the archive -/

/-- The minima stored after a run are exactly the gate folded over
    `[first minimum, if its test passed] ++ [every step's minimum that converged with bonds intact]`
    in step order — whether the step was then accepted or rejected, for every match relation
    `same`, every starting network and every kernel configuration. -/
theorem C08_archive (k : Kern α) (same : Pt α → Pt α → Bool) (atomic : Bool) (net0 : Ktn (Pt α))
    (i0 : InitIn α) (ins : List (StepIn α)) :
    (runAll k same atomic net0 i0 ins).net =
      (outputs k atomic i0 ins).foldl (insertUnlessMatch same) net0 := by
  unfold runAll outputs
  rw [run_net, init_net, List.foldl_append]

/-- A step whose minimisation failed to converge (or, for atomic / molecular systems, broke the
    bonds) leaves no trace: the network is unchanged, and (all sites copying) the walker, the
    saved minimum and the energy kept for the next test are what they were. -/
theorem C08_failed_no_trace (k : Kern α) (same : Pt α → Pt α → Bool) (atomic : Bool)
    (s : State α) (i : StepIn α) (hd : archived k atomic i = false) :
    (step k same atomic s i).net = s.net ∧
      (k.copy.all = true → Clean s →
        (step k same atomic s i).walker = s.walker ∧ (step k same atomic s i).markov = s.markov ∧
          (step k same atomic s i).markovE = s.markovE) := by
  refine ⟨by rw [step_net, hd]; rfl, fun hk hs => ?_⟩
  obtain ⟨hc, he⟩ := step_spec k hk same atomic s hs i
  simp only [specStep, hd, Bool.false_and, Bool.false_eq_true, if_false] at he
  have hw : (step k same atomic s i).walker = s.walker := congrArg Pt.pos he
  refine ⟨hw, ?_, congrArg Pt.e he⟩
  have h1 : (step k same atomic s i).markov = Saved.val (step k same atomic s i).walker := hc
  have h2 : s.markov = Saved.val s.walker := hs
  rw [h1, h2, hw]

/-- Every minimum the run stores is the outcome of one of its successful minimisations (or was
    in the network before the run). -/
theorem C08_stored_subset_outputs (k : Kern α) (same : Pt α → Pt α → Bool) (atomic : Bool)
    (net0 : Ktn (Pt α)) (i0 : InitIn α) (ins : List (StepIn α)) :
    ∀ nd ∈ (runAll k same atomic net0 i0 ins).net.nodes,
      nd ∈ net0.nodes ∨ nd.data ∈ outputs k atomic i0 ins := by
  rw [C08_archive]
  exact foldl_gate_nodes same _ net0

/-- Every successfully converged minimum met during the run — accepted or not — is represented
    in the final network (stored itself, or matched by a stored minimum); minima that were in
    the network before are all still there, in place; no transition state is touched and the
    store stays coherent.  Needs a coherent starting network (C02; e.g. the empty one). -/
theorem C08_every_converged_represented (k : Kern α) (same : Pt α → Pt α → Bool) (atomic : Bool)
    (net0 : Ktn (Pt α)) (h0 : Ktn.Inv net0) (i0 : InitIn α) (ins : List (StepIn α)) :
    (∀ c ∈ outputs k atomic i0 ins,
        ∃ nd ∈ (runAll k same atomic net0 i0 ins).net.nodes, nd.data = c ∨ same c nd.data = true) ∧
      (∃ tail, (runAll k same atomic net0 i0 ins).net.nodes = net0.nodes ++ tail) ∧
      (runAll k same atomic net0 i0 ins).net.edges = net0.edges ∧
      Ktn.Inv (runAll k same atomic net0 i0 ins).net := by
  rw [C08_archive]
  exact ⟨foldl_gate_represents same _ h0, foldl_gate_prefix same _ h0,
    (foldl_gate_edges same _ net0).1, foldl_gate_inv same _ h0⟩

/-- The archive of the current code, spelled out: a step contributes its minimum exactly when
    `warnflag = 0`, the exit was not REL_REDUCTION and (atomic / molecular) the bonds are intact;
    the first minimisation contributes when `warnflag = 0`. -/
theorem C08_archive_gen [Field α] [LinearOrder α] [IsStrictOrderedRing α]
    (same : Pt α → Pt α → Bool) (atomic : Bool) (net0 : Ktn (Pt α)) (i0 : InitIn α)
    (ins : List (StepIn α)) :
    (runAll Gen.BasinHopping.kern same atomic net0 i0 ins).net =
      ((if i0.warn = 0 then [(⟨i0.gated, i0.minE⟩ : Pt α)] else []) ++
        (ins.filter (fun i => decide ((i.warn = 0 ∧ i.relRed = false) ∧
          (atomic = true → i.bondsOk = true)))).map StepIn.pt).foldl (insertUnlessMatch same) net0 := by
  rw [C08_archive]
  unfold outputs
  congr 2
  · have := C08_bridge_fail_tests.2 i0.warn
    simp only [Gen.BasinHopping.kern]
    by_cases h : i0.warn = 0
    · have h' := this.2 h
      simp [h']
      simp [h]
    · have : Gen.BasinHopping.initStores i0.warn = false := by
        cases hh : Gen.BasinHopping.initStores i0.warn
        · rfl
        · exact absurd (this.1 hh) h
      simp [h, this]
  · congr 1
    apply List.filter_congr
    intro i _
    have := C08_converged_iff (α := α) atomic i
    cases ha : archived Gen.BasinHopping.kern atomic i
    · symm; rw [decide_eq_false_iff_not]; intro hh; rw [this.2 hh] at ha; cases ha
    · symm; rw [decide_eq_true_iff]; exact this.1 ha

/-! ### the acceptance probability -/

open MeasureTheory in
/-- An uphill move (`dE ≥ 0`) at temperature `T > 0` is accepted with the Metropolis
    probability: the set of draws `u ∈ [0,1)` with `exp(-dE/T) > u` has Lebesgue measure
    `exp(-dE/T)`. -/
theorem C08_metropolis_prob (dE T : ℝ) (hdE : 0 ≤ dE) (hT : 0 < T) :
    volume {u : ℝ | u ∈ Set.Ico 0 1 ∧ Real.exp (-dE / T) > u} =
      ENNReal.ofReal (Real.exp (-dE / T)) := by
  have hb : Real.exp (-dE / T) ≤ 1 := by
    rw [Real.exp_le_one_iff]
    exact div_nonpos_of_nonpos_of_nonneg (by linarith) hT.le
  have hs : {u : ℝ | u ∈ Set.Ico 0 1 ∧ Real.exp (-dE / T) > u} = Set.Ico 0 (Real.exp (-dE / T)) := by
    ext u
    constructor
    · rintro ⟨⟨h0, _⟩, h2⟩; exact ⟨h0, h2⟩
    · rintro ⟨h0, h2⟩; exact ⟨⟨h0, lt_of_lt_of_le h2 hb⟩, h2⟩
  rw [hs, Real.volume_Ico]
  simp

open MeasureTheory in
/-- The same for the kernel read from the current source, with `u` uniform on `[0,1)`: the set
    of draws on which `metropolis(energy1, energy2, T)` answers True has measure
    `exp(-(energy2-energy1)/T)` for an uphill or level move, and measure 1 for a downhill one. -/
theorem C08_accept_probability (e1 e2 T : ℝ) (hT : 0 < T) :
    volume {u : ℝ | u ∈ Set.Ico 0 1 ∧ Gen.BasinHopping.metropolis Real.exp e1 e2 T u = true} =
      if e2 < e1 then 1 else ENNReal.ofReal (Real.exp (-(e2 - e1) / T)) := by
  split_ifs with h
  · have : {u : ℝ | u ∈ Set.Ico 0 1 ∧ Gen.BasinHopping.metropolis Real.exp e1 e2 T u = true}
        = Set.Ico 0 1 := by
      ext u
      simp only [Set.mem_ofPred_eq, C08_metropolis_rule, h, true_or, and_true]
    rw [this, Real.volume_Ico]
    simp
  · have hs : {u : ℝ | u ∈ Set.Ico 0 1 ∧ Gen.BasinHopping.metropolis Real.exp e1 e2 T u = true}
        = {u : ℝ | u ∈ Set.Ico 0 1 ∧ Real.exp (-(e2 - e1) / T) > u} := by
      ext u
      simp only [Set.mem_ofPred_eq, C08_metropolis_rule, h, false_or]
    rw [hs]
    exact C08_metropolis_prob (e2 - e1) T (by linarith [not_lt.1 h]) hT

/-! ### non-vacuity -/

/-- a run over `Int` with an accepted, a rejected (still archived), a failed and a duplicate
    step: the archive holds the first minimum, the accepted and the rejected one — once each -/
example :
    let k : Kern Int := Kern.model
    let same : Pt Int → Pt Int → Bool := fun a b => a.pos == b.pos
    let mk (p : Int) (e : Int) (w : Int) : StepIn Int := ⟨[p + 1], [p + 1], [p], e, w, false, true, [p], 0, 0⟩
    let ins := [mk 10 (-1) 0, mk 20 5 0, mk 30 (-7) 2, mk 10 (-1) 0]
    (runAll k same false {} ⟨[0], 0, 0, [0]⟩ ins).net.nodes.map (·.data) =
      [⟨[0], 0⟩, ⟨[10], -1⟩, ⟨[20], 5⟩] ∧
    outputs k false ⟨[0], 0, 0, [0]⟩ ins = [⟨[0], 0⟩, ⟨[10], -1⟩, ⟨[20], 5⟩, ⟨[10], -1⟩] := by
  decide

example : (0 : ℝ) ≤ 1 ∧ (0 : ℝ) < 2 := by norm_num

end TopSearch.Props.C08
