/-
  C05 — search outcomes are merged without loss, duplication or abort.
  Property theorems only (helpers live in Lemmas/Merge.lean).

  A round of connection attempts is modelled by `roundSerial` / `roundParallel` (both merge the
  per-pair outcome lists in list order through the gate `testNewTs`; they differ only in the
  network `check_pair` sees, which is an arbitrary parameter `allowed` here — C13's subject),
  a landscape reconvergence by `reconvergeLandscape`.  `same` is ANY symmetric match relation.
-/
import TopSearch.Lemmas.Merge
import TopSearch.Gen.Similarity
import TopSearch.Gen.Ktn

set_option linter.unusedVariables false

namespace TopSearch.Props.C05
open TopSearch TopSearch.Ktn TopSearch.Merge
variable {δ : Type}

/-! ### bridges (tie #1) -/

/-- Bridge: `reconverge_landscape` skips failed re-searches and `connection_attempt` keeps a
    search result only when its transition state is not `None` (read from the current source). -/
theorem C05_bridge_filters :
    Gen.Similarity.cfg.reconvergeSkipsFailed = true ∧
    Gen.Similarity.cfg.attemptKeepsOnlySuccessful = true := by decide

/-- Bridge: the result tuple of the single-ended search reaches `test_new_ts` unpermuted —
    (ts, e_ts, min_plus, e_plus, min_minus, e_minus) — in the serial branch, the multiprocessing
    branch and the reconvergence. -/
theorem C05_bridge_wiring :
    Gen.Similarity.serialWiring.map (Gen.Similarity.attemptWiring.getD · 99) = [0, 1, 2, 3, 4, 5] ∧
    Gen.Similarity.parallelWiring.map (Gen.Similarity.attemptWiring.getD · 99) = [0, 1, 2, 3, 4, 5] ∧
    Gen.Similarity.reconvergeWiring = [0, 1, 2, 3, 4, 5] := by decide

/-- Bridge: the network-touching statements of the current `test_new_ts`, in source order, are
    the modelled gate `testNewTs` (the same obligation as `C03_bridge_steps`; the round theorems
    below are about `testNewTs`). -/
theorem C05_bridge_steps (same : δ → δ → Bool) (c : Bool) (s : Ktn δ) (r : Rec δ) :
    runSteps same c Gen.Similarity.cfg.testNewTsSteps s r = testNewTs same c s r := by
  simp only [Gen.Similarity.cfg, runSteps, List.foldl_cons, List.foldl_nil, runStep, testNewTs,
    lookupOrInsert]
  cases h1 : isNewTs same s r.ts
  · simp
  · cases h2 : isNewMinimum same s r.plus <;>
      simp [TsRun.setIdx, TsRun.idx, Rec.side, h2] <;>
      (split <;> simp_all [TsRun.setIdx, TsRun.idx, Rec.side])

/-- Bridge: the store counts a transition state only when its pair was not connected before. -/
theorem C05_bridge_counter : Gen.Ktn.cfg.addTsCountsOnlyNew = true := by decide

/-! ### failed and repeated searches -/

/-- A failed search changes nothing and never stops the rest from being merged: merging a list
    of outcomes is merging its successful ones; a failure inserted anywhere in a pair's outcome
    list, and an all-failed or empty list anywhere in the round, leave the result unchanged. -/
theorem C05_failed_is_noop (same : δ → δ → Bool) (c : Bool) (s : Ktn δ) :
    mergeOutcome same c s none = s ∧
    (∀ outs : List (Outcome δ),
      outs.foldl (mergeOutcome same c) s = mergeRecs same c s (successes outs)) ∧
    (∀ a b : List (Outcome δ), successes (a ++ none :: b) = successes (a ++ b)) ∧
    (∀ (pre post : List (List (Outcome δ))) (a b : List (Outcome δ)),
      mergeRound same c s (pre ++ (a ++ none :: b) :: post) = mergeRound same c s (pre ++ (a ++ b) :: post)) ∧
    (∀ (pre post : List (List (Outcome δ))) (fs : List (Outcome δ)), (∀ o ∈ fs, o = none) →
      mergeRound same c s (pre ++ fs :: post) = mergeRound same c s (pre ++ post)) := by
  have hs : ∀ a b : List (Outcome δ), successes (a ++ none :: b) = successes (a ++ b) := by
    intro a b; simp [successes, List.filterMap_append]
  refine ⟨rfl, fun outs => (mergeRecs_eq_foldOutcome same c outs s).symm, hs, ?_, ?_⟩
  · intro pre post a b
    rw [mergeRound_eq_flat, mergeRound_eq_flat]
    simp only [List.flatten_append, List.flatten_cons, successes_append, hs]
  · intro pre post fs hfs
    rw [mergeRound_eq_flat, mergeRound_eq_flat]
    have : successes fs = [] := by
      simp only [successes, List.filterMap_eq_nil_iff]
      intro o ho; rw [hfs o ho]; rfl
    simp only [List.flatten_append, List.flatten_cons, successes_append, this, List.nil_append]

/-- A repeated transition state (one that matches a stored transition state) changes nothing —
    neither the transition states nor the minima (its two minima are not even looked up). -/
theorem C05_repeat_is_noop (same : δ → δ → Bool) (c : Bool) (s : Ktn δ) (r : Rec δ)
    (h : isNewTs same s r.ts = false) : testNewTs same c s r = s :=
  testNewTs_repeat h

/-- In particular (reflexive relation) merging the same record twice is merging it once. -/
theorem C05_twice_is_once (same : δ → δ → Bool) (hsym : ∀ x y, same x y = same y x)
    (hrefl : ∀ x, same x x = true) (s : Ktn δ) (hs : GateInv same s) (r : Rec δ) :
    testNewTs same true (testNewTs same true s r) r = testNewTs same true s r := by
  cases h : isNewTs same s r.ts
  · rw [testNewTs_repeat h, testNewTs_repeat h]
  · obtain ⟨ip, im, _, _, _, _, hed, _⟩ := testNewTs_new_spec hsym hs r h
    apply testNewTs_repeat
    simp only [edgeData?, Option.map_eq_some_iff] at hed
    obtain ⟨e, hf, he⟩ := hed
    have hm := List.mem_of_find?_eq_some hf
    simp only [isNewTs, Bool.not_eq_false', List.any_eq_true]
    exact ⟨e, hm, by rw [he]; exact hrefl _⟩

/-! ### nothing removed, nothing renumbered -/

/-- One merged record: old minima are a prefix of the new ones (same labels, same data), at most
    two minima are appended, the history is untouched, and for EVERY pair the stored transition
    state is unchanged — except, when the record's transition state matched no stored one, for
    the single pair its two minima resolve to, which now carries the record's transition state. -/
theorem C05_monotone_step (same : δ → δ → Bool) (hsym : ∀ x y, same x y = same y x) (s : Ktn δ)
    (hs : GateInv same s) (r : Rec δ) :
    (∃ extra, (testNewTs same true s r).nodes = s.nodes ++ extra ∧ extra.length ≤ 2) ∧
    (testNewTs same true s r).pairlist = s.pairlist ∧
    ((∀ a b, (testNewTs same true s r).edgeData? a b = s.edgeData? a b) ∨
     (isNewTs same s r.ts = true ∧ ∃ ip im,
        (testNewTs same true s r).edgeData? ip im = some r.ts ∧
        ∀ a b, Edge.joins (⟨a, b, r.ts⟩ : Edge δ) ip im = false →
          (testNewTs same true s r).edgeData? a b = s.edgeData? a b)) := by
  cases h : isNewTs same s r.ts
  · rw [testNewTs_repeat h]
    exact ⟨⟨[], by simp⟩, rfl, Or.inl (fun _ _ => rfl)⟩
  · obtain ⟨ip, im, hg, hm, _, _, hed, hoth, _, _, hn, _⟩ := testNewTs_new_spec hsym hs r h
    obtain ⟨extra, he⟩ := hm.nodes
    refine ⟨⟨extra, he, ?_⟩, ?_, Or.inr ⟨rfl, ip, im, hed, hoth⟩⟩
    · have h1 := congrArg List.length hg.inv.1
      have h2 := congrArg List.length hs.inv.1
      have h3 := congrArg List.length he
      simp only [List.length_map, List.length_range, List.length_append] at h1 h2 h3
      omega
    · simp only [testNewTs, h, if_true, lookupOrInsert]
      cases isNewMinimum same s r.plus <;> simp only [] <;>
        (split <;> simp [addTs, addMin] <;> (repeat' split) <;> rfl)

/-- what a round may do to a network `s` to reach `s'`, given the transition states `T` that
    were found: nothing is removed or renumbered -/
def Preserved (T : δ → Prop) (s s' : Ktn δ) : Prop :=
  (∃ extra, s'.nodes = s.nodes ++ extra) ∧
  (∀ i x, s.nodeData? i = some x → s'.nodeData? i = some x) ∧
  s.nMin ≤ s'.nMin ∧
  (∃ extra, s'.pairlist = s.pairlist ++ extra) ∧
  (∀ a b, s.hasEdge a b = true → s'.hasEdge a b = true) ∧
  (∀ a b x, s.edgeData? a b = some x → ∃ y, s'.edgeData? a b = some y ∧ (y = x ∨ T y))

theorem preserved_of_mono {T : δ → Prop} {s s' : Ktn δ} (h : Mono T s s') : Preserved T s s' := by
  refine ⟨h.nodes, fun i x hx => nodeData_mono h.nodes hx, h.nMin, h.hist, ?_, h.edges⟩
  intro a b hab
  rw [hasEdge_eq_isSome] at hab ⊢
  obtain ⟨x, hx⟩ := Option.isSome_iff_exists.1 hab
  obtain ⟨y, hy, _⟩ := h.edges a b x hx
  simp [hy]

/-- the transition states found by the successful searches of a round -/
def Found (tasks : List (Merge.Task δ)) (y : δ) : Prop := ∃ t ∈ tasks, ∃ r, some r ∈ t.2 ∧ y = r.ts

/-- **Connection attempts never remove or renumber anything**, serial or parallel, whatever
    `check_pair` decides and whichever searches fail: old minima are a prefix of the new minima
    with identical labels and data, the attempt history only grows, every connected pair stays
    connected, and the transition state of a connected pair is either the old one or one found
    by a successful search of this round. -/
theorem C05_monotone (allowed : Ktn δ → Nat × Nat → Bool) (same : δ → δ → Bool)
    (hsym : ∀ x y, same x y = same y x) (s : Ktn δ) (hs : GateInv same s) (tasks : List (Merge.Task δ)) :
    Preserved (Found tasks) s (roundSerial allowed same Gen.Ktn.cfg.addTsCountsOnlyNew s tasks) ∧
    Preserved (Found tasks) s (roundParallel allowed same Gen.Ktn.cfg.addTsCountsOnlyNew s tasks) := by
  rw [C05_bridge_counter]
  have key : ∀ mask : List Bool,
      Mono (Found tasks) s (recordPairs (mergeRound same true s (maskedOutcomes mask tasks)) (tasks.map (·.1))) := by
    intro mask
    have h1 := (mergeRound_spec hsym (maskedOutcomes mask tasks) hs).2
    have h1' : Mono (Found tasks) s (mergeRound same true s (maskedOutcomes mask tasks)) :=
      h1.weaken (fun y ⟨r, hr, hy⟩ => by
        obtain ⟨t, ht, ho⟩ := mem_maskedOutcomes hr
        exact ⟨t, ht, r, ho, hy⟩)
    exact h1'.trans (mono_setHist _ _ ⟨_, rfl⟩)
  constructor
  · obtain ⟨mask, _, he⟩ := serialFold_eq allowed same true tasks s
    unfold roundSerial; rw [he]
    exact preserved_of_mono (key mask)
  · unfold roundParallel; simp only; rw [parallelFold_eq]
    exact preserved_of_mono (key _)

/-- The gate invariant (store coherent — in particular `n_ts` = number of stored transition
    states even when a pair receives a second one —, stored minima pairwise non-matching, stored
    transition states pairwise non-matching) survives every round, serial or parallel. -/
theorem C05_round_inv (allowed : Ktn δ → Nat × Nat → Bool) (same : δ → δ → Bool)
    (hsym : ∀ x y, same x y = same y x) (s : Ktn δ) (hs : GateInv same s) (tasks : List (Merge.Task δ)) :
    GateInv same (roundSerial allowed same Gen.Ktn.cfg.addTsCountsOnlyNew s tasks) ∧
    GateInv same (roundParallel allowed same Gen.Ktn.cfg.addTsCountsOnlyNew s tasks) := by
  rw [C05_bridge_counter]
  constructor
  · obtain ⟨mask, _, he⟩ := serialFold_eq allowed same true tasks s
    unfold roundSerial; rw [he]
    exact gateInv_setHist (mergeRound_spec hsym _ hs).1 _
  · unfold roundParallel; simp only; rw [parallelFold_eq]
    exact gateInv_setHist (mergeRound_spec hsym _ hs).1 _

/-- Serial and parallel mode are the same fold: both merge, in list order, the successful
    outcomes of the attempted pairs and then record every pair of the round (sorted) in the
    history; they differ only in the mask of attempted pairs (parallel: `check_pair` against the
    initial network; serial: against the evolving one). -/
theorem C05_serial_parallel_same_fold (allowed : Ktn δ → Nat × Nat → Bool) (same : δ → δ → Bool)
    (c : Bool) (s : Ktn δ) (tasks : List (Merge.Task δ)) :
    (∃ mask : List Bool, mask.length = tasks.length ∧
      roundSerial allowed same c s tasks =
        recordPairs (mergeRecs same c s (successes (maskedOutcomes mask tasks).flatten)) (tasks.map (·.1))) ∧
    roundParallel allowed same c s tasks =
      recordPairs (mergeRecs same c s
        (successes (maskedOutcomes (tasks.map (fun t => allowed s t.1)) tasks).flatten)) (tasks.map (·.1)) := by
  constructor
  · obtain ⟨mask, hl, he⟩ := serialFold_eq allowed same c tasks s
    exact ⟨mask, hl, by unfold roundSerial; rw [he, mergeRound_eq_flat]⟩
  · unfold roundParallel; simp only; rw [parallelFold_eq, mergeRound_eq_flat]

/-! ### every successful search contributes -/

/-- Immediately after merging a successful, non-repeated record its transition state is stored
    on an edge whose end points represent the two minima it descended to: each is the FIRST stored
    minimum the found minimum matches (an existing index), else the found minimum itself, freshly
    appended.  (If the two found minima match each other the edge is a self-connection.) -/
theorem C05_contributes (same : δ → δ → Bool) (hsym : ∀ x y, same x y = same y x) (s : Ktn δ)
    (hs : GateInv same s) (r : Rec δ) (h : isNewTs same s r.ts = true) :
    ∃ ip im,
      (testNewTs same true s r).edgeData? ip im = some r.ts ∧
      (testNewTs same true s r).hasEdge ip im = true ∧
      Rep same (testNewTs same true s r) ip r.plus ∧ Rep same (testNewTs same true s r) im r.minus ∧
      (∀ i, isNewMinimum same s r.plus = some i → ip = i) ∧
      (isNewMinimum same s r.plus = none → ip = s.nMin ∧
        (testNewTs same true s r).nodeData? ip = some r.plus) := by
  obtain ⟨ip, im, hg, hm, hp, hmi, hed, _, _, _, _, hnone, hsome⟩ := testNewTs_new_spec hsym hs r h
  refine ⟨ip, im, hed, by rw [hasEdge_eq_isSome, hed]; rfl, hp, hmi, hsome, ?_⟩
  intro hn
  refine ⟨hnone hn, ?_⟩
  rw [hnone hn]
  -- the appended node survives the rest of the gate
  have h1 : (s.addMin r.plus).nodeData? s.nMin = some r.plus := (nodeData_addMin hs.inv r.plus).1
  have hpre : ∃ extra, (testNewTs same true s r).nodes = (s.addMin r.plus).nodes ++ extra := by
    simp only [testNewTs, h, if_true, lookupOrInsert, hn]
    obtain ⟨_, _, _, _, _, B6, _⟩ := lookupOrInsert_spec (gateInv_addMin hs hn) r.minus
    obtain ⟨extra, he⟩ := B6
    refine ⟨extra, ?_⟩
    rw [(edgeData_addTs true _ r.ts _ _).2.2.1]
    simpa [lookupOrInsert] using he
  exact nodeData_mono hpre h1

/-- …and at the end of the round that pair is still connected, both found minima are still
    represented by the same stored minima, and the pair carries this record's transition state
    unless a later successful search of the round replaced it with its own.  Stated for the
    flattened outcome list of the round (`pre`: everything merged before this record, failures
    included; `post`: everything after). -/
theorem C05_contribution_persists (same : δ → δ → Bool) (hsym : ∀ x y, same x y = same y x)
    (s : Ktn δ) (hs : GateInv same s) (pre post : List (Outcome δ)) (r : Rec δ)
    (h : isNewTs same (mergeRecs same true s (successes pre)) r.ts = true) :
    ∃ ip im y,
      Rep same (mergeRecs same true s (successes (pre ++ some r :: post))) ip r.plus ∧
      Rep same (mergeRecs same true s (successes (pre ++ some r :: post))) im r.minus ∧
      (mergeRecs same true s (successes (pre ++ some r :: post))).hasEdge ip im = true ∧
      (mergeRecs same true s (successes (pre ++ some r :: post))).edgeData? ip im = some y ∧
      (y = r.ts ∨ ∃ r', some r' ∈ post ∧ y = r'.ts) := by
  have hsplit : successes (pre ++ some r :: post) = successes pre ++ r :: successes post := by
    simp [successes, List.filterMap_append]
  rw [hsplit, mergeRecs_append]
  have ht := (mergeRecs_spec hsym (successes pre) hs).1
  generalize mergeRecs same true s (successes pre) = t at *
  obtain ⟨ip, im, hg, _, hp, hmi, hed, _⟩ := testNewTs_new_spec hsym ht r h
  have hfin := (mergeRecs_spec hsym (successes post) hg).2
  have heq : mergeRecs same true t (r :: successes post) =
      mergeRecs same true (testNewTs same true t r) (successes post) := rfl
  rw [heq]
  obtain ⟨y, hy, hyr⟩ := hfin.edges ip im r.ts hed
  refine ⟨ip, im, y, hp.mono hfin.nodes, hmi.mono hfin.nodes, by rw [hasEdge_eq_isSome, hy]; rfl, hy, ?_⟩
  rcases hyr with h1 | ⟨r', hr', h1⟩
  · exact Or.inl h1
  · exact Or.inr ⟨r', by simpa [successes] using hr', h1⟩

/-! ### reconvergence -/

/-- `reconverge_landscape` (with the failure filter read from the current source) never aborts:
    it is the reset network, folded through the minimum gate over the re-minimised minima and
    then through the transition-state gate over the successful re-searches, failures skipped;
    the result satisfies the gate invariant; and `reconverge_minima` is the first half. -/
theorem C05_reconverge (same : δ → δ → Bool) (hsym : ∀ x y, same x y = same y x) (s : Ktn δ)
    (mins : List δ) (outs : List (Outcome δ)) :
    reconvergeLandscape Gen.Similarity.cfg.reconvergeSkipsFailed same Gen.Ktn.cfg.addTsCountsOnlyNew s mins outs =
      some ((successes outs).foldl (testNewTs same true) (mins.foldl (testNewMinimum same) empty)) ∧
    GateInv same ((successes outs).foldl (testNewTs same true) (mins.foldl (testNewMinimum same) empty)) ∧
    reconvergeMinima same s mins = mins.foldl (testNewMinimum same) empty ∧
    GateInv same (reconvergeMinima same s mins) := by
  have hf := C05_bridge_filters.1
  rw [hf, C05_bridge_counter]
  have h1 := (foldMin_spec (same := same) mins (gateInv_empty same)).1
  refine ⟨?_, (mergeRecs_spec hsym (successes outs) h1).1, rfl, h1⟩
  unfold reconvergeLandscape
  rw [tsLoop_skip]
  rfl

/-- The reconvergence as a stream of offers: it inherits every stream theorem of C03
    (pairwise non-matching, representation of the re-minimised minima). -/
theorem C05_reconverge_is_stream (same : δ → δ → Bool) (c : Bool) (s : Ktn δ) (mins : List δ)
    (outs : List (Outcome δ)) :
    reconvergeLandscape true same c s mins outs =
      some (Merge.run same c s (Offer.reset :: mins.map Offer.minimum ++
        outs.map (fun o => match o with | none => Offer.failed | some r => Offer.ts r))) := by
  unfold reconvergeLandscape
  rw [tsLoop_skip, mergeRecs_eq_foldOutcome]
  simp only [Merge.run, List.foldl_cons, List.foldl_append, List.foldl_map, offer]
  congr 1
  apply congrArg (fun f => List.foldl f _ outs)
  funext t o
  cases o <;> rfl

/-- Without the failure filter (the code before the repair) one failed re-search loses the
    whole transition-state loop. -/
theorem C05_reconverge_aborts_without_filter (same : δ → δ → Bool) (c : Bool) (s : Ktn δ)
    (mins : List δ) (outs : List (Outcome δ)) (h : none ∈ outs) :
    reconvergeLandscape false same c s mins outs = none := by
  unfold reconvergeLandscape
  exact tsLoop_abort same c outs h _

/-! ### non-vacuity -/

/-- a round with a self-pair, a repeated pair, failures in every position, a repeated transition
    state, a record whose two sides reach the same new minimum (stored once, self-connection), and
    a second transition state for a connected pair (replaced, count unchanged) -/
example :
    let same : Nat → Nat → Bool := fun a b => a / 10 == b / 10
    let s0 := Merge.run same true (empty : Ktn Nat) [.minimum 10, .minimum 20, .minimum 30]
    let tasks : List (Merge.Task Nat) :=
      [((0, 1), [none, some ⟨100, 11, 21⟩, none]), ((1, 1), [some ⟨999, 0, 0⟩]),
       ((1, 2), [some ⟨105, 22, 33⟩, some ⟨110, 40, 41⟩]), ((0, 1), [some ⟨120, 12, 23⟩]),
       ((2, 0), []), ((0, 2), [none, none]), ((1, 0), [some ⟨130, 14, 24⟩])]
    let ser := roundSerial checkPair same true s0 tasks
    let par := roundParallel checkPair same true s0 tasks
    ser.nodes.map (·.data) = [10, 20, 30, 40] ∧
    ser.edges.map (fun e => (e.u, e.v, e.data)) = [(0, 1, 100), (3, 3, 110)] ∧ ser.nTs = 2 ∧
    par.edges.map (fun e => (e.u, e.v, e.data)) = [(0, 1, 130), (3, 3, 110)] ∧ par.nTs = 2 ∧
    ser.pairlist = [(0, 1), (1, 1), (1, 2), (0, 1), (0, 2), (0, 2), (0, 1)] := by
  decide

end TopSearch.Props.C05
