/-
  C01 — composition with global optimisation: C20 ∘ C10 ∘ C08 ⟹ the minima clause of C01.

  `C01_inv` assumes that every offered minimum is good (in the box, stored energy = surface at the
  stored coordinates).  For the minima that global optimisation stores this file discharges the
  assumption from the other properties' results:

    * C08 (`C08_stored_subset_outputs`): whatever the run stores is the output of one of its
      successful minimisations (or was in the network before the run) — for every run length, every
      pattern of failing / bond-breaking / rejected steps and every match relation;
    * C10 (`C10_from_contract`, through `C01_minimum_from_minimiser`): the output of `minimise`, for
      the call regenerated from the current source and any optimiser meeting the named contract
      `LBFGSB`, started inside the box, is in the box and reports the surface's value there;
    * C20: the step taker leaves the walker inside the box (hypothesis `hstart` below — it is the
      conclusion of `C20_std_in_box`; kept as a hypothesis so that any step taker with that guarantee
      is covered).

  The statement is for systems whose similarity leaves the candidate's coordinates alone
  (`gated = minPos`, the standard similarity); for atomic systems the recentring translation moves
  the stored coordinates and translation invariance of the surface (C16) would be needed in addition.
-/
import TopSearch.Props.C01Compose
import TopSearch.Props.C08

namespace TopSearch.Props.C01
open TopSearch TopSearch.Ktn TopSearch.BH TopSearch.Hef

variable {α : Type} [Field α] [LinearOrder α] [IsStrictOrderedRing α]

/-- a basin-hopping payload is good: in the box, energy = surface at the coordinates -/
def GoodBH (f : List α → α) (lo up : List α) (p : BH.Pt α) : Prop :=
  InBox p.pos lo up ∧ p.e = f p.pos

/-- the minimisation of one step, as `BasinHopping.run` performs it: `minimise` (call regenerated from
    the source) on the surface's `function_gradient`, from the perturbed point, in the box -/
def StepFromMinimiser {ι : Type} (opt : TopSearch.Lbfgs.Oracle α ι) (f : List α → α) (gradF : List α → List α)
    (lo up : List α) (conv : α) (m n : Nat) (start pos : List α) (e : α) : Prop :=
  ∃ r, TopSearch.Lbfgs.minimise Gen.Lbfgs.call opt
      ⟨fun x _ => (f x, gradF x), start, finiteBounds lo up, conv, m, n, none⟩ = some r ∧
    pos = r.x ∧ e = r.f

/-- one minimisation started in the box by a contract-abiding optimiser yields a good payload -/
theorem goodBH_of_minimiser {ι : Type} (opt : TopSearch.Lbfgs.Oracle α ι) (hopt : TopSearch.Lbfgs.LBFGSB opt)
    (f : List α → α) (gradF : List α → List α) (lo up : List α) (hl : lo.length = up.length)
    (conv : α) (m n : Nat) (start pos : List α) (e : α) (hstart : InBox start lo up)
    (h : StepFromMinimiser opt f gradF lo up conv m n start pos e) :
    GoodBH f lo up ⟨pos, e⟩ := by
  obtain ⟨r, hr, hp, he⟩ := h
  obtain ⟨r', hr', hg⟩ := C01_minimum_from_minimiser opt hopt f gradF lo up start hl conv m n hstart
  have : r' = r := Option.some.inj (hr'.symm.trans hr)
  subst this
  subst hp he
  exact ⟨hg.1, hg.2⟩

/-- **Global optimisation stores only good minima** — for every kernel configuration, every match
    relation, every number of steps and every pattern of failed, bond-breaking, rejected and accepted
    steps: if the network was good before the run, the first minimisation and every step's
    minimisation are `minimise` calls of a contract-abiding optimiser started inside the box, and the
    similarity leaves coordinates alone, then every minimum in the network after the run is in the
    box and its stored energy is the surface evaluated at its stored coordinates. -/
theorem C01_minima_from_global_optimisation {ι : Type} (opt : TopSearch.Lbfgs.Oracle α ι)
    (hopt : TopSearch.Lbfgs.LBFGSB opt) (f : List α → α) (gradF : List α → List α)
    (lo up : List α) (hl : lo.length = up.length) (conv : α) (m n : Nat)
    (k : Kern α) (same : BH.Pt α → BH.Pt α → Bool) (atomic : Bool) (net0 : Ktn (BH.Pt α))
    (hnet0 : ∀ nd ∈ net0.nodes, GoodBH f lo up nd.data)
    (i0 : InitIn α) (x0 : List α) (hx0 : InBox x0 lo up) (hg0 : i0.gated = i0.minPos)
    (h0 : StepFromMinimiser opt f gradF lo up conv m n x0 i0.minPos i0.minE)
    (ins : List (StepIn α))
    (hsteps : ∀ i ∈ ins, InBox i.perturbed lo up ∧ i.gated = i.minPos ∧
      StepFromMinimiser opt f gradF lo up conv m n i.perturbed i.minPos i.minE) :
    ∀ nd ∈ (runAll k same atomic net0 i0 ins).net.nodes, GoodBH f lo up nd.data := by
  intro nd hnd
  rcases TopSearch.Props.C08.C08_stored_subset_outputs k same atomic net0 i0 ins nd hnd with h | h
  · exact hnet0 nd h
  · unfold outputs at h
    rcases List.mem_append.mp h with h | h
    · split at h
      · have : nd.data = ⟨i0.gated, i0.minE⟩ := by simpa using h
        rw [this, hg0]
        exact goodBH_of_minimiser opt hopt f gradF lo up hl conv m n x0 _ _ hx0 h0
      · simp at h
    · obtain ⟨i, hi, hd⟩ := List.mem_map.mp h
      have hi' : i ∈ ins := (List.mem_filter.mp hi).1
      obtain ⟨hs, hg, hm⟩ := hsteps i hi'
      rw [← hd]
      unfold StepIn.pt
      rw [hg]
      exact goodBH_of_minimiser opt hopt f gradF lo up hl conv m n i.perturbed _ _ hs hm

/-- non-vacuity: the hypotheses are met by a run of any length whose optimiser is the identity on a
    constant surface (it meets the contract trivially is NOT claimed here — only the shape is shown):
    an empty run on the empty network stores nothing but the first minimum. -/
example (k : Kern ℚ) (same : BH.Pt ℚ → BH.Pt ℚ → Bool) (i0 : InitIn ℚ) :
    ∀ nd ∈ (runAll k same false (Ktn.empty : Ktn (BH.Pt ℚ)) i0 []).net.nodes,
      nd.data ∈ outputs k false i0 [] := by
  intro nd hnd
  rcases TopSearch.Props.C08.C08_stored_subset_outputs k same false Ktn.empty i0 [] nd hnd with h | h
  · simp [Ktn.empty] at h
  · exact h

end TopSearch.Props.C01
