/-
  C01 — composition with global optimisation: C20 ∘ C10 ∘ C08 ⟹ the minima clause of C01.

  `C01_inv` assumes that every offered minimum is good (in the box, stored energy = surface at the
  stored coordinates).  For the minima that global optimisation stores this file discharges the
  assumption from the other properties' results:

    * C08 (`C08_stored_subset_outputs`): whatever the run stores is the output of one of its
      successful minimisations (or was in the network before the run) — for every run length, every
      pattern of failing / bond-breaking / rejected steps and every match relation;
    * C10 (`C10_from_contract`, through `C01_minimum_from_minimiser`): the output of `minimise`, for
      the call regenerated from the current source and any optimiser meeting the named contract
      `LBFGSB`, started inside the box, is in the box and reports the surface's value there;
    * C20: the step taker leaves the walker inside the box.  `C01_minima_from_global_optimisation`
      takes this as the hypothesis `InBox i.perturbed lo up` so that any step taker with that
      guarantee is covered; `inBox_of_stdPerturb` (end of this file) discharges it for the standard
      step taker from `C20_std_step`, for every position, step size and sequence of draws.

  The statement is for systems whose similarity leaves the candidate's coordinates alone
  (`gated = minPos`, the standard similarity); for atomic systems the recentring translation moves
  the stored coordinates and translation invariance of the surface (C16) would be needed in addition.
-/
import TopSearch.Props.C01Compose
import TopSearch.Props.C08
import TopSearch.Props.C20

namespace TopSearch.Props.C01
open TopSearch TopSearch.Ktn TopSearch.BH TopSearch.Hef

variable {α : Type} [Field α] [LinearOrder α] [IsStrictOrderedRing α]

/-- a basin-hopping payload is good: in the box, energy = surface at the coordinates -/
def GoodBH (f : List α → α) (lo up : List α) (p : BH.Pt α) : Prop :=
  InBox p.pos lo up ∧ p.e = f p.pos

/-- the minimisation of one step, as `BasinHopping.run` performs it: `minimise` (call regenerated from
    the source) on the surface's `function_gradient`, from the perturbed point, in the box -/
def StepFromMinimiser {ι : Type} (opt : TopSearch.Lbfgs.Oracle α ι) (f : List α → α) (gradF : List α → List α)
    (lo up : List α) (conv : α) (m n : Nat) (start pos : List α) (e : α) : Prop :=
  ∃ r, TopSearch.Lbfgs.minimise Gen.Lbfgs.call opt
      ⟨fun x _ => (f x, gradF x), start, finiteBounds lo up, conv, m, n, none⟩ = some r ∧
    pos = r.x ∧ e = r.f

/-- one minimisation started in the box by a contract-abiding optimiser yields a good payload -/
theorem goodBH_of_minimiser {ι : Type} (opt : TopSearch.Lbfgs.Oracle α ι) (hopt : TopSearch.Lbfgs.LBFGSB opt)
    (f : List α → α) (gradF : List α → List α) (lo up : List α) (hl : lo.length = up.length)
    (conv : α) (m n : Nat) (start pos : List α) (e : α) (hstart : InBox start lo up)
    (h : StepFromMinimiser opt f gradF lo up conv m n start pos e) :
    GoodBH f lo up ⟨pos, e⟩ := by
  obtain ⟨r, hr, hp, he⟩ := h
  obtain ⟨r', hr', hg⟩ := C01_minimum_from_minimiser opt hopt f gradF lo up start hl conv m n hstart
  have : r' = r := Option.some.inj (hr'.symm.trans hr)
  subst this
  subst hp he
  exact ⟨hg.1, hg.2⟩

/-- **Global optimisation stores only good minima** — for every kernel configuration, every match
    relation, every number of steps and every pattern of failed, bond-breaking, rejected and accepted
    steps: if the network was good before the run, the first minimisation and every step's
    minimisation are `minimise` calls of a contract-abiding optimiser started inside the box, and the
    similarity leaves coordinates alone, then every minimum in the network after the run is in the
    box and its stored energy is the surface evaluated at its stored coordinates. -/
theorem C01_minima_from_global_optimisation {ι : Type} (opt : TopSearch.Lbfgs.Oracle α ι)
    (hopt : TopSearch.Lbfgs.LBFGSB opt) (f : List α → α) (gradF : List α → List α)
    (lo up : List α) (hl : lo.length = up.length) (conv : α) (m n : Nat)
    (k : Kern α) (same : BH.Pt α → BH.Pt α → Bool) (atomic : Bool) (net0 : Ktn (BH.Pt α))
    (hnet0 : ∀ nd ∈ net0.nodes, GoodBH f lo up nd.data)
    (i0 : InitIn α) (x0 : List α) (hx0 : InBox x0 lo up) (hg0 : i0.gated = i0.minPos)
    (h0 : StepFromMinimiser opt f gradF lo up conv m n x0 i0.minPos i0.minE)
    (ins : List (StepIn α))
    (hsteps : ∀ i ∈ ins, InBox i.perturbed lo up ∧ i.gated = i.minPos ∧
      StepFromMinimiser opt f gradF lo up conv m n i.perturbed i.minPos i.minE) :
    ∀ nd ∈ (runAll k same atomic net0 i0 ins).net.nodes, GoodBH f lo up nd.data := by
  intro nd hnd
  rcases TopSearch.Props.C08.C08_stored_subset_outputs k same atomic net0 i0 ins nd hnd with h | h
  · exact hnet0 nd h
  · unfold outputs at h
    rcases List.mem_append.mp h with h | h
    · split at h
      · have : nd.data = ⟨i0.gated, i0.minE⟩ := by simpa using h
        rw [this, hg0]
        exact goodBH_of_minimiser opt hopt f gradF lo up hl conv m n x0 _ _ hx0 h0
      · simp at h
    · obtain ⟨i, hi, hd⟩ := List.mem_map.mp h
      have hi' : i ∈ ins := (List.mem_filter.mp hi).1
      obtain ⟨hs, hg, hm⟩ := hsteps i hi'
      rw [← hd]
      unfold StepIn.pt
      rw [hg]
      exact goodBH_of_minimiser opt hopt f gradF lo up hl conv m n i.perturbed _ _ hs hm

/-- non-vacuity: the hypotheses are met by a run of any length whose optimiser is the identity on a
    constant surface (it meets the contract trivially is NOT claimed here — only the shape is shown):
    an empty run on the empty network stores nothing but the first minimum. -/
example (k : Kern ℚ) (same : BH.Pt ℚ → BH.Pt ℚ → Bool) (i0 : InitIn ℚ) :
    ∀ nd ∈ (runAll k same false (Ktn.empty : Ktn (BH.Pt ℚ)) i0 []).net.nodes,
      nd.data ∈ outputs k false i0 [] := by
  intro nd hnd
  rcases TopSearch.Props.C08.C08_stored_subset_outputs k same false Ktn.empty i0 [] nd hnd with h | h
  · simp [Ktn.empty] at h
  · exact h

/-! ### the step taker's guarantee (C20) in the form `hsteps` needs -/

/-- coordinates with their box, as the step-taker model sees them -/
def coordsOf (xs lo up : List α) : List (TopSearch.Moves.Coord α) :=
  TopSearch.Hef.zip3 (fun x l h => (⟨x, l, h⟩ : TopSearch.Moves.Coord α)) xs lo up

/-- **C20 ⟹ the walker's start is in the box.**  The standard step taker (perturb, then clip — the
    kernels read from the source, `C20_bridge_steps`), applied to ANY position with ANY draws in `[0, 1)`
    and any non-negative step size, absolute or proportional, yields a point inside a non-degenerate box:
    exactly the hypothesis `InBox i.perturbed lo up` of `C01_minima_from_global_optimisation`. -/
theorem inBox_of_stdPerturb (proportional : Bool) (m : α) (hm : 0 ≤ m) (us xs lo up : List α)
    (hx : xs.length = lo.length) (hu : xs.length = up.length) (hus : us.length = xs.length)
    (hbox : ∀ i (h1 : i < lo.length) (h2 : i < up.length), lo[i] ≤ up[i])
    (h01 : ∀ u ∈ us, 0 ≤ u ∧ u < 1) :
    InBox (TopSearch.Moves.stdPerturb proportional m us (coordsOf xs lo up)) lo up := by
  have hlen : (coordsOf xs lo up).length = xs.length := by
    unfold coordsOf
    rw [TopSearch.Hef.length_zip3, ← hx, ← hu]
    simp
  have hplen : (TopSearch.Moves.stdPerturb proportional m us (coordsOf xs lo up)).length = xs.length := by
    unfold TopSearch.Moves.stdPerturb
    rw [List.length_zipWith, hlen, hus]
    simp
  refine ⟨by rw [hplen, hx], by rw [hplen, hu], ?_⟩
  intro i h1 h2 h3
  have hix : i < xs.length := by rw [← hplen]; exact h1
  have hiu : i < us.length := by rw [hus]; exact hix
  have hic : i < (coordsOf xs lo up).length := by rw [hlen]; exact hix
  have hget : (TopSearch.Moves.stdPerturb proportional m us (coordsOf xs lo up))[i] =
      TopSearch.Moves.stdPerturb1 proportional m us[i] (coordsOf xs lo up)[i] := by
    simp [TopSearch.Moves.stdPerturb, List.getElem_zipWith]
  have hc : (coordsOf xs lo up)[i] = (⟨xs[i], lo[i], up[i]⟩ : TopSearch.Moves.Coord α) := by
    unfold coordsOf
    exact TopSearch.Hef.getElem_zip3 _ xs lo up i (by simpa [coordsOf] using hic) hix h2 h3
  obtain ⟨hu0, hu1⟩ := h01 us[i] (List.getElem_mem hiu)
  have hlo : lo[i] ≤ up[i] := hbox i h2 h3
  have hstep : 0 ≤ TopSearch.Moves.stepSize proportional m lo[i] up[i] := by
    unfold TopSearch.Moves.stepSize; split
    · exact mul_nonneg (sub_nonneg.mpr hlo) hm
    · exact hm
  have key := (TopSearch.Props.C20.C20_std_step us[i]
      (TopSearch.Moves.stepSize proportional m lo[i] up[i]) hu0 hu1 hstep).2.2.2 proportional m
      (⟨xs[i], lo[i], up[i]⟩ : TopSearch.Moves.Coord α) hm hlo rfl
  rw [hget, hc]
  exact ⟨key.2.1, key.2.2.1⟩

end TopSearch.Props.C01
