/-
  C16 (general N) — the Lennard-Jones gradient coded in potentials/atomic.py is the exact
  derivative of the coded energy for EVERY number of atoms.

  `Props/C16.lean` proves this for the translator's unrolled 2-, 3- and 4-atom runs.  Here the
  double loop itself is modelled once (`Model/LjN.lean`: `energyLoop`, `gradLoop`, `fgLoop`, whose
  loop body is the *generated* two-atom kernel `ljF2` / `ljGrad2` on the pair environment), and

    * `C16_lj_grad_N`            ∂/∂x_k energyLoop = gradLoop[k]   for all N, k (sum rule over the
                                  pair list + the pair-kernel theorem `C16_lj_grad_2`),
    * `C16_ljN_energy_sum`,
      `C16_ljN_pairs`            the energy is the sum of `v_ij` over exactly the pairs i < j < N,
    * `C16_lj_fg_N`              `function_gradient` = (`function`, `gradient`),
    * `C16_ljN_matches_unrolled` for N = 2, 3, 4 the loop model coincides with the code unrolled by
                                  the translator (ties the hand-written loop to the real one),
    * `C16_ljN_translation`      energy and gradient are translation invariant for all N.

  The only facts about the generated kernel used by the derivative theorem are `C16_lj_grad_2`
  and that the kernel reads variables 0..7 through `pairEnv`; the closed forms `pairEnergy_eq`,
  `pairGrad_fst/snd` are used for the unrolled comparison and the symmetry only.
-/
import TopSearch.Props.C16
import TopSearch.Model.LjN

namespace TopSearch.Props.C16
open TopSearch.Py TopSearch.Gen.Surfaces TopSearch.LjN

/-- over ℝ the model's evaluator is `evalR` -/
theorem evalId_eq (ρ : ℕ → ℝ) (e : E) : evalId ρ e = evalR ρ e := rfl

/-! ### the pairs visited by the double loop -/

theorem mem_pairs (N i j : ℕ) : (i, j) ∈ pairs N ↔ i < j ∧ j < N := by
  simp only [pairs, List.mem_flatMap, List.mem_range, List.mem_map, List.mem_range'_1, Prod.mk.injEq]
  constructor
  · rintro ⟨a, ha, b, hb, rfl, rfl⟩; omega
  · rintro ⟨h1, h2⟩; exact ⟨i, by omega, j, by omega, rfl, rfl⟩

theorem pairs_nodup (N : ℕ) : (pairs N).Nodup := by
  unfold pairs
  rw [List.nodup_flatMap]
  refine ⟨fun i _ => (List.nodup_range' (s := i + 1) (n := N - (i + 1))).map
    (fun a b h => by simpa using h), ?_⟩
  refine List.pairwise_lt_range.imp ?_
  intro a b hab
  simp only [Function.onFun, List.Disjoint, List.mem_map]
  rintro p ⟨j, _, rfl⟩ ⟨j', _, h⟩
  simp at h
  omega

/-! ### the two accumulators as sums over the pair list -/

theorem foldl_add_eq_sum {β : Type} (f : β → ℝ) (l : List β) (a : ℝ) :
    l.foldl (fun acc p => acc + f p) a = a + (l.map f).sum := by
  induction l generalizing a with
  | nil => simp
  | cons p l ih => simp [List.foldl_cons, ih, add_assoc]

theorem energyLoop_eq_sum (N : ℕ) (ε σ : ℝ) (x : ℕ → ℝ) :
    energyLoop N ε σ x = ((pairs N).map (pairEnergy ε σ x)).sum := by
  show List.foldl (fun acc p => acc + pairEnergy ε σ x p) ((0 : ℕ) : ℝ) (pairs N) = _
  rw [foldl_add_eq_sum]; simp

theorem addAt_length (l : List ℝ) (k : ℕ) (d : ℝ) : (addAt l k d).length = l.length := by
  induction l generalizing k with
  | nil => rfl
  | cons a l ih => cases k <;> simp [addAt, ih]

theorem addAt_getD (l : List ℝ) (k : ℕ) (d : ℝ) (m : ℕ) (hk : k < l.length) :
    (addAt l k d).getD m 0 = l.getD m 0 + (if m = k then d else 0) := by
  induction l generalizing k m with
  | nil => simp at hk
  | cons a l ih =>
    cases k with
    | zero => cases m <;> simp [addAt]
    | succ k =>
      cases m with
      | zero => simp [addAt]
      | succ m =>
        have := ih k m (by simpa using hk)
        simpa [addAt] using this

/-- what one pass of the loop body adds to slot `m` of `grad` -/
noncomputable def contrib (ε σ : ℝ) (x : ℕ → ℝ) (p : ℕ × ℕ) (m : ℕ) : ℝ :=
  (if m / 3 = p.1 then pairGrad ε σ x p (m % 3) else 0) +
  (if m / 3 = p.2 then pairGrad ε σ x p (3 + m % 3) else 0)

theorem gradStep_length (ε σ : ℝ) (x : ℕ → ℝ) (g : List ℝ) (p : ℕ × ℕ) :
    (gradStep ε σ x g p).length = g.length := by
  simp [gradStep, addAt_length]

theorem gradStep_getD (ε σ : ℝ) (x : ℕ → ℝ) (g : List ℝ) (p : ℕ × ℕ) (N : ℕ)
    (hg : g.length = 3 * N) (h1 : p.1 < N) (h2 : p.2 < N) (m : ℕ) :
    (gradStep ε σ x g p).getD m 0 = g.getD m 0 + contrib ε σ x p m := by
  unfold gradStep
  simp only []
  rw [addAt_getD _ _ _ _ (by simp only [addAt_length]; omega),
    addAt_getD _ _ _ _ (by simp only [addAt_length]; omega),
    addAt_getD _ _ _ _ (by simp only [addAt_length]; omega),
    addAt_getD _ _ _ _ (by simp only [addAt_length]; omega),
    addAt_getD _ _ _ _ (by simp only [addAt_length]; omega),
    addAt_getD _ _ _ _ (by omega)]
  unfold contrib
  have e0 : m = 3 * p.1 ↔ (m / 3 = p.1 ∧ m % 3 = 0) := by omega
  have e1 : m = 3 * p.1 + 1 ↔ (m / 3 = p.1 ∧ m % 3 = 1) := by omega
  have e2 : m = 3 * p.1 + 2 ↔ (m / 3 = p.1 ∧ m % 3 = 2) := by omega
  have e3 : m = 3 * p.2 ↔ (m / 3 = p.2 ∧ m % 3 = 0) := by omega
  have e4 : m = 3 * p.2 + 1 ↔ (m / 3 = p.2 ∧ m % 3 = 1) := by omega
  have e5 : m = 3 * p.2 + 2 ↔ (m / 3 = p.2 ∧ m % 3 = 2) := by omega
  simp only [e0, e1, e2, e3, e4, e5]
  have hc : m % 3 = 0 ∨ m % 3 = 1 ∨ m % 3 = 2 := by omega
  generalize m / 3 = a
  generalize m % 3 = c at hc
  generalize List.getD g m 0 = g0
  generalize p.1 = i
  generalize p.2 = j
  clear e0 e1 e2 e3 e4 e5
  obtain rfl | rfl | rfl := hc <;> rcases eq_or_ne a i with rfl | ha1 <;>
    rcases eq_or_ne a j with rfl | ha2 <;> simp [*, add_assoc]

theorem foldl_gradStep (ε σ : ℝ) (x : ℕ → ℝ) (N : ℕ) (l : List (ℕ × ℕ))
    (hl : ∀ p ∈ l, p.1 < N ∧ p.2 < N) (g : List ℝ) (hg : g.length = 3 * N) (m : ℕ) :
    (l.foldl (gradStep ε σ x) g).length = 3 * N ∧
    (l.foldl (gradStep ε σ x) g).getD m 0 = g.getD m 0 + (l.map (fun p => contrib ε σ x p m)).sum := by
  induction l generalizing g with
  | nil => simp [hg]
  | cons p l ih =>
    have hp := hl p (by simp)
    have hg' : (gradStep ε σ x g p).length = 3 * N := by rw [gradStep_length, hg]
    have := ih (fun q hq => hl q (by simp [hq])) _ hg'
    rw [List.foldl_cons, this.2, gradStep_getD ε σ x g p N hg hp.1 hp.2]
    exact ⟨this.1, by simp [add_assoc]⟩

theorem zeros_getD (n m : ℕ) : (zeros n : List ℝ).getD m 0 = 0 := by
  simp only [zeros, List.getD_eq_getElem?_getD, List.getElem?_replicate]
  split_ifs <;> simp

theorem gradLoop_length (N : ℕ) (ε σ : ℝ) (x : ℕ → ℝ) : (gradLoop N ε σ x).length = 3 * N :=
  (foldl_gradStep ε σ x N (pairs N)
    (fun p hp => by have := (mem_pairs N p.1 p.2).1 hp; omega) _ (by simp [zeros]) 0).1

theorem gradLoop_getD (N : ℕ) (ε σ : ℝ) (x : ℕ → ℝ) (m : ℕ) :
    (gradLoop N ε σ x).getD m 0 = ((pairs N).map (fun p => contrib ε σ x p m)).sum := by
  have := (foldl_gradStep ε σ x N (pairs N)
    (fun p hp => by have := (mem_pairs N p.1 p.2).1 hp; omega) (zeros (3 * N)) (by simp [zeros]) m).2
  rw [zeros_getD, zero_add] at this
  exact this

/-! environment of a pair under a one-coordinate perturbation -/

theorem pairEnv_update_fst (ε σ : ℝ) (x : ℕ → ℝ) (i j c : ℕ) (hij : i ≠ j) (hc : c < 3) (t : ℝ) :
    pairEnv (Function.update x (3 * i + c) t) ε σ i j = Function.update (pairEnv x ε σ i j) c t := by
  funext v
  simp only [pairEnv, Function.update_apply]
  split_ifs <;> first | rfl | (exfalso; omega)

theorem pairEnv_update_snd (ε σ : ℝ) (x : ℕ → ℝ) (i j c : ℕ) (hij : i ≠ j) (hc : c < 3) (t : ℝ) :
    pairEnv (Function.update x (3 * j + c) t) ε σ i j =
      Function.update (pairEnv x ε σ i j) (3 + c) t := by
  funext v
  simp only [pairEnv, Function.update_apply]
  split_ifs <;> first | rfl | (exfalso; omega)

theorem pairEnv_update_other (ε σ : ℝ) (x : ℕ → ℝ) (i j k : ℕ) (hi : k / 3 ≠ i) (hj : k / 3 ≠ j)
    (t : ℝ) : pairEnv (Function.update x k t) ε σ i j = pairEnv x ε σ i j := by
  funext v
  simp only [pairEnv, Function.update_apply]
  split_ifs <;> first | rfl | (exfalso; omega)

/-! ### the derivative -/

/-- one summand: the derivative of `v_ij` in coordinate `k` is what the loop body adds to `grad[k]`;
    a non-vanishing denominator is only needed when atom `k / 3` belongs to the pair -/
theorem pair_hasDerivAt (ε σ : ℝ) (x : ℕ → ℝ) (p : ℕ × ℕ) (hp : p.1 ≠ p.2) (k : ℕ)
    (hok : (k / 3 = p.1 ∨ k / 3 = p.2) → ljF2.ok (pairEnv x ε σ p.1 p.2)) :
    HasDerivAt (fun t => pairEnergy ε σ (Function.update x k t) p) (contrib ε σ x p k) (x k) := by
  obtain ⟨i, j⟩ := p
  simp only at hp hok
  by_cases h1 : k / 3 = i
  · obtain ⟨c, hc, rfl⟩ : ∃ c, c < 3 ∧ k = 3 * i + c := ⟨k % 3, by omega, by omega⟩
    have e2 : (3 * i + c) % 3 = c := by omega
    have hρ : pairEnv x ε σ i j c = x (3 * i + c) := by simp only [pairEnv, if_pos hc]
    have h := C16_lj_grad_2 (pairEnv x ε σ i j) (hok (Or.inl h1)) c (by omega)
    rw [hρ] at h
    simp only [contrib, pairEnergy, h1, e2, if_true, if_neg hp, add_zero,
      pairEnv_update_fst ε σ x i j c hp hc]
    exact h
  · by_cases h2 : k / 3 = j
    · obtain ⟨c, hc, rfl⟩ : ∃ c, c < 3 ∧ k = 3 * j + c := ⟨k % 3, by omega, by omega⟩
      have e2 : (3 * j + c) % 3 = c := by omega
      have hρ : pairEnv x ε σ i j (3 + c) = x (3 * j + c) := by
        simp only [pairEnv, if_neg (show ¬ 3 + c < 3 by omega), if_pos (show 3 + c < 6 by omega),
          Nat.add_sub_cancel_left]
      have h := C16_lj_grad_2 (pairEnv x ε σ i j) (hok (Or.inr h2)) (3 + c) (by omega)
      rw [hρ] at h
      simp only [contrib, pairEnergy, h2, e2, if_true, if_neg (Ne.symm hp), zero_add,
        pairEnv_update_snd ε σ x i j c hp hc]
      exact h
    · simp only [contrib, pairEnergy, if_neg h1, if_neg h2, add_zero,
        pairEnv_update_other ε σ x i j k h1 h2]
      exact hasDerivAt_const _ _

theorem hasDerivAt_list_sum {β : Type} (l : List β) (f : β → ℝ → ℝ) (f' : β → ℝ) (a : ℝ)
    (h : ∀ p ∈ l, HasDerivAt (f p) (f' p) a) :
    HasDerivAt (fun t => (l.map (fun p => f p t)).sum) (l.map f').sum a := by
  induction l with
  | nil => simpa using hasDerivAt_const a (0 : ℝ)
  | cons p l ih =>
    simp only [List.map_cons, List.sum_cons]
    exact (h p (by simp)).add (ih (fun q hq => h q (by simp [hq])))

/-- sharp form: only the pairs that contain the perturbed atom `k / 3` have to be non-degenerate -/
theorem C16_lj_grad_N_local (N : ℕ) (ε σ : ℝ) (x : ℕ → ℝ) (k : ℕ)
    (hsep : ∀ i j, i < j → j < N → (i = k / 3 ∨ j = k / 3) → ljF2.ok (pairEnv x ε σ i j)) :
    HasDerivAt (fun t => energyLoop N ε σ (Function.update x k t))
      ((gradLoop N ε σ x).getD k 0) (x k) := by
  simp only [energyLoop_eq_sum, gradLoop_getD]
  refine hasDerivAt_list_sum (pairs N) (fun p t => pairEnergy ε σ (Function.update x k t) p)
    (fun p => contrib ε σ x p k) (x k) ?_
  intro p hp
  have hp' := (mem_pairs N p.1 p.2).1 hp
  exact pair_hasDerivAt ε σ x p (by omega) k
    (fun h => hsep p.1 p.2 hp'.1 hp'.2 (by omega))

/-- **Main theorem.**  For every number of atoms `N`, wherever no two atoms coincide (no vanishing
    denominator in any `pair_potential` call), slot `k` of the array returned by
    `LennardJones.gradient` is the partial derivative of `LennardJones.function` in coordinate `k`. -/
theorem C16_lj_grad_N (N : ℕ) (ε σ : ℝ) (x : ℕ → ℝ)
    (hsep : ∀ i j, i < j → j < N → ljF2.ok (pairEnv x ε σ i j)) (k : ℕ) (_hk : k < 3 * N) :
    HasDerivAt (fun t => energyLoop N ε σ (Function.update x k t))
      ((gradLoop N ε σ x).getD k 0) (x k) :=
  C16_lj_grad_N_local N ε σ x k (fun i j hij hj _ => hsep i j hij hj)

/-! ### the generated pair kernel in closed form -/

theorem pairEnv_0 (ε σ : ℝ) (x : ℕ → ℝ) (i j : ℕ) : pairEnv x ε σ i j 0 = x (3 * i) := rfl
theorem pairEnv_1 (ε σ : ℝ) (x : ℕ → ℝ) (i j : ℕ) : pairEnv x ε σ i j 1 = x (3 * i + 1) := rfl
theorem pairEnv_2 (ε σ : ℝ) (x : ℕ → ℝ) (i j : ℕ) : pairEnv x ε σ i j 2 = x (3 * i + 2) := rfl
theorem pairEnv_3 (ε σ : ℝ) (x : ℕ → ℝ) (i j : ℕ) : pairEnv x ε σ i j 3 = x (3 * j) := rfl
theorem pairEnv_4 (ε σ : ℝ) (x : ℕ → ℝ) (i j : ℕ) : pairEnv x ε σ i j 4 = x (3 * j + 1) := rfl
theorem pairEnv_5 (ε σ : ℝ) (x : ℕ → ℝ) (i j : ℕ) : pairEnv x ε σ i j 5 = x (3 * j + 2) := rfl
theorem pairEnv_6 (ε σ : ℝ) (x : ℕ → ℝ) (i j : ℕ) : pairEnv x ε σ i j 6 = ε := rfl
theorem pairEnv_7 (ε σ : ℝ) (x : ℕ → ℝ) (i j : ℕ) : pairEnv x ε σ i j 7 = σ := rfl

theorem ljF2_ok_iff (ε σ : ℝ) (x : ℕ → ℝ) (i j : ℕ) :
    ljF2.ok (pairEnv x ε σ i j) ↔ sq3 x i j ≠ 0 := by
  simp [ljF2, E.ok, sq3, pairEnv_0, pairEnv_1, pairEnv_2, pairEnv_3, pairEnv_4, pairEnv_5]

/-- the pair energy as a function of the squared distance `D`: `4ε·(σ/D³)·(σ/D³ − 1)`
    (the code's `r6_term = sigma / dist**3`, with `dist` the *squared* distance) -/
noncomputable def ljPair (ε σ D : ℝ) : ℝ := 4 * ε * (σ / D ^ 3) * (σ / D ^ 3 - 1)

/-- the code's `g_factor` -/
noncomputable def ljGFactor (ε σ D : ℝ) : ℝ := 24 * ε * (σ / D ^ 3 - 2 * (σ / D ^ 3) ^ 2) / D

theorem pairEnergy_eq (ε σ : ℝ) (x : ℕ → ℝ) (p : ℕ × ℕ) :
    pairEnergy ε σ x p = ljPair ε σ (sq3 x p.1 p.2) := by
  show evalR (pairEnv x ε σ p.1 p.2) ljF2 = _
  simp only [ljF2, evalR_mul, evalR_c, evalR_v, evalR_div, evalR_pow, evalR_add, evalR_sub,
    pairEnv_0, pairEnv_1, pairEnv_2, pairEnv_3, pairEnv_4, pairEnv_5, pairEnv_6, pairEnv_7,
    ljPair, sq3]
  norm_num

theorem pairGrad_fst (ε σ : ℝ) (x : ℕ → ℝ) (p : ℕ × ℕ) (c : ℕ) (hc : c < 3) :
    pairGrad ε σ x p c = (x (3 * p.1 + c) - x (3 * p.2 + c)) * ljGFactor ε σ (sq3 x p.1 p.2) := by
  show evalR (pairEnv x ε σ p.1 p.2) (ljGrad2.getD c (.c 0 1)) = _
  interval_cases c <;>
  · simp only [ljGrad2, List.getD_cons_zero, List.getD_cons_succ, evalR_mul, evalR_c, evalR_v, evalR_div, evalR_pow, evalR_add, evalR_sub,
      pairEnv_0, pairEnv_1, pairEnv_2, pairEnv_3, pairEnv_4, pairEnv_5, pairEnv_6, pairEnv_7,
      ljGFactor, sq3]
    norm_num

theorem pairGrad_snd (ε σ : ℝ) (x : ℕ → ℝ) (p : ℕ × ℕ) (c : ℕ) (hc : c < 3) :
    pairGrad ε σ x p (3 + c) =
      0 - (x (3 * p.1 + c) - x (3 * p.2 + c)) * ljGFactor ε σ (sq3 x p.1 p.2) := by
  show evalR (pairEnv x ε σ p.1 p.2) (ljGrad2.getD (3 + c) (.c 0 1)) = _
  interval_cases c <;>
  · simp only [ljGrad2, List.getD_cons_zero, List.getD_cons_succ, evalR_mul, evalR_c, evalR_v, evalR_div, evalR_pow, evalR_add, evalR_sub,
      pairEnv_0, pairEnv_1, pairEnv_2, pairEnv_3, pairEnv_4, pairEnv_5, pairEnv_6, pairEnv_7,
      ljGFactor, sq3]
    norm_num

/-- `function_gradient` returns exactly what `function` and `gradient` return (any number type) -/
theorem C16_lj_fg_N {α : Type} [Add α] [Sub α] [Mul α] [Div α] [Neg α] [NatCast α] [IntCast α]
    (N : ℕ) (ε σ : α) (x : ℕ → α) :
    fgLoop N ε σ x = (energyLoop N ε σ x, gradLoop N ε σ x) := by
  unfold fgLoop energyLoop gradLoop
  generalize ((0 : ℕ) : α) = e
  generalize (zeros (3 * N) : List α) = g
  induction pairs N generalizing e g with
  | nil => rfl
  | cons p l ih => simp only [List.foldl_cons]; exact ih _ _

/-! ### the loop model against the translator's unrolled runs (N = 2, 3, 4) -/

theorem pairs_2 : pairs 2 = [(0, 1)] := by decide
theorem pairs_3 : pairs 3 = [(0, 1), (0, 2), (1, 2)] := by decide
theorem pairs_4 : pairs 4 = [(0, 1), (0, 2), (0, 3), (1, 2), (1, 3), (2, 3)] := by decide

set_option hygiene false in
/-- name the squared pair distances (so that `ring` does not expand their cubes) -/
local macro "name_dists" : tactic => `(tactic| (
  try generalize (ρ 0 - ρ 3) ^ 2 + (ρ 1 - ρ 4) ^ 2 + (ρ 2 - ρ 5) ^ 2 = D01 at *
  try generalize (ρ 0 - ρ 6) ^ 2 + (ρ 1 - ρ 7) ^ 2 + (ρ 2 - ρ 8) ^ 2 = D02 at *
  try generalize (ρ 0 - ρ 9) ^ 2 + (ρ 1 - ρ 10) ^ 2 + (ρ 2 - ρ 11) ^ 2 = D03 at *
  try generalize (ρ 3 - ρ 6) ^ 2 + (ρ 4 - ρ 7) ^ 2 + (ρ 5 - ρ 8) ^ 2 = D12 at *
  try generalize (ρ 3 - ρ 9) ^ 2 + (ρ 4 - ρ 10) ^ 2 + (ρ 5 - ρ 11) ^ 2 = D13 at *
  try generalize (ρ 6 - ρ 9) ^ 2 + (ρ 7 - ρ 10) ^ 2 + (ρ 8 - ρ 11) ^ 2 = D23 at *))

set_option hygiene false in
/-- both sides unfolded to real arithmetic; they differ by `0 + _` and bracketing only -/
local macro "unroll_energy" : tactic => `(tactic| (
  simp only [List.map_cons, List.map_nil, List.sum_cons, List.sum_nil, pairEnergy_eq, ljPair, sq3,
    ljF2, ljF3, ljF4, evalR_mul, evalR_c, evalR_v, evalR_div, evalR_pow, evalR_add, evalR_sub]
  norm_num <;> (name_dists; ring)))

set_option hygiene false in
local macro "unroll_grad" : tactic => `(tactic| (
  simp [contrib, pairGrad, evalId_eq, ljGrad2, ljGrad3, ljGrad4, pairEnv_0, pairEnv_1, pairEnv_2,
      pairEnv_3, pairEnv_4, pairEnv_5, pairEnv_6, pairEnv_7] <;> (name_dists; ring)))

theorem unrolled_energy_2 (ρ : ℕ → ℝ) : energyLoop 2 (ρ 6) (ρ 7) ρ = evalR ρ ljF2 := by
  rw [energyLoop_eq_sum, pairs_2]; unroll_energy

theorem unrolled_energy_3 (ρ : ℕ → ℝ) : energyLoop 3 (ρ 9) (ρ 10) ρ = evalR ρ ljF3 := by
  rw [energyLoop_eq_sum, pairs_3]; unroll_energy

theorem unrolled_energy_4 (ρ : ℕ → ℝ) : energyLoop 4 (ρ 12) (ρ 13) ρ = evalR ρ ljF4 := by
  rw [energyLoop_eq_sum, pairs_4]; unroll_energy

theorem unrolled_grad_2 (ρ : ℕ → ℝ) (k : ℕ) (hk : k < 6) :
    (gradLoop 2 (ρ 6) (ρ 7) ρ).getD k 0 = evalR ρ (ljGrad2.getD k (.c 0 1)) := by
  rw [gradLoop_getD, pairs_2]
  interval_cases k <;> unroll_grad

theorem unrolled_grad_3 (ρ : ℕ → ℝ) (k : ℕ) (hk : k < 9) :
    (gradLoop 3 (ρ 9) (ρ 10) ρ).getD k 0 = evalR ρ (ljGrad3.getD k (.c 0 1)) := by
  rw [gradLoop_getD, pairs_3]
  interval_cases k <;> unroll_grad

theorem unrolled_grad_4 (ρ : ℕ → ℝ) (k : ℕ) (hk : k < 12) :
    (gradLoop 4 (ρ 12) (ρ 13) ρ).getD k 0 = evalR ρ (ljGrad4.getD k (.c 0 1)) := by
  rw [gradLoop_getD, pairs_4]
  interval_cases k <;> unroll_grad

/-! ### the loops read `position[0 .. 3N-1]` only -/

section congr
variable {α : Type} [Add α] [Sub α] [Mul α] [Div α] [Neg α] [NatCast α] [IntCast α]

omit [Add α] [Sub α] [Mul α] [Div α] [Neg α] [IntCast α] in
theorem pairEnv_congr (N : ℕ) (ε σ : α) (x y : ℕ → α) (h : ∀ v, v < 3 * N → x v = y v) (i j : ℕ)
    (hi : i < N) (hj : j < N) : pairEnv x ε σ i j = pairEnv y ε σ i j := by
  funext v
  simp only [pairEnv]
  split_ifs
  · exact h _ (by omega)
  · exact h _ (by omega)
  all_goals rfl

theorem energyLoop_congr (N : ℕ) (ε σ : α) (x y : ℕ → α) (h : ∀ v, v < 3 * N → x v = y v) :
    energyLoop N ε σ x = energyLoop N ε σ y := by
  unfold energyLoop
  refine List.foldl_ext _ _ _ ?_
  intro a p hp
  have hp' := (mem_pairs N p.1 p.2).1 hp
  simp only [energyStep, pairEnergy, pairEnv_congr N ε σ x y h p.1 p.2 (by omega) (by omega)]

theorem gradLoop_congr (N : ℕ) (ε σ : α) (x y : ℕ → α) (h : ∀ v, v < 3 * N → x v = y v) :
    gradLoop N ε σ x = gradLoop N ε σ y := by
  unfold gradLoop
  refine List.foldl_ext _ _ _ ?_
  intro a p hp
  have hp' := (mem_pairs N p.1 p.2).1 hp
  simp only [gradStep, pairGrad, pairEnv_congr N ε σ x y h p.1 p.2 (by omega) (by omega)]

end congr

/-- the environment the translator uses for an `N`-atom run: `3N` coordinates, then ε, then σ -/
noncomputable def envN (N : ℕ) (ε σ : ℝ) (x : ℕ → ℝ) : ℕ → ℝ := fun v =>
  if v < 3 * N then x v else if v = 3 * N then ε else if v = 3 * N + 1 then σ else 0

theorem list_eq_of_getD (l l' : List ℝ) (n : ℕ) (h1 : l.length = n) (h2 : l'.length = n)
    (h : ∀ k, k < n → l.getD k 0 = l'.getD k 0) : l = l' := by
  apply List.ext_getElem (by omega)
  intro k hk hk'
  have := h k (by omega)
  simpa [List.getD_eq_getElem?_getD, List.getElem?_eq_getElem hk, List.getElem?_eq_getElem hk'] using this

theorem getD_map_evalR (ρ : ℕ → ℝ) (l : List E) (k : ℕ) :
    (l.map (evalR ρ)).getD k 0 = evalR ρ (l.getD k (.c 0 1)) := by
  rw [List.getD_eq_getElem?_getD, List.getD_eq_getElem?_getD, List.getElem?_map]
  cases l[k]? <;> simp

/-- **the hand-written loop is the loop of the code**: for 2, 3 and 4 atoms the loop model equals,
    value by value, what the translator obtains by symbolically executing the real double loop of
    `function` / `gradient` (`ρ` = the coordinates followed by ε and σ, as in `C16_lj_grad_3`) -/
theorem C16_ljN_matches_unrolled (ρ : ℕ → ℝ) :
    (energyLoop 2 (ρ 6) (ρ 7) ρ = evalR ρ ljF2 ∧
      gradLoop 2 (ρ 6) (ρ 7) ρ = ljGrad2.map (evalR ρ)) ∧
    (energyLoop 3 (ρ 9) (ρ 10) ρ = evalR ρ ljF3 ∧
      gradLoop 3 (ρ 9) (ρ 10) ρ = ljGrad3.map (evalR ρ)) ∧
    (energyLoop 4 (ρ 12) (ρ 13) ρ = evalR ρ ljF4 ∧
      gradLoop 4 (ρ 12) (ρ 13) ρ = ljGrad4.map (evalR ρ)) := by
  refine ⟨⟨unrolled_energy_2 ρ, ?_⟩, ⟨unrolled_energy_3 ρ, ?_⟩, ⟨unrolled_energy_4 ρ, ?_⟩⟩
  · refine list_eq_of_getD _ _ 6 (gradLoop_length _ _ _ _) (by simp [ljGrad2]) (fun k hk => ?_)
    rw [getD_map_evalR]; exact unrolled_grad_2 ρ k hk
  · refine list_eq_of_getD _ _ 9 (gradLoop_length _ _ _ _) (by simp [ljGrad3]) (fun k hk => ?_)
    rw [getD_map_evalR]; exact unrolled_grad_3 ρ k hk
  · refine list_eq_of_getD _ _ 12 (gradLoop_length _ _ _ _) (by simp [ljGrad4]) (fun k hk => ?_)
    rw [getD_map_evalR]; exact unrolled_grad_4 ρ k hk

/-- the same with `ε`, `σ`, `x` given separately -/
theorem C16_ljN_matches_unrolled_env (ε σ : ℝ) (x : ℕ → ℝ) :
    (energyLoop 2 ε σ x = evalR (envN 2 ε σ x) ljF2 ∧
      gradLoop 2 ε σ x = ljGrad2.map (evalR (envN 2 ε σ x))) ∧
    (energyLoop 3 ε σ x = evalR (envN 3 ε σ x) ljF3 ∧
      gradLoop 3 ε σ x = ljGrad3.map (evalR (envN 3 ε σ x))) ∧
    (energyLoop 4 ε σ x = evalR (envN 4 ε σ x) ljF4 ∧
      gradLoop 4 ε σ x = ljGrad4.map (evalR (envN 4 ε σ x))) := by
  have h2 := (C16_ljN_matches_unrolled (envN 2 ε σ x)).1
  have h3 := (C16_ljN_matches_unrolled (envN 3 ε σ x)).2.1
  have h4 := (C16_ljN_matches_unrolled (envN 4 ε σ x)).2.2
  have e2 : ∀ v, v < 3 * 2 → x v = envN 2 ε σ x v := fun v hv => by simp [envN, hv]
  have e3 : ∀ v, v < 3 * 3 → x v = envN 3 ε σ x v := fun v hv => by simp [envN, hv]
  have e4 : ∀ v, v < 3 * 4 → x v = envN 4 ε σ x v := fun v hv => by simp [envN, hv]
  rw [energyLoop_congr 2 ε σ x _ e2, gradLoop_congr 2 ε σ x _ e2,
    energyLoop_congr 3 ε σ x _ e3, gradLoop_congr 3 ε σ x _ e3,
    energyLoop_congr 4 ε σ x _ e4, gradLoop_congr 4 ε σ x _ e4]
  have a2 : envN 2 ε σ x 6 = ε ∧ envN 2 ε σ x 7 = σ := by simp [envN]
  have a3 : envN 3 ε σ x 9 = ε ∧ envN 3 ε σ x 10 = σ := by simp [envN]
  have a4 : envN 4 ε σ x 12 = ε ∧ envN 4 ε σ x 13 = σ := by simp [envN]
  rw [a2.1, a2.2] at h2
  rw [a3.1, a3.2] at h3
  rw [a4.1, a4.2] at h4
  exact ⟨h2, h3, h4⟩

/-! ### translation invariance, for every `N` -/

theorem sq3_translate (x : ℕ → ℝ) (d : ℕ → ℝ) (i j : ℕ) :
    sq3 (fun v => x v + d (v % 3)) i j = sq3 x i j := by
  have e0 : (3 * i) % 3 = (3 * j) % 3 := by omega
  have e1 : (3 * i + 1) % 3 = (3 * j + 1) % 3 := by omega
  have e2 : (3 * i + 2) % 3 = (3 * j + 2) % 3 := by omega
  simp only [sq3, e0, e1, e2]
  ring

/-- all six components of the two-atom gradient on a pair, in closed form -/
theorem pairGrad_all (ε σ : ℝ) (x : ℕ → ℝ) (p : ℕ × ℕ) (c : ℕ) (hc : c < 6) :
    pairGrad ε σ x p c =
      if c < 3 then (x (3 * p.1 + c) - x (3 * p.2 + c)) * ljGFactor ε σ (sq3 x p.1 p.2)
      else 0 - (x (3 * p.1 + (c - 3)) - x (3 * p.2 + (c - 3))) * ljGFactor ε σ (sq3 x p.1 p.2) := by
  interval_cases c
  · exact pairGrad_fst ε σ x p 0 (by norm_num)
  · exact pairGrad_fst ε σ x p 1 (by norm_num)
  · exact pairGrad_fst ε σ x p 2 (by norm_num)
  · exact pairGrad_snd ε σ x p 0 (by norm_num)
  · exact pairGrad_snd ε σ x p 1 (by norm_num)
  · exact pairGrad_snd ε σ x p 2 (by norm_num)

theorem pairGrad_translate (ε σ : ℝ) (x : ℕ → ℝ) (d : ℕ → ℝ) (p : ℕ × ℕ) (c : ℕ) (hc : c < 6) :
    pairGrad ε σ (fun v => x v + d (v % 3)) p c = pairGrad ε σ x p c := by
  rw [pairGrad_all _ _ _ _ _ hc, pairGrad_all _ _ _ _ _ hc, sq3_translate]
  have e1 : (3 * p.1 + c) % 3 = (3 * p.2 + c) % 3 := by omega
  have e2 : (3 * p.1 + (c - 3)) % 3 = (3 * p.2 + (c - 3)) % 3 := by omega
  simp only [e1, e2, add_sub_add_right_eq_sub]

/-- moving the whole cluster by a vector `d` changes neither the coded energy nor the coded
    gradient, for any number of atoms -/
theorem C16_ljN_translation (N : ℕ) (ε σ : ℝ) (x : ℕ → ℝ) (d : ℕ → ℝ) :
    energyLoop N ε σ (fun v => x v + d (v % 3)) = energyLoop N ε σ x ∧
    gradLoop N ε σ (fun v => x v + d (v % 3)) = gradLoop N ε σ x := by
  constructor
  · rw [energyLoop_eq_sum, energyLoop_eq_sum]
    congr 1
    refine List.map_congr_left (fun p _ => ?_)
    rw [pairEnergy_eq, pairEnergy_eq, sq3_translate]
  · unfold gradLoop
    refine List.foldl_ext _ _ _ (fun g p _ => ?_)
    simp only [gradStep, pairGrad_translate ε σ x d p _ (by norm_num : (0 : ℕ) < 6),
      pairGrad_translate ε σ x d p _ (by norm_num : (1 : ℕ) < 6),
      pairGrad_translate ε σ x d p _ (by norm_num : (2 : ℕ) < 6),
      pairGrad_translate ε σ x d p _ (by norm_num : (3 : ℕ) < 6),
      pairGrad_translate ε σ x d p _ (by norm_num : (4 : ℕ) < 6),
      pairGrad_translate ε σ x d p _ (by norm_num : (5 : ℕ) < 6)]

/-! ### the energy as a double sum -/

/-- `f 0 + f 1 + … + f (n-1)` -/
noncomputable def sumTo (n : ℕ) (f : ℕ → ℝ) : ℝ :=
  match n with
  | 0 => 0
  | n + 1 => sumTo n f + f n

/-- `f a + f (a+1) + … + f (b-1)` -/
noncomputable def sumIco (a b : ℕ) (f : ℕ → ℝ) : ℝ := sumTo (b - a) (fun t => f (a + t))

theorem sum_map_range (n : ℕ) (f : ℕ → ℝ) : ((List.range n).map f).sum = sumTo n f := by
  induction n with
  | zero => rfl
  | succ n ih => simp [List.range_succ, sumTo, ih]

theorem sum_map_range' (a n : ℕ) (f : ℕ → ℝ) :
    ((List.range' a n).map f).sum = sumTo n (fun t => f (a + t)) := by
  rw [List.range'_eq_map_range, List.map_map, sum_map_range]
  rfl

theorem sum_map_flatMap {ι κ : Type} (l : List ι) (g : ι → List κ) (h : κ → ℝ) :
    ((l.flatMap g).map h).sum = (l.map (fun i => ((g i).map h).sum)).sum := by
  induction l with
  | nil => rfl
  | cons a l ih => simp [List.flatMap_cons, ih]

/-- `function` returns `Σ_{i<N-1} Σ_{i<j<N} v_ij`, and the pairs visited are exactly the `i < j < N`,
    each once -/
theorem C16_ljN_energy_sum (N : ℕ) (ε σ : ℝ) (x : ℕ → ℝ) :
    energyLoop N ε σ x = ((pairs N).map (fun p => evalR (pairEnv x ε σ p.1 p.2) ljF2)).sum ∧
    energyLoop N ε σ x =
      sumTo (N - 1) (fun i => sumIco (i + 1) N (fun j => evalR (pairEnv x ε σ i j) ljF2)) := by
  refine ⟨energyLoop_eq_sum N ε σ x, ?_⟩
  rw [energyLoop_eq_sum, pairs, sum_map_flatMap, ← sum_map_range]
  congr 1
  refine List.map_congr_left (fun i _ => ?_)
  rw [List.map_map, sum_map_range']
  rfl

theorem C16_ljN_pairs (N : ℕ) :
    (∀ i j, (i, j) ∈ pairs N ↔ i < j ∧ j < N) ∧ (pairs N).Nodup :=
  ⟨mem_pairs N, pairs_nodup N⟩

/-- the separation hypothesis, in coordinates: no two atoms coincide -/
theorem C16_lj_grad_N_sq (N : ℕ) (ε σ : ℝ) (x : ℕ → ℝ)
    (hsep : ∀ i j, i < j → j < N → sq3 x i j ≠ 0) (k : ℕ) (hk : k < 3 * N) :
    HasDerivAt (fun t => energyLoop N ε σ (Function.update x k t))
      ((gradLoop N ε σ x).getD k 0) (x k) :=
  C16_lj_grad_N N ε σ x (fun i j hij hj => (ljF2_ok_iff ε σ x i j).2 (hsep i j hij hj)) k hk

/-! ### non-vacuity -/

/-- five atoms on a line, at `(0,0,0), (1,0,0), …, (4,0,0)` -/
noncomputable def line5 : ℕ → ℝ := fun v => if v % 3 = 0 then ((v / 3 : ℕ) : ℝ) else 0

example : ∀ i j, i < j → j < 5 → ljF2.ok (pairEnv line5 1 1 i j) := by
  intro i j hij hj
  rw [ljF2_ok_iff]
  interval_cases j <;> interval_cases i <;> norm_num [sq3, line5]

example (k : ℕ) (hk : k < 15) :
    HasDerivAt (fun t => energyLoop 5 1 1 (Function.update line5 k t))
      ((gradLoop 5 1 1 line5).getD k 0) (line5 k) := by
  refine C16_lj_grad_N_sq 5 1 1 line5 ?_ k hk
  intro i j hij hj
  interval_cases j <;> interval_cases i <;> norm_num [sq3, line5]

/-- the model runs: the five-atom configuration used to cross-check the model against the Python
    class (`LennardJones(1, 1).function` gives -0.545467032884023 there) -/
def conf5 : ℕ → ℚ := fun v =>
  if v % 3 = 0 then ((v / 3 : ℕ) : ℚ) else if v = 4 then 1 else if v = 8 then 2 else 0

example : energyLoop 5 1 1 conf5 = (-18997808032836359 : ℚ) / 34828517376000000 := by
  decide +kernel

example : (gradLoop 5 1 1 conf5).length = 15 ∧
    (gradLoop 5 1 1 conf5).getD 9 0 = (1001612691496 : ℚ) / 41518828125 := by
  decide +kernel

end TopSearch.Props.C16
