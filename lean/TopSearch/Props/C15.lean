/-
  C15 — the uphill direction is the softest mode, points uphill and stays in the box.
  Property theorems only (helpers live in Lemmas/Hef.lean).
-/
import TopSearch.Lemmas.Hef
import TopSearch.Gen.Hef

set_option linter.unusedSectionVars false
set_option linter.unusedSimpArgs false
set_option linter.unusedVariables false

namespace TopSearch.Props.C15
open TopSearch TopSearch.Hef
variable {α : Type} [Field α] [LinearOrder α] [IsStrictOrderedRing α]

/-! ### bridges (tie #1) -/

/-- the flip condition of `check_eigenvector_direction` in the current source is
    `np.dot(grad, v) < 0.0` (overlap rule) -/
theorem C15_bridge_flip : Gen.Hef.cfg.flipRule = .overlap .lt := by decide

/-- `lower_bounds[i] and vector[i] < 0.0`, `upper_bounds[i] and vector[i] > 0.0` -/
theorem C15_bridge_projection :
    Gen.Hef.cfg.projLowerCmp = .lt ∧ Gen.Hef.cfg.projUpperCmp = .gt := by decide

/-! ### orientation -/

/-- **Uphill, any dimension, any `(v, g)`** — including `v₀ = 0`, `v = 0`, `g = 0` and lists of
    different length: with the overlap rule the direction handed on is `v` or `−v` and its
    overlap with the gradient is non-negative. -/
theorem C15_uphill (small : α) (v g : List α) :
    ∃ w, checkEigenvectorDirection (.overlap .lt) small v g = some w ∧
      (w = v ∨ w = vneg v) ∧ 0 ≤ dot g w := by
  unfold checkEigenvectorDirection
  simp only [Cmp.eval]
  by_cases h : dot g v < 0
  · refine ⟨vneg v, by simp [h], Or.inr rfl, ?_⟩
    rw [dot_vneg]; linarith
  · exact ⟨v, by simp [h], Or.inl rfl, not_lt.1 h⟩

/-- the same statement about the flip rule read from the source -/
theorem C15_uphill_gen (small : α) (v g : List α) :
    ∃ w, checkEigenvectorDirection Gen.Hef.cfg.flipRule small v g = some w ∧
      (w = v ∨ w = vneg v) ∧ 0 ≤ dot g w := by
  rw [C15_bridge_flip]
  exact C15_uphill small v g

/-- negation witness for the original rule (DESIGN §6 row 5): `v = (0,1,0)`, `g = (0,−1,0)` is
    handed on unflipped, with overlap −1 -/
theorem C15_first_component_witness :
    checkEigenvectorDirection .firstComponent (1 / 10000000000000 : ℚ) [0, 1, 0] [0, -1, 0]
      = some [0, 1, 0] ∧ dot ([0, -1, 0] : List ℚ) [0, 1, 0] = -1 := by
  decide +kernel

/-- non-vacuity: the repaired rule flips that very vector -/
example : checkEigenvectorDirection (.overlap .lt) (0 : ℚ) [0, 1, 0] [0, -1, 0] = some [0, -1, 0] := by
  decide +kernel

/-! ### projection onto the active bounds -/

theorem zeroOutward1_spec (x : α) (l u : Bool) :
    ((l = true ∧ x < 0) ∨ (u = true ∧ 0 < x) → zeroOutward1 .lt .gt x l u = 0) ∧
    (¬((l = true ∧ x < 0) ∨ (u = true ∧ 0 < x)) → zeroOutward1 .lt .gt x l u = x) := by
  unfold zeroOutward1
  simp only [Cmp.eval]
  constructor
  · rintro (⟨hl, hx⟩ | ⟨hu, hx⟩)
    · simp [hl, hx]
    · have : ¬ x < 0 := not_lt.2 hx.le
      simp [hu, hx, this]
  · intro h
    rw [not_or, not_and, not_and, not_lt, not_lt] at h
    by_cases hl : l = true
    · have hx : ¬ x < 0 := not_lt.2 (h.1 hl)
      by_cases hu : u = true
      · have hx2 : ¬ 0 < x := not_lt.2 (h.2 hu)
        simp [hl, hu, hx, hx2]
      · simp [hl, hu, hx]
    · by_cases hu : u = true
      · have hx2 : ¬ 0 < x := not_lt.2 (h.2 hu)
        simp [hl, hu, hx2]
      · simp [hl, hu]

/-- **Projection, any dimension, any pinning pattern.**  Provided some component survives
    (`norm ≠ 0`, the explicit guard — see `C15_projection_all_zeroed`), the vector handed on has
    unit norm, every component that pointed out through an active bound is zero, no component
    points out through an active bound, and every other component is the old one divided by the
    positive norm (so it keeps its sign). -/
theorem C15_projection (v : List α) (lo up : List Bool) (norm : α)
    (hl : lo.length = v.length) (hu : up.length = v.length)
    (hn : 0 ≤ norm ∧ norm * norm = dot (zeroOutward .lt .gt v lo up) (zeroOutward .lt .gt v lo up))
    (hsurv : norm ≠ 0) :
    ∃ r, projectOntoBounds .lt .gt norm v lo up = some r ∧ r.length = v.length ∧ dot r r = 1 ∧
      0 < norm ∧
      ∀ i (h : i < r.length) (hv : i < v.length) (h1 : i < lo.length) (h2 : i < up.length),
        (lo[i] = true → 0 ≤ r[i]) ∧ (up[i] = true → r[i] ≤ 0) ∧
        ((lo[i] = true ∧ v[i] < 0) ∨ (up[i] = true ∧ 0 < v[i]) → r[i] = 0) ∧
        (¬((lo[i] = true ∧ v[i] < 0) ∨ (up[i] = true ∧ 0 < v[i])) → r[i] = v[i] / norm) := by
  have hpos : 0 < norm := lt_of_le_of_ne hn.1 (Ne.symm hsurv)
  refine ⟨vdiv (zeroOutward .lt .gt v lo up) norm, by simp [projectOntoBounds, hsurv], ?_, ?_, hpos, ?_⟩
  · simp [vdiv, zeroOutward, length_zip3, hl, hu]
  · rw [dot_vdiv, ← hn.2]
    exact div_self (mul_ne_zero hsurv hsurv)
  · intro i h hv h1 h2
    have e : (vdiv (zeroOutward .lt .gt v lo up) norm)[i] = zeroOutward1 .lt .gt v[i] lo[i] up[i] / norm := by
      simp only [vdiv, List.getElem_map]
      congr 1
      unfold zeroOutward
      exact getElem_zip3 _ _ _ _ _ _ hv h1 h2
    rw [e]
    obtain ⟨hz, hk⟩ := zeroOutward1_spec v[i] lo[i] up[i]
    by_cases hout : (lo[i] = true ∧ v[i] < 0) ∨ (up[i] = true ∧ 0 < v[i])
    · rw [hz hout]
      exact ⟨fun _ => by simp, fun _ => by simp, fun _ => by simp, fun hc => absurd hout hc⟩
    · rw [hk hout]
      have hout' := hout
      rw [not_or, not_and, not_and, not_lt, not_lt] at hout'
      exact ⟨fun hlo => div_nonneg (hout'.1 hlo) hpos.le,
        fun hup => div_nonpos_of_nonpos_of_nonneg (hout'.2 hup) hpos.le,
        fun hc => absurd hc hout, fun _ => rfl⟩

/-- the same statement about the sign tests read from the source -/
theorem C15_projection_gen (v : List α) (lo up : List Bool) (norm : α)
    (hl : lo.length = v.length) (hu : up.length = v.length)
    (hn : 0 ≤ norm ∧ norm * norm =
      dot (zeroOutward Gen.Hef.cfg.projLowerCmp Gen.Hef.cfg.projUpperCmp v lo up)
          (zeroOutward Gen.Hef.cfg.projLowerCmp Gen.Hef.cfg.projUpperCmp v lo up))
    (hsurv : norm ≠ 0) :
    ∃ r, projectOntoBounds Gen.Hef.cfg.projLowerCmp Gen.Hef.cfg.projUpperCmp norm v lo up = some r ∧
      r.length = v.length ∧ dot r r = 1 ∧
      ∀ i (h : i < r.length) (h1 : i < lo.length) (h2 : i < up.length),
        (lo[i] = true → 0 ≤ r[i]) ∧ (up[i] = true → r[i] ≤ 0) := by
  rw [C15_bridge_projection.1, C15_bridge_projection.2] at hn ⊢
  obtain ⟨r, hr, hlen, hunit, _, hall⟩ := C15_projection v lo up norm hl hu hn hsurv
  exact ⟨r, hr, hlen, hunit, fun i h h1 h2 =>
    ⟨(hall i h (by omega) h1 h2).1, (hall i h (by omega) h1 h2).2.1⟩⟩

/-- the excluded point (DESIGN §6 row 13): under the norm contract `norm = 0` exactly when
    *every* component has been zeroed, and then the code divides 0/0 — the model answers `none`
    (numpy: a NaN vector) -/
theorem C15_projection_all_zeroed (v : List α) (lo up : List Bool) (norm : α)
    (hn : 0 ≤ norm ∧ norm * norm = dot (zeroOutward .lt .gt v lo up) (zeroOutward .lt .gt v lo up)) :
    (norm = 0 ↔ ∀ x ∈ zeroOutward .lt .gt v lo up, x = 0) ∧
    (norm = 0 → projectOntoBounds .lt .gt norm v lo up = none) := by
  refine ⟨?_, fun h => by simp [projectOntoBounds, h]⟩
  rw [← dot_self_eq_zero, ← hn.2]
  exact ⟨fun h => by rw [h]; ring, fun h => mul_self_eq_zero.1 h⟩

/-- **The overlap with the gradient is NOT preserved by the projection in general** (so the
    property's "uphill" clause is stated for interior points only): `v = (1,−1)`,
    `g = (1, 1/2)`, coordinate 0 at its upper bound.  Before: `g·v = 1/2 ≥ 0`; the outward
    component is zeroed, the direction handed on is `(0,−1)` with `g·r = −1/2 < 0`. -/
theorem C15_projection_overlap :
    0 ≤ dot ([1, 1 / 2] : List ℚ) [1, -1] ∧
    projectOntoBounds .lt .gt (1 : ℚ) [1, -1] [false, false] [true, false] = some [0, -1] ∧
    dot ([1, 1 / 2] : List ℚ) [0, -1] < 0 := by
  decide +kernel

/-- a vector inside the eigenvector bounds that `update_eigenvector_bounds` derives from the
    masks has nothing to zero: the L-BFGS-B bounds already keep the direction inside (the
    projection only matters after `check_eigenvector_direction` has flipped the vector) -/
theorem C15_eigbounds_no_outward (x : α) (l u : Bool) (hlu : ¬(l = true ∧ u = true))
    (h : EigBound.admits (if u then EigBound.nonpos else if l then EigBound.nonneg else EigBound.free) x = true) :
    zeroOutward1 .lt .gt x l u = x := by
  apply (zeroOutward1_spec x l u).2
  rintro (⟨hl, hx⟩ | ⟨hu, hx⟩)
  · have hu : u = false := by
      cases u
      · rfl
      · exact absurd ⟨hl, rfl⟩ hlu
    simp [hu, hl, EigBound.admits] at h
    exact absurd hx (not_lt.2 h)
  · simp [hu, EigBound.admits] at h
    exact absurd hx (not_lt.2 h)

/-! ### the Rayleigh–Ritz ratio on quadratic surfaces -/

theorem dot_vdiv_right (r v : List α) (c : α) : dot r (vdiv v c) = dot r v / c := by
  induction r generalizing v with
  | nil => simp
  | cons a as ih =>
    cases v with
    | nil => simp [vdiv]
    | cons b bs =>
      have := ih bs
      simp only [vdiv, List.map_cons, dot_cons] at this ⊢
      rw [this]; ring

theorem quadGrad_diff (A : List (List α)) (b x u : List α) (c : α)
    (hA : ∀ row ∈ A, row.length = x.length) (hAl : A.length = x.length)
    (hb : b.length = x.length) (hu : u.length = x.length) :
    vsub (quadGrad A b (axpy x c u)) (quadGrad A b (axpy x (-c) u)) = vscale (2 * c) (matVec A u) := by
  apply List.ext_getElem
  · simp [vsub, quadGrad, vadd, matVec, vscale, hAl, hb]
  · intro i h1 h2
    have hi : i < A.length := by simpa [vscale, matVec] using h2
    simp only [vsub, quadGrad, vadd, matVec, vscale, List.getElem_zipWith, List.getElem_map]
    have hr : (A[i]).length = x.length := hA _ (List.getElem_mem _)
    rw [dot_axpy _ _ _ _ hr hu.symm, dot_axpy _ _ _ _ hr hu.symm]
    ring

/-- **Rayleigh–Ritz on a quadratic surface `½xᵀAx + bᵀx`** (gradient `Ax + b`; `A` symmetric makes
    that the gradient, the identities below hold for any square `A`), any dimension, any point
    `x`, any displacement `δ ≠ 0`: with the central differences of the gradient as coded,
    * the function value is `uᵀAu` — and for `u = v/‖v‖` that is `vᵀAv / vᵀv`;
    * the gradient is `2(Au − f·u)`;
    * it vanishes iff `Au = f·u`, i.e. iff `u` is an eigenvector, with eigenvalue `f`. -/
theorem C15_rayleigh (A : List (List α)) (b x u : List α) (disp : α) (hd : disp ≠ 0)
    (hA : ∀ row ∈ A, row.length = x.length) (hAl : A.length = x.length)
    (hb : b.length = x.length) (hu : u.length = x.length) :
    (rayleighCoded (quadGrad A b) disp x u).1 = dot (matVec A u) u ∧
    (rayleighCoded (quadGrad A b) disp x u).2 =
      vsub (vscale 2 (matVec A u)) (vscale (2 * dot (matVec A u) u) u) ∧
    ((∀ y ∈ (rayleighCoded (quadGrad A b) disp x u).2, y = 0) ↔
      matVec A u = vscale (dot (matVec A u) u) u) ∧
    (∀ (v : List α) (nrm : α), nrm * nrm = dot v v → u = vdiv v nrm →
      dot (matVec A u) u = dot (matVec A v) v / dot v v) := by
  have hdg := quadGrad_diff A b x u disp hA hAl hb hu
  have hf : (rayleighCoded (quadGrad A b) disp x u).1 = dot (matVec A u) u := by
    simp only [rayleighCoded, hdg, dot_vscale_left, Nat.cast_ofNat]
    field_simp
  have hg : (rayleighCoded (quadGrad A b) disp x u).2 =
      vsub (vscale 2 (matVec A u)) (vscale (2 * dot (matVec A u) u) u) := by
    have h1 : vdiv (vscale (2 * disp) (matVec A u)) disp = vscale 2 (matVec A u) := by
      simp only [vdiv, vscale, List.map_map]
      apply List.map_congr_left
      intro y _
      simp only [Function.comp]
      field_simp
    have h2 := hf
    simp only [rayleighCoded, hdg] at h2 ⊢
    rw [h1, h2]
    simp only [Nat.cast_ofNat]
  refine ⟨hf, hg, ?_, ?_⟩
  · rw [hg]
    have hlen : (matVec A u).length = u.length := by simp [matVec, hAl, hu]
    constructor
    · intro h
      apply List.ext_getElem
      · simp [vscale, hlen]
      · intro i h1 h2
        have hi : i < (vsub (vscale 2 (matVec A u)) (vscale (2 * dot (matVec A u) u) u)).length := by
          simp only [vscale, List.length_map] at h2
          simp [vsub, vscale, hlen]; omega
        have := h _ (List.getElem_mem hi)
        simp only [vsub, vscale, List.getElem_zipWith, List.getElem_map] at this ⊢
        linarith
    · intro h y hy
      obtain ⟨i, hi, rfl⟩ := List.mem_iff_getElem.1 hy
      have hi' : i < u.length := by
        simp [vsub, vscale, hlen] at hi; exact hi
      simp only [vsub, vscale, List.getElem_zipWith, List.getElem_map]
      have : (matVec A u)[i]'(by omega) = (vscale (dot (matVec A u) u) u)[i]'(by simp [vscale]; omega) := by
        simp only [← h]
      simp only [vscale, List.getElem_map] at this
      rw [this]; ring
  · intro v nrm hn hv
    have hmv : matVec A (vdiv v nrm) = vdiv (matVec A v) nrm := by
      simp only [matVec, vdiv, List.map_map]
      apply List.map_congr_left
      intro row _
      simpa [vdiv] using dot_vdiv_right row v nrm
    rw [hv, hmv, dot_vdiv, hn]

/-- non-vacuity: `A = diag(−2, 2)`, `u = (1,0)` is the softest mode: value −2, gradient 0 -/
example : rayleighCoded (quadGrad ([[-2, 0], [0, 2]] : List (List ℚ)) [1, 1]) (1 / 1000) [1 / 2, 1 / 4] [1, 0]
    = (-2, [0, 0]) := by decide +kernel

/-- Bridge (tie #1): `rayleigh_ritz_function_gradient` in the current source is, statement by statement, what
    `rayleighCoded` was transcribed from, with the fixed displacement `δ = 1e-3` — a constant of the curvature
    search, not a function of any option of the transition-state search. -/
theorem C15_bridge_rayleigh : Gen.Hef.rayleighDisp = (1, 1000) := by decide

/-- `C15_rayleigh` at the displacement the source uses. -/
theorem C15_rayleigh_at_source_displacement (A : List (List α)) (b x u : List α)
    (hA : ∀ row ∈ A, row.length = x.length) (hAl : A.length = x.length)
    (hb : b.length = x.length) (hu : u.length = x.length) :
    let δ : α := (Gen.Hef.rayleighDisp.1 : α) / (Gen.Hef.rayleighDisp.2 : α)
    (rayleighCoded (quadGrad A b) δ x u).1 = dot (matVec A u) u ∧
    ((∀ y ∈ (rayleighCoded (quadGrad A b) δ x u).2, y = 0) ↔
      matVec A u = vscale (dot (matVec A u) u) u) := by
  intro δ
  have hδ : δ ≠ 0 := by
    simp only [δ, C15_bridge_rayleigh]
    norm_num
  obtain ⟨h1, _, h3, _⟩ := C15_rayleigh A b x u δ hδ hA hAl hb hu
  exact ⟨h1, h3⟩

end TopSearch.Props.C15
