/-
  C17 — batch selection honours exclusions, size, ordering and barrier separation.
  Property theorems about Model/Batch.lean (`height` is the scan of Model/Graph.lean, C18).
-/
import TopSearch.Props.C18
import Mathlib.Data.List.Perm.Subperm
import Mathlib.Data.List.Count

namespace TopSearch.Props.C17
open TopSearch TopSearch.Graph TopSearch.Batch TopSearch.Props.C18

/-- Bridge (tie #1): the operators, constants, skip test, `e_range` expression and dispatch strings
    read from the current batch_selection.py are the ones the theorems are stated for. -/
theorem C17_bridge_bcfg : Gen.Graph.bcfg = stdBCfg := by decide

/-! ### the barrier loop -/

/-- What the loop of `barrier_batch_selector` does to its two lists: both are extended by the same
    list `new` of picks, which are taken in processing order, were not chosen before, are not
    excluded, are never repeated, and each pick is `suff`-compatible with everything chosen
    before it. -/
theorem barrierLoop_spec (suff : Nat → Nat → Bool) (excl : List Nat) :
    ∀ (rest b c : List Nat), ∃ new,
      barrierLoop true true suff excl rest b c = (b ++ new, c ++ new) ∧
      new.Sublist rest ∧ (∀ i ∈ new, i ∉ c ∧ i ∉ excl) ∧ (c.Nodup → (c ++ new).Nodup) ∧
      (∀ i ∈ new, ∀ j ∈ c, suff i j = true) ∧ new.Pairwise (fun j i => suff i j = true) := by
  intro rest
  induction rest with
  | nil => intro b c; exact ⟨[], by simp [barrierLoop]⟩
  | cons i rest ih =>
    intro b c
    simp only [barrierLoop, Bool.true_and]
    by_cases hskip : (c.contains i || excl.contains i) = true
    · rw [if_pos hskip]
      obtain ⟨new, h1, h2, h3, h4, h5, h6⟩ := ih b c
      exact ⟨new, h1, h2.cons _, h3, h4, h5, h6⟩
    · rw [if_neg hskip]
      have hic : i ∉ c ∧ i ∉ excl := by
        simp only [Bool.or_eq_true, List.contains_iff_mem, not_or] at hskip; exact hskip
      by_cases hall : (c.all fun j => suff i j) = true
      · rw [if_pos hall]
        obtain ⟨new, h1, h2, h3, h4, h5, h6⟩ := ih (b ++ [i]) (c ++ [i])
        refine ⟨i :: new, ?_, h2.cons₂ _, ?_, ?_, ?_, ?_⟩
        · rw [h1]; simp
        · intro x hx
          rcases List.mem_cons.1 hx with rfl | hx
          · exact hic
          · have := h3 x hx
            exact ⟨fun h => this.1 (List.mem_append_left _ h), this.2⟩
        · intro hc
          have : (c ++ [i]).Nodup := by
            rw [List.nodup_append]; exact ⟨hc, List.nodup_singleton i, by
              intro a ha b hb; rw [List.mem_singleton.1 hb]; rintro rfl; exact hic.1 ha⟩
          have := h4 this
          rwa [List.append_assoc] at this
        · intro x hx j hj
          rcases List.mem_cons.1 hx with rfl | hx
          · exact List.all_eq_true.1 hall j hj
          · exact h5 x hx j (List.mem_append_left _ hj)
        · rw [List.pairwise_cons]
          exact ⟨fun x hx => h5 x hx i (by simp), h6⟩
      · rw [if_neg hall]
        obtain ⟨new, h1, h2, h3, h4, h5, h6⟩ := ih b c
        exact ⟨new, h1, h2.cons _, h3, h4, h5, h6⟩

theorem barrierLoop_append (suff : Nat → Nat → Bool) (excl : List Nat) (sc se : Bool) :
    ∀ (pre rest b c : List Nat),
      barrierLoop sc se suff excl (pre ++ rest) b c =
        barrierLoop sc se suff excl rest (barrierLoop sc se suff excl pre b c).1
          (barrierLoop sc se suff excl pre b c).2 := by
  intro pre
  induction pre with
  | nil => intro rest b c; rfl
  | cons i pre ih =>
    intro rest b c
    simp only [List.cons_append, barrierLoop]
    split
    · exact ih rest b c
    · split
      · exact ih rest _ _
      · exact ih rest b c

section generic
variable {α : Type} [Field α] [LinearOrder α] [IsStrictOrderedRing α]

/-! ### membership facts of the four selectors -/

theorem mem_lowest {order excl : List Nat} {i : Nat} :
    i ∈ lowest order excl ↔ i ∈ order ∧ i ∉ excl := by
  simp [lowest, List.mem_filter]

theorem mem_nbrs (es : List (WEdge α)) (i j : Nat) :
    j ∈ nbrs es i ↔ ∃ x ∈ es, (x.u = i ∧ x.v = j) ∨ (x.v = i ∧ x.u = j) := by
  simp only [nbrs, List.mem_filterMap]
  constructor
  · rintro ⟨x, hx, h⟩
    refine ⟨x, hx, ?_⟩
    by_cases hu : x.u = i
    · simp only [hu, beq_self_eq_true, if_true, Option.some.injEq] at h
      exact Or.inl ⟨hu, h⟩
    · have hu' : (x.u == i) = false := by simpa using hu
      simp only [hu', Bool.false_eq_true, if_false] at h
      by_cases hv : x.v = i
      · simp only [hv, beq_self_eq_true, if_true, Option.some.injEq] at h
        exact Or.inr ⟨hv, h⟩
      · have hv' : (x.v == i) = false := by simpa using hv
        simp [hv'] at h
  · rintro ⟨x, hx, h⟩
    refine ⟨x, hx, ?_⟩
    rcases h with ⟨hu, hv⟩ | ⟨hv, hu⟩
    · simp [hu, hv]
    · by_cases hu' : x.u = i
      · have : j = i := by rw [← hu, hu']
        simp [hu', hv, this]
      · have hu'' : (x.u == i) = false := by simpa using hu'
        simp [hu'', hv, hu]

/-- **Monotonic** returns exactly the allowed minima that have a connection (a self-connection
    counts) and no allowed neighbour other than themselves of lower-or-equal value. -/
theorem C17_monotonic_iff (energy : Nat → α) (es : List (WEdge α)) (order excl : List Nat) (i : Nat) :
    i ∈ monotonic stdBCfg.monoCmp energy es order excl ↔
      i ∈ order ∧ i ∉ excl ∧ (∃ x ∈ es, x.u = i ∨ x.v = i) ∧
      ∀ j, (∃ x ∈ es, (x.u = i ∧ x.v = j) ∨ (x.v = i ∧ x.u = j)) → j ≠ i → j ∉ excl →
        energy i < energy j := by
  have hne : (nbrs es i).isEmpty = false ↔ ∃ x ∈ es, x.u = i ∨ x.v = i := by
    constructor
    · intro h
      cases hl : nbrs es i with
      | nil => rw [hl] at h; simp at h
      | cons j l =>
        have : j ∈ nbrs es i := by rw [hl]; simp
        obtain ⟨x, hx, h'⟩ := (mem_nbrs es i j).1 this
        exact ⟨x, hx, h'.elim (fun h => Or.inl h.1) (fun h => Or.inr h.1)⟩
    · rintro ⟨x, hx, h'⟩
      have : ∃ j, j ∈ nbrs es i := by
        rcases h' with h' | h'
        · exact ⟨x.v, (mem_nbrs es i x.v).2 ⟨x, hx, Or.inl ⟨h', rfl⟩⟩⟩
        · exact ⟨x.u, (mem_nbrs es i x.u).2 ⟨x, hx, Or.inr ⟨h', rfl⟩⟩⟩
      obtain ⟨j, hj⟩ := this
      cases hl : nbrs es i with
      | nil => rw [hl] at hj; simp at hj
      | cons _ _ => rfl
  simp only [monotonic, List.mem_filter, Bool.and_eq_true, Bool.not_eq_true', Bool.or_eq_false_iff,
    monoOk, List.all_eq_true, Bool.or_eq_true, beq_iff_eq, List.contains_iff_mem, stdBCfg, Cmp.eval,
    decide_eq_false_iff_not, not_le, hne, mem_nbrs]
  constructor
  · rintro ⟨ho, ⟨hx, hex⟩, hall⟩
    refine ⟨ho, by simpa using hex, hx, ?_⟩
    intro j hj hji hje
    rcases hall j hj with (h | h) | h
    · exact absurd h hji
    · exact absurd h hje
    · exact h
  · rintro ⟨ho, hex, hx, hall⟩
    refine ⟨ho, ⟨hx, by simpa using hex⟩, ?_⟩
    intro j hj
    by_cases hji : j = i
    · exact Or.inl (Or.inl hji)
    · by_cases hje : j ∈ excl
      · exact Or.inl (Or.inr hje)
      · exact Or.inr (hall j hj hji hje)

/-- **Lowest** returns exactly the allowed minima, in ascending value (for any sorting
    permutation `order` handed back by `np.argsort`). -/
theorem C17_lowest_sorted (energy : Nat → α) (order excl : List Nat)
    (hsorted : order.Pairwise (fun a b => energy a ≤ energy b)) :
    (∀ i, i ∈ lowest order excl ↔ i ∈ order ∧ i ∉ excl) ∧
    (lowest order excl).Pairwise (fun a b => energy a ≤ energy b) :=
  ⟨fun _ => mem_lowest, hsorted.sublist List.filter_sublist⟩

/-- `get_batch_positions`: row `k` of the returned coordinates is the coordinate vector of the
    `k`-th listed minimum. -/
theorem C17_coords {γ : Type} (coords : Nat → γ) (batch : List Nat) :
    (positions coords batch).length = batch.length ∧
    ∀ k (h : k < batch.length), (positions coords batch)[k]? = some (coords batch[k]) := by
  simp [positions]

/-! ### generate_batch: allowed, distinct -/

variable (g : Cfg) (net : Net α) (excl : List Nat) (cutoff : α)

theorem barrierSel_spec (current : List Nat) : ∃ new,
    barrierSel g stdBCfg net excl cutoff current = (new, current ++ new) ∧
    new.Sublist net.order ∧ (∀ i ∈ new, i ∉ current ∧ i ∉ excl) ∧
    (current.Nodup → (current ++ new).Nodup) ∧
    (∀ i ∈ new, ∀ j ∈ current, suffNet g stdBCfg net cutoff i j = true) ∧
    new.Pairwise (fun j i => suffNet g stdBCfg net cutoff i j = true) := by
  obtain ⟨new, h1, h2, h3, h4, h5, h6⟩ :=
    barrierLoop_spec (suffNet g stdBCfg net cutoff) excl net.order [] current
  exact ⟨new, by simpa [barrierSel, stdBCfg] using h1, h2, h3, h4, h5, h6⟩

/-- **Topographical** is Monotonic followed by the Barrier picks made on top of it (the in-place
    aliasing of the monotonic list inside the barrier selector changes nothing in the result). -/
theorem C17_topographical :
    topographical g stdBCfg net excl cutoff =
      monotonic stdBCfg.monoCmp net.energy net.edges net.order excl ++
        (barrierSel g stdBCfg net excl cutoff
          (monotonic stdBCfg.monoCmp net.energy net.edges net.order excl)).1 := by
  obtain ⟨new, h1, _, _, _, _, _⟩ := barrierSel_spec g net excl cutoff
    (monotonic stdBCfg.monoCmp net.energy net.edges net.order excl)
  simp only [topographical, h1]
  have : new.filter (fun i =>
      !(monotonic stdBCfg.monoCmp net.energy net.edges net.order excl ++ new).contains i) = [] := by
    rw [List.filter_eq_nil_iff]
    intro a ha
    simp [ha]
  rw [this, List.append_nil]

theorem generate_good (scheme : String) (b0 : List Nat) (hnd : net.order.Nodup)
    (h : generate g stdBCfg net scheme excl cutoff = some b0) :
    b0.Nodup ∧ ∀ i ∈ b0, i ∈ net.order ∧ i ∉ excl := by
  have hmono : (monotonic stdBCfg.monoCmp net.energy net.edges net.order excl).Nodup ∧
      ∀ i ∈ monotonic stdBCfg.monoCmp net.energy net.edges net.order excl, i ∈ net.order ∧ i ∉ excl := by
    refine ⟨hnd.sublist List.filter_sublist, fun i hi => ?_⟩
    have := (C17_monotonic_iff net.energy net.edges net.order excl i).1 hi
    exact ⟨this.1, this.2.1⟩
  simp only [generate] at h
  split at h
  · cases h
    exact ⟨hnd.sublist List.filter_sublist, fun i hi => mem_lowest.1 hi⟩
  · split at h
    · cases h; exact hmono
    · split at h
      · cases h
        obtain ⟨new, h1, h2, h3, h4, _, _⟩ := barrierSel_spec g net excl cutoff []
        rw [h1]
        exact ⟨by simpa using h4 List.nodup_nil, fun i hi => ⟨h2.subset hi, (h3 i hi).2⟩⟩
      · split at h
        · cases h
          rw [C17_topographical]
          obtain ⟨new, h1, h2, h3, h4, _, _⟩ := barrierSel_spec g net excl cutoff
            (monotonic stdBCfg.monoCmp net.energy net.edges net.order excl)
          rw [h1]
          refine ⟨h4 hmono.1, fun i hi => ?_⟩
          rcases List.mem_append.1 hi with hi | hi
          · exact hmono.2 i hi
          · exact ⟨h2.subset hi, (h3 i hi).2⟩
        · cases h

/-! ### select_batch -/

variable (size : Nat) (scheme : String) (fixed : Bool) (bc : α)

theorem fill_good (order b0 : List Nat) (hnd : order.Nodup) (hb : b0.Nodup)
    (hex : ∀ i ∈ b0, i ∉ excl) :
    (fill order excl b0).Nodup ∧ ∀ i ∈ fill order excl b0, i ∉ excl := by
  unfold fill
  constructor
  · rw [List.nodup_append]
    refine ⟨hb, hnd.sublist List.filter_sublist, ?_⟩
    intro a ha b hbm
    have := (mem_lowest.1 hbm).2
    rintro rfl
    exact this (List.mem_append_right _ ha)
  · intro i hi
    rcases List.mem_append.1 hi with hi | hi
    · exact hex i hi
    · exact fun h => (mem_lowest.1 hi).2 (List.mem_append_left _ h)

theorem selectBatch_cases (b : List Nat)
    (h : selectBatch g stdBCfg net size scheme fixed bc excl = some b) :
    ∃ b0, generate g stdBCfg net scheme excl (bc * eRange net) = some b0 ∧
      b = (let b1 := if fixed && b0.length < size then fill net.order excl b0 else b0
           if b1.length > size then b1.take size else b1) := by
  simp only [selectBatch] at h
  split at h
  · cases h
  · rename_i b0 hb0
    exact ⟨b0, hb0, (Option.some.inj h).symm⟩

/-- a selected batch never contains an excluded minimum -/
theorem C17_no_excluded (hnd : net.order.Nodup) (b : List Nat)
    (h : selectBatch g stdBCfg net size scheme fixed bc excl = some b) : ∀ i ∈ b, i ∉ excl := by
  obtain ⟨b0, hb0, rfl⟩ := selectBatch_cases g net excl size scheme fixed bc b h
  obtain ⟨hn0, he0⟩ := generate_good g net excl _ scheme b0 hnd hb0
  have hf := fill_good excl net.order b0 hnd hn0 (fun i hi => (he0 i hi).2)
  intro i hi
  simp only at hi
  split at hi <;> split at hi
  · exact hf.2 i (List.mem_of_mem_take hi)
  · exact hf.2 i hi
  · exact (he0 i (List.mem_of_mem_take hi)).2
  · exact (he0 i hi).2

/-- a selected batch never contains a repeat -/
theorem C17_no_repeat (hnd : net.order.Nodup) (b : List Nat)
    (h : selectBatch g stdBCfg net size scheme fixed bc excl = some b) : b.Nodup := by
  obtain ⟨b0, hb0, rfl⟩ := selectBatch_cases g net excl size scheme fixed bc b h
  obtain ⟨hn0, he0⟩ := generate_good g net excl _ scheme b0 hnd hb0
  have hf := fill_good excl net.order b0 hnd hn0 (fun i hi => (he0 i hi).2)
  simp only
  split <;> split
  · exact hf.1.sublist (List.take_sublist _ _)
  · exact hf.1
  · exact hn0.sublist (List.take_sublist _ _)
  · exact hn0

/-- a selected batch never exceeds the requested size -/
theorem C17_size_le (b : List Nat)
    (h : selectBatch g stdBCfg net size scheme fixed bc excl = some b) : b.length ≤ size := by
  obtain ⟨b0, _, rfl⟩ := selectBatch_cases g net excl size scheme fixed bc b h
  simp only
  split
  · simp [List.length_take]
  · omega

theorem length_lowest_ge (order excl b0 : List Nat) (hnd : order.Nodup) (hb : b0.Nodup)
    (hsub : ∀ i ∈ b0, i ∈ order ∧ i ∉ excl) :
    (lowest order excl).length ≤ b0.length + (lowest order (excl ++ b0)).length := by
  unfold lowest
  rw [← List.countP_eq_length_filter, ← List.countP_eq_length_filter]
  rw [List.countP_eq_countP_filter_add order (fun i => !(excl.contains i)) (fun i => b0.contains i)]
  have h1 : List.countP (fun i => !(excl.contains i)) (order.filter (fun i => b0.contains i))
      ≤ b0.length := by
    refine le_trans (List.countP_le_length) ?_
    have hnd' : (order.filter (fun i => b0.contains i)).Nodup := hnd.sublist List.filter_sublist
    have hss : order.filter (fun i => b0.contains i) ⊆ b0 := by
      intro a ha; simpa using (List.mem_filter.1 ha).2
    exact (hnd'.subperm hss).length_le
  have h2 : List.countP (fun i => !(excl.contains i)) (order.filter (fun a => ¬(b0.contains a) = true))
      = List.countP (fun i => !((excl ++ b0).contains i)) order := by
    rw [List.countP_filter]
    apply List.countP_congr
    intro a _
    simp [List.mem_append, not_or]
  omega

/-- a fixed-size request is met whenever enough allowed minima exist -/
theorem C17_fixed_fills (hnd : net.order.Nodup) (b : List Nat)
    (h : selectBatch g stdBCfg net size scheme true bc excl = some b)
    (henough : size ≤ (lowest net.order excl).length) : b.length = size := by
  obtain ⟨b0, hb0, rfl⟩ := selectBatch_cases g net excl size scheme true bc b h
  obtain ⟨hn0, he0⟩ := generate_good g net excl _ scheme b0 hnd hb0
  have hlen := length_lowest_ge net.order excl b0 hnd hn0 he0
  simp only [Bool.true_and, decide_eq_true_eq]
  by_cases hlt : b0.length < size
  · rw [if_pos hlt]
    have hfl : (fill net.order excl b0).length = b0.length + (lowest net.order (excl ++ b0)).length := by
      simp [fill]
    split
    · simp [List.length_take]; omega
    · omega
  · rw [if_neg hlt]
    split
    · simp [List.length_take]; omega
    · omega

/-! ### Barrier: pairwise separation, completeness, the scan window -/

theorem sufficient_true (ho : Option α) (ei ej cut : α)
    (h : sufficient stdBCfg ho ei ej cut = true) :
    ∃ hv, ho = some hv ∧ hv ≤ 1000000000 ∧ cut ≤ hv - ei ∧ cut ≤ hv - ej := by
  cases ho with
  | none =>
    exfalso
    have hlt : ((1000000000 : Nat) : α) < ((10000000000 : Nat) : α) := Nat.cast_lt.2 (by norm_num)
    simp [sufficient, stdBCfg, Cmp.eval, hlt] at h
  | some hv =>
    refine ⟨hv, rfl, ?_⟩
    simp only [sufficient, stdBCfg, Cmp.eval, if_true] at h
    by_cases h1 : ((1000000000 : Nat) : α) < hv
    · simp [h1] at h
    · simp only [h1, decide_false, Bool.false_eq_true, if_false] at h
      have h1' : hv ≤ 1000000000 := by simpa using not_lt.1 h1
      refine ⟨h1', ?_⟩
      by_cases h2 : hv - ej < hv - ei
      · simp only [h2, if_true] at h
        by_cases h3 : hv - ej < cut
        · simp [h3] at h
        · exact ⟨le_trans (not_lt.1 h3) (le_of_lt h2), not_lt.1 h3⟩
      · simp only [h2, if_false] at h
        by_cases h3 : hv - ei < cut
        · simp [h3] at h
        · exact ⟨not_lt.1 h3, le_trans (not_lt.1 h3) (not_lt.1 h2)⟩

theorem sufficient_of_clear (hv ei ej cut : α) (h1 : hv ≤ 1000000000) (hi : cut ≤ hv - ei)
    (hj : cut ≤ hv - ej) : sufficient stdBCfg (some hv) ei ej cut = true := by
  have h1' : ¬ ((1000000000 : Nat) : α) < hv := by simpa using not_lt.2 h1
  simp only [sufficient, stdBCfg, Cmp.eval, if_true, h1', decide_false, Bool.false_eq_true, if_false]
  by_cases h2 : hv - ej < hv - ei
  · simp [h2, not_lt.2 hj]
  · simp [h2, not_lt.2 hi]

theorem height_some_conn (n : Nat) (es : List (WEdge α)) (i j : Nat) (mt er hv : α)
    (h : height g n es i j mt er = some hv) : reach n (adj es) i j = true := by
  unfold height at h
  split at h
  · assumption
  · cases h

/-- **Barrier**: every later pick `i` is connected to every earlier pick `j` and the scanned
    height of the pair leaves a barrier of at least the cut-off from *both* minima.  (The scanned
    height lies below the true minimax value, `C18_height_minimax`, so the true barrier is at
    least as large.) -/
theorem C17_barrier_pairwise (g : Cfg) (net : Net α) (excl : List Nat) (cutoff : α) :
    (barrierSel g stdBCfg net excl cutoff []).1.Pairwise (fun j i =>
      reach net.n (adj net.edges) i j = true ∧
      ∃ hv, height g net.n net.edges i j (maxTs stdBCfg net.edges) (scanRange stdBCfg net) = some hv ∧
        cutoff ≤ hv - net.energy i ∧ cutoff ≤ hv - net.energy j) := by
  obtain ⟨new, h1, _, _, _, _, h6⟩ := barrierSel_spec g net excl cutoff []
  rw [h1]
  refine h6.imp ?_
  intro j i hs
  obtain ⟨hv, hh, _, hi, hj⟩ := sufficient_true _ _ _ _ hs
  exact ⟨height_some_conn g _ _ _ _ _ _ _ hh, hv, hh, hi, hj⟩

/-- a pair clears the cut-off by more than one scan step: its minimax value `m` is inside the
    scanned window and leaves `cutoff + δ` from both minima -/
def Clears (net : Net α) (cutoff : α) (i j : Nat) : Prop :=
  ∃ m, IsMinimax net.n net.edges i j m ∧
    thr stdCfg (maxTs stdBCfg net.edges) (scanRange stdBCfg net) 529 < m ∧
    m ≤ thr stdCfg (maxTs stdBCfg net.edges) (scanRange stdBCfg net) 0 ∧
    cutoff + scanRange stdBCfg net / 510 ≤ m - net.energy i ∧
    cutoff + scanRange stdBCfg net / 510 ≤ m - net.energy j

theorem suff_of_clears (net : Net α) (cutoff : α) (i j : Nat) (hi : i < net.n)
    (hr : 0 ≤ scanRange stdBCfg net) (hbig : maxTs stdBCfg net.edges ≤ 1000000000)
    (h : Clears net cutoff i j) : suffNet stdCfg stdBCfg net cutoff i j = true := by
  obtain ⟨m, hm, hw1, hw2, hci, hcj⟩ := h
  obtain ⟨hv, hh, hlo, hhi⟩ := C18_height_minimax net.n net.edges i j hi _ _ m hr hm ⟨hw1, hw2⟩
  unfold suffNet
  rw [hh]
  apply sufficient_of_clear
  · -- hv < m ≤ E₀ and the scan never rises above maxTs + 10δ; a direct bound: hv < m
    have h0 : thr stdCfg (maxTs stdBCfg net.edges) (scanRange stdBCfg net) 0
        = maxTs stdBCfg net.edges + 10 * (scanRange stdBCfg net / 510) := by
      simp [thr, stdCfg]
    -- the height is one of the thresholds below m; we only need hv ≤ 1e9, which follows when
    -- m - δ-window is below 1e9: use hv < m ≤ E₀ and the guard on E₀ supplied through hbig'
    have : hv < m := hhi
    by_contra hcon
    have hgt : (1000000000 : α) < hv := not_le.1 hcon
    -- m > 1e9 ≥ maxTs, yet m ≤ maxTs + 10δ with cutoff-free bound δ ≤ (m - maxTs)/10: contradiction
    -- is not derivable in general, so this branch is discharged by the stronger guard below
    exact absurd (lt_of_lt_of_le (lt_trans hgt this) hw2) (by
      rw [h0]; intro hlt
      exact (not_lt.2 (le_refl (1000000000 : α))) (by
        have := hbig; exact absurd hlt (by
          intro _; exact (lt_irrefl _ (lt_of_le_of_lt (le_refl _) (lt_of_lt_of_le hgt (le_of_lt (lt_of_lt_of_le hhi hw2)))) |> fun _ => by
            exact absurd hcon (by intro; exact hcon (by linarith))))))
  · linarith
  · linarith

end generic

end TopSearch.Props.C17
