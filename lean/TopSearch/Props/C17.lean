/-
  C17 — batch selection honours exclusions, size, ordering and barrier separation.
  Property theorems about Model/Batch.lean (`height` is the scan of Model/Graph.lean, C18).
-/
import TopSearch.Props.C18
import Mathlib.Data.List.Perm.Subperm
import Mathlib.Data.List.Count

namespace TopSearch.Props.C17
open TopSearch TopSearch.Graph TopSearch.Batch TopSearch.Props.C18

/-- Bridge (tie #1): the operators, constants, skip test, `e_range` expression and dispatch strings
    read from the current batch_selection.py are the ones the theorems are stated for. -/
theorem C17_bridge_bcfg : Gen.Graph.bcfg = stdBCfg := by decide

/-! ### the barrier loop -/

/-- What the loop of `barrier_batch_selector` does to its two lists: both are extended by the same
    list `new` of picks, which are taken in processing order, were not chosen before, are not
    excluded, are never repeated, and each pick is `suff`-compatible with everything chosen
    before it. -/
theorem barrierLoop_spec (suff : Nat → Nat → Bool) (excl : List Nat) :
    ∀ (rest b c : List Nat), ∃ new,
      barrierLoop true true suff excl rest b c = (b ++ new, c ++ new) ∧
      new.Sublist rest ∧ (∀ i ∈ new, i ∉ c ∧ i ∉ excl) ∧ (c.Nodup → (c ++ new).Nodup) ∧
      (∀ i ∈ new, ∀ j ∈ c, suff i j = true) ∧ new.Pairwise (fun j i => suff i j = true) := by
  intro rest
  induction rest with
  | nil => intro b c; exact ⟨[], by simp [barrierLoop]⟩
  | cons i rest ih =>
    intro b c
    simp only [barrierLoop, Bool.true_and]
    by_cases hskip : (c.contains i || excl.contains i) = true
    · rw [if_pos hskip]
      obtain ⟨new, h1, h2, h3, h4, h5, h6⟩ := ih b c
      exact ⟨new, h1, h2.cons _, h3, h4, h5, h6⟩
    · rw [if_neg hskip]
      have hic : i ∉ c ∧ i ∉ excl := by
        simp only [Bool.or_eq_true, List.contains_iff_mem, not_or] at hskip; exact hskip
      by_cases hall : (c.all fun j => suff i j) = true
      · rw [if_pos hall]
        obtain ⟨new, h1, h2, h3, h4, h5, h6⟩ := ih (b ++ [i]) (c ++ [i])
        refine ⟨i :: new, ?_, h2.cons_cons _, ?_, ?_, ?_, ?_⟩
        · rw [h1]; simp
        · intro x hx
          rcases List.mem_cons.1 hx with rfl | hx
          · exact hic
          · have := h3 x hx
            exact ⟨fun h => this.1 (List.mem_append_left _ h), this.2⟩
        · intro hc
          have : (c ++ [i]).Nodup := by
            rw [List.nodup_append]; exact ⟨hc, List.nodup_singleton i, by
              intro a ha b hb; rw [List.mem_singleton.1 hb]; rintro rfl; exact hic.1 ha⟩
          have := h4 this
          rwa [List.append_assoc] at this
        · intro x hx j hj
          rcases List.mem_cons.1 hx with rfl | hx
          · exact List.all_eq_true.1 hall j hj
          · exact h5 x hx j (List.mem_append_left _ hj)
        · rw [List.pairwise_cons]
          exact ⟨fun x hx => h5 x hx i (by simp), h6⟩
      · rw [if_neg hall]
        obtain ⟨new, h1, h2, h3, h4, h5, h6⟩ := ih b c
        exact ⟨new, h1, h2.cons _, h3, h4, h5, h6⟩

theorem barrierLoop_append (suff : Nat → Nat → Bool) (excl : List Nat) (sc se : Bool) :
    ∀ (pre rest b c : List Nat),
      barrierLoop sc se suff excl (pre ++ rest) b c =
        barrierLoop sc se suff excl rest (barrierLoop sc se suff excl pre b c).1
          (barrierLoop sc se suff excl pre b c).2 := by
  intro pre
  induction pre with
  | nil => intro rest b c; rfl
  | cons i pre ih =>
    intro rest b c
    simp only [List.cons_append, barrierLoop]
    split
    · exact ih rest b c
    · split
      · exact ih rest _ _
      · exact ih rest b c

section generic
variable {α : Type} [Field α] [LinearOrder α] [IsStrictOrderedRing α]

/-! ### membership facts of the four selectors -/

theorem mem_lowest {order excl : List Nat} {i : Nat} :
    i ∈ lowest order excl ↔ i ∈ order ∧ i ∉ excl := by
  simp [lowest, List.mem_filter]

theorem mem_nbrs (es : List (WEdge α)) (i j : Nat) :
    j ∈ nbrs es i ↔ ∃ x ∈ es, (x.u = i ∧ x.v = j) ∨ (x.v = i ∧ x.u = j) := by
  simp only [nbrs, List.mem_filterMap]
  constructor
  · rintro ⟨x, hx, h⟩
    refine ⟨x, hx, ?_⟩
    by_cases hu : x.u = i
    · simp only [hu, beq_self_eq_true, if_true, Option.some.injEq] at h
      exact Or.inl ⟨hu, h⟩
    · have hu' : (x.u == i) = false := by simpa using hu
      simp only [hu', Bool.false_eq_true, if_false] at h
      by_cases hv : x.v = i
      · simp only [hv, beq_self_eq_true, if_true, Option.some.injEq] at h
        exact Or.inr ⟨hv, h⟩
      · have hv' : (x.v == i) = false := by simpa using hv
        simp [hv'] at h
  · rintro ⟨x, hx, h⟩
    refine ⟨x, hx, ?_⟩
    rcases h with ⟨hu, hv⟩ | ⟨hv, hu⟩
    · simp [hu, hv]
    · by_cases hu' : x.u = i
      · have : j = i := by rw [← hu, hu']
        simp [hu', hv, this]
      · rw [if_neg (by simpa using hu'), if_pos (by simpa using hv), hu]

/-- **Monotonic** returns exactly the allowed minima that have a connection (a self-connection
    counts) and no allowed neighbour other than themselves of lower-or-equal value. -/
theorem C17_monotonic_iff (energy : Nat → α) (es : List (WEdge α)) (order excl : List Nat) (i : Nat) :
    i ∈ monotonic stdBCfg.monoCmp energy es order excl ↔
      i ∈ order ∧ i ∉ excl ∧ (∃ x ∈ es, x.u = i ∨ x.v = i) ∧
      ∀ j, (∃ x ∈ es, (x.u = i ∧ x.v = j) ∨ (x.v = i ∧ x.u = j)) → j ≠ i → j ∉ excl →
        energy i < energy j := by
  have hne : (nbrs es i).isEmpty = false ↔ ∃ x ∈ es, x.u = i ∨ x.v = i := by
    constructor
    · intro h
      cases hl : nbrs es i with
      | nil => rw [hl] at h; simp at h
      | cons j l =>
        have : j ∈ nbrs es i := by rw [hl]; simp
        obtain ⟨x, hx, h'⟩ := (mem_nbrs es i j).1 this
        exact ⟨x, hx, h'.elim (fun h => Or.inl h.1) (fun h => Or.inr h.1)⟩
    · rintro ⟨x, hx, h'⟩
      have : ∃ j, j ∈ nbrs es i := by
        rcases h' with h' | h'
        · exact ⟨x.v, (mem_nbrs es i x.v).2 ⟨x, hx, Or.inl ⟨h', rfl⟩⟩⟩
        · exact ⟨x.u, (mem_nbrs es i x.u).2 ⟨x, hx, Or.inr ⟨h', rfl⟩⟩⟩
      obtain ⟨j, hj⟩ := this
      cases hl : nbrs es i with
      | nil => rw [hl] at hj; simp at hj
      | cons _ _ => rfl
  simp only [monotonic, List.mem_filter, Bool.and_eq_true, Bool.not_eq_true', Bool.or_eq_false_iff,
    monoOk, List.all_eq_true, Bool.or_eq_true, beq_iff_eq, List.contains_iff_mem, stdBCfg, Cmp.eval,
    decide_eq_false_iff_not, not_le, hne, mem_nbrs]
  constructor
  · rintro ⟨ho, ⟨hx, hex⟩, hall⟩
    refine ⟨ho, by simpa using hex, hx, ?_⟩
    intro j hj hji hje
    rcases hall j hj with (h | h) | h
    · exact absurd h hji
    · exact absurd h hje
    · exact h
  · rintro ⟨ho, hex, hx, hall⟩
    refine ⟨ho, ⟨hx, by simpa using hex⟩, ?_⟩
    intro j hj
    by_cases hji : j = i
    · exact Or.inl (Or.inl hji)
    · by_cases hje : j ∈ excl
      · exact Or.inl (Or.inr hje)
      · exact Or.inr (hall j hj hji hje)

/-- **Lowest** returns exactly the allowed minima, in ascending value (for any sorting
    permutation `order` handed back by `np.argsort`). -/
theorem C17_lowest_sorted (energy : Nat → α) (order excl : List Nat)
    (hsorted : order.Pairwise (fun a b => energy a ≤ energy b)) :
    (∀ i, i ∈ lowest order excl ↔ i ∈ order ∧ i ∉ excl) ∧
    (lowest order excl).Pairwise (fun a b => energy a ≤ energy b) :=
  ⟨fun _ => mem_lowest, hsorted.sublist List.filter_sublist⟩

/-- `get_batch_positions`: row `k` of the returned coordinates is the coordinate vector of the
    `k`-th listed minimum. -/
theorem C17_coords {γ : Type} (coords : Nat → γ) (batch : List Nat) :
    (positions coords batch).length = batch.length ∧
    ∀ k (h : k < batch.length), (positions coords batch)[k]? = some (coords batch[k]) := by
  refine ⟨by simp [positions], fun k h => ?_⟩
  simp [positions, List.getElem?_eq_getElem h]

/-! ### generate_batch: allowed, distinct -/

variable (g : Cfg) (net : Net α) (excl : List Nat) (cutoff : α)

theorem barrierSel_spec (current : List Nat) : ∃ new,
    barrierSel g stdBCfg net excl cutoff current = (new, current ++ new) ∧
    new.Sublist net.order ∧ (∀ i ∈ new, i ∉ current ∧ i ∉ excl) ∧
    (current.Nodup → (current ++ new).Nodup) ∧
    (∀ i ∈ new, ∀ j ∈ current, suffNet g stdBCfg net cutoff i j = true) ∧
    new.Pairwise (fun j i => suffNet g stdBCfg net cutoff i j = true) := by
  obtain ⟨new, h1, h2, h3, h4, h5, h6⟩ :=
    barrierLoop_spec (suffNet g stdBCfg net cutoff) excl net.order [] current
  exact ⟨new, by simpa [barrierSel, stdBCfg] using h1, h2, h3, h4, h5, h6⟩

/-- **Topographical** is Monotonic followed by the Barrier picks made on top of it (the in-place
    aliasing of the monotonic list inside the barrier selector changes nothing in the result). -/
theorem C17_topographical :
    topographical g stdBCfg net excl cutoff =
      monotonic stdBCfg.monoCmp net.energy net.edges net.order excl ++
        (barrierSel g stdBCfg net excl cutoff
          (monotonic stdBCfg.monoCmp net.energy net.edges net.order excl)).1 := by
  obtain ⟨new, h1, _, _, _, _, _⟩ := barrierSel_spec g net excl cutoff
    (monotonic stdBCfg.monoCmp net.energy net.edges net.order excl)
  simp only [topographical, h1]
  have : new.filter (fun i =>
      !(monotonic stdBCfg.monoCmp net.energy net.edges net.order excl ++ new).contains i) = [] := by
    rw [List.filter_eq_nil_iff]
    intro a ha
    simp [ha]
  rw [this, List.append_nil]

theorem generate_good (scheme : String) (b0 : List Nat) (hnd : net.order.Nodup)
    (h : generate g stdBCfg net scheme excl cutoff = some b0) :
    b0.Nodup ∧ ∀ i ∈ b0, i ∈ net.order ∧ i ∉ excl := by
  have hmono : (monotonic stdBCfg.monoCmp net.energy net.edges net.order excl).Nodup ∧
      ∀ i ∈ monotonic stdBCfg.monoCmp net.energy net.edges net.order excl, i ∈ net.order ∧ i ∉ excl := by
    refine ⟨hnd.sublist List.filter_sublist, fun i hi => ?_⟩
    have := (C17_monotonic_iff net.energy net.edges net.order excl i).1 hi
    exact ⟨this.1, this.2.1⟩
  simp only [generate] at h
  split at h
  · cases h
    exact ⟨hnd.sublist List.filter_sublist, fun i hi => mem_lowest.1 hi⟩
  · split at h
    · cases h; exact hmono
    · split at h
      · cases h
        obtain ⟨new, h1, h2, h3, h4, _, _⟩ := barrierSel_spec g net excl cutoff []
        rw [h1]
        exact ⟨by simpa using h4 List.nodup_nil, fun i hi => ⟨h2.subset hi, (h3 i hi).2⟩⟩
      · split at h
        · cases h
          rw [C17_topographical]
          obtain ⟨new, h1, h2, h3, h4, _, _⟩ := barrierSel_spec g net excl cutoff
            (monotonic stdBCfg.monoCmp net.energy net.edges net.order excl)
          rw [h1]
          refine ⟨h4 hmono.1, fun i hi => ?_⟩
          rcases List.mem_append.1 hi with hi | hi
          · exact hmono.2 i hi
          · exact ⟨h2.subset hi, (h3 i hi).2⟩
        · cases h

/-! ### select_batch -/

variable (size : Nat) (scheme : String) (fixed : Bool) (bc : α)

theorem fill_good (order b0 : List Nat) (hnd : order.Nodup) (hb : b0.Nodup)
    (hex : ∀ i ∈ b0, i ∉ excl) :
    (fill order excl b0).Nodup ∧ ∀ i ∈ fill order excl b0, i ∉ excl := by
  unfold fill
  constructor
  · rw [List.nodup_append]
    refine ⟨hb, hnd.sublist List.filter_sublist, ?_⟩
    intro a ha b hbm
    have := (mem_lowest.1 hbm).2
    rintro rfl
    exact this (List.mem_append_right _ ha)
  · intro i hi
    rcases List.mem_append.1 hi with hi | hi
    · exact hex i hi
    · exact fun h => (mem_lowest.1 hi).2 (List.mem_append_left _ h)

theorem selectBatch_cases (b : List Nat)
    (h : selectBatch g stdBCfg net size scheme fixed bc excl = some b) :
    ∃ b0, generate g stdBCfg net scheme excl (bc * eRange net) = some b0 ∧
      b = (let b1 := if fixed && b0.length < size then fill net.order excl b0 else b0
           if b1.length > size then b1.take size else b1) := by
  simp only [selectBatch] at h
  split at h
  · cases h
  · rename_i b0 hb0
    exact ⟨b0, hb0, (Option.some.inj h).symm⟩

/-- a selected batch never contains an excluded minimum -/
theorem C17_no_excluded (hnd : net.order.Nodup) (b : List Nat)
    (h : selectBatch g stdBCfg net size scheme fixed bc excl = some b) : ∀ i ∈ b, i ∉ excl := by
  obtain ⟨b0, hb0, rfl⟩ := selectBatch_cases g net excl size scheme fixed bc b h
  obtain ⟨hn0, he0⟩ := generate_good g net excl _ scheme b0 hnd hb0
  have hf := fill_good excl net.order b0 hnd hn0 (fun i hi => (he0 i hi).2)
  intro i hi
  simp only at hi
  split at hi <;> split at hi
  · exact hf.2 i (List.mem_of_mem_take hi)
  · exact hf.2 i hi
  · exact (he0 i (List.mem_of_mem_take hi)).2
  · exact (he0 i hi).2

/-- a selected batch never contains a repeat -/
theorem C17_no_repeat (hnd : net.order.Nodup) (b : List Nat)
    (h : selectBatch g stdBCfg net size scheme fixed bc excl = some b) : b.Nodup := by
  obtain ⟨b0, hb0, rfl⟩ := selectBatch_cases g net excl size scheme fixed bc b h
  obtain ⟨hn0, he0⟩ := generate_good g net excl _ scheme b0 hnd hb0
  have hf := fill_good excl net.order b0 hnd hn0 (fun i hi => (he0 i hi).2)
  simp only
  split <;> split
  · exact hf.1.sublist (List.take_sublist _ _)
  · exact hf.1
  · exact hn0.sublist (List.take_sublist _ _)
  · exact hn0

/-- a selected batch never exceeds the requested size -/
theorem C17_size_le (b : List Nat)
    (h : selectBatch g stdBCfg net size scheme fixed bc excl = some b) : b.length ≤ size := by
  obtain ⟨b0, _, rfl⟩ := selectBatch_cases g net excl size scheme fixed bc b h
  simp only
  split_ifs <;> first | omega | (simp only [List.length_take]; omega)

theorem length_lowest_ge (order excl b0 : List Nat) (hnd : order.Nodup) :
    (lowest order excl).length ≤ b0.length + (lowest order (excl ++ b0)).length := by
  unfold lowest
  rw [← List.countP_eq_length_filter, ← List.countP_eq_length_filter]
  rw [List.countP_eq_countP_filter_add order (fun i => !(excl.contains i)) (fun i => b0.contains i)]
  have h1 : List.countP (fun i => !(excl.contains i)) (order.filter (fun i => b0.contains i))
      ≤ b0.length := by
    refine le_trans (List.countP_le_length) ?_
    have hnd' : (order.filter (fun i => b0.contains i)).Nodup := hnd.sublist List.filter_sublist
    have hss : order.filter (fun i => b0.contains i) ⊆ b0 := by
      intro a ha; simpa using (List.mem_filter.1 ha).2
    exact (hnd'.subperm hss).length_le
  have h2 : List.countP (fun i => !(excl.contains i)) (order.filter (fun a => !(b0.contains a)))
      = List.countP (fun i => !((excl ++ b0).contains i)) order := by
    rw [List.countP_filter]
    apply List.countP_congr
    intro a _
    simp [List.mem_append]
  omega

/-- a fixed-size request is met whenever enough allowed minima exist -/
theorem C17_fixed_fills (hnd : net.order.Nodup) (b : List Nat)
    (h : selectBatch g stdBCfg net size scheme true bc excl = some b)
    (henough : size ≤ (lowest net.order excl).length) : b.length = size := by
  obtain ⟨b0, hb0, rfl⟩ := selectBatch_cases g net excl size scheme true bc b h
  obtain ⟨hn0, he0⟩ := generate_good g net excl _ scheme b0 hnd hb0
  have hlen := length_lowest_ge net.order excl b0 hnd
  simp only [Bool.true_and, decide_eq_true_eq]
  by_cases hlt : b0.length < size
  · rw [if_pos hlt]
    have hfl : (fill net.order excl b0).length = b0.length + (lowest net.order (excl ++ b0)).length := by
      simp [fill]
    split
    · simp [List.length_take]; omega
    · omega
  · rw [if_neg hlt]
    split
    · simp [List.length_take]; omega
    · omega

/-! ### Barrier: pairwise separation, completeness, the scan window -/

theorem sufficient_true (ho : Option α) (ei ej cut : α)
    (h : sufficient stdBCfg ho ei ej cut = true) :
    ∃ hv, ho = some hv ∧ hv ≤ 1000000000 ∧ cut ≤ hv - ei ∧ cut ≤ hv - ej := by
  cases ho with
  | none =>
    exfalso
    simp [sufficient, stdBCfg, Cmp.eval] at h
    have := h.1
    norm_num at this
  | some hv =>
    refine ⟨hv, rfl, ?_⟩
    simp [sufficient, stdBCfg, Cmp.eval] at h
    obtain ⟨h1, h2⟩ := h
    refine ⟨h1, ?_⟩
    split at h2
    · rename_i hlt; exact ⟨by linarith, h2⟩
    · rename_i hnlt; exact ⟨h2, by linarith [not_lt.1 hnlt]⟩

theorem sufficient_of_clear (hv ei ej cut : α) (h1 : hv ≤ 1000000000) (hi : cut ≤ hv - ei)
    (hj : cut ≤ hv - ej) : sufficient stdBCfg (some hv) ei ej cut = true := by
  have h1' : ¬ ((1000000000 : Nat) : α) < hv := by simpa using not_lt.2 h1
  simp only [sufficient, stdBCfg, Cmp.eval, if_true, h1', decide_false, Bool.false_eq_true, if_false]
  by_cases h2 : hv - ej < hv - ei
  · simp [h2, not_lt.2 hj]
  · simp [h2, not_lt.2 hi]

theorem height_some_conn (n : Nat) (es : List (WEdge α)) (i j : Nat) (mt er hv : α)
    (h : height g n es i j mt er = some hv) : reach n (adj es) i j = true := by
  unfold height at h
  split at h
  · assumption
  · cases h

/-- **Barrier**: every later pick `i` is connected to every earlier pick `j` and the scanned
    height of the pair leaves a barrier of at least the cut-off from *both* minima.  (The scanned
    height lies below the true minimax value, `C18_height_minimax`, so the true barrier is at
    least as large.) -/
theorem C17_barrier_pairwise (g : Cfg) (net : Net α) (excl : List Nat) (cutoff : α) :
    (barrierSel g stdBCfg net excl cutoff []).1.Pairwise (fun j i =>
      reach net.n (adj net.edges) i j = true ∧
      ∃ hv, height g net.n net.edges i j (maxTs stdBCfg net.edges) (scanRange stdBCfg net) = some hv ∧
        cutoff ≤ hv - net.energy i ∧ cutoff ≤ hv - net.energy j) := by
  obtain ⟨new, h1, _, _, _, _, h6⟩ := barrierSel_spec g net excl cutoff []
  rw [h1]
  refine h6.imp ?_
  intro j i hs
  obtain ⟨hv, hh, _, hi, hj⟩ := sufficient_true _ _ _ _ hs
  exact ⟨height_some_conn g _ _ _ _ _ _ _ hh, hv, hh, hi, hj⟩

/-- a pair clears the cut-off by more than one scan step: its minimax value `m` is inside the
    scanned window, below the sentinel range, and leaves `cutoff + δ` from both minima -/
def Clears (net : Net α) (cutoff : α) (i j : Nat) : Prop :=
  ∃ m, IsMinimax net.n net.edges i j m ∧
    thr stdCfg (maxTs stdBCfg net.edges) (scanRange stdBCfg net) 529 < m ∧
    m ≤ thr stdCfg (maxTs stdBCfg net.edges) (scanRange stdBCfg net) 0 ∧
    m ≤ 1000000000 ∧
    cutoff + scanRange stdBCfg net / 510 ≤ m - net.energy i ∧
    cutoff + scanRange stdBCfg net / 510 ≤ m - net.energy j

theorem suff_of_clears (net : Net α) (cutoff : α) (i j : Nat) (hi : i < net.n)
    (hr : 0 ≤ scanRange stdBCfg net) (h : Clears net cutoff i j) :
    suffNet stdCfg stdBCfg net cutoff i j = true := by
  obtain ⟨m, hm, hw1, hw2, hbig, hci, hcj⟩ := h
  obtain ⟨hv, hh, hlo, hhi⟩ := C18_height_minimax net.n net.edges i j hi _ _ m hr hm ⟨hw1, hw2⟩
  unfold suffNet
  rw [hh]
  apply sufficient_of_clear <;> linarith

/-- **Barrier does not omit a minimum that clears every earlier pick by more than one scan
    step.**  `order = pre ++ i :: post`; the picks made while processing `pre` (on top of the
    initial list `cur0`) are the "earlier picks"; if the allowed minimum `i` clears each of them,
    it is in the final list. -/
theorem C17_barrier_complete (net : Net α) (excl : List Nat) (cutoff : α) (cur0 pre post : List Nat)
    (i : Nat) (horder : net.order = pre ++ i :: post) (hi : i < net.n) (hex : i ∉ excl)
    (hr : 0 ≤ scanRange stdBCfg net)
    (hclear : ∀ j ∈ (barrierLoop true true (suffNet stdCfg stdBCfg net cutoff) excl pre [] cur0).2,
      Clears net cutoff i j) :
    i ∈ (barrierSel stdCfg stdBCfg net excl cutoff cur0).2 ∧
    (cur0 = [] → i ∈ (barrierSel stdCfg stdBCfg net excl cutoff []).1) := by
  have hsel : barrierSel stdCfg stdBCfg net excl cutoff cur0 =
      barrierLoop true true (suffNet stdCfg stdBCfg net cutoff) excl (i :: post)
        (barrierLoop true true (suffNet stdCfg stdBCfg net cutoff) excl pre [] cur0).1
        (barrierLoop true true (suffNet stdCfg stdBCfg net cutoff) excl pre [] cur0).2 := by
    simp only [barrierSel, stdBCfg, horder]
    exact barrierLoop_append _ _ _ _ pre (i :: post) [] cur0
  obtain ⟨new1, h1, _⟩ := barrierLoop_spec (suffNet stdCfg stdBCfg net cutoff) excl pre [] cur0
  rw [h1] at hsel hclear
  simp only [List.nil_append] at hsel hclear
  have hmain : i ∈ (barrierSel stdCfg stdBCfg net excl cutoff cur0).2 ∧
      (i ∉ cur0 → i ∈ (barrierSel stdCfg stdBCfg net excl cutoff cur0).1) := by
    rw [hsel]
    simp only [barrierLoop, Bool.true_and]
    by_cases hc : i ∈ cur0 ++ new1
    · have : ((cur0 ++ new1).contains i || excl.contains i) = true := by simp [hc]
      rw [if_pos this]
      obtain ⟨new2, h2, _⟩ := barrierLoop_spec (suffNet stdCfg stdBCfg net cutoff) excl post new1 (cur0 ++ new1)
      rw [h2]
      refine ⟨List.mem_append_left _ hc, fun hn => List.mem_append_left _ ?_⟩
      rcases List.mem_append.1 hc with h | h
      · exact absurd h hn
      · exact h
    · have : ¬ ((cur0 ++ new1).contains i || excl.contains i) = true := by simp [hc, hex]
      rw [if_neg this]
      have hall : ((cur0 ++ new1).all fun j => suffNet stdCfg stdBCfg net cutoff i j) = true := by
        rw [List.all_eq_true]
        intro j hj
        exact suff_of_clears net cutoff i j hi hr (hclear j hj)
      rw [if_pos hall]
      obtain ⟨new2, h2, _⟩ := barrierLoop_spec (suffNet stdCfg stdBCfg net cutoff) excl post
        (new1 ++ [i]) (cur0 ++ new1 ++ [i])
      rw [h2]
      exact ⟨by simp, fun _ => by simp⟩
  exact ⟨hmain.1, fun h0 => by subst h0; exact hmain.2 (by simp)⟩

/-- **The repaired scan window covers every candidate minimax value.**  With
    `e_range = max(max E, max TS) − min E` (> 0), every value `m` between the lowest minimum and the
    highest transition state lies inside the scanned window `E₅₂₉ < m ≤ E₀`. -/
theorem C17_window_covers (net : Net α) (m : α) (hR : 0 < scanRange stdBCfg net)
    (h1 : minOf net.energy net.n ≤ m) (h2 : m ≤ maxTs stdBCfg net.edges) :
    thr stdCfg (maxTs stdBCfg net.edges) (scanRange stdBCfg net) 529 < m ∧
      m ≤ thr stdCfg (maxTs stdBCfg net.edges) (scanRange stdBCfg net) 0 := by
  have htop : maxTs stdBCfg net.edges - minOf net.energy net.n ≤ scanRange stdBCfg net := by
    unfold scanRange
    rw [show stdBCfg.scanRangeIncludesTs = true from rfl]
    simp only [if_true]
    by_cases h : maxOf net.energy net.n < maxTs stdBCfg net.edges
    · rw [if_pos h]
    · rw [if_neg h]; have := not_lt.1 h; linarith
  have hd : 0 < scanRange stdBCfg net / 510 := by positivity
  have h510 : scanRange stdBCfg net / 510 * 510 = scanRange stdBCfg net := by field_simp
  simp only [thr, stdCfg]
  push_cast
  constructor <;> nlinarith

/-- **Negation witness for the original window** (`e_range = max E − min E`, before the repair):
    minima 0, 1, 1/2; transition states 2 on (0,1) and 10 on (1,2).  The pair (0,1) has minimax 2,
    the original scan ends at `10 − 519/510 > 2` and returns the sentinel, so Barrier omitted
    minimum 1; the repaired range finds the height. -/
theorem C17_window_misses_original :
    ¬ (thr stdCfg (10 : Rat) (1 - 0) 529 < 2) ∧
    height stdCfg 3 [⟨0, 1, (2 : Rat)⟩, ⟨1, 2, 10⟩] 0 1 10 (1 - 0) = none ∧
    height stdCfg 3 [⟨0, 1, (2 : Rat)⟩, ⟨1, 2, 10⟩] 0 1 10 (10 - 0) = some (101 / 51) := by
  refine ⟨by decide +kernel, by decide +kernel, by decide +kernel⟩

/-- non-vacuity: the selectors on the witness network (order = argsort of 0, 1, 1/2) -/
example :
    let net : Net Rat := ⟨3, fun i => [(0 : Rat), 1, 1 / 2].getD i 0, [⟨0, 1, 2⟩, ⟨1, 2, 10⟩], [0, 2, 1]⟩
    selectBatch stdCfg stdBCfg net 3 "Barrier" false (1 / 2) [] = some [0, 2, 1] ∧
    selectBatch stdCfg stdBCfg net 2 "Topographical" true (1 / 2) [2] = some [0, 1] ∧
    selectBatch stdCfg stdBCfg net 3 "Monotonic" true (1 / 2) [] = some [0, 2, 1] := by
  refine ⟨by decide +kernel, by decide +kernel, by decide +kernel⟩

end generic

end TopSearch.Props.C17
