/-
  C14 — order-irrelevance of the permuted copy for two group families (not imported by the library root and not part of any registered obligation until proved).
-/
import TopSearch.Lemmas.AlignCoords
import TopSearch.Props.C14

namespace TopSearch.Props.C14

/-! ### the permuted copy when the two structures distribute their atoms differently over the groups -/

/-- Reading every atom of the second structure from the UNTOUCHED input makes the permuted copy
    independent of the order in which the permutable groups are processed — for any two families of
    groups (the written atoms `g1` pairwise disjoint; no condition at all on the atoms read, `g2`),
    any Hungarian answers and any number of groups.  The order comes from iterating a Python `set` of
    strings, i.e. from the interpreter's hash seed. -/
theorem C14_assembleCoords_order_irrelevant {β : Type} (coords2 : Nat → β)
    (gs gs' : List TopSearch.Align.Grp) (hp : gs.Perm gs')
    (hdisj : (gs.map (·.g1)).Pairwise List.Disjoint) (a : Nat) :
    TopSearch.Align.assembleCoords true coords2 gs a = TopSearch.Align.assembleCoords true coords2 gs' a := by
  have hpw : gs.Pairwise (fun x y => List.Disjoint x.g1 y.g1) := List.pairwise_map.1 hdisj
  have hall := TopSearch.Align.pairwise_forall_ne
    (R := fun (x y : TopSearch.Align.Grp) => List.Disjoint x.g1 y.g1) (fun x y h a ha hb => h hb ha) hpw
  unfold TopSearch.Align.assembleCoords
  have := List.Perm.foldl_eq' (f := TopSearch.Align.assembleCoordsGroup true coords2) hp
    (fun x hx y hy z => by
      by_cases hxy : x = y
      · subst hxy; rfl
      · exact TopSearch.Align.group_comm coords2 z x y (hall x hx y hy hxy)) coords2
  rw [this]

/-- … and reading from the working copy does not: a concrete pair of groups that exchange members
    gives different permuted copies in the two processing orders. -/
theorem C14_working_copy_read_order_dependent :
    ∃ (coords2 : Nat → Nat) (gs gs' : List TopSearch.Align.Grp) (a : Nat), gs.Perm gs' ∧
      (gs.map (·.g1)).Pairwise List.Disjoint ∧
      TopSearch.Align.assembleCoords false coords2 gs a ≠ TopSearch.Align.assembleCoords false coords2 gs' a :=
  ⟨id, [⟨[0, 1], [2, 3], [0, 1]⟩, ⟨[2, 3], [0, 1], [0, 1]⟩], [⟨[2, 3], [0, 1], [0, 1]⟩, ⟨[0, 1], [2, 3], [0, 1]⟩], 2,
    List.Perm.swap _ _ _, by simp [List.Disjoint], by decide⟩

end TopSearch.Props.C14
