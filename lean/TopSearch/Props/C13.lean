/-
  C13 — the attempt history is complete, bounded and keeps pointing at the same minima.
  Property theorems only (helpers live in Lemmas/History.lean).
-/
import TopSearch.Lemmas.History
import TopSearch.Gen.History
import TopSearch.Gen.Ktn

namespace TopSearch.Props.C13
open TopSearch TopSearch.Ktn TopSearch.History
variable {δ : Type}

/-! ### bridges (tie #1): what the translator read from the current source is the model -/

/-- the decision structure of `check_pair` after the counting loop, as read from the source,
    decides like the model kernel for every repeat count, connectedness and pair
    (`repeats >= 3` instead of `repeats > 2`, or a reordering of the tests, still passes;
    `repeats > 3` does not) -/
theorem C13_bridge_kernel (r : Nat) (e : Bool) (a b : Nat) :
    Gen.History.checkKernel r e a b = History.checkKernel r e a b := by
  unfold Gen.History.checkKernel History.checkKernel
  cases e <;> simp only [Bool.false_eq_true, if_false, if_true] <;>
    split_ifs <;> first | rfl | (exfalso; omega)

/-- `run_connection_attempts` appends sorted pairs, `add_network` maps the merged entries
    through `index_map`, skips unmatched ones and sorts, `remove_minimum` maintains the history -/
theorem C13_bridge_cfg :
    Gen.History.cfg = History.Cfg.repaired ∧ Gen.Ktn.cfg.removeRenumbersHistory = true := by
  decide

/-- the history statements of `remove_minimum`, as read from the source, are the model's rule
    "drop the entries naming `k`, shift the larger indices down" -/
theorem C13_bridge_remove (k : Nat) (h : List (Nat × Nat)) :
    Gen.History.historyAfterRemove k h = Ktn.historyAfterRemove true k h := by
  simp only [Gen.History.historyAfterRemove, Ktn.historyAfterRemove, if_true]
  apply map_filter_congr
  · intro x _
    cases h1 : (x.1 == k) <;> cases h2 : (x.2 == k) <;> simp [bne, h1, h2]
  · intro x _ hq
    have hx : x.1 ≠ k ∧ x.2 ≠ k := by simpa using hq
    refine Prod.ext ?_ ?_ <;> simp only [renumberPair] <;> split_ifs <;> omega

/-! ### a round records every pair once, sorted, searched or not -/

/-- After a round (serial or parallel, whatever the kernel decides, whatever the searches find)
    the history is the old one followed by the pairs of the round, each sorted, each once, in
    list order — whether or not a search was run for it. -/
theorem C13_recorded (kern : Kernel) (kc : Ktn.Cfg) (par : Bool) (s : Ktn δ)
    (pairs : List ((Nat × Nat) × List (Op δ)))
    (hg : pairs.all (fun pe => pe.2.all isGrow) = true) :
    (round kern Gen.History.cfg kc par s pairs).1.pairlist =
      s.pairlist ++ (pairs.map (·.1)).map sortPair := by
  rw [(round_grow kern _ kc par pairs s hg).1, C13_bridge_cfg.1]
  simp [recordRound, Cfg.repaired, reinitIfEmpty_eq]

/-- `check_pair` refuses exactly the self-pairs, the pairs already joined by a transition state
    and the pairs recorded three or more times; the count it returns (and hands to the
    double-ended search) is the number of times the sorted pair occurs in the history. -/
theorem C13_check_pair_iff (s : Ktn δ) (a b : Nat) :
    ((checkPair Gen.History.checkKernel s a b).1 = false ↔
      (a = b ∨ s.hasEdge a b = true ∨ 3 ≤ s.pairlist.count (sortPair (a, b)))) ∧
    (checkPair Gen.History.checkKernel s a b).2 = s.pairlist.count (sortPair (a, b)) := by
  have hk : Gen.History.checkKernel = History.checkKernel := by
    funext r e a b; exact C13_bridge_kernel r e a b
  have hc : repeats s.pairlist a b = s.pairlist.count (sortPair (a, b)) := by
    simp [repeats, List.count, List.countP_eq_length_filter]
  rw [hk]
  simp only [checkPair, hc]
  exact ⟨checkKernel_false_iff _ _ _ _, trivial⟩

/-- Serial mode: the double-ended search is invoked, in list order, exactly for the pairs that
    are not refused when judged in the network as it is after merging the outcomes of the earlier
    pairs of the round, against the history as it was before the round (`serialSpec`), with that
    history's repeat count as argument. -/
theorem C13_searched_serial (kc : Ktn.Cfg) (s : Ktn δ)
    (pairs : List ((Nat × Nat) × List (Op δ)))
    (hg : pairs.all (fun pe => pe.2.all isGrow) = true) :
    (round Gen.History.checkKernel Gen.History.cfg kc false s pairs).2 =
      (List.range pairs.length).filterMap (serialSpec kc s s.pairlist pairs) := by
  have hk : Gen.History.checkKernel = History.checkKernel := by
    funext r e a b; exact C13_bridge_kernel r e a b
  rw [hk]
  simp only [round, Bool.false_eq_true, if_false]
  exact serialRound_searched kc pairs s s.pairlist rfl hg

/-- Parallel mode: every pair is judged in the network and against the history as they were
    before the round; the search is invoked exactly for the pairs not refused there. -/
theorem C13_searched_parallel (kc : Ktn.Cfg) (s : Ktn δ)
    (pairs : List ((Nat × Nat) × List (Op δ))) :
    (round Gen.History.checkKernel Gen.History.cfg kc true s pairs).2 =
      (pairs.filter (fun pe => decide (¬ refused s s.pairlist pe.1))).map
        (fun pe => (pe.1.1, pe.1.2, repeats s.pairlist pe.1.1 pe.1.2)) := by
  have hk : Gen.History.checkKernel = History.checkKernel := by
    funext r e a b; exact C13_bridge_kernel r e a b
  rw [hk]
  simp only [round, if_true, parallelRound]
  have : (fun (pe : (Nat × Nat) × List (Op δ)) => (checkPair checkKernel s pe.1.1 pe.1.2).1) =
      (fun pe => decide (¬ refused s s.pairlist pe.1)) := by
    funext pe
    rw [Bool.eq_iff_iff]
    simpa using checkPair_accepts s pe.1
  rw [this]
  simp [checkPair]

/-! ### recorded pairs keep referring to the same minima -/

/-- Removing the minimum at index `k`: the stored history after `remove_minimum` is exactly the
    rendering of the *same* identity-level history under the new numbering — entries naming the
    removed identity are gone, every other entry names the same two identities as before. -/
theorem C13_remove_tracks (ids : List Nat) (hn : ids.Nodup) (k : Nat) (h : List (Nat × Nat)) :
    Gen.History.historyAfterRemove k (render ids h) = render (ids.eraseIdx k) h := by
  rw [C13_bridge_remove]; exact (render_eraseIdx hn k h).symm

/-- Bulk removal (also bounds pruning): after `remove_minima ks` (distinct existing indices in
    any order) the stored history is the rendering of the unchanged identity-level history under
    the numbering left by the loop; no identity is renamed, and exactly `ks.length` are gone. -/
theorem C13_removeMinima_tracks (s : Ktn δ) (a : Abs) (h : R s a) (ks : List Nat)
    (hk : ∀ k ∈ ks, k < s.nMin) (hnd : ks.Nodup) :
    let a' := a.removeLoop 0 (sortNat ks)
    (s.removeMinima Gen.Ktn.cfg.removeRenumbersHistory ks).pairlist = render a'.ids a'.hist ∧
    a'.hist = a.hist ∧ a'.ids.Sublist a.ids ∧ a'.ids.length = a.ids.length - ks.length := by
  rw [C13_bridge_cfg.2]
  have hr := R_removeMinima h ks hk hnd
  obtain ⟨hs, hm⟩ := sortNat_sorted hnd
  have hb : ∀ k ∈ sortNat ks, 0 ≤ k ∧ k - 0 < a.ids.length := by
    intro k hk'; rw [h.2.1]; exact ⟨Nat.zero_le _, by simpa using hk k ((hm k).1 hk')⟩
  obtain ⟨_, _, i3, i4, _, _⟩ := absLoop (sortNat ks) a 0 h.2.2.1 hs hb
  have hlen : (sortNat ks).length = ks.length := by
    rw [sortNat_eq]; exact List.length_insertionSort _ _
  refine ⟨hr.1, i4, ?_, by rw [i3, hlen]⟩
  -- the loop only erases
  have : ∀ (l : List Nat) (a : Abs) (c : Nat), (a.removeLoop c l).ids.Sublist a.ids := by
    intro l
    induction l with
    | nil => intro a c; exact List.Sublist.refl _
    | cons k t ih => intro a c; exact (ih _ _).trans (List.eraseIdx_sublist _ _)
  exact this _ _ _

/-- Merge: the entries appended by `add_network` are the other network's entries translated to
    the identities its minima were matched to / inserted as (`φ` = the real `index_map`), entries
    with an unmatched end skipped; the existing entries are untouched. -/
theorem C13_merge_tracks (s s' : Ktn δ) (a : Abs) (h : R s a) (other : List (Nat × Nat))
    (φ : List (Option Nat))
    (hφ : φ.all (fun o => match o with | some j => decide (j < s.nMin) | none => true) = true)
    (hp : s'.pairlist = mergeHistory Gen.History.cfg φ s.pairlist other) (hn : s'.nMin = s.nMin) :
    s'.pairlist = render a.ids (a.merge other φ).hist ∧ (a.merge other φ).ids = a.ids := by
  rw [C13_bridge_cfg.1] at hp
  exact ⟨(R_merge h other φ hφ hp hn).1, rfl⟩

/-- **Refinement.**  For every interleaving of connection rounds (serial or parallel, any
    search outcomes), `remove_minimum`, `remove_minima` (= bounds pruning), `add_network` (the
    other network's entries mapped through the matching `φ`), save/restore, reset and other
    growth, started from the empty network: the stored history is the rendering of the
    identity-level history (`Abs`: immutable identities; a round appends the identities of its
    pairs, a merge the identities the merged entries were matched to, a removal only deletes the
    identity) — every stored entry names the two identities it named when it was recorded, and
    entries naming a removed identity are gone. -/
theorem C13_history_tracks_identities (ops : List (HOp δ)) (s : Ktn δ) (a : Abs)
    (h : runBoth Gen.History.checkKernel Gen.History.cfg Gen.Ktn.cfg ({} : Ktn δ) ({} : Abs) ops
      = some (s, a)) :
    s.pairlist = render a.ids a.hist ∧ a.ids.length = s.nMin ∧ a.ids.Nodup := by
  rw [C13_bridge_cfg.1] at h
  have key : ∀ (ops : List (HOp δ)) (s0 : Ktn δ) (a0 : Abs), R s0 a0 →
      runBoth Gen.History.checkKernel Cfg.repaired Gen.Ktn.cfg s0 a0 ops = some (s, a) → R s a := by
    intro ops
    induction ops with
    | nil => intro s0 a0 h0 hr; simp only [runBoth, Option.some.injEq, Prod.mk.injEq] at hr
             rw [← hr.1, ← hr.2]; exact h0
    | cons op ops ih =>
      intro s0 a0 h0 hr
      simp only [runBoth] at hr
      split at hr
      · rename_i hv
        exact ih _ _ (step_tracks _ _ C13_bridge_cfg.2 h0 op hv) hr
      · exact absurd hr (by simp)
  have := key ops _ _ R_empty h
  exact ⟨this.1, this.2.1, this.2.2.1⟩

/-- Corollary: under the same interleavings every stored entry is sorted and names two
    *existing* minima. -/
theorem C13_history_sorted_valid (ops : List (HOp δ)) (s : Ktn δ) (a : Abs)
    (h : runBoth Gen.History.checkKernel Gen.History.cfg Gen.Ktn.cfg ({} : Ktn δ) ({} : Abs) ops
      = some (s, a)) :
    ∀ q ∈ s.pairlist, q.1 ≤ q.2 ∧ q.2 < s.nMin := by
  obtain ⟨h1, h2, _⟩ := C13_history_tracks_identities ops s a h
  intro q hq
  rw [h1] at hq
  simp only [render, List.mem_filterMap] at hq
  obtain ⟨p, _, hp⟩ := hq
  rw [← h2]
  exact renderEntry_bounds hp

/-! ### what the repairs bought: the pre-fix behaviour does not track identities -/

/-- Without renumbering (`remove_minimum` of the original code left the history alone) the
    history [[0,1],[2,3],[1,3]] is unchanged by the removal of minimum 1, whereas the entries
    followed through the renumbering read [[1,2]]. -/
theorem C13_not_tracked_without_renumbering :
    ∃ (ids : List Nat) (h : List (Nat × Nat)) (k : Nat), ids.Nodup ∧ k < ids.length ∧
      render ids h = [(0, 1), (2, 3), (1, 3)] ∧
      Ktn.historyAfterRemove false k (render ids h) = [(0, 1), (2, 3), (1, 3)] ∧
      render (ids.eraseIdx k) h = [(1, 2)] ∧
      Ktn.historyAfterRemove true k (render ids h) = [(1, 2)] :=
  ⟨[10, 11, 12, 13], [(10, 11), (12, 13), (11, 13)], 1, by decide, by decide, by decide,
    by decide, by decide, by decide⟩

/-- Without the mapping (`add_network` of the original code copied the other network's indices)
    a merged entry [0,1] whose minima became 1 and 2 here is stored as [0,1] instead of [1,2]. -/
theorem C13_not_tracked_without_mapping :
    ∃ (a : Abs) (other : List (Nat × Nat)) (φ : List (Option Nat)), a.ids.Nodup ∧
      mergeHistory ⟨true, false, true, true⟩ φ (render a.ids a.hist) other = [(0, 1)] ∧
      render a.ids (a.merge other φ).hist = [(1, 2)] ∧
      mergeHistory Cfg.repaired φ (render a.ids a.hist) other = [(1, 2)] :=
  ⟨⟨[10, 11, 12], 13, []⟩, [(0, 1)], [some 1, some 2], by decide, by decide, by decide, by decide⟩

/-- non-vacuity: a concrete interleaving (round with an outcome that adds a minimum and a
    transition state, single removal, merge, bulk removal, save/restore) satisfies the guards and
    ends with a non-empty history -/
example : ∃ (s : Ktn Nat) (a : Abs),
    runBoth Gen.History.checkKernel Gen.History.cfg Gen.Ktn.cfg ({} : Ktn Nat) ({} : Abs)
      [.grow [.addMin 0, .addMin 1, .addMin 2, .addMin 3],
       .round false [((1, 0), [.addMin 4, .addTs 9 0 1]), ((2, 3), []), ((3, 1), []), ((1, 0), [])],
       .removeMin 1,
       .addNetwork [.addMin 5] [(0, 1)] [some 1, some 4],
       .round true [((2, 1), []), ((0, 0), [])],
       .removeMinima [3, 0], .dumpRead] = some (s, a) ∧
    s.pairlist = [(0, 1), (0, 2), (0, 1)] ∧ s.nMin = 3 :=
  ⟨_, _, rfl, by decide, by decide⟩

end TopSearch.Props.C13
