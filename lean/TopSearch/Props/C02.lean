/-
  C02 — the network store stays coherent under any edit history.
  Property theorems only (helpers live in Lemmas/Ktn.lean).
-/
import TopSearch.Lemmas.Ktn
import TopSearch.Gen.Ktn

namespace TopSearch.Props.C02
open TopSearch TopSearch.Ktn
variable {δ : Type}

/-- Bridge (tie #1): the counter rule the translator read from the current `add_ts`
    is the one the invariant needs. -/
theorem C02_bridge_counter : Gen.Ktn.cfg.addTsCountsOnlyNew = true := by decide

/-- Every valid history from the empty network ends in a coherent store. -/
theorem C02_inv (cfg : Cfg) (hc : cfg.addTsCountsOnlyNew = true) (ops : List (Op δ)) (s : Ktn δ)
    (h : run cfg empty ops = some s) : Inv s :=
  inv_run cfg hc ops empty s inv_empty h

/-- minima are numbered `0..n-1` without gaps, in order -/
theorem C02_labels (ops : List (Op δ)) (s : Ktn δ) (h : run Gen.Ktn.cfg empty ops = some s) :
    s.nodes.map (·.label) = List.range s.nMin ∧ s.nodes.length = s.nMin := by
  have hi := C02_inv Gen.Ktn.cfg C02_bridge_counter ops s h
  refine ⟨hi.1, ?_⟩
  have := congrArg List.length hi.1
  simpa using this

/-- the reported counts equal the numbers actually stored; one transition state per pair;
    transition states join existing minima -/
theorem C02_counts (ops : List (Op δ)) (s : Ktn δ) (h : run Gen.Ktn.cfg empty ops = some s) :
    s.nMin = s.nodes.length ∧ s.nTs = s.edges.length ∧
    s.edges.Pairwise (fun a b => Edge.joins a b.u b.v = false) ∧
    ∀ e ∈ s.edges, s.hasNode e.u = true ∧ s.hasNode e.v = true := by
  have hi := C02_inv Gen.Ktn.cfg C02_bridge_counter ops s h
  refine ⟨(C02_labels ops s h).2.symm, hi.2.1, hi.2.2.1, ?_⟩
  intro e he
  have := hi.2.2.2 e he
  exact ⟨(hasNode_of_inv hi _).2 this.1, (hasNode_of_inv hi _).2 this.2⟩

/-- removing minimum `k`: exactly the node labelled `k` and the transition states touching it
    disappear; every survivor keeps its data, relative order and connections, labels shift down. -/
theorem C02_remove_refines (r : Bool) (s : Ktn δ) (hs : Inv s) (k : Nat) (hk : k < s.nMin) :
    (s.removeMin r k).nodes = (s.nodes.filter (fun nd => nd.label != k)).map (shiftNode k) ∧
    (s.removeMin r k).edges = (s.edges.filter (fun e => !(Edge.touches e k))).map (shiftEdge k) ∧
    (s.removeMin r k).nMin = s.nMin - 1 ∧
    (s.removeMin r k).nTs = (s.removeMin r k).edges.length ∧
    Inv (s.removeMin r k) :=
  ⟨removeMin_nodes r s hs k, removeMin_edges r s hs k, rfl, (inv_removeMin r hs k hk).2.1,
    inv_removeMin r hs k hk⟩

/-- the sorted running-offset loop of `remove_minima` deletes exactly the listed minima
    (given in any order): survivors in relative order with their data, label = rank among
    survivors, surviving transition states keep data and (renamed) endpoints. -/
theorem C02_removeMinima_eq_delete (r : Bool) (s : Ktn δ) (hs : Inv s) (ks : List Nat)
    (hk : ∀ k ∈ ks, k < s.nMin) (hn : ks.Nodup) :
    (s.removeMinima r ks).nodes = (deleteSet s ks).nodes ∧
    (s.removeMinima r ks).edges = (deleteSet s ks).edges ∧
    (s.removeMinima r ks).nMin = (deleteSet s ks).nMin ∧
    (s.removeMinima r ks).nTs = (deleteSet s ks).nTs ∧
    Inv (s.removeMinima r ks) := by
  obtain ⟨a, b, c, d⟩ := removeMinima_eq_delete r s hs ks hk hn
  refine ⟨a, b, c, ?_, d⟩
  rw [d.2.1, b]
  simp [deleteSet]

/-- every survivor holds the data it was last given: an insertion sets the data of its own
    minimum / pair and of nothing else -/
theorem C02_last_write (c : Bool) (s : Ktn δ) (hs : Inv s) (d : δ) :
    ((s.addMin d).nodeData? s.nMin = some d ∧
      ∀ a, a ≠ s.nMin → (s.addMin d).nodeData? a = s.nodeData? a) ∧
    (∀ u v, (s.addTs c d u v).edgeData? u v = some d ∧ (s.addTs c d u v).edgeData? v u = some d ∧
      (s.addTs c d u v).nodes = s.nodes ∧
      ∀ a b, Edge.joins (⟨a, b, d⟩ : Edge δ) u v = false →
        (s.addTs c d u v).edgeData? a b = s.edgeData? a b) :=
  ⟨nodeData_addMin hs d, fun u v => edgeData_addTs c s d u v⟩

/-- a second transition state for an already connected pair replaces the data and leaves the
    count unchanged -/
theorem C02_addTs_second_keeps_count (s : Ktn δ) (d : δ) (u v : Nat) (h : s.hasEdge u v = true) :
    (s.addTs true d u v).nTs = s.nTs ∧ (s.addTs true d u v).edges.length = s.edges.length := by
  simp [addTs, h]

/-- removing a transition state removes exactly that pair's edge -/
theorem C02_removeTs_refines (s : Ktn δ) (hs : Inv s) (u v : Nat) (h : s.hasEdge u v = true) :
    (s.removeTs u v).edges = s.edges.filter (fun e => !(Edge.joins e u v)) ∧
    (s.removeTs u v).edges.length + 1 = s.edges.length ∧
    (s.removeTs u v).nodes = s.nodes ∧ Inv (s.removeTs u v) :=
  ⟨rfl, (inv_removeTs hs u v h).2, rfl, (inv_removeTs hs u v h).1⟩

/-- Without the counter guard the property is false: the original `add_ts` (counter
    incremented unconditionally) drifts on the 4-operation history of the corpus. -/
theorem C02_counter_drift_without_guard :
    ∃ (ops : List (Op Nat)) (s : Ktn Nat), run ⟨false, true⟩ empty ops = some s ∧
      s.nTs ≠ s.edges.length :=
  ⟨[.addMin 0, .addMin 1, .addTs 2 0 1, .addTs 3 1 0], _, rfl, by decide⟩

/-- non-vacuity: a concrete valid history with a self-connection, a second transition state on a
    connected pair, single and bulk removal reaches a non-trivial state -/
example : ∃ s : Ktn Nat, run ⟨true, true⟩ empty
    [.addMin 10, .addMin 11, .addMin 12, .addMin 13, .addTs 20 0 1, .addTs 21 1 0, .addTs 22 2 2,
     .addTs 23 1 3, .removeMin 0, .removeMinima [1], .addTs 24 0 1] = some s ∧
    s.nMin = 2 ∧ s.nTs = 1 ∧ s.edgeData? 1 0 = some 24 := ⟨_, rfl, by decide, by decide, by decide⟩

end TopSearch.Props.C02
