/-
  C19 — dataset transformations are invertible, aligned and lossless across updates.
  Property theorems only (helpers live in Lemmas/ModelData.lean).

  Reading (DESIGN §4.0): "to rounding" clauses are exact identities over an ordered field here and
  tolerance comparisons in the correspondence; every standardisation needs a non-constant
  feature (`σ ≠ 0`), every normalisation `max ≠ min` — explicit hypotheses below.  The standard
  deviation is a parameter `σ` (the model never takes a square root); where its value matters
  (`C19_std_moments`) the hypothesis is `σ * σ = var`.
-/
import TopSearch.Lemmas.ModelData
import TopSearch.Gen.ModelData

set_option linter.unusedSectionVars false
set_option linter.unusedVariables false
set_option linter.unusedTactic false
set_option linter.unreachableTactic false

namespace TopSearch.Props.C19
open TopSearch TopSearch.ModelData TopSearch.Py

/-! ### bridges (tie #1): what the translator read from the current source -/

/-- `remove_duplicates` in the current source is the repaired scan: each point is compared with
    the *retained* points only, with `<` against the cut-off, and `np.delete` with the repeated
    indices is applied to both arrays, `n_points` refreshed. -/
theorem C19_bridge_dedup : Gen.ModelData.dedup = DedupCfg.repaired := by decide

/-- the order of (flag, call) steps in `prepare_training_data`, `add_data`, `lowest_point` -/
theorem C19_bridge_steps :
    Gen.ModelData.prepareSteps = prepareSteps ∧ Gen.ModelData.addDataSteps = addDataSteps ∧
    Gen.ModelData.lowestSteps = lowestSteps := by decide

section formulas
variable {α : Type} [Field α]

/-- The eight transform methods of the current source store the statistics the model stores
    (`np.mean` / `np.std` / `min` / `max` of their own array, per feature for the training array,
    before the array is re-assigned) and assign the model's element-wise formulas
    (`v0` = array, `v1..v4` = std, mean, min, max). -/
theorem C19_bridge_formulas (fnI : Fn → α → α) (ρ : Nat → α) :
    (Gen.ModelData.stdResp.writes = [⟨.std, .std, true, false⟩, ⟨.mean, .mean, true, false⟩] ∧
     Gen.ModelData.stdTrain.writes = [⟨.std, .std, true, true⟩, ⟨.mean, .mean, true, true⟩] ∧
     Gen.ModelData.normResp.writes = [⟨.min, .min, true, false⟩, ⟨.max, .max, true, false⟩] ∧
     Gen.ModelData.normTrain.writes = [⟨.min, .min, true, true⟩, ⟨.max, .max, true, true⟩] ∧
     Gen.ModelData.unstdResp.writes = [] ∧ Gen.ModelData.unstdTrain.writes = [] ∧
     Gen.ModelData.unnormResp.writes = [] ∧ Gen.ModelData.unnormTrain.writes = []) ∧
    (Gen.ModelData.stdResp.formula.eval fnI ρ = stdF (ρ 0) (ρ 2) (ρ 1) ∧
     Gen.ModelData.stdTrain.formula.eval fnI ρ = stdF (ρ 0) (ρ 2) (ρ 1) ∧
     Gen.ModelData.unstdResp.formula.eval fnI ρ = unstdF (ρ 0) (ρ 2) (ρ 1) ∧
     Gen.ModelData.unstdTrain.formula.eval fnI ρ = unstdF (ρ 0) (ρ 2) (ρ 1) ∧
     Gen.ModelData.normResp.formula.eval fnI ρ = normF (ρ 0) (ρ 3) (ρ 4) ∧
     Gen.ModelData.normTrain.formula.eval fnI ρ = normF (ρ 0) (ρ 3) (ρ 4) ∧
     Gen.ModelData.unnormResp.formula.eval fnI ρ = unnormF (ρ 0) (ρ 3) (ρ 4) ∧
     Gen.ModelData.unnormTrain.formula.eval fnI ρ = unnormF (ρ 0) (ρ 3) (ρ 4)) := by
  refine ⟨by decide, ?_, ?_, ?_, ?_, ?_, ?_, ?_, ?_⟩ <;>
    (simp only [Gen.ModelData.stdResp, Gen.ModelData.stdTrain, Gen.ModelData.unstdResp,
      Gen.ModelData.unstdTrain, Gen.ModelData.normResp, Gen.ModelData.normTrain,
      Gen.ModelData.unnormResp, Gen.ModelData.unnormTrain, E.eval, stdF, unstdF, normF,
      unnormF, Xform.formula]
     try ring)

/-- environment with the array variable `v0` replaced -/
def setV0 (ρ : Nat → α) (y : α) : Nat → α := fun i => if i = 0 then y else ρ i

/-- Symbolically, each un-operation read from the source inverts its operation: evaluating the
    undo formula on the result of the do formula (same stored statistics) gives back `v0`,
    provided the divisor (`std`, resp. `max − min`) is not zero. -/
theorem C19_bridge_inverse (fnI : Fn → α → α) (ρ : Nat → α) :
    (ρ 1 ≠ 0 →
      Gen.ModelData.unstdResp.formula.eval fnI (setV0 ρ (Gen.ModelData.stdResp.formula.eval fnI ρ)) = ρ 0 ∧
      Gen.ModelData.unstdTrain.formula.eval fnI (setV0 ρ (Gen.ModelData.stdTrain.formula.eval fnI ρ)) = ρ 0) ∧
    (ρ 4 ≠ ρ 3 →
      Gen.ModelData.unnormResp.formula.eval fnI (setV0 ρ (Gen.ModelData.normResp.formula.eval fnI ρ)) = ρ 0 ∧
      Gen.ModelData.unnormTrain.formula.eval fnI (setV0 ρ (Gen.ModelData.normTrain.formula.eval fnI ρ)) = ρ 0) := by
  constructor
  · intro h
    constructor <;>
      simp only [Gen.ModelData.stdResp, Gen.ModelData.stdTrain, Gen.ModelData.unstdResp,
        Gen.ModelData.unstdTrain, E.eval, setV0] <;> simp <;> field_simp <;> ring
  · intro h
    have h' : ρ 4 - ρ 3 ≠ 0 := sub_ne_zero.mpr h
    constructor <;>
      simp only [Gen.ModelData.normResp, Gen.ModelData.normTrain, Gen.ModelData.unnormResp,
        Gen.ModelData.unnormTrain, E.eval, setV0] <;> simp <;> field_simp <;> ring

end formulas

section field
variable {α : Type} [Field α] [LinearOrder α] [IsStrictOrderedRing α]

/-- `σ` is the standard deviation of `xs` (what `np.std` returns, without interpreting `sqrt`) -/
def IsStd (σ : α) (xs : List α) : Prop := 0 ≤ σ ∧ σ * σ = var xs

/-- rows all have `d` entries -/
def Rect (d : Nat) (t : List (List α)) : Prop := ∀ r ∈ t, r.length = d

/-- the class invariant: the cached counts describe the arrays, one response per row -/
def Aligned (s : Data α) : Prop :=
  s.nPoints = s.training.length ∧ s.training.length = s.response.length ∧ Rect s.nDims s.training

/-! ### the distance test on squares -/

/-- For a true Euclidean distance `dist ≥ 0` with `dist² = ss`, the code's test `dist < cutoff`
    (resp. `≤`) is the model's test on squares, for every cut-off (also zero and negative). -/
theorem C19_sq_cmp (cutoff ss dist : α) (hd : 0 ≤ dist) (hss : dist * dist = ss) :
    (within .lt cutoff ss = true ↔ dist < cutoff) ∧ (within .le cutoff ss = true ↔ dist ≤ cutoff) := by
  subst hss
  constructor
  · simp only [within, Bool.and_eq_true, decide_eq_true_eq, Nat.cast_zero]
    constructor
    · rintro ⟨hc, h⟩
      by_contra hn
      have hle : cutoff ≤ dist := not_lt.mp hn
      have : cutoff * cutoff ≤ dist * dist := mul_le_mul hle hle (le_of_lt hc) hd
      linarith
    · intro h
      have hc : 0 < cutoff := lt_of_le_of_lt hd h
      exact ⟨hc, mul_lt_mul'' h h hd hd⟩
  · simp only [within, Bool.and_eq_true, decide_eq_true_eq, Nat.cast_zero]
    constructor
    · rintro ⟨hc, h⟩
      by_contra hn
      have hlt : cutoff < dist := not_le.mp hn
      have : cutoff * cutoff < dist * dist := mul_lt_mul'' hlt hlt hc hc
      linarith
    · intro h
      exact ⟨le_trans hd h, mul_le_mul h h hd (le_trans hd h)⟩

/-! ### round trips -/

/-- Standardise then unstandardise restores the values exactly — response, and training feature by
    feature — and leaves counts and the other array alone (`σ ≠ 0` for every feature). -/
theorem C19_std_roundtrip (s : Data α) :
    (∀ σ : α, σ ≠ 0 →
      (s.standardiseResponse σ).unstandardiseResponse.response = s.response ∧
      (s.standardiseResponse σ).unstandardiseResponse.training = s.training ∧
      (s.standardiseResponse σ).unstandardiseResponse.nPoints = s.nPoints) ∧
    (∀ σs : List α, Rect s.nDims s.training → σs.length = s.nDims → (∀ σ ∈ σs, σ ≠ 0) →
      (s.standardiseTraining σs).unstandardiseTraining.training = s.training ∧
      (s.standardiseTraining σs).unstandardiseTraining.response = s.response ∧
      (s.standardiseTraining σs).unstandardiseTraining.nPoints = s.nPoints) := by
  constructor
  · intro σ hσ
    refine ⟨?_, rfl, rfl⟩
    simp only [Data.standardiseResponse, Data.unstandardiseResponse]
    exact map_roundtrip _ _ (fun x => unstd_std x _ σ hσ) _
  · intro σs hr hl hnz
    refine ⟨?_, rfl, rfl⟩
    simp only [Data.standardiseTraining, Data.unstandardiseTraining]
    exact train_std_roundtrip s.training _ σs s.nDims hr (colStat_length _ _ _) hl hnz

/-- Normalise then unnormalise restores the values exactly (`max ≠ min` for the response, resp.
    for every feature). -/
theorem C19_norm_roundtrip (s : Data α) :
    (maxList s.response ≠ minList s.response →
      s.normaliseResponse.unnormaliseResponse.response = s.response ∧
      s.normaliseResponse.unnormaliseResponse.training = s.training) ∧
    (Rect s.nDims s.training →
      (∀ p ∈ (colStat minList s.nDims s.training).zip (colStat maxList s.nDims s.training),
        p.2 ≠ p.1) →
      s.normaliseTraining.unnormaliseTraining.training = s.training ∧
      s.normaliseTraining.unnormaliseTraining.response = s.response) := by
  constructor
  · intro h
    refine ⟨?_, rfl⟩
    simp only [Data.normaliseResponse, Data.unnormaliseResponse]
    exact map_roundtrip _ _ (fun x => unnorm_norm x _ _ h) _
  · intro hr hnz
    refine ⟨?_, rfl⟩
    simp only [Data.normaliseTraining, Data.unnormaliseTraining]
    exact train_norm_roundtrip s.training _ _ s.nDims hr (colStat_length _ _ _)
      (colStat_length _ _ _) hnz

/-! ### moments -/

/-- Standardised values have mean 0 and variance (= mean square) 1, for any size `≥ 1`, when `σ`
    is the standard deviation and is positive. -/
theorem C19_std_moments (xs : List α) (σ : α) (hne : xs ≠ []) (hσ : IsStd σ xs) (hpos : σ ≠ 0) :
    mean (xs.map (fun x => stdF x (mean xs) σ)) = 0 ∧
    var (xs.map (fun x => stdF x (mean xs) σ)) = 1 := by
  have hn : ((xs.length : Nat) : α) ≠ 0 := length_ne_zero hne
  have hmean : mean (xs.map (fun x => stdF x (mean xs) σ)) = 0 := by
    unfold mean stdF
    rw [sum_map_div (fun x => x - sum xs / (xs.length : α)) σ xs, sum_map_sub_const]
    simp only [List.length_map]
    field_simp
    ring
  refine ⟨hmean, ?_⟩
  rw [var_eq, hmean]
  simp only [List.map_map, List.length_map, Function.comp_def, sub_zero]
  have hvar := hσ.2
  rw [var_eq] at hvar
  simp only [List.map_map, Function.comp_def] at hvar
  have : sum (xs.map (fun x => ModelData.sq (stdF x (mean xs) σ))) =
      sum (xs.map (fun x => ModelData.sq (x - mean xs))) / (σ * σ) := by
    rw [← sum_map_div]
    congr 1
    apply List.map_congr_left
    intro x _
    unfold ModelData.sq stdF
    field_simp
  have hσσ : σ * σ ≠ 0 := mul_ne_zero hpos hpos
  rw [this]
  generalize sum (xs.map (fun x => ModelData.sq (x - mean xs))) = S at hvar ⊢
  have hS : S = σ * σ * (xs.length : α) := by rw [hvar]; field_simp
  rw [hS]
  field_simp

/-- column `j` of a standardised table is the standardised column `j` -/
theorem column_standardise (t : List (List α)) (ms σs : List α) (d j : Nat)
    (hrect : Rect d t) (hm : ms.length = d) (hσ : σs.length = d) (hj : j < d) :
    column j (t.map (fun r => zip3With stdF r ms σs)) =
      (column j t).map (fun x => stdF x (ms.getD j 0) (σs.getD j 0)) := by
  unfold column
  rw [List.map_map, List.map_map]
  apply List.map_congr_left
  intro r hr
  simp only [Function.comp]
  have hrl := hrect r hr
  clear hr hrect
  induction r generalizing ms σs d j with
  | nil => simp at hrl; omega
  | cons x xs ih =>
    cases ms with
    | nil => simp at hm; omega
    | cons m ms =>
      cases σs with
      | nil => simp at hσ; omega
      | cons σ σs =>
        cases j with
        | zero => simp [zip3With]
        | succ j =>
          simp only [zip3With, List.getD_cons_succ]
          cases d with
          | zero => omega
          | succ d =>
            exact ih ms σs d j (by simpa using hm) (by simpa using hσ) (by omega)
              (by simpa using hrl)

/-- After `standardise_training` every feature has mean 0 and variance 1 (per-feature `σ` the
    standard deviation of that column, positive). -/
theorem C19_std_moments_training (s : Data α) (σs : List α) (hne : s.training ≠ [])
    (hr : Rect s.nDims s.training) (hl : σs.length = s.nDims)
    (hσ : ∀ j, j < s.nDims → IsStd (σs.getD j 0) (column j s.training) ∧ σs.getD j 0 ≠ 0) :
    ∀ j, j < s.nDims →
      mean (column j (s.standardiseTraining σs).training) = 0 ∧
      var (column j (s.standardiseTraining σs).training) = 1 := by
  intro j hj
  simp only [Data.standardiseTraining]
  rw [column_standardise s.training _ σs s.nDims j hr (colStat_length _ _ _) hl hj]
  have hm : (colStat mean s.nDims s.training).getD j 0 = mean (column j s.training) := by
    simp [colStat, List.getD_eq_getElem?_getD, hj]
  rw [hm]
  have hcne : column j s.training ≠ [] := by simpa [column] using hne
  exact C19_std_moments _ _ hcne (hσ j hj).1 (hσ j hj).2

/-- The variance is zero exactly for constant data — the excluded case `σ = 0`. -/
theorem C19_var_zero_iff_const (xs : List α) (hne : xs ≠ []) :
    var xs = 0 ↔ ∀ x ∈ xs, ∀ y ∈ xs, x = y := by
  have hn : ((xs.length : Nat) : α) ≠ 0 := length_ne_zero hne
  rw [var_eq, div_eq_zero_iff]
  simp only [hn, or_false]
  rw [sum_sq_eq_zero]
  simp only [List.mem_map, forall_exists_index, and_imp, forall_apply_eq_imp_iff₂, sub_eq_zero]
  constructor
  · intro h x hx y hy
    rw [h x hx, h y hy]
  · intro h x hx
    have hall : ∀ y ∈ xs, y = x := fun y hy => h y hy x hx
    have hs := sum_const x xs hall
    unfold mean
    rw [hs]
    field_simp

/-! ### alignment -/

/-- `np.delete` with the same index list keeps the same row indices of both arrays -/
theorem dedup_arrays (cfg : DedupCfg) (hT : cfg.deletesTraining = true)
    (hR : cfg.deletesResponse = true) (hN : cfg.updatesNPoints = true) (c : α) (s : Data α)
    (ha : Aligned s) :
    let keep := (List.range s.nPoints).filter
      (fun i => !(repeatedPoints cfg c s.training s.nPoints).contains i)
    (s.removeDuplicates cfg c).training = keep.map (fun i => s.training.getD i []) ∧
    (s.removeDuplicates cfg c).response = keep.map (fun i => s.response.getD i 0) ∧
    (s.removeDuplicates cfg c).nPoints = keep.length ∧
    (s.removeDuplicates cfg c).nDims = s.nDims := by
  obtain ⟨h1, h2, _⟩ := ha
  simp only [Data.removeDuplicates, hT, hR, hN, if_true]
  refine ⟨?_, ?_, ?_⟩
  · rw [npDelete_eq _ _ [], ← h1]
  · rw [npDelete_eq _ _ 0, ← h2, ← h1]
  · rw [npDelete_eq _ _ [], ← h1]; simp

/-- Features and responses stay aligned row by row: the invariant (`n_points` = number of training
    rows = number of responses, rows of `n_dims` entries) is preserved by append, feature subsetting
    and duplicate removal, and each of them acts on the *same row indices* of both arrays —
    append adds the new pairs at the end, feature subsetting re-indexes inside each row only,
    duplicate removal keeps one increasing list of row indices `keep` in both arrays. -/
theorem C19_alignment (s : Data α) (ha : Aligned s) :
    (∀ newT newR, newT.length = newR.length → Rect s.nDims newT →
      Aligned (s.appendData newT newR) ∧
      (s.appendData newT newR).training.zip (s.appendData newT newR).response =
        s.training.zip s.response ++ newT.zip newR) ∧
    (∀ fs : List Nat,
      Aligned (s.featureSubset fs) ∧ (s.featureSubset fs).response = s.response ∧
      (s.featureSubset fs).training = s.training.map (fun r => fs.map (fun f => r.getD f 0))) ∧
    (∀ c : α, Aligned (s.removeDuplicates Gen.ModelData.dedup c) ∧
      ∃ keep : List Nat, keep.Pairwise (· < ·) ∧ (∀ i ∈ keep, i < s.nPoints) ∧
        (s.removeDuplicates Gen.ModelData.dedup c).training = keep.map (fun i => s.training.getD i []) ∧
        (s.removeDuplicates Gen.ModelData.dedup c).response = keep.map (fun i => s.response.getD i 0)) := by
  obtain ⟨h1, h2, h3⟩ := ha
  refine ⟨?_, ?_, ?_⟩
  · intro newT newR hl hr
    refine ⟨⟨rfl, by simp [Data.appendData, h2, hl], ?_⟩, ?_⟩
    · intro r hr'
      simp only [Data.appendData, List.mem_append] at hr'
      rcases hr' with h | h
      · exact h3 r h
      · exact hr r h
    · simp only [Data.appendData]
      exact List.zip_append h2
  · intro fs
    refine ⟨⟨by simp [Data.featureSubset, h1], by simp [Data.featureSubset, h2], ?_⟩, rfl, ?_⟩
    · intro r hr
      simp only [Data.featureSubset, List.mem_map] at hr
      obtain ⟨r0, _, rfl⟩ := hr
      simp [Data.featureSubset]
    · simp [Data.featureSubset]
  · intro c
    rw [C19_bridge_dedup]
    obtain ⟨e1, e2, e3, e4⟩ := dedup_arrays DedupCfg.repaired rfl rfl rfl c s ⟨h1, h2, h3⟩
    refine ⟨⟨?_, ?_, ?_⟩, _, keep_sorted _ _, keep_lt _ _, e1, e2⟩
    · rw [e3, e1]; simp
    · rw [e1, e2]; simp
    · intro r hr
      rw [e1] at hr
      rw [e4]
      obtain ⟨i, hi, rfl⟩ := List.mem_map.mp hr
      have hi' : i < s.training.length := by rw [← h1]; exact keep_lt _ _ i hi
      have : s.training.getD i [] = s.training[i] := by
        simp [List.getD_eq_getElem?_getD, List.getElem?_eq_getElem hi']
      rw [this]
      exact h3 _ (List.getElem_mem hi')

/-! ### duplicate removal (the repaired scan read from the source) -/

/-- indices retained / removed by the scan of the current source on dataset `s` -/
def retainedIdx (c : α) (s : Data α) : List Nat :=
  (scanRetained (closeRows .lt c s.training) (List.range s.nPoints) [] []).1
def removedIdx (c : α) (s : Data α) : List Nat :=
  (scanRetained (closeRows .lt c s.training) (List.range s.nPoints) [] []).2

theorem retained_eq_filter (c : α) (s : Data α) :
    retainedIdx c s = (List.range s.nPoints).filter (fun i => !(removedIdx c s).contains i) := by
  have := scan_ret_eq_filter (closeRows .lt c s.training) (List.range s.nPoints) [] []
    List.nodup_range (by simp)
  simpa [retainedIdx, removedIdx] using this

/-- `remove_duplicates` keeps exactly the rows at the retained indices, in order, in *both*
    arrays, and every row index is either retained or removed. -/
theorem C19_dedup_refines (c : α) (s : Data α) (ha : Aligned s) :
    (s.removeDuplicates Gen.ModelData.dedup c).training =
      (retainedIdx c s).map (fun i => s.training.getD i []) ∧
    (s.removeDuplicates Gen.ModelData.dedup c).response =
      (retainedIdx c s).map (fun i => s.response.getD i 0) ∧
    (s.removeDuplicates Gen.ModelData.dedup c).nPoints = (retainedIdx c s).length ∧
    (retainedIdx c s).Pairwise (· < ·) ∧
    (∀ j, j < s.nPoints → (j ∈ retainedIdx c s ↔ j ∉ removedIdx c s)) := by
  rw [C19_bridge_dedup]
  obtain ⟨e1, e2, e3, _⟩ := dedup_arrays DedupCfg.repaired rfl rfl rfl c s ha
  have hrep : repeatedPoints DedupCfg.repaired c s.training s.nPoints = removedIdx c s := rfl
  rw [hrep] at e1 e2 e3
  rw [← retained_eq_filter] at e1 e2 e3
  refine ⟨e1, e2, e3, ?_, ?_⟩
  · rw [retained_eq_filter]; exact keep_sorted _ _
  · intro j hj
    rw [retained_eq_filter]
    simp [List.mem_filter, hj]

/-- After removal no two remaining points are within the cut-off of each other. -/
theorem C19_dedup_sound (c : α) (s : Data α) (ha : Aligned s) :
    (s.removeDuplicates Gen.ModelData.dedup c).training.Pairwise
      (fun p q => within .lt c (sqDist p q) = false) := by
  rw [(C19_dedup_refines c s ha).1, List.pairwise_map]
  exact scan_sound (closeRows .lt c s.training) (List.range s.nPoints) [] [] List.Pairwise.nil

/-- Every removed point is within the cut-off of an *earlier retained* point. -/
theorem C19_dedup_minimal (c : α) (s : Data α) :
    ∀ j ∈ removedIdx c s, ∃ i ∈ retainedIdx c s, i < j ∧
      within .lt c (sqDist (s.training.getD i []) (s.training.getD j [])) = true := by
  intro j hj
  have := scan_minimal (closeRows .lt c s.training) (List.range s.nPoints) [] [] (by simp)
    List.pairwise_lt_range j hj
  rcases this with h | h
  · simp at h
  · exact h

/-- The first point is always retained; more generally a point with no earlier point within the
    cut-off is retained. -/
theorem C19_dedup_keeps_first (c : α) (s : Data α) (ha : Aligned s) :
    (0 < s.nPoints → 0 ∈ retainedIdx c s) ∧
    (∀ j, j < s.nPoints →
      (∀ i, i < j → within .lt c (sqDist (s.training.getD i []) (s.training.getD j [])) = false) →
      j ∈ retainedIdx c s) := by
  have key : ∀ j, j < s.nPoints →
      (∀ i, i < j → within .lt c (sqDist (s.training.getD i []) (s.training.getD j [])) = false) →
      j ∈ retainedIdx c s := by
    intro j hj hfar
    rw [(C19_dedup_refines c s ha).2.2.2.2 j hj]
    intro hrem
    obtain ⟨i, _, hij, hc⟩ := C19_dedup_minimal c s j hrem
    rw [hfar i hij] at hc
    cases hc
  exact ⟨fun h => key 0 h (fun i hi => absurd hi (Nat.not_lt_zero i)), key⟩

/-! ### re-reading data into an existing object -/

/-- Bridge (tie #1): `read_data`, `append_data` and `feature_subset` in the current source refresh the cached
    counts they invalidate (`n_points` / `n_dims` from the shape of the new array). -/
theorem C19_bridge_counts : Gen.ModelData.counts = CountCfg.std := by decide

/-- **`read_data` on an object that already holds a dataset** (read → subset → de-duplicate → normalise in a
    loop over feature subsets is how the example scripts use the class): whatever state the earlier passes left —
    no hypothesis on `s` at all — the freshly read arrays are stored unchanged and the class invariant holds again,
    so every clause proved from `Aligned` (alignment, the duplicate-removal clauses) applies to the new dataset; the
    stored statistics are left alone. -/
theorem C19_read_data (s : Data α) (t : List (List α)) (r : List α) (d : Nat)
    (hl : t.length = r.length) (hr : Rect d t) :
    Aligned (s.readData Gen.ModelData.counts t r d) ∧
    (s.readData Gen.ModelData.counts t r d).training = t ∧
    (s.readData Gen.ModelData.counts t r d).response = r ∧
    (s.readData Gen.ModelData.counts t r d).respProps = s.respProps ∧
    (s.readData Gen.ModelData.counts t r d).trainProps = s.trainProps := by
  rw [C19_bridge_counts]
  exact ⟨⟨rfl, hl, hr⟩, rfl, rfl, rfl, rfl⟩

/-- … and therefore duplicate removal after a re-read examines every row of the NEW dataset: no two survivors
    within the cut-off, whatever the object held before. -/
theorem C19_read_then_dedup (s : Data α) (t : List (List α)) (r : List α) (d : Nat) (c : α)
    (hl : t.length = r.length) (hr : Rect d t) :
    Aligned ((s.readData Gen.ModelData.counts t r d).removeDuplicates Gen.ModelData.dedup c) ∧
    ((s.readData Gen.ModelData.counts t r d).removeDuplicates Gen.ModelData.dedup c).training.Pairwise
      (fun p q => within .lt c (sqDist p q) = false) := by
  have ha := (C19_read_data s t r d hl hr).1
  exact ⟨((C19_alignment _ ha).2.2 c).1, C19_dedup_sound c _ ha⟩

end field

/-! ### the original scan is refuted on the two witnesses of DESIGN §6 #10 -/

/-- why the refresh matters (the stale-count slip): read a 3-row dataset into an object that held 1 row WITHOUT
    refreshing `n_points`, and duplicate removal never looks at rows 1 and 2 — two coincident rows survive. -/
theorem C19_read_data_needs_counts :
    let s := (Data.init [[(7 : Rat)]] [0] 1).readData ⟨false, true, true, true⟩ [[0], [5], [5]] [1, 2, 3] 1
    ¬ Aligned s ∧ (s.removeDuplicates DedupCfg.repaired (1/10)).training = [[0], [5], [5]] := by
  refine ⟨?_, by decide +kernel⟩
  intro h
  have := h.1
  simp [Data.readData, Data.init] at this

/-- Original code (pair loop with `break`) on the points 0, 0.6, −0.6 with cut-off 1: the scan
    marks only index 1, so 0 and −0.6 both survive although they are within the cut-off. -/
theorem C19_original_keeps_close_pair :
    ((Data.init [[(0 : Rat)], [3/5], [-3/5]] [1, 2, 3] 1).removeDuplicates
        DedupCfg.original 1).training = [[0], [-3/5]] ∧
    within .lt (1 : Rat) (sqDist [(0 : Rat)] [-3/5]) = true := by
  decide +kernel

/-- Original code on the points 0, 0.6, 1.2 with cut-off 1: 1.2 is removed (it is near 0.6, which
    is itself removed) although it is near no surviving point. -/
theorem C19_original_removes_isolated :
    ((Data.init [[(0 : Rat)], [3/5], [6/5]] [1, 2, 3] 1).removeDuplicates
        DedupCfg.original 1).training = [[0]] ∧
    within .lt (1 : Rat) (sqDist [(0 : Rat)] [6/5]) = false := by
  decide +kernel

/-- … while the repaired scan gives the right answer on both witnesses (non-vacuity of
    `C19_dedup_sound` / `C19_dedup_minimal`: clusters of three points). -/
example :
    ((Data.init [[(0 : Rat)], [3/5], [-3/5]] [1, 2, 3] 1).removeDuplicates
        DedupCfg.repaired 1).response = [1] ∧
    ((Data.init [[(0 : Rat)], [3/5], [6/5]] [1, 2, 3] 1).removeDuplicates
        DedupCfg.repaired 1).response = [1, 3] := by
  decide +kernel

/-! ### the update cycle of the Bayesian-optimisation loop -/
section cycle
variable {α : Type} [Field α] [LinearOrder α] [IsStrictOrderedRing α]

/-- the explicit guard of an operation: new rows have `n_dims` entries, and every standardisation
    it triggers meets `σ ≠ 0` (one `σ` per feature) -/
def OpOk (d : Nat) (stdT stdR : Bool) : Op α → Prop
  | .add t _ σT σR =>
      Rect d t ∧ (stdT = true → σT.length = d ∧ ∀ σ ∈ σT, σ ≠ 0) ∧ (stdR = true → σR ≠ 0)
  | .lowest σR => stdR = true → σR ≠ 0

theorem step_spec (g : GP α) (op : Op α) (hg : Rect g.data.nDims g.origT)
    (hop : OpOk g.data.nDims g.stdT g.stdR op) :
    (g.step addDataSteps lowestSteps op).origT = g.origT ++ addedT [op] ∧
    (g.step addDataSteps lowestSteps op).origR = g.origR ++ addedR [op] ∧
    (g.step addDataSteps lowestSteps op).data.nDims = g.data.nDims ∧
    (g.step addDataSteps lowestSteps op).stdT = g.stdT ∧
    (g.step addDataSteps lowestSteps op).stdR = g.stdR := by
  obtain ⟨d, fT, fR, fL⟩ := g
  cases op with
  | add t r σT σR =>
    obtain ⟨hrect, hT, hR⟩ := hop
    refine ⟨?_, ?_, ?_, rfl, rfl⟩
    · cases fT
      · cases fR <;> simp [addedT] <;> rfl
      · obtain ⟨hl, hnz⟩ := hT rfl
        have hrt : ∀ X : List (List α), Rect d.nDims X →
            (X.map (fun r => zip3With stdF r (colStat mean d.nDims X) σT)).map
              (fun r => zip3With unstdF r (colStat mean d.nDims X) σT) = X :=
          fun X hX => train_std_roundtrip X _ σT d.nDims hX (colStat_length _ _ _) hl hnz
        have hX : Rect d.nDims
            (d.training.map (fun r => zip3With unstdF r d.trainProps.mean d.trainProps.std) ++ t) := by
          intro r hr
          rcases List.mem_append.mp hr with h | h
          · exact hg r (by simpa [GP.origT, Data.unstandardiseTraining] using h)
          · exact hrect r h
        cases fR <;> simp only [addedT, List.append_nil] <;> exact hrt _ hX
    · cases fR
      · cases fT <;> simp [addedR] <;> rfl
      · have hσ := hR rfl
        have hrt : ∀ (X : List α) (m : α), (X.map (fun x => stdF x m σR)).map
            (fun x => unstdF x m σR) = X :=
          fun X m => map_roundtrip _ _ (fun x => unstd_std x m σR hσ) X
        cases fT <;> simp only [addedR, List.append_nil] <;> exact hrt _ _
    · cases fT <;> cases fR <;> rfl
  | lowest σR =>
    refine ⟨?_, ?_, ?_, rfl, rfl⟩
    · cases fT <;> cases fR <;> simp [addedT] <;> rfl
    · cases fR
      · simp [addedR]; rfl
      · have hσ : σR ≠ 0 := hop rfl
        have hrt : ∀ (X : List α) (m : α), (X.map (fun x => stdF x m σR)).map
            (fun x => unstdF x m σR) = X :=
          fun X m => map_roundtrip _ _ (fun x => unstd_std x m σR hσ) X
        simp only [addedR, List.append_nil]
        exact hrt _ _
    · cases fR <;> rfl

theorem addedT_cons (op : Op α) (ops : List (Op α)) : addedT (op :: ops) = addedT [op] ++ addedT ops := by
  cases op <;> simp [addedT]
theorem addedR_cons (op : Op α) (ops : List (Op α)) : addedR (op :: ops) = addedR [op] ++ addedR ops := by
  cases op <;> simp [addedR]

theorem rect_addedT (d : Nat) (a b : Bool) (op : Op α) (h : OpOk d a b op) : Rect d (addedT [op]) := by
  cases op with
  | add t r σT σR => simpa [addedT] using h.1
  | lowest σ => intro r hr; simp [addedT] at hr

/-- **Update cycle.**  For every sequence of `add_data` / `lowest_point` calls (steps as read from
    the current source), with every combination of the two standardise flags, starting from any
    surrogate state whose dataset in original units is rectangular: if every standardisation met
    `σ ≠ 0`, the dataset in original units (current scaling undone with the stored statistics)
    equals the old data followed by all additions, in order — training and response. -/
theorem C19_update_cycle (g : GP α) (ops : List (Op α)) (hg : Rect g.data.nDims g.origT)
    (hops : ∀ op ∈ ops, OpOk g.data.nDims g.stdT g.stdR op) :
    (g.run Gen.ModelData.addDataSteps Gen.ModelData.lowestSteps ops).origT = g.origT ++ addedT ops ∧
    (g.run Gen.ModelData.addDataSteps Gen.ModelData.lowestSteps ops).origR = g.origR ++ addedR ops := by
  rw [C19_bridge_steps.2.1, C19_bridge_steps.2.2]
  induction ops generalizing g with
  | nil => simp [GP.run, addedT, addedR]
  | cons op ops ih =>
    have hop := hops op (by simp)
    obtain ⟨e1, e2, e3, e4, e5⟩ := step_spec g op hg hop
    have hg' : Rect (g.step addDataSteps lowestSteps op).data.nDims
        (g.step addDataSteps lowestSteps op).origT := by
      rw [e1, e3]
      intro r hr
      rcases List.mem_append.mp hr with h | h
      · exact hg r h
      · exact rect_addedT _ _ _ op hop r h
    have hops' : ∀ o ∈ ops, OpOk (g.step addDataSteps lowestSteps op).data.nDims
        (g.step addDataSteps lowestSteps op).stdT (g.step addDataSteps lowestSteps op).stdR o := by
      intro o ho
      rw [e3, e4, e5]
      exact hops o (by simp [ho])
    have := ih (g.step addDataSteps lowestSteps op) hg' hops'
    simp only [GP.run, List.foldl_cons] at this ⊢
    rw [this.1, this.2, e1, e2, addedT_cons op ops, addedR_cons op ops]
    simp [List.append_assoc]

/-- `prepare_training_data` (steps as read from the source, `limit_highest_data = False`): the
    freshly constructed surrogate holds, in original units, exactly the dataset it was given. -/
theorem C19_update_cycle_init (d : Data α) (stdT stdR : Bool) (inp : Inputs α)
    (hr : Rect d.nDims d.training)
    (hT : stdT = true → inp.σT.length = d.nDims ∧ ∀ σ ∈ inp.σT, σ ≠ 0)
    (hR : stdR = true → inp.σR ≠ 0) :
    (GP.create Gen.ModelData.prepareSteps d stdT stdR false inp).origT = d.training ∧
    (GP.create Gen.ModelData.prepareSteps d stdT stdR false inp).origR = d.response := by
  rw [C19_bridge_steps.1]
  constructor
  · cases stdT
    · cases stdR <;> rfl
    · obtain ⟨hl, hnz⟩ := hT rfl
      have := train_std_roundtrip d.training (colStat mean d.nDims d.training) inp.σT d.nDims hr
        (colStat_length _ _ _) hl hnz
      cases stdR <;> exact this
  · cases stdR
    · cases stdT <;> rfl
    · have hσ := hR rfl
      have := map_roundtrip (fun x => stdF x (mean d.response) inp.σR)
        (fun x => unstdF x (mean d.response) inp.σR) (fun x => unstd_std x _ _ hσ) d.response
      cases stdT <;> exact this

/-- `lowest_point` returns the lowest response *in original units*, whatever the flags. -/
theorem C19_lowest_point (g : GP α) (inp : Inputs α) :
    (g.lowestPoint Gen.ModelData.lowestSteps inp).2 = some (minList g.origR) := by
  rw [C19_bridge_steps.2.2]
  obtain ⟨d, fT, fR, fL⟩ := g
  cases fR <;>
    simp [GP.lowestPoint, lowestSteps, runSteps, Cond.holds, applyAct, GP.origR,
      Data.unstandardiseResponse, Data.standardiseResponse]

/-- the surrogate of the non-vacuity example: 3 points, 2 features, both flags on
    (the per-feature standard deviations of the start data are sent as 1, 1 and 1 — any non-zero
    values satisfy the guard; the driver is fed numpy's values) -/
def exG : GP ℚ :=
  GP.create Gen.ModelData.prepareSteps (Data.init [[1, 2], [3, 4], [5, 9]] [1, 3, 5] 2)
    true true false ⟨[], [], [1, 1], 1, 0⟩

/-- non-vacuity of `C19_update_cycle`: the guards hold for a concrete state and operation list
    (one `add_data`, one `lowest_point`), and the conclusion is the expected dataset. -/
example :
    Rect exG.data.nDims exG.origT ∧
    OpOk exG.data.nDims exG.stdT exG.stdR (.add [[7, 7]] [9] [2, 2] 3 : Op ℚ) ∧
    OpOk exG.data.nDims exG.stdT exG.stdR (.lowest 3 : Op ℚ) ∧
    (exG.run Gen.ModelData.addDataSteps Gen.ModelData.lowestSteps
      [.add [[7, 7]] [9] [2, 2] 3, .lowest 3]).origR = [1, 3, 5, 9] ∧
    (exG.run Gen.ModelData.addDataSteps Gen.ModelData.lowestSteps
      [.add [[7, 7]] [9] [2, 2] 3, .lowest 3]).origT = [[1, 2], [3, 4], [5, 9], [7, 7]] := by
  refine ⟨?_, ⟨?_, fun _ => ⟨?_, ?_⟩, fun _ => ?_⟩, fun _ => ?_, ?_, ?_⟩
  · unfold Rect; decide +kernel
  · unfold Rect; decide +kernel
  · decide +kernel
  · decide +kernel
  · decide +kernel
  · decide +kernel
  · decide +kernel
  · decide +kernel

end cycle

end TopSearch.Props.C19
