/-
  C18 — the minimax barrier made explicit.

  Props/C18.lean characterises the value that `disconnected_height` approximates as
  `IsMinimax`: connected using transition states `≤ m`, not connected below.  This file shows that
  this is literally "the minimum over walks of the highest transition state on the walk", that such a
  value exists whenever the two minima are connected at all, that it is the energy of one of the
  stored transition states, and that it is unique — so `C18_height_minimax` no longer has to be
  handed a minimax value from outside.
-/
import TopSearch.Props.C18

set_option linter.unusedSectionVars false

namespace TopSearch.Props.C18
open TopSearch TopSearch.Graph

section order
variable {α : Type} [LinearOrder α]

/-- a walk from `i` to `j` along stored transition states (each traversable in either direction),
    all of whose minima exist (`< n`); the list holds the transition states in the order walked -/
inductive Walk (n : Nat) (es : List (WEdge α)) : List (WEdge α) → Nat → Nat → Prop
  | nil (i : Nat) : Walk n es [] i i
  | cons {w : List (WEdge α)} {i k j : Nat} (x : WEdge α) (hx : x ∈ es) (hi : i < n) (hk : k < n)
      (hj : (x.u = i ∧ x.v = k) ∨ (x.u = k ∧ x.v = i)) (h : Walk n es w k j) : Walk n es (x :: w) i j

theorem Walk.eq_of_nil {n : Nat} {es : List (WEdge α)} {i j : Nat} (h : Walk n es [] i j) : i = j := by
  cases h; rfl

theorem Walk.mem_es {n : Nat} {es w : List (WEdge α)} {i j : Nat} (h : Walk n es w i j) :
    ∀ x ∈ w, x ∈ es := by
  induction h with
  | nil _ => intro x hx; cases hx
  | cons x hx _ _ _ _ ih =>
    intro y hy
    rcases List.mem_cons.1 hy with rfl | hy
    · exact hx
    · exact ih y hy

/-- one step of the closure that `connAt` computes, for an arbitrary admissibility test on edges -/
def StepP (n : Nat) (es : List (WEdge α)) (P : WEdge α → Prop) (a b : Nat) : Prop :=
  a < n ∧ b < n ∧ ∃ x ∈ es, P x ∧ ((x.u = a ∧ x.v = b) ∨ (x.u = b ∧ x.v = a))

theorem walk_of_steps {n : Nat} {es : List (WEdge α)} {P : WEdge α → Prop} {i j : Nat}
    (h : Relation.ReflTransGen (StepP n es P) i j) :
    ∃ w, Walk n es w i j ∧ ∀ x ∈ w, P x := by
  induction h using Relation.ReflTransGen.head_induction_on with
  | refl => exact ⟨[], Walk.nil _, fun x hx => by cases hx⟩
  | head hab _ ih =>
    obtain ⟨w, hw, hP⟩ := ih
    obtain ⟨ha, hb, x, hx, hpx, hj⟩ := hab
    refine ⟨x :: w, Walk.cons x hx ha hb hj hw, ?_⟩
    intro y hy
    rcases List.mem_cons.1 hy with rfl | hy
    · exact hpx
    · exact hP y hy

theorem steps_of_walk {n : Nat} {es w : List (WEdge α)} {P : WEdge α → Prop} {i j : Nat}
    (h : Walk n es w i j) (hP : ∀ x ∈ w, P x) : Relation.ReflTransGen (StepP n es P) i j := by
  induction h with
  | nil _ => exact Relation.ReflTransGen.refl
  | cons x hx hi hk hj _ ih =>
    refine Relation.ReflTransGen.head ⟨hi, hk, x, hx, hP x (List.mem_cons_self ..), hj⟩ ?_
    exact ih (fun y hy => hP y (List.mem_cons_of_mem _ hy))

/-- **connected at threshold `E` ⇔ some walk stays at or below `E`** -/
theorem C18_connAt_iff_walk (n : Nat) (es : List (WEdge α)) (E : α) {i : Nat} (hi : i < n) (j : Nat) :
    connAt n es E i j ↔ ∃ w, Walk n es w i j ∧ ∀ x ∈ w, x.e ≤ E := by
  rw [C18_conn_iff_path n es E hi j]
  constructor
  · intro h
    exact walk_of_steps (P := fun x => x.e ≤ E) h
  · rintro ⟨w, hw, hle⟩
    exact steps_of_walk (P := fun x => x.e ≤ E) hw hle

/-- connected at all ⇔ some walk exists -/
theorem reach_iff_walk (n : Nat) (es : List (WEdge α)) {i : Nat} (hi : i < n) (j : Nat) :
    reach n (adj es) i j = true ↔ ∃ w, Walk n es w i j := by
  rw [reach_iff hi j]
  have : (fun a b => a < n ∧ b < n ∧ adj es a b = true) = StepP n es (fun _ => True) := by
    funext a b
    simp only [StepP, adj_iff, true_and]
  rw [this]
  constructor
  · intro h
    obtain ⟨w, hw, _⟩ := walk_of_steps h
    exact ⟨w, hw⟩
  · rintro ⟨w, hw⟩
    exact steps_of_walk hw (fun _ _ => trivial)

/-- a non-empty list has an element of greatest energy -/
theorem exists_max_energy : ∀ (l : List (WEdge α)), l ≠ [] → ∃ x ∈ l, ∀ y ∈ l, y.e ≤ x.e
  | [], h => absurd rfl h
  | [a], _ => ⟨a, List.mem_singleton.2 rfl, fun y hy => by rw [List.mem_singleton.1 hy]⟩
  | a :: b :: t, _ => by
    obtain ⟨x, hx, hmax⟩ := exists_max_energy (b :: t) (List.cons_ne_nil _ _)
    by_cases h : x.e ≤ a.e
    · refine ⟨a, List.mem_cons_self .., ?_⟩
      intro y hy
      rcases List.mem_cons.1 hy with rfl | hy
      · exact le_refl _
      · exact le_trans (hmax y hy) h
    · refine ⟨x, List.mem_cons_of_mem _ hx, ?_⟩
      intro y hy
      rcases List.mem_cons.1 hy with rfl | hy
      · exact le_of_lt (not_le.1 h)
      · exact hmax y hy

/-- a non-empty list has an element of least energy -/
theorem exists_min_energy : ∀ (l : List (WEdge α)), l ≠ [] → ∃ x ∈ l, ∀ y ∈ l, x.e ≤ y.e
  | [], h => absurd rfl h
  | [a], _ => ⟨a, List.mem_singleton.2 rfl, fun y hy => by rw [List.mem_singleton.1 hy]⟩
  | a :: b :: t, _ => by
    obtain ⟨x, hx, hmin⟩ := exists_min_energy (b :: t) (List.cons_ne_nil _ _)
    by_cases h : a.e ≤ x.e
    · refine ⟨a, List.mem_cons_self .., ?_⟩
      intro y hy
      rcases List.mem_cons.1 hy with rfl | hy
      · exact le_refl _
      · exact le_trans h (hmin y hy)
    · refine ⟨x, List.mem_cons_of_mem _ hx, ?_⟩
      intro y hy
      rcases List.mem_cons.1 hy with rfl | hy
      · exact le_of_lt (not_le.1 h)
      · exact hmin y hy

/-- a walk between two different minima reaches the threshold of its own highest transition state -/
theorem connAt_walk_top {n : Nat} {es w : List (WEdge α)} {i j : Nat} (hi : i < n)
    (hw : Walk n es w i j) (hne : w ≠ []) :
    ∃ x ∈ w, x ∈ es ∧ (∀ y ∈ w, y.e ≤ x.e) ∧ connAt n es x.e i j := by
  obtain ⟨x, hx, hmax⟩ := exists_max_energy w hne
  exact ⟨x, hx, hw.mem_es x hx, hmax, (C18_connAt_iff_walk n es x.e hi j).2 ⟨w, hw, hmax⟩⟩

/-- **The minimax value is the minimum over walks of the highest transition state on the walk**:
    some walk has its highest transition state exactly at `m`, and every walk between the two minima
    passes a transition state of energy at least `m`. -/
theorem C18_minimax_is_min_over_walks (n : Nat) (es : List (WEdge α)) {i j : Nat} (hi : i < n)
    (hij : i ≠ j) (m : α) :
    IsMinimax n es i j m ↔
      (∃ w, Walk n es w i j ∧ w ≠ [] ∧ (∀ x ∈ w, x.e ≤ m) ∧ ∃ x ∈ w, x.e = m) ∧
        (∀ w, Walk n es w i j → w ≠ [] → ∃ x ∈ w, m ≤ x.e) := by
  constructor
  · rintro ⟨hc, hmin⟩
    obtain ⟨w, hw, hle⟩ := (C18_connAt_iff_walk n es m hi j).1 hc
    have hne : w ≠ [] := by
      rintro rfl
      exact hij hw.eq_of_nil
    refine ⟨⟨w, hw, hne, hle, ?_⟩, ?_⟩
    · obtain ⟨x, hx, _, _, hcx⟩ := connAt_walk_top hi hw hne
      refine ⟨x, hx, ?_⟩
      rcases lt_or_eq_of_le (hle x hx) with hlt | heq
      · exact absurd hcx (hmin _ hlt)
      · exact heq
    · intro w' hw' hne'
      obtain ⟨x, hx, _, _, hcx⟩ := connAt_walk_top hi hw' hne'
      refine ⟨x, hx, ?_⟩
      by_contra hlt
      exact hmin _ (not_le.1 hlt) hcx
  · rintro ⟨⟨w, hw, _, hle, _⟩, hall⟩
    refine ⟨(C18_connAt_iff_walk n es m hi j).2 ⟨w, hw, hle⟩, ?_⟩
    intro E hE hc
    obtain ⟨w', hw', hle'⟩ := (C18_connAt_iff_walk n es E hi j).1 hc
    have hne' : w' ≠ [] := by
      rintro rfl
      exact hij hw'.eq_of_nil
    obtain ⟨x, hx, hmx⟩ := hall w' hw' hne'
    exact absurd (lt_of_le_of_lt (le_trans hmx (hle' x hx)) hE) (lt_irrefl _)

/-- **The minimax value exists** whenever the two (different) minima are connected at all, and it is
    the energy of one of the stored transition states. -/
theorem C18_minimax_exists (n : Nat) (es : List (WEdge α)) {i j : Nat} (hi : i < n) (hij : i ≠ j)
    (hconn : reach n (adj es) i j = true) :
    ∃ m, IsMinimax n es i j m ∧ ∃ x ∈ es, x.e = m := by
  classical
  obtain ⟨w, hw⟩ := (reach_iff_walk n es hi j).1 hconn
  have hne : w ≠ [] := by
    rintro rfl
    exact hij hw.eq_of_nil
  obtain ⟨x0, _, hx0es, _, hc0⟩ := connAt_walk_top hi hw hne
  -- the stored transition states at whose energy the pair is connected
  let cands := es.filter (fun x => decide (connAt n es x.e i j))
  have hc_ne : cands ≠ [] := by
    intro h
    have : x0 ∈ cands := List.mem_filter.2 ⟨hx0es, by simpa using hc0⟩
    rw [h] at this
    cases this
  obtain ⟨x, hx, hmin⟩ := exists_min_energy cands hc_ne
  have hxes : x ∈ es := (List.mem_filter.1 hx).1
  have hxc : connAt n es x.e i j := by simpa using (List.mem_filter.1 hx).2
  refine ⟨x.e, ⟨hxc, ?_⟩, x, hxes, rfl⟩
  intro E hE hc
  obtain ⟨w', hw', hle'⟩ := (C18_connAt_iff_walk n es E hi j).1 hc
  have hne' : w' ≠ [] := by
    rintro rfl
    exact hij hw'.eq_of_nil
  obtain ⟨x1, hx1, hx1es, _, hc1⟩ := connAt_walk_top hi hw' hne'
  have hx1c : x1 ∈ cands := List.mem_filter.2 ⟨hx1es, by simpa using hc1⟩
  exact absurd (lt_of_le_of_lt (le_trans (hmin x1 hx1c) (hle' x1 hx1)) hE) (lt_irrefl _)

/-- the minimax value is unique -/
theorem C18_minimax_unique (n : Nat) (es : List (WEdge α)) (i j : Nat) (m m' : α)
    (h : IsMinimax n es i j m) (h' : IsMinimax n es i j m') : m = m' := by
  rcases lt_trichotomy m m' with hlt | heq | hgt
  · exact absurd h.1 (h'.2 _ hlt)
  · exact heq
  · exact absurd h'.1 (h.2 _ hgt)

end order

section field
variable {α : Type} [Field α] [LinearOrder α] [IsStrictOrderedRing α]

/-- **Disconnection height of a connected pair**: two different minima that are connected at all
    have a unique minimax barrier `m`, it is the energy of a stored transition state, it is the minimum
    over walks of the highest transition state, and whenever it lies inside the scanned window
    `disconnected_height` returns a height within one scan step below it. -/
theorem C18_height_of_connected (n : Nat) (es : List (WEdge α)) {i j : Nat} (hi : i < n) (hij : i ≠ j)
    (maxTs eRange : α) (hr : 0 ≤ eRange) (hconn : reach n (adj es) i j = true) :
    ∃ m, IsMinimax n es i j m ∧ (∀ m', IsMinimax n es i j m' → m' = m) ∧ (∃ x ∈ es, x.e = m) ∧
      (∀ w, Walk n es w i j → w ≠ [] → ∃ x ∈ w, m ≤ x.e) ∧
      (thr stdCfg maxTs eRange 529 < m ∧ m ≤ thr stdCfg maxTs eRange 0 →
        ∃ h, height stdCfg n es i j maxTs eRange = some h ∧ m - eRange / 510 ≤ h ∧ h < m) := by
  obtain ⟨m, hm, hx⟩ := C18_minimax_exists n es hi hij hconn
  refine ⟨m, hm, fun m' hm' => C18_minimax_unique n es i j m' m hm' hm, hx,
    ((C18_minimax_is_min_over_walks n es hi hij m).1 hm).2, ?_⟩
  intro hwin
  exact C18_height_minimax n es i j hi maxTs eRange m hr hm hwin

end field

/-! ### non-vacuity: a triangle 0 –(3)– 1 –(1)– 2, 0 –(2)– 2: the minimax barrier of (0, 1) is 2 -/

def tri : List (WEdge ℚ) := [⟨0, 1, 3⟩, ⟨1, 2, 1⟩, ⟨0, 2, 2⟩]

example : IsMinimax 3 tri 0 1 2 := by
  refine (C18_minimax_is_min_over_walks 3 tri (by decide) (by decide) 2).2 ⟨?_, ?_⟩
  · refine ⟨[⟨0, 2, 2⟩, ⟨1, 2, 1⟩], ?_, by simp, ?_, ⟨⟨0, 2, 2⟩, by simp, rfl⟩⟩
    · refine Walk.cons _ (by simp [tri]) (by decide) (by decide) (Or.inl ⟨rfl, rfl⟩) ?_
      exact Walk.cons _ (by simp [tri]) (by decide) (by decide) (Or.inr ⟨rfl, rfl⟩) (Walk.nil _)
    · intro x hx
      simp at hx
      rcases hx with rfl | rfl <;> norm_num
  · intro w hw hne
    -- the first transition state of any walk leaving minimum 0 is 0–1 (energy 3) or 0–2 (energy 2)
    cases hw with
    | cons x hx _ _ hj _ =>
      refine ⟨x, List.mem_cons_self .., ?_⟩
      simp [tri] at hx
      rcases hx with rfl | rfl | rfl
      · norm_num
      · rcases hj with ⟨h, _⟩ | ⟨_, h⟩ <;> simp at h
      · norm_num

end TopSearch.Props.C18
