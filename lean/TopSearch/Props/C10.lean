/-
  C10 — local minimisation respects the box, never goes uphill, reports truthfully.
  `minimise` is a forwarding wrapper around `scipy.optimize.fmin_l_bfgs_b`; what is proved here is
  (1) the wiring read from the current source is the expected one and means what it should,
  (2) the four clauses of the property follow from the optimiser's contract `LBFGSB`,
  (3) facts about scipy's projected gradient.
  Nothing in this file says anything about scipy's compiled optimiser: `LBFGSB` is a hypothesis,
  sampled against the real library by harness/props/c10.py on every run.
-/
import TopSearch.Model.Lbfgs
import TopSearch.Gen.Lbfgs
import Mathlib.Algebra.Order.Field.Basic
import Mathlib.Tactic.Linarith
import Mathlib.Tactic.Ring

set_option linter.unusedSectionVars false

namespace TopSearch.Props.C10
open TopSearch TopSearch.Lbfgs

/-- Bridge (tie #1): the call record regenerated from the current `lbfgs.py` is the expected one:
    `func=func_grad, x0=initial_position, args=args, bounds=bounds, m=history_size, factr=1e-30,
    pgtol=conv_crit, maxiter=n_steps, maxls=40`, no other keyword; `args is None → []`; the
    callee's triple is returned unchanged and in order. -/
theorem C10_wiring : Gen.Lbfgs.call = expectedCall := by decide

section sem
variable {α ι : Type} [Field α]

/-- the argument bundle the wrapper hands to `fmin_l_bfgs_b` -/
def forwarded (w : Wrapper α ι) : Callee α ι :=
  { func := w.funcGrad, x0 := w.initialPosition, bounds := w.bounds, m := w.historySize,
    args := w.args.getD [], factr := 1 / 10 ^ 30, pgtol := w.convCrit, maxiter := w.nSteps,
    maxls := 40 }

/-- Meaning of the wiring: for every caller input the generated record binds
    bounds→bounds, conv_crit→pgtol, n_steps→maxiter, history_size→m, args→args (default `[]`),
    func_grad→func, initial_position→x0, with the constants `factr = 1e-30`, `maxls = 40`. -/
theorem C10_wiring_forwarded (w : Wrapper α ι) :
    interp Gen.Lbfgs.call w = some (forwarded w) := by
  rw [C10_wiring]
  cases h : w.args <;>
    simp [interp, expectedCall, lookup, forwarded, litVal, h] <;> norm_num

/-- … and the wrapper returns exactly what the callee returned for that bundle. -/
theorem C10_wiring_returns (opt : Oracle α ι) (w : Wrapper α ι) :
    minimise Gen.Lbfgs.call opt w = some (opt (forwarded w)) := by
  have h := C10_wiring_forwarded w
  unfold minimise
  rw [h]
  rw [C10_wiring]
  simp [expectedCall]

end sem

section contract
variable {α ι : Type} [Field α] [LinearOrder α] [IsStrictOrderedRing α]

/-- Under the optimiser's contract the wrapper satisfies the property: started inside the box it
    returns a point inside the box, the reported value is the objective there (with the caller's
    extra arguments), it is not above the value at the start, on the projected-gradient exit the
    projected gradient is within the requested tolerance `conv_crit`, and every evaluation of the
    objective received the caller's `args` (or `[]` when none were given) unchanged. -/
theorem C10_from_contract (opt : Oracle α ι) (hopt : LBFGSB opt) (w : Wrapper α ι)
    (hstart : inBox w.bounds w.initialPosition) :
    ∃ r, minimise Gen.Lbfgs.call opt w = some r ∧
      inBox w.bounds r.x ∧
      r.f = (w.funcGrad r.x (w.args.getD [])).1 ∧
      r.f ≤ (w.funcGrad w.initialPosition (w.args.getD [])).1 ∧
      (r.info.task = .convPgtol ∧ r.info.warnflag = 0 →
        supNorm (projGrad w.bounds r.x (w.funcGrad r.x (w.args.getD [])).2) ≤ w.convCrit) ∧
      (∀ call ∈ r.info.calls, call.2 = w.args.getD []) :=
  ⟨opt (forwarded w), C10_wiring_returns opt w, hopt (forwarded w) hstart⟩

/-- non-vacuity of the contract: the oracle that evaluates at the start point and stops there
    (reporting an iteration-limit stop) satisfies `LBFGSB`. -/
example : LBFGSB (α := ℚ) (ι := Nat)
    (fun c => ⟨c.x0, (c.func c.x0 c.args).1, ⟨1, .stopLimit, (c.func c.x0 c.args).2, [(c.x0, c.args)]⟩⟩) := by
  intro c hc
  refine ⟨hc, rfl, le_refl _, ?_, ?_⟩
  · rintro ⟨h, _⟩; cases h
  · intro call hcall; simp at hcall; simp [hcall]

end contract

section projgrad
variable {α : Type} [Field α] [LinearOrder α] [IsStrictOrderedRing α]

/-- `np.clip(y, l, u)` with `None` = unbounded -/
def clip (b : Bound α) (y : α) : α :=
  let y1 := match b.1 with | some l => max l y | none => y
  match b.2 with | some u => min u y1 | none => y1

private theorem minOf_eq (a b : α) : minOf a b = min a b := by
  unfold minOf; split <;> rename_i h
  · exact (min_eq_left h).symm
  · exact (min_eq_right (le_of_lt (not_le.mp h))).symm

private theorem maxOf_eq (a b : α) : maxOf a b = max a b := by
  unfold maxOf; split <;> rename_i h
  · exact (max_eq_right h).symm
  · exact (max_eq_left (le_of_lt (not_le.mp h))).symm

/-- The projected gradient vanishes on a coordinate pinned against its bound by the gradient:
    at the lower bound with the gradient pointing up (`g ≥ 0`, descent would leave the box), and at
    the upper bound with `g ≤ 0`. -/
theorem C10_projgrad (b : Bound α) (x g : α) (hx : inBound b x) :
    (b.1 = some x → 0 ≤ g → projGrad1 b x g = 0) ∧
    (b.2 = some x → g ≤ 0 → projGrad1 b x g = 0) := by
  obtain ⟨l, u⟩ := b
  constructor
  · intro hl hg
    simp only at hl
    subst hl
    have : ¬ g < 0 := not_lt.mpr hg
    simp [projGrad1, this, minOf_eq, hg]
  · intro hu hg
    simp only at hu
    subst hu
    rcases lt_or_eq_of_le hg with h | h
    · simp [projGrad1, h, maxOf_eq, le_of_lt h]
    · subst h
      cases l with
      | none => simp [projGrad1]
      | some l =>
        have hl : l ≤ x := by simpa [inBound] using hx.1
        simp [projGrad1, minOf_eq, hl]

/-- On a coordinate where the full gradient step stays inside the bounds the projected gradient is
    the gradient itself. -/
theorem C10_projgrad_interior (b : Bound α) (x g : α) (hstep : inBound b (x - g)) :
    projGrad1 b x g = g := by
  obtain ⟨l, u⟩ := b
  unfold projGrad1
  split
  · cases u with
    | none => rfl
    | some u =>
      have : x - g ≤ u := by simpa [inBound] using hstep.2
      simp only [maxOf_eq]
      exact max_eq_right (by linarith)
  · cases l with
    | none => rfl
    | some l =>
      have : l ≤ x - g := by simpa [inBound] using hstep.1
      simp only [minOf_eq]
      exact min_eq_right (by linarith)

/-- scipy's `projgr` is `x − clip(x − g, l, u)` for `x` inside (non-empty) bounds. -/
theorem C10_projgrad_clip (b : Bound α) (x g : α) (hx : inBound b x) :
    projGrad1 b x g = x - clip b (x - g) := by
  obtain ⟨l, u⟩ := b
  obtain ⟨h1, h2⟩ := hx
  rcases l with _ | l <;> rcases u with _ | u <;>
    simp only [projGrad1, clip, minOf, maxOf, min_def, max_def, Nat.cast_zero] at h1 h2 ⊢ <;>
    split_ifs <;> linarith

/-- non-vacuity: box [0, 2] × (−∞, 1]; the point (0, 1) with gradient (3, −2) is pinned in both
    coordinates (projected gradient 0, 0); the point (1, 0) with gradient (1/2, −1/2) is interior
    (projected gradient = gradient). -/
example : projGrad [(some (0 : ℚ), some 2), (none, some 1)] [0, 1] [3, -2] = [0, 0] ∧
    projGrad [(some (0 : ℚ), some 2), (none, some 1)] [1, 0] [1/2, -1/2] = [1/2, -1/2] := by
  constructor <;> norm_num [projGrad, projGrad1, minOf, maxOf]

end projgrad

end TopSearch.Props.C10
