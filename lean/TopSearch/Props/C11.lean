/-
  C11 — structure alignment: rigid, like-atom-permuted image; plain arrays; honest distance.
  Property theorems only.  What is proved: the *logic around* the numerical solvers
  (candidate selection, permutation assembly, rigidity algebra).  That the randomised heuristic
  *finds* the zero-distance alignment of every rigid copy is not provable (scipy's Kabsch /
  Hungarian solvers and a random restart loop): sampled by the harness, stated in PARTIAL.
-/
import TopSearch.Model.Align
import TopSearch.Gen.Align
import TopSearch.Lemmas.Align
import Mathlib.Order.Basic
import Mathlib.Order.Defs.LinearOrder
import Mathlib.Data.List.Basic
import Mathlib.Data.List.Nodup
import Mathlib.Data.List.Perm.Basic
import Mathlib.Tactic.LinearCombination
import Mathlib.Tactic.Ring
import Mathlib.Data.Real.Basic

namespace TopSearch.Props.C11
open TopSearch.Align TopSearch.Lemmas.Align

variable {α γ : Type} [LinearOrder α]

/-- all candidates `optimal_alignment` consults, in the order it consults them -/
def consulted (exact : Cand α γ) (randoms : List (Cand α γ))
    (inversion : Option (Cand α γ × List (Cand α γ))) : List (Cand α γ) :=
  exact :: randoms ++ (match inversion with | none => [] | some (e, rs) => e :: rs)

/-- Bridge (tie #1): every `return` of the current `optimal_alignment` hands back
    `coords1.position` (a plain array), leaves early with `<`, and restarts 150 times.  The operator of
    the improvement test (`<` or `<=`: how ties are broken) is NOT pinned: `Props/C11Ties.lean` proves the
    clauses for both and the driver follows the source. -/
theorem C11_bridge_returns : Gen.Align.cfg.returnsPositionArray = true ∧
    Gen.Align.cfg.earlyExitStrictLess = true ∧
    Gen.Align.cfg.restarts = 150 := by decide

/-- the loop returns one of the things it was given -/
theorem C11_scan_mem (crit : α) (best : Cand α γ) (cs : List (Cand α γ)) :
    (∀ c, scan crit best cs = .inl c → c ∈ cs ∧ c.dist < crit) ∧
    (∀ b, scan crit best cs = .inr b → b ∈ best :: cs ∧ ∀ c ∈ cs, ¬ c.dist < crit) := by
  induction cs generalizing best with
  | nil =>
    simp only [scan]
    refine ⟨fun c h => (by cases h), fun b h => ?_⟩
    cases h
    exact ⟨List.mem_cons_self, fun c hc => (by cases hc)⟩
  | cons c cs ih =>
    simp only [scan]
    split_ifs with h1 h2
    · refine ⟨fun c' h => ?_, fun b h => by cases h⟩
      cases h
      exact ⟨List.mem_cons_self, h1⟩
    · obtain ⟨iha, ihb⟩ := ih c
      refine ⟨fun c' h => ?_, fun b h => ?_⟩
      · obtain ⟨m, l⟩ := iha c' h
        exact ⟨List.mem_cons_of_mem _ m, l⟩
      · obtain ⟨m, l⟩ := ihb b h
        refine ⟨List.mem_cons_of_mem _ m, fun c' hc' => ?_⟩
        rcases List.mem_cons.1 hc' with rfl | h'
        · exact h1
        · exact l _ h'
    · obtain ⟨iha, ihb⟩ := ih best
      refine ⟨fun c' h => ?_, fun b h => ?_⟩
      · obtain ⟨m, l⟩ := iha c' h
        exact ⟨List.mem_cons_of_mem _ m, l⟩
      · obtain ⟨m, l⟩ := ihb b h
        refine ⟨?_, fun c' hc' => ?_⟩
        · rcases List.mem_cons.1 m with rfl | m'
          · exact List.mem_cons_self
          · exact List.mem_cons_of_mem _ (List.mem_cons_of_mem _ m')
        · rcases List.mem_cons.1 hc' with rfl | h'
          · exact h1
          · exact l _ h'

/-- without an early exit the survivor is minimal: no candidate (and not the start) is strictly
    better -/
theorem C11_scan_min (crit : α) (best b : Cand α γ) (cs : List (Cand α γ))
    (h : scan crit best cs = .inr b) : b.dist ≤ best.dist ∧ ∀ c ∈ cs, b.dist ≤ c.dist := by
  induction cs generalizing best with
  | nil =>
    simp only [scan] at h
    cases h
    exact ⟨le_refl _, fun c hc => by cases hc⟩
  | cons c cs ih =>
    simp only [scan] at h
    split_ifs at h with h1 h2
    · obtain ⟨hb, hcs⟩ := ih c h
      refine ⟨le_trans hb (le_of_lt h2), fun c' hc' => ?_⟩
      rcases List.mem_cons.1 hc' with rfl | h'
      · exact hb
      · exact hcs _ h'
    · obtain ⟨hb, hcs⟩ := ih best h
      refine ⟨hb, fun c' hc' => ?_⟩
      rcases List.mem_cons.1 hc' with rfl | h'
      · exact le_trans hb (not_lt.1 h2)
      · exact hcs _ h'

/-- `optimal_alignment` returns one of the alignments that were actually produced
    (so the reported distance, aligned copy and permutation belong together) -/
theorem C11_returns_candidate (crit : α) (exact : Cand α γ) (randoms : List (Cand α γ))
    (inversion : Option (Cand α γ × List (Cand α γ))) :
    optimalAlignment crit exact randoms inversion ∈ consulted exact randoms inversion := by
  unfold optimalAlignment consulted
  by_cases h0 : exact.dist < crit
  · simp [h0]
  · rw [if_neg h0]
    rcases hs : scan crit exact randoms with c | best
    · have hc := ((C11_scan_mem crit exact randoms).1 c hs).1
      simp [hc]
    · have hb := ((C11_scan_mem crit exact randoms).2 best hs).1
      rcases inversion with _ | ⟨exactInv, randomsInv⟩
      · simpa using hb
      · dsimp only
        by_cases h1 : exactInv.dist < crit
        · simp [h1]
        · rw [if_neg h1]
          rcases hs' : scan crit (if exactInv.dist < best.dist then exactInv else best) randomsInv
            with c | b
          · have hc := ((C11_scan_mem crit _ randomsInv).1 c hs').1
            simp [hc]
          · have hb' := ((C11_scan_mem crit _ randomsInv).2 b hs').1
            rcases List.mem_cons.1 hb' with rfl | hb'
            · split_ifs
              · simp
              · rcases List.mem_cons.1 hb with h | h <;> simp [h]
            · simp [hb']

/-- an early exit happens exactly when some consulted alignment is below the criterion:
    the result is below the criterion iff some candidate is -/
theorem C11_match_iff (crit : α) (exact : Cand α γ) (randoms : List (Cand α γ))
    (inversion : Option (Cand α γ × List (Cand α γ))) :
    (optimalAlignment crit exact randoms inversion).dist < crit ↔
      ∃ c ∈ consulted exact randoms inversion, c.dist < crit := by
  constructor
  · intro h
    exact ⟨_, C11_returns_candidate crit exact randoms inversion, h⟩
  · rintro ⟨c, hc, hlt⟩
    unfold optimalAlignment
    unfold consulted at hc
    by_cases h0 : exact.dist < crit
    · rw [if_pos h0]
      exact h0
    · rw [if_neg h0]
      rcases hs : scan crit exact randoms with c' | best
      · exact ((C11_scan_mem crit exact randoms).1 c' hs).2
      · have hno := ((C11_scan_mem crit exact randoms).2 best hs).2
        rcases inversion with _ | ⟨exactInv, randomsInv⟩
        · exfalso
          rw [List.append_nil] at hc
          rcases List.mem_cons.1 hc with rfl | hc
          · exact h0 hlt
          · exact hno _ hc hlt
        · dsimp only at hc ⊢
          by_cases h1 : exactInv.dist < crit
          · rw [if_pos h1]
            exact h1
          · rw [if_neg h1]
            rcases hs' : scan crit (if exactInv.dist < best.dist then exactInv else best)
              randomsInv with c'' | b
            · exact ((C11_scan_mem crit _ randomsInv).1 c'' hs').2
            · have hno' := ((C11_scan_mem crit _ randomsInv).2 b hs').2
              exfalso
              rcases List.mem_cons.1 hc with rfl | hc
              · exact h0 hlt
              · rcases List.mem_append.1 hc with hc | hc
                · exact hno _ hc hlt
                · rcases List.mem_cons.1 hc with rfl | hc
                  · exact h1 hlt
                  · exact hno' _ hc hlt

/-- otherwise the minimum over all consulted candidates is returned -/
theorem C11_min_otherwise (crit : α) (exact : Cand α γ) (randoms : List (Cand α γ))
    (inversion : Option (Cand α γ × List (Cand α γ)))
    (h : ∀ c ∈ consulted exact randoms inversion, ¬ c.dist < crit) :
    ∀ c ∈ consulted exact randoms inversion,
      (optimalAlignment crit exact randoms inversion).dist ≤ c.dist := by
  intro c hc
  unfold optimalAlignment
  unfold consulted at h hc
  have h0 : ¬ exact.dist < crit := h exact List.mem_cons_self
  rw [if_neg h0]
  rcases hs : scan crit exact randoms with c' | best
  · exfalso
    obtain ⟨hm, hl⟩ := (C11_scan_mem crit exact randoms).1 c' hs
    exact h c' (List.mem_cons_of_mem _ (List.mem_append_left _ hm)) hl
  · obtain ⟨hbe, hbr⟩ := C11_scan_min crit exact best randoms hs
    rcases inversion with _ | ⟨exactInv, randomsInv⟩
    · dsimp only at hc ⊢
      rw [List.append_nil] at hc
      rcases List.mem_cons.1 hc with rfl | hc
      · exact hbe
      · exact hbr _ hc
    · dsimp only at h hc ⊢
      have h1 : ¬ exactInv.dist < crit :=
        h exactInv (List.mem_cons_of_mem _ (List.mem_append_right _ List.mem_cons_self))
      rw [if_neg h1]
      rcases hs' : scan crit (if exactInv.dist < best.dist then exactInv else best)
        randomsInv with c'' | b
      · exfalso
        obtain ⟨hm, hl⟩ := (C11_scan_mem crit _ randomsInv).1 c'' hs'
        exact h c'' (List.mem_cons_of_mem _
          (List.mem_append_right _ (List.mem_cons_of_mem _ hm))) hl
      · obtain ⟨hb1, hb2⟩ := C11_scan_min crit _ b randomsInv hs'
        have hbb : b.dist ≤ best.dist ∧ b.dist ≤ exactInv.dist := by
          split_ifs at hb1 with hlt
          · exact ⟨le_trans hb1 (le_of_lt hlt), hb1⟩
          · exact ⟨hb1, le_trans hb1 (not_lt.1 hlt)⟩
        rcases List.mem_cons.1 hc with rfl | hc
        · exact le_trans hbb.1 hbe
        · rcases List.mem_append.1 hc with hc | hc
          · exact le_trans hbb.1 (hbr _ hc)
          · rcases List.mem_cons.1 hc with rfl | hc
            · exact hbb.2
            · exact hb2 _ hc

/-! ### permutation assembly -/

/-- `col` is a permutation of `0..|g|-1` (the Hungarian contract) -/
def IsColPerm (g col : List Nat) : Prop := col.Perm (List.range g.length)

/-- For permutable groups that are pairwise disjoint and duplicate-free, with Hungarian answers
    that are permutations: the assembled vector maps every atom of a group to an atom of the SAME
    group, is injective on the grouped atoms, and hence is a like-atom permutation. -/
theorem C11_perm_assembly (groups cols : List (List Nat)) (hlen : groups.length = cols.length)
    (hnd : ∀ g ∈ groups, g.Nodup) (hdisj : groups.Pairwise List.Disjoint)
    (hcol : ∀ gc ∈ groups.zip cols, IsColPerm gc.1 gc.2) :
    (∀ g ∈ groups, ∀ a ∈ g, assemble groups cols a ∈ g) ∧
    (∀ g ∈ groups, ∀ h ∈ groups, ∀ a ∈ g, ∀ b ∈ h,
        assemble groups cols a = assemble groups cols b → a = b) := by
  have hzfst : (groups.zip cols).map Prod.fst = groups := List.map_fst_zip (by omega)
  have hnd' : ∀ gc ∈ groups.zip cols, gc.1.Nodup :=
    fun gc h => hnd _ (List.of_mem_zip (a := gc.1) (b := gc.2) h).1
  have hdisj' : ((groups.zip cols).map Prod.fst).Pairwise List.Disjoint := hzfst.symm ▸ hdisj
  have key : ∀ g ∈ groups, ∀ a ∈ g, ∃ col, (g, col) ∈ groups.zip cols ∧
      assemble groups cols a = assembleGroup (fun _ => 0) g col a := by
    intro g hg a ha
    obtain ⟨i, hi, rfl⟩ := List.getElem_of_mem hg
    have hcm : (groups[i], cols[i]'(hlen ▸ hi)) ∈ groups.zip cols :=
      List.mem_iff_getElem.2 ⟨i, by simp [← hlen, hi], by simp⟩
    refine ⟨_, hcm, ?_⟩
    rw [assemble_eq]
    exact asm_in _ _ _ a hnd' hcol hdisj' hcm ha
  constructor
  · intro g hg a ha
    obtain ⟨col, hcm, he⟩ := key g hg a ha
    rw [he]
    exact assembleGroup_mem_group _ g col a (hnd g hg) (hcol _ hcm) ha
  · intro g hg h hh a ha b hb hab
    obtain ⟨cg, hcg, hea⟩ := key g hg a ha
    obtain ⟨ch, hch, heb⟩ := key h hh b hb
    have hma : assemble groups cols a ∈ g := by
      rw [hea]
      exact assembleGroup_mem_group _ g cg a (hnd g hg) (hcol _ hcg) ha
    have hmb : assemble groups cols b ∈ h := by
      rw [heb]
      exact assembleGroup_mem_group _ h ch b (hnd h hh) (hcol _ hch) hb
    have heq : (g, cg) = (h, ch) :=
      group_unique _ hdisj' _ _ hcg hch (assemble groups cols a) hma (hab ▸ hmb)
    cases heq
    rw [hea, heb] at hab
    exact assembleGroup_inj _ g cg a b (hnd g hg) (hcol _ hcg) ha hb hab

/-- the order in which the groups are processed (it comes from iterating a Python `set` of
    strings, i.e. it depends on the hash seed) does not matter -/
theorem C11_group_order_irrelevant (gcs gcs' : List (List Nat × List Nat)) (hp : gcs.Perm gcs')
    (hnd : ∀ gc ∈ gcs, gc.1.Nodup) (hdisj : (gcs.map (·.1)).Pairwise List.Disjoint)
    (hcol : ∀ gc ∈ gcs, IsColPerm gc.1 gc.2) (a : Nat) :
    assemble (gcs.map (·.1)) (gcs.map (·.2)) a = assemble (gcs'.map (·.1)) (gcs'.map (·.2)) a := by
  have hz : ∀ l : List (List Nat × List Nat), (l.map (·.1)).zip (l.map (·.2)) = l := by
    intro l
    induction l with
    | nil => rfl
    | cons hd tl ih => simp [ih]
  rw [assemble_eq, assemble_eq, hz, hz]
  have hdisj' : (gcs'.map (·.1)).Pairwise List.Disjoint :=
    ((hp.map _).pairwise_iff (fun h => List.disjoint_comm.1 h)).1 hdisj
  have hnd' : ∀ gc ∈ gcs', gc.1.Nodup := fun gc h => hnd gc (hp.mem_iff.2 h)
  have hcol' : ∀ gc ∈ gcs', IsColPerm gc.1 gc.2 := fun gc h => hcol gc (hp.mem_iff.2 h)
  by_cases hex : ∃ gc ∈ gcs, a ∈ gc.1
  · obtain ⟨gc, hgc, ha⟩ := hex
    rw [asm_in gcs _ gc a hnd hcol hdisj hgc ha,
      asm_in gcs' _ gc a hnd' hcol' hdisj' (hp.mem_iff.1 hgc) ha]
  · have hno : ∀ gc ∈ gcs, a ∉ gc.1 := fun gc h ha => hex ⟨gc, h, ha⟩
    rw [asm_notin gcs _ a hcol hno,
      asm_notin gcs' _ a hcol' (fun gc h => hno gc (hp.mem_iff.2 h))]

/-! ### rigidity -/

/-- squared distance of two points of ℝ³ -/
def sqd (p q : Fin 3 → ℝ) : ℝ := (p 0 - q 0)^2 + (p 1 - q 1)^2 + (p 2 - q 2)^2

/-- image of a point under `x ↦ Q x + t` -/
def rigid (Q : Fin 3 → Fin 3 → ℝ) (t : Fin 3 → ℝ) (p : Fin 3 → ℝ) : Fin 3 → ℝ :=
  fun c => Q c 0 * p 0 + Q c 1 * p 1 + Q c 2 * p 2 + t c

/-- A rotated (or reflected), translated copy with atoms relabelled by `π` has the same
    inter-atomic distances as the relabelled original — for any number of atoms. -/
theorem C11_rigid_image (Q : Fin 3 → Fin 3 → ℝ) (t : Fin 3 → ℝ) (x : Nat → Fin 3 → ℝ) (π : Nat → Nat)
    (h00 : Q 0 0 * Q 0 0 + Q 1 0 * Q 1 0 + Q 2 0 * Q 2 0 = 1)
    (h11 : Q 0 1 * Q 0 1 + Q 1 1 * Q 1 1 + Q 2 1 * Q 2 1 = 1)
    (h22 : Q 0 2 * Q 0 2 + Q 1 2 * Q 1 2 + Q 2 2 * Q 2 2 = 1)
    (h01 : Q 0 0 * Q 0 1 + Q 1 0 * Q 1 1 + Q 2 0 * Q 2 1 = 0)
    (h02 : Q 0 0 * Q 0 2 + Q 1 0 * Q 1 2 + Q 2 0 * Q 2 2 = 0)
    (h12 : Q 0 1 * Q 0 2 + Q 1 1 * Q 1 2 + Q 2 1 * Q 2 2 = 0) (a b : Nat) :
    sqd (rigid Q t (x (π a))) (rigid Q t (x (π b))) = sqd (x (π a)) (x (π b)) := by
  simp only [sqd, rigid]
  linear_combination (x (π a) 0 - x (π b) 0) ^ 2 * h00 + (x (π a) 1 - x (π b) 1) ^ 2 * h11 +
    (x (π a) 2 - x (π b) 2) ^ 2 * h22 +
    2 * (x (π a) 0 - x (π b) 0) * (x (π a) 1 - x (π b) 1) * h01 +
    2 * (x (π a) 0 - x (π b) 0) * (x (π a) 2 - x (π b) 2) * h02 +
    2 * (x (π a) 1 - x (π b) 1) * (x (π a) 2 - x (π b) 2) * h12

/-- the species vector is preserved when `π` maps every atom to an atom of the same species -/
theorem C11_species_preserved {σ : Type} (species : Nat → σ) (π : Nat → Nat)
    (h : ∀ a, species (π a) = species a) (a : Nat) : (species ∘ π) a = species a := h a

end TopSearch.Props.C11
