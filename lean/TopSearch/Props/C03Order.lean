/-
  C03 / C18: how many minima a landscape has does not depend on the order of discovery.

  `Props/C03.lean` proves that after any stream of offers the stored minima are pairwise non-matching
  (`C03_minima_stream_any_relation`) and that every offered minimum is represented
  (`C03_offered_minimum_represented`).  When the match relation is an equivalence on the points that occur
  (well separated stationary points: matching = being the same point up to the criteria) these two facts
  determine the NUMBER of stored minima: it is the number of classes, whatever the order — which is what
  the C18 predicate "the same landscape registered through the samplers' gate" relies on.
-/
import TopSearch.Props.C03
import Mathlib.Data.List.Basic
import Mathlib.Tactic.Linarith

namespace TopSearch.Props.C03Order

variable {δ : Type}

/-- a pairwise non-matching list whose members are all represented in a second list is not longer than
    that list (the representatives are pairwise different positions) -/
theorem reps_length_le (same : δ → δ → Bool) (hsym : ∀ x y, same x y = same y x)
    (htrans : ∀ x y z, same x y = true → same y z = true → same x z = true) :
    ∀ (s₁ s₂ : List δ), s₁.Pairwise (fun a b => same a b = false) →
      (∀ x ∈ s₁, ∃ y ∈ s₂, same x y = true) → s₁.length ≤ s₂.length
  | [], _, _, _ => Nat.zero_le _
  | x :: t, s₂, hp, hr => by
    obtain ⟨y, hy, hxy⟩ := hr x List.mem_cons_self
    obtain ⟨a, b, rfl⟩ := List.append_of_mem hy
    have hp' := List.pairwise_cons.1 hp
    have ih := reps_length_le same hsym htrans t (a ++ b) hp'.2 (by
      intro z hz
      obtain ⟨w, hw, hzw⟩ := hr z (List.mem_cons_of_mem _ hz)
      rcases List.mem_append.1 hw with hwa | hwb
      · exact ⟨w, List.mem_append_left _ hwa, hzw⟩
      · rcases List.mem_cons.1 hwb with rfl | hwb
        · exfalso
          have hxz : same x z = false := hp'.1 z hz
          have hzw' : same w z = true := by rw [hsym]; exact hzw
          have : same x z = true := htrans x w z hxy hzw'
          rw [hxz] at this
          exact Bool.false_ne_true this
        · exact ⟨w, List.mem_append_right _ hwb, hzw⟩)
    simp only [List.length_cons, List.length_append] at ih ⊢
    omega

/-- Two systems of representatives of the same offers have the same size: if `s₁` and `s₂` are each
    pairwise non-matching, each consists of offered points, and each represents every offered point,
    then they have the same length — whatever the order in which the offers were made. -/
theorem representatives_same_size (same : δ → δ → Bool) (hsym : ∀ x y, same x y = same y x)
    (htrans : ∀ x y z, same x y = true → same y z = true → same x z = true)
    (offers s₁ s₂ : List δ)
    (hp₁ : s₁.Pairwise (fun a b => same a b = false)) (hp₂ : s₂.Pairwise (fun a b => same a b = false))
    (hsub₁ : ∀ x ∈ s₁, x ∈ offers) (hsub₂ : ∀ x ∈ s₂, x ∈ offers)
    (hrep₁ : ∀ d ∈ offers, ∃ y ∈ s₁, same d y = true) (hrep₂ : ∀ d ∈ offers, ∃ y ∈ s₂, same d y = true) :
    s₁.length = s₂.length :=
  le_antisymm
    (reps_length_le same hsym htrans s₁ s₂ hp₁ (fun x hx => hrep₂ x (hsub₁ x hx)))
    (reps_length_le same hsym htrans s₂ s₁ hp₂ (fun x hx => hrep₁ x (hsub₂ x hx)))

/-- transitivity is needed: with a merely symmetric, reflexive match relation the number of stored
    minima can depend on the order (a chain a ~ b ~ c with a ≁ c: offered as a, b, c two are stored —
    a and c —, offered as b, a, c only one) -/
theorem order_matters_without_transitivity :
    ∃ (same : Nat → Nat → Bool), (∀ x y, same x y = same y x) ∧ (∀ x, same x x = true) ∧
      ∃ s₁ s₂ : List Nat, s₁.Pairwise (fun a b => same a b = false) ∧ s₂.Pairwise (fun a b => same a b = false) ∧
        (∀ d ∈ [0, 1, 2], ∃ y ∈ s₁, same d y = true) ∧ (∀ d ∈ [0, 1, 2], ∃ y ∈ s₂, same d y = true) ∧
        s₁.length ≠ s₂.length := by
  refine ⟨fun x y => decide (x = y ∨ x + 1 = y ∨ y + 1 = x), ?_, ?_, [0, 2], [1], ?_, ?_, ?_, ?_, ?_⟩
  · intro x y
    simp only [decide_eq_decide]
    omega
  · intro x
    simp
  · decide
  · decide
  · decide
  · decide
  · decide

end TopSearch.Props.C03Order

/-! ### applied to the model of `test_new_minimum` -/
namespace TopSearch.Props.C03Order
open TopSearch TopSearch.Ktn TopSearch.Merge

variable {δ : Type}

/-- what a stream of minimum offers stores comes from the network it started with or from the offers -/
theorem fold_nodes_subset (same : δ → δ → Bool) (mins : List δ) :
    ∀ {s : Ktn δ}, GateInv same s → ∀ nd ∈ (mins.foldl (testNewMinimum same) s).nodes,
      nd ∈ s.nodes ∨ nd.data ∈ mins := by
  induction mins with
  | nil => intro s _ nd h; exact Or.inl h
  | cons d mins ih =>
    intro s hs nd h
    simp only [List.foldl_cons] at h
    obtain ⟨h1, _⟩ := testNewMinimum_spec hs d
    rcases ih h1 nd h with h' | h'
    · cases hn : isNewMinimum same s d with
      | some i =>
        rw [testNewMinimum_of_some hn] at h'
        exact Or.inl h'
      | none =>
        rw [testNewMinimum_of_none hn, addMin_eq hs.inv] at h'
        simp only [List.mem_append, List.mem_singleton] at h'
        rcases h' with h' | h'
        · exact Or.inl h'
        · right; rw [h']; exact List.mem_cons_self
    · exact Or.inr (List.mem_cons_of_mem _ h')

/-- **The number of minima stored by a stream of offers into an empty network does not depend on the
    order of the offers**, when matching is an equivalence on the offered points: for every permutation
    `mins₂` of `mins₁` the two networks hold the same number of minima. -/
theorem stored_count_order_independent (same : δ → δ → Bool) (hsym : ∀ x y, same x y = same y x)
    (hrefl : ∀ x, same x x = true)
    (htrans : ∀ x y z, same x y = true → same y z = true → same x z = true)
    (mins₁ mins₂ : List δ) (hperm : mins₁.Perm mins₂) :
    ((mins₁.foldl (testNewMinimum same) (empty : Ktn δ)).nodes.map (·.data)).length =
      ((mins₂.foldl (testNewMinimum same) (empty : Ktn δ)).nodes.map (·.data)).length := by
  have key : ∀ mins : List δ,
      let s := (mins.foldl (testNewMinimum same) (empty : Ktn δ)).nodes.map (·.data)
      s.Pairwise (fun a b => same a b = false) ∧ (∀ x ∈ s, x ∈ mins) ∧
        (∀ d ∈ mins, ∃ y ∈ s, same d y = true) := by
    intro mins
    have hg := (foldMin_spec (same := same) mins (gateInv_empty same)).1
    refine ⟨?_, ?_, ?_⟩
    · rw [List.pairwise_map]
      exact hg.mins.imp (fun {a b} h => by rw [hsym]; exact h)
    · intro x hx
      obtain ⟨nd, hnd, rfl⟩ := List.mem_map.1 hx
      rcases fold_nodes_subset same mins (gateInv_empty same) nd hnd with h | h
      · simp [empty] at h
      · exact h
    · intro d hd
      obtain ⟨i, x, hx, hd'⟩ := foldMin_rep (same := same) mins (gateInv_empty same) d hd
      obtain ⟨nd, hnd, _, rfl⟩ := mem_of_nodeData hx
      refine ⟨nd.data, List.mem_map.2 ⟨nd, hnd, rfl⟩, ?_⟩
      rcases hd' with h | h
      · rw [h]; exact hrefl d
      · exact h
  obtain ⟨p1, s1, r1⟩ := key mins₁
  obtain ⟨p2, s2, r2⟩ := key mins₂
  exact representatives_same_size same hsym htrans mins₁ _ _ p1 p2 s1
    (fun x hx => hperm.symm.subset (s2 x hx)) r1 (fun d hd => r2 d (hperm.subset hd))

end TopSearch.Props.C03Order
