/-
  C03 / C18: how many minima a landscape has does not depend on the order of discovery.

  `Props/C03.lean` proves that after any stream of offers the stored minima are pairwise non-matching
  (`C03_minima_stream_any_relation`) and that every offered minimum is represented
  (`C03_offered_minimum_represented`).  When the match relation is an equivalence on the points that occur
  (well separated stationary points: matching = being the same point up to the criteria) these two facts
  determine the NUMBER of stored minima: it is the number of classes, whatever the order — which is what
  the C18 predicate "the same landscape registered through the samplers' gate" relies on.
-/
import TopSearch.Props.C03
import Mathlib.Data.List.Basic
import Mathlib.Tactic.Linarith

namespace TopSearch.Props.C03Order

variable {δ : Type}

/-- a pairwise non-matching list whose members are all represented in a second list is not longer than
    that list (the representatives are pairwise different positions) -/
theorem reps_length_le (same : δ → δ → Bool) (hsym : ∀ x y, same x y = same y x)
    (htrans : ∀ x y z, same x y = true → same y z = true → same x z = true) :
    ∀ (s₁ s₂ : List δ), s₁.Pairwise (fun a b => same a b = false) →
      (∀ x ∈ s₁, ∃ y ∈ s₂, same x y = true) → s₁.length ≤ s₂.length
  | [], _, _, _ => Nat.zero_le _
  | x :: t, s₂, hp, hr => by
    obtain ⟨y, hy, hxy⟩ := hr x List.mem_cons_self
    obtain ⟨a, b, rfl⟩ := List.append_of_mem hy
    have hp' := List.pairwise_cons.1 hp
    have ih := reps_length_le same hsym htrans t (a ++ b) hp'.2 (by
      intro z hz
      obtain ⟨w, hw, hzw⟩ := hr z (List.mem_cons_of_mem _ hz)
      rcases List.mem_append.1 hw with hwa | hwb
      · exact ⟨w, List.mem_append_left _ hwa, hzw⟩
      · rcases List.mem_cons.1 hwb with rfl | hwb
        · exfalso
          have hxz : same x z = false := hp'.1 z hz
          have hzw' : same w z = true := by rw [hsym]; exact hzw
          have : same x z = true := htrans x w z hxy hzw'
          rw [hxz] at this
          exact Bool.false_ne_true this
        · exact ⟨w, List.mem_append_right _ hwb, hzw⟩)
    simp only [List.length_cons, List.length_append] at ih ⊢
    omega

/-- Two systems of representatives of the same offers have the same size: if `s₁` and `s₂` are each
    pairwise non-matching, each consists of offered points, and each represents every offered point,
    then they have the same length — whatever the order in which the offers were made. -/
theorem representatives_same_size (same : δ → δ → Bool) (hsym : ∀ x y, same x y = same y x)
    (htrans : ∀ x y z, same x y = true → same y z = true → same x z = true)
    (offers s₁ s₂ : List δ)
    (hp₁ : s₁.Pairwise (fun a b => same a b = false)) (hp₂ : s₂.Pairwise (fun a b => same a b = false))
    (hsub₁ : ∀ x ∈ s₁, x ∈ offers) (hsub₂ : ∀ x ∈ s₂, x ∈ offers)
    (hrep₁ : ∀ d ∈ offers, ∃ y ∈ s₁, same d y = true) (hrep₂ : ∀ d ∈ offers, ∃ y ∈ s₂, same d y = true) :
    s₁.length = s₂.length :=
  le_antisymm
    (reps_length_le same hsym htrans s₁ s₂ hp₁ (fun x hx => hrep₂ x (hsub₁ x hx)))
    (reps_length_le same hsym htrans s₂ s₁ hp₂ (fun x hx => hrep₁ x (hsub₂ x hx)))

/-- transitivity is needed: with a merely symmetric, reflexive match relation the number of stored
    minima can depend on the order (a chain a ~ b ~ c with a ≁ c: offered as a, b, c two are stored —
    a and c —, offered as b, a, c only one) -/
theorem order_matters_without_transitivity :
    ∃ (same : Nat → Nat → Bool), (∀ x y, same x y = same y x) ∧ (∀ x, same x x = true) ∧
      ∃ s₁ s₂ : List Nat, s₁.Pairwise (fun a b => same a b = false) ∧ s₂.Pairwise (fun a b => same a b = false) ∧
        (∀ d ∈ [0, 1, 2], ∃ y ∈ s₁, same d y = true) ∧ (∀ d ∈ [0, 1, 2], ∃ y ∈ s₂, same d y = true) ∧
        s₁.length ≠ s₂.length := by
  refine ⟨fun x y => decide (x = y ∨ x + 1 = y ∨ y + 1 = x), ?_, ?_, [0, 2], [1], ?_, ?_, ?_, ?_, ?_⟩
  · intro x y
    simp only [decide_eq_decide]
    omega
  · intro x
    simp
  · decide
  · decide
  · decide
  · decide
  · decide

end TopSearch.Props.C03Order
