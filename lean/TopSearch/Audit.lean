/-
  Audit helper: for each named constant print whether it is a kernel-checked theorem and
  which axioms it depends on.  Used by harness/common.py (`audit`), one generated file per
  property under lean/.audit/.
-/
import Lean
open Lean

namespace TopSearch

def auditNames (ns : List Name) : CoreM Unit := do
  let env ← getEnv
  for n in ns do
    match env.find? n with
    | none => IO.println s!"AUDIT {n} missing"
    | some ci =>
      let kind := match ci with
        | .thmInfo _ => "theorem"
        | .defnInfo _ => "def"
        | .axiomInfo _ => "axiom"
        | .opaqueInfo _ => "opaque"
        | _ => "other"
      let axs ← collectAxioms n
      IO.println s!"AUDIT {n} {kind} {" ".intercalate (axs.toList.map toString)}"

end TopSearch
