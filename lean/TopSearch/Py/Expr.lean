/-
  TopSearch.Py.Expr — the small deep-embedded language the kernel translator
  (harness/translate) emits.  Core Lean only (no Mathlib): the driver executes
  these definitions at `Rat`, the proof files reason about them over ordered fields.

  * `E`  numeric expressions (rational constants, variables, + − × ÷, integer powers,
         and the named transcendental functions the code calls: they are *parameters*
         of the evaluation, never interpreted by the model),
  * `B`  boolean expressions (comparisons, connectives, opaque boolean inputs),
  * `K`  a loop-free function body after symbolic execution: a decision tree whose
         leaves are the tuple of returned values.
-/
namespace TopSearch.Py

inductive Fn where
  | sqrt | exp | abs | sin | cos
  deriving DecidableEq, Repr, Inhabited

inductive E where
  | c (n : Int) (d : Nat)
  | v (i : Nat)
  | add (a b : E)
  | sub (a b : E)
  | mul (a b : E)
  | div (a b : E)
  | neg (a : E)
  | pow (a : E) (n : Nat)
  | fn (f : Fn) (a : E)
  deriving DecidableEq, Repr, Inhabited

inductive B where
  | tt
  | ff
  | bv (i : Nat)
  | lt (a b : E)
  | le (a b : E)
  | eq (a b : E)
  | not (a : B)
  | and (a b : B)
  | or (a b : B)
  deriving DecidableEq, Repr, Inhabited

/-- one returned value -/
inductive R where
  | num (e : E)
  | bool (b : B)
  | none
  deriving DecidableEq, Repr, Inhabited

inductive K where
  | ret (rs : List R)
  | ite (c : B) (t e : K)
  deriving Repr, Inhabited

/-- `x^n` by repeated multiplication (so that no `Pow` instance is needed in core). -/
def npow {α} [Mul α] [NatCast α] (x : α) : Nat → α
  | 0 => ((1 : Nat) : α)
  | n + 1 => npow x n * x

section eval
variable {α : Type} [Add α] [Sub α] [Mul α] [Div α] [Neg α] [NatCast α] [IntCast α]

def E.eval (fnI : Fn → α → α) (ρ : Nat → α) : E → α
  | .c n d => ((n : Int) : α) / ((d : Nat) : α)
  | .v i => ρ i
  | .add a b => a.eval fnI ρ + b.eval fnI ρ
  | .sub a b => a.eval fnI ρ - b.eval fnI ρ
  | .mul a b => a.eval fnI ρ * b.eval fnI ρ
  | .div a b => a.eval fnI ρ / b.eval fnI ρ
  | .neg a => - a.eval fnI ρ
  | .pow a n => npow (a.eval fnI ρ) n
  | .fn f a => fnI f (a.eval fnI ρ)

variable [LT α] [LE α] [DecidableLT α] [DecidableLE α] [DecidableEq α]

def B.eval (fnI : Fn → α → α) (ρ : Nat → α) (β : Nat → Bool) : B → Bool
  | .tt => true
  | .ff => false
  | .bv i => β i
  | .lt a b => decide (a.eval fnI ρ < b.eval fnI ρ)
  | .le a b => decide (a.eval fnI ρ ≤ b.eval fnI ρ)
  | .eq a b => decide (a.eval fnI ρ = b.eval fnI ρ)
  | .not a => !(a.eval fnI ρ β)
  | .and a b => a.eval fnI ρ β && b.eval fnI ρ β
  | .or a b => a.eval fnI ρ β || b.eval fnI ρ β

/-- a returned value after evaluation -/
inductive RV (α : Type) where
  | num (x : α)
  | bool (b : Bool)
  | none
  deriving DecidableEq, Repr

def R.eval (fnI : Fn → α → α) (ρ : Nat → α) (β : Nat → Bool) : R → RV α
  | .num e => .num (e.eval fnI ρ)
  | .bool b => .bool (b.eval fnI ρ β)
  | .none => .none

def K.eval (fnI : Fn → α → α) (ρ : Nat → α) (β : Nat → Bool) : K → List (RV α)
  | .ret rs => rs.map (R.eval fnI ρ β)
  | .ite c t e => if c.eval fnI ρ β then t.eval fnI ρ β else e.eval fnI ρ β

end eval

/-- variables from a list, 0 beyond its end -/
def envOf {α} [NatCast α] (xs : List α) : Nat → α := fun i => xs.getD i ((0 : Nat) : α)
def benvOf (bs : List Bool) : Nat → Bool := fun i => bs.getD i false

/-- symbolic derivative with respect to variable `i` (rational fragment;
    `fn` nodes are not differentiated: `hasFn` must be false for soundness). -/
def E.d (i : Nat) : E → E
  | .c _ _ => .c 0 1
  | .v j => if i = j then .c 1 1 else .c 0 1
  | .add a b => .add (a.d i) (b.d i)
  | .sub a b => .sub (a.d i) (b.d i)
  | .mul a b => .add (.mul (a.d i) b) (.mul a (b.d i))
  | .div a b => .div (.sub (.mul (a.d i) b) (.mul a (b.d i))) (.pow b 2)
  | .neg a => .neg (a.d i)
  | .pow a n => .mul (.mul (.c n 1) (.pow a (n - 1))) (a.d i)
  | .fn _ _ => .c 0 1

def E.hasFn : E → Bool
  | .c _ _ | .v _ => false
  | .add a b | .sub a b | .mul a b | .div a b => a.hasFn || b.hasFn
  | .neg a | .pow a _ => a.hasFn
  | .fn _ _ => true

end TopSearch.Py
