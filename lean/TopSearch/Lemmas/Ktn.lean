/-
  Helper definitions and lemmas for the network-store model (used by Props/C02, C05, C13).
  `Inv` is the coherence invariant; the lemmas show every guarded operation preserves it and
  characterise removal as an abstract deletion.
-/
import TopSearch.Model.Ktn
import Mathlib.Data.List.Range
import Mathlib.Data.List.Pairwise
import Mathlib.Data.List.Nodup
import Mathlib.Data.List.Sort
import Mathlib.Tactic.Linarith
import Mathlib.Tactic.Tauto

namespace TopSearch.Ktn
variable {δ : Type}

def Inv (s : Ktn δ) : Prop :=
  s.nodes.map (·.label) = List.range s.nMin ∧
  s.nTs = s.edges.length ∧
  s.edges.Pairwise (fun a b => Edge.joins a b.u b.v = false) ∧
  ∀ e ∈ s.edges, e.u < s.nMin ∧ e.v < s.nMin

theorem inv_empty : Inv (empty : Ktn δ) := by
  simp [Inv, empty]

theorem hasNode_iff (s : Ktn δ) (a : Nat) : s.hasNode a = true ↔ a ∈ s.nodes.map (·.label) := by
  simp [hasNode, List.any_eq_true]

theorem hasNode_of_inv {s : Ktn δ} (hs : Inv s) (a : Nat) : s.hasNode a = true ↔ a < s.nMin := by
  rw [hasNode_iff, hs.1]; simp

theorem addMin_eq {s : Ktn δ} (hs : Inv s) (d : δ) :
    s.addMin d = { s with nodes := s.nodes ++ [⟨s.nMin, d⟩], nMin := s.nMin + 1 } := by
  have : s.hasNode s.nMin = false := by
    cases h : s.hasNode s.nMin
    · rfl
    · exact absurd ((hasNode_of_inv hs _).1 h) (lt_irrefl _)
  simp [addMin, this]

theorem inv_addMin {s : Ktn δ} (hs : Inv s) (d : δ) : Inv (s.addMin d) := by
  rw [addMin_eq hs]
  obtain ⟨h1, h2, h3, h4⟩ := hs
  refine ⟨?_, h2, h3, ?_⟩
  · simp [h1, List.range_succ]
  · intro e he; have := h4 e he; exact ⟨by simp; omega, by simp; omega⟩

theorem joins_comm (e : Edge δ) (a b : Nat) : Edge.joins e a b = Edge.joins e b a := by
  simp [Edge.joins, Bool.or_comm]

theorem hasEdge_false_iff (s : Ktn δ) (u v : Nat) :
    s.hasEdge u v = false ↔ ∀ e ∈ s.edges, Edge.joins e u v = false := by
  simp [hasEdge]

@[simp] theorem upd_u (e : Edge δ) (d : δ) (u v : Nat) :
    (if Edge.joins e u v then { e with data := d } else e).u = e.u := by split <;> rfl
@[simp] theorem upd_v (e : Edge δ) (d : δ) (u v : Nat) :
    (if Edge.joins e u v then { e with data := d } else e).v = e.v := by split <;> rfl
@[simp] theorem joins_upd (e : Edge δ) (d : δ) (u v a b : Nat) :
    Edge.joins (if Edge.joins e u v then { e with data := d } else e) a b = Edge.joins e a b := by
  unfold Edge.joins; split <;> rfl

theorem inv_addTs {s : Ktn δ} (hs : Inv s) (d : δ) (u v : Nat) (hu : u < s.nMin) (hv : v < s.nMin) :
    Inv (s.addTs true d u v) := by
  obtain ⟨h1, h2, h3, h4⟩ := hs
  unfold addTs
  split
  · refine ⟨h1, by simp [h2], ?_, ?_⟩
    · simp only
      rw [List.pairwise_map]
      refine h3.imp ?_
      intro a b hab
      simpa using hab
    · intro e he
      simp only [List.mem_map] at he
      obtain ⟨e0, he0, rfl⟩ := he
      simpa using h4 e0 he0
  · rename_i hne
    have hne : s.hasEdge u v = false := by simpa using hne
    rw [hasEdge_false_iff] at hne
    refine ⟨h1, by simp [h2], ?_, ?_⟩
    · simp only
      rw [List.pairwise_append]
      refine ⟨h3, by simp, ?_⟩
      intro a ha b hb
      simp at hb; subst hb
      exact hne a ha
    · intro e he
      simp at he
      rcases he with he | rfl
      · exact h4 e he
      · exact ⟨hu, hv⟩

end TopSearch.Ktn

namespace TopSearch.Ktn
variable {δ : Type}

theorem joins_trans {a b : Edge δ} {u v : Nat} (ha : Edge.joins a u v = true)
    (hb : Edge.joins b u v = true) : Edge.joins a b.u b.v = true := by
  simp [Edge.joins] at *
  rcases ha with ⟨h1, h2⟩ | ⟨h1, h2⟩ <;> rcases hb with ⟨h3, h4⟩ | ⟨h3, h4⟩ <;> simp_all

theorem filter_joins_length {l : List (Edge δ)} {u v : Nat}
    (hp : l.Pairwise (fun a b => Edge.joins a b.u b.v = false))
    (hex : ∃ e ∈ l, Edge.joins e u v = true) :
    (l.filter (fun e => !(Edge.joins e u v))).length + 1 = l.length := by
  induction l with
  | nil => simp at hex
  | cons a l ih =>
    rw [List.pairwise_cons] at hp
    by_cases ha : Edge.joins a u v = true
    · have : l.filter (fun e => !(Edge.joins e u v)) = l := by
        rw [List.filter_eq_self]
        intro b hb
        have h1 := hp.1 b hb
        cases hbj : Edge.joins b u v
        · rfl
        · rw [joins_trans ha hbj] at h1; exact absurd h1 (by simp)
      simp [List.filter_cons, ha, this]
    · have ha' : Edge.joins a u v = false := by simpa using ha
      have hex' : ∃ e ∈ l, Edge.joins e u v = true := by
        obtain ⟨e, he, hj⟩ := hex
        simp at he
        rcases he with rfl | he
        · rw [ha'] at hj; exact absurd hj (by simp)
        · exact ⟨e, he, hj⟩
      simp [List.filter_cons, ha', ih hp.2 hex']

theorem hasEdge_iff (s : Ktn δ) (u v : Nat) :
    s.hasEdge u v = true ↔ ∃ e ∈ s.edges, Edge.joins e u v = true := by
  simp [hasEdge]

theorem inv_removeTs {s : Ktn δ} (hs : Inv s) (u v : Nat) (h : s.hasEdge u v = true) :
    Inv (s.removeTs u v) ∧ (s.removeTs u v).edges.length + 1 = s.edges.length := by
  obtain ⟨h1, h2, h3, h4⟩ := hs
  have hl := filter_joins_length h3 ((hasEdge_iff s u v).1 h)
  refine ⟨⟨h1, ?_, ?_, ?_⟩, hl⟩
  · simp only [removeTs]; omega
  · exact h3.sublist List.filter_sublist
  · intro e he
    exact h4 e (List.mem_of_mem_filter he)

end TopSearch.Ktn

namespace TopSearch.Ktn
variable {δ : Type}

def shift (k i : Nat) : Nat := if k < i then i - 1 else i
def shiftNode (k : Nat) (nd : Node δ) : Node δ := { nd with label := shift k nd.label }
def shiftEdge (k : Nat) (e : Edge δ) : Edge δ := { e with u := shift k e.u, v := shift k e.v }

theorem filter_map_eq {α β} (l : List α) (f g : α → β) (p : β → Bool) (q : α → Bool)
    (h : ∀ x ∈ l, p (f x) = q x ∧ (q x = true → f x = g x)) :
    (l.map f).filter p = (l.filter q).map g := by
  induction l with
  | nil => rfl
  | cons a l ih =>
    have ha := h a (by simp)
    have ih' := ih (fun x hx => h x (by simp [hx]))
    by_cases hq : q a = true
    · have hp : p (f a) = true := by rw [ha.1, hq]
      rw [List.map_cons, List.filter_cons, if_pos hp, List.filter_cons, if_pos hq, List.map_cons,
        ih', ha.2 hq]
    · have hp : ¬ p (f a) = true := by rw [ha.1]; exact hq
      rw [List.map_cons, List.filter_cons, if_neg hp, List.filter_cons, if_neg hq, ih']

theorem relabel_eq_n {k n i : Nat} (hi : i < n) : relabel k n i = n ↔ i = k := by
  unfold relabel; split_ifs <;> omega

theorem relabel_of_ne {k n i : Nat} (hi : i < n) (hne : i ≠ k) : relabel k n i = shift k i := by
  unfold relabel shift; split_ifs <;> omega

theorem shift_lt {k n i : Nat} (hk : k < n) (hi : i < n) (hne : i ≠ k) : shift k i < n - 1 := by
  unfold shift; split_ifs <;> omega

theorem shift_inj {k i j : Nat} (hi : i ≠ k) (hj : j ≠ k) (h : shift k i = shift k j) : i = j := by
  unfold shift at h; split_ifs at h <;> omega

theorem removeMin_nodes (r : Bool) (s : Ktn δ) (hs : Inv s) (k : Nat) :
    (s.removeMin r k).nodes = (s.nodes.filter (fun nd => nd.label != k)).map (shiftNode k) := by
  have hlab : ∀ nd ∈ s.nodes, nd.label < s.nMin := by
    intro nd hnd
    have : nd.label ∈ s.nodes.map (·.label) := List.mem_map_of_mem hnd
    rw [hs.1] at this; simpa using this
  simp only [removeMin]
  apply filter_map_eq
  intro nd hnd
  have hl := hlab nd hnd
  constructor
  · have := relabel_eq_n (k := k) hl
    rw [Bool.eq_iff_iff]
    simp only [bne_iff_ne, ne_eq, this]
  · intro hq
    have : nd.label ≠ k := by simpa using hq
    simp [shiftNode, relabel_of_ne hl this]

theorem touches_relabel {k n : Nat} (e : Edge δ) (hu : e.u < n) (hv : e.v < n) :
    Edge.touches ({ e with u := relabel k n e.u, v := relabel k n e.v } : Edge δ) n
      = Edge.touches e k := by
  simp only [Edge.touches]
  have h1 := relabel_eq_n (k := k) hu
  have h2 := relabel_eq_n (k := k) hv
  rw [Bool.eq_iff_iff]
  simp only [Bool.or_eq_true, beq_iff_eq, h1, h2]

theorem removeMin_edges (r : Bool) (s : Ktn δ) (hs : Inv s) (k : Nat) :
    (s.removeMin r k).edges = (s.edges.filter (fun e => !(Edge.touches e k))).map (shiftEdge k) := by
  simp only [removeMin]
  apply filter_map_eq
  intro e he
  obtain ⟨hu, hv⟩ := hs.2.2.2 e he
  constructor
  · rw [touches_relabel e hu hv]
  · intro hq
    have hq' : Edge.touches e k = false := by simpa using hq
    simp [Edge.touches] at hq'
    simp [shiftEdge, relabel_of_ne hu hq'.1, relabel_of_ne hv hq'.2]

end TopSearch.Ktn

namespace TopSearch.Ktn
variable {δ : Type}

theorem range_filter_shift (n k : Nat) (hk : k < n) :
    ((List.range n).filter (· != k)).map (shift k) = List.range (n - 1) := by
  induction n with
  | zero => omega
  | succ n ih =>
    rw [List.range_succ, List.filter_append, List.map_append]
    by_cases hkn : k = n
    · subst hkn
      have h1 : (List.range k).filter (· != k) = List.range k := by
        rw [List.filter_eq_self]; intro a ha; simp at ha; simp; omega
      have h2 : (List.range k).map (shift k) = List.range k := by
        conv_rhs => rw [← List.map_id (List.range k)]
        apply List.map_congr_left
        intro a ha; simp at ha; simp [shift]; omega
      simp [h1, h2]
    · have hk' : k < n := by omega
      rw [ih hk']
      have : ([n].filter (· != k)).map (shift k) = [n - 1] := by
        have : (n != k) = true := by simp; omega
        simp [List.filter_cons, this, shift, hk']
      rw [this]
      have : n = (n - 1) + 1 := by omega
      conv_rhs => rw [Nat.add_sub_cancel, this, List.range_succ]

theorem inv_removeMin (r : Bool) {s : Ktn δ} (hs : Inv s) (k : Nat) (hk : k < s.nMin) :
    Inv (s.removeMin r k) := by
  have hn := removeMin_nodes r s hs k
  have he := removeMin_edges r s hs k
  obtain ⟨h1, h2, h3, h4⟩ := hs
  refine ⟨?_, ?_, ?_, ?_⟩
  · rw [hn]
    have : (s.removeMin r k).nMin = s.nMin - 1 := rfl
    rw [this, ← range_filter_shift s.nMin k hk, ← h1]
    simp only [List.map_map, List.filter_map]
    rfl
  · have hlen : (s.removeMin r k).nTs = s.nTs -
        ((s.edges.map (fun e => ({ e with u := relabel k s.nMin e.u, v := relabel k s.nMin e.v } : Edge δ))).filter
          (Edge.touches · s.nMin)).length := rfl
    have hedges : (s.removeMin r k).edges =
        (s.edges.map (fun e => ({ e with u := relabel k s.nMin e.u, v := relabel k s.nMin e.v } : Edge δ))).filter
          (fun e => !(Edge.touches e s.nMin)) := rfl
    rw [hlen, hedges, h2]
    have := List.length_eq_length_filter_add
      (l := s.edges.map (fun e => ({ e with u := relabel k s.nMin e.u, v := relabel k s.nMin e.v } : Edge δ)))
      (fun e => Edge.touches e s.nMin)
    simp only [List.length_map] at this
    omega
  · rw [he, List.pairwise_map]
    have hsub : (s.edges.filter (fun e => !(Edge.touches e k))).Pairwise
        (fun a b => Edge.joins a b.u b.v = false) := h3.sublist List.filter_sublist
    refine hsub.imp_of_mem ?_
    intro a b ha hb hab
    have ha' := (List.mem_filter.1 ha).2
    have hb' := (List.mem_filter.1 hb).2
    simp [Edge.touches] at ha' hb'
    cases hj : Edge.joins (shiftEdge k a) (shiftEdge k b).u (shiftEdge k b).v
    · rfl
    · exfalso
      simp [Edge.joins, shiftEdge] at hj hab
      rcases hj with ⟨e1, e2⟩ | ⟨e1, e2⟩
      · have := shift_inj ha'.1 hb'.1 e1; have := shift_inj ha'.2 hb'.2 e2; simp_all
      · have := shift_inj ha'.1 hb'.2 e1; have := shift_inj ha'.2 hb'.1 e2; simp_all
  · intro e hmem
    rw [he] at hmem
    simp only [List.mem_map] at hmem
    obtain ⟨e0, he0, rfl⟩ := hmem
    have hq := (List.mem_filter.1 he0).2
    simp [Edge.touches] at hq
    obtain ⟨hu, hv⟩ := h4 e0 (List.mem_of_mem_filter he0)
    exact ⟨shift_lt hk hu hq.1, shift_lt hk hv hq.2⟩

end TopSearch.Ktn

namespace TopSearch.Ktn
variable {δ : Type}

def rank (ks : List Nat) (i : Nat) : Nat := i - (ks.filter (· < i)).length

def deleteSet (s : Ktn δ) (ks : List Nat) : Ktn δ :=
  let es := s.edges.filter (fun e => !ks.contains e.u && !ks.contains e.v)
  { nodes := (s.nodes.filter (fun nd => !ks.contains nd.label)).map
               (fun nd => { nd with label := rank ks nd.label })
    edges := es.map (fun e => { e with u := rank ks e.u, v := rank ks e.v })
    nMin := s.nMin - ks.length
    nTs := es.length
    pairlist := s.pairlist }

/-- pointwise facts behind "remove `k`, then the rest shifted by one" -/
theorem mem_shift_iff {k i : Nat} {m : List Nat} (hm : ∀ x ∈ m, k < x) (hi : i ≠ k) :
    shift k i ∈ m.map (· - 1) ↔ i ∈ m := by
  simp only [List.mem_map]
  unfold shift
  constructor
  · rintro ⟨x, hx, hxe⟩
    have := hm x hx
    split_ifs at hxe with h
    · have : x = i := by omega
      rwa [← this]
    · omega
  · intro h
    have := hm i h
    exact ⟨i, h, by split_ifs <;> omega⟩

theorem rank_shift {k i : Nat} {m : List Nat} (hm : ∀ x ∈ m, k < x) (hi : i ≠ k) :
    rank (m.map (· - 1)) (shift k i) = rank (k :: m) i := by
  unfold rank
  rw [List.filter_map, List.length_map]
  by_cases h : k < i
  · have hs : shift k i = i - 1 := by simp [shift, h]
    have hf : m.filter ((fun x => decide (x < shift k i)) ∘ fun x => x - 1) = m.filter (· < i) := by
      apply List.filter_congr
      intro x hx
      have := hm x hx
      simp only [Function.comp, hs, decide_eq_decide]
      omega
    rw [hf, hs, List.filter_cons]
    simp [h]
    omega
  · have hik : i < k := by omega
    have hs : shift k i = i := by simp [shift, h]
    have hf : m.filter ((fun x => decide (x < shift k i)) ∘ fun x => x - 1) = [] := by
      rw [List.filter_eq_nil_iff]
      intro x hx
      have := hm x hx
      simp only [Function.comp, hs, decide_eq_true_eq]
      omega
    have hf2 : (k :: m).filter (· < i) = [] := by
      rw [List.filter_eq_nil_iff]
      intro x hx
      simp at hx
      rcases hx with rfl | hx
      · simp; omega
      · have := hm x hx; simp; omega
    rw [hf, hs, hf2]

end TopSearch.Ktn

namespace TopSearch.Ktn
variable {δ : Type}

theorem map_filter_congr {α β} (l : List α) (p q : α → Bool) (f g : α → β)
    (h1 : ∀ x ∈ l, p x = q x) (h2 : ∀ x ∈ l, q x = true → f x = g x) :
    (l.filter p).map f = (l.filter q).map g := by
  rw [List.filter_congr h1]
  apply List.map_congr_left
  intro x hx
  exact h2 x (List.mem_of_mem_filter hx) (List.mem_filter.1 hx).2

theorem contains_cons_false {k i : Nat} {m : List Nat} :
    (!(k :: m).contains i) = ((i != k) && !m.contains i) := by
  rw [Bool.eq_iff_iff]; simp [List.contains_cons]

theorem deleteSet_removeMin (r : Bool) (s : Ktn δ) (hs : Inv s) (k : Nat)
    (m : List Nat) (hm : ∀ x ∈ m, k < x) :
    (deleteSet (s.removeMin r k) (m.map (· - 1))).nodes = (deleteSet s (k :: m)).nodes ∧
    (deleteSet (s.removeMin r k) (m.map (· - 1))).edges = (deleteSet s (k :: m)).edges ∧
    (deleteSet (s.removeMin r k) (m.map (· - 1))).nMin = (deleteSet s (k :: m)).nMin := by
  refine ⟨?_, ?_, ?_⟩
  · simp only [deleteSet]
    rw [removeMin_nodes r s hs k, List.filter_map, List.map_map, List.filter_filter]
    apply map_filter_congr
    · intro nd _
      rw [contains_cons_false]
      by_cases hne : nd.label = k
      · simp [hne]
      · have := mem_shift_iff hm hne
        simp only [Function.comp, shiftNode]
        rw [Bool.eq_iff_iff]
        simp [hne, this]
    · intro nd _ hq
      rw [contains_cons_false] at hq
      have hne : nd.label ≠ k := by
        intro h; simp [h] at hq
      simp only [Function.comp, shiftNode]
      rw [rank_shift hm hne]
  · simp only [deleteSet]
    rw [removeMin_edges r s hs k, List.filter_map, List.map_map, List.filter_filter]
    apply map_filter_congr
    · intro e _
      rw [contains_cons_false, contains_cons_false]
      by_cases hu : e.u = k
      · simp [hu, Edge.touches]
      · by_cases hv : e.v = k
        · simp [hv, Edge.touches]
        · have h1 := mem_shift_iff hm hu
          have h2 := mem_shift_iff hm hv
          simp only [Function.comp, shiftEdge, Edge.touches]
          rw [Bool.eq_iff_iff]
          simp [hu, hv, h1, h2]
    · intro e _ hq
      rw [contains_cons_false, contains_cons_false] at hq
      have hu : e.u ≠ k := by intro h; simp [h] at hq
      have hv : e.v ≠ k := by intro h; simp [h] at hq
      simp only [Function.comp, shiftEdge]
      rw [rank_shift hm hu, rank_shift hm hv]
  · simp only [deleteSet, removeMin, List.length_map, List.length_cons]
    omega

end TopSearch.Ktn

namespace TopSearch.Ktn
variable {δ : Type}

theorem deleteSet_nil (s : Ktn δ) :
    (deleteSet s []).nodes = s.nodes ∧ (deleteSet s []).edges = s.edges ∧
    (deleteSet s []).nMin = s.nMin := by
  simp [deleteSet, rank]

theorem removeLoop_eq (r : Bool) (l : List Nat) : ∀ (s : Ktn δ) (c : Nat), Inv s →
    l.Pairwise (· < ·) → (∀ k ∈ l, c ≤ k ∧ k - c < s.nMin) →
    (removeLoop r s c l).nodes = (deleteSet s (l.map (· - c))).nodes ∧
    (removeLoop r s c l).edges = (deleteSet s (l.map (· - c))).edges ∧
    (removeLoop r s c l).nMin = (deleteSet s (l.map (· - c))).nMin ∧
    Inv (removeLoop r s c l) := by
  induction l with
  | nil =>
    intro s c hs _ _
    obtain ⟨a, b, d⟩ := deleteSet_nil s
    exact ⟨a.symm, b.symm, d.symm, hs⟩
  | cons k0 l ih =>
    intro s c hs hp hb
    rw [List.pairwise_cons] at hp
    have hk0 := hb k0 (by simp)
    have hs1 : Inv (s.removeMin r (k0 - c)) := inv_removeMin r hs _ hk0.2
    have hb1 : ∀ k ∈ l, c + 1 ≤ k ∧ k - (c + 1) < (s.removeMin r (k0 - c)).nMin := by
      intro k hk
      have h1 := hp.1 k hk
      have h2 := hb k (by simp [hk])
      have : (s.removeMin r (k0 - c)).nMin = s.nMin - 1 := rfl
      rw [this]; omega
    obtain ⟨i1, i2, i3, i4⟩ := ih (s.removeMin r (k0 - c)) (c + 1) hs1 hp.2 hb1
    have hm : ∀ x ∈ l.map (· - c), k0 - c < x := by
      intro x hx
      simp only [List.mem_map] at hx
      obtain ⟨y, hy, rfl⟩ := hx
      have := hp.1 y hy
      omega
    obtain ⟨j1, j2, j3⟩ := deleteSet_removeMin r s hs (k0 - c) (l.map (· - c)) hm
    have hmm : (l.map (· - c)).map (· - 1) = l.map (· - (c + 1)) := by
      rw [List.map_map]; apply List.map_congr_left; intro a _; simp only [Function.comp]; omega
    rw [hmm] at j1 j2 j3
    simp only [removeLoop, List.map_cons]
    exact ⟨i1.trans j1, i2.trans j2, i3.trans j3, i4⟩

theorem insertSorted_eq (x : Nat) (l : List Nat) : insertSorted x l = l.orderedInsert (· ≤ ·) x := by
  induction l with
  | nil => rfl
  | cons y ys ih => simp [insertSorted, ih]

theorem sortNat_eq (l : List Nat) : sortNat l = l.insertionSort (· ≤ ·) := by
  induction l with
  | nil => rfl
  | cons y ys ih =>
    have : sortNat (y :: ys) = insertSorted y (sortNat ys) := rfl
    rw [this, ih, insertSorted_eq, List.insertionSort_cons]

theorem deleteSet_perm (s : Ktn δ) {a b : List Nat} (h : a.Perm b) :
    (deleteSet s a).nodes = (deleteSet s b).nodes ∧ (deleteSet s a).edges = (deleteSet s b).edges ∧
    (deleteSet s a).nMin = (deleteSet s b).nMin := by
  have hc : ∀ i, a.contains i = b.contains i := by
    intro i; rw [Bool.eq_iff_iff]; simp [h.mem_iff]
  have hr : ∀ i, rank a i = rank b i := by
    intro i; unfold rank; rw [(h.filter _).length_eq]
  simp only [deleteSet, hc, hr, h.length_eq, and_self]

end TopSearch.Ktn

namespace TopSearch.Ktn
variable {δ : Type}

theorem removeMinima_eq_delete (r : Bool) (s : Ktn δ) (hs : Inv s) (ks : List Nat)
    (hk : ∀ k ∈ ks, k < s.nMin) (hn : ks.Nodup) :
    (s.removeMinima r ks).nodes = (deleteSet s ks).nodes ∧
    (s.removeMinima r ks).edges = (deleteSet s ks).edges ∧
    (s.removeMinima r ks).nMin = (deleteSet s ks).nMin ∧
    Inv (s.removeMinima r ks) := by
  have hperm : (sortNat ks).Perm ks := by rw [sortNat_eq]; exact List.perm_insertionSort _ _
  have hsorted : (sortNat ks).Pairwise (· ≤ ·) := by
    rw [sortNat_eq]; exact List.pairwise_insertionSort _ _
  have hnd : (sortNat ks).Nodup := hperm.nodup_iff.2 hn
  have hlt : (sortNat ks).Pairwise (· < ·) := by
    have := hsorted.and hnd
    refine this.imp ?_
    intro a b h; omega
  have hb : ∀ k ∈ sortNat ks, 0 ≤ k ∧ k - 0 < s.nMin := by
    intro k hk'
    exact ⟨Nat.zero_le _, by simpa using hk k (hperm.mem_iff.1 hk')⟩
  obtain ⟨a, b, c, d⟩ := removeLoop_eq r (sortNat ks) s 0 hs hlt hb
  have hmap : (sortNat ks).map (· - 0) = sortNat ks := by simp
  rw [hmap] at a b c
  obtain ⟨p1, p2, p3⟩ := deleteSet_perm s hperm
  exact ⟨a.trans p1, b.trans p2, c.trans p3, d⟩

end TopSearch.Ktn

namespace TopSearch.Ktn
variable {δ : Type}

def distinctPairs (p q : Nat × Nat) : Prop := ¬ ((p.1 = q.1 ∧ p.2 = q.2) ∨ (p.1 = q.2 ∧ p.2 = q.1))

theorem hasEdge_removeTs {s : Ktn δ} {p q : Nat × Nat} (hd : distinctPairs p q)
    (hq : s.hasEdge q.1 q.2 = true) : (s.removeTs p.1 p.2).hasEdge q.1 q.2 = true := by
  rw [hasEdge_iff] at hq ⊢
  obtain ⟨e, he, hj⟩ := hq
  refine ⟨e, ?_, hj⟩
  simp only [removeTs, List.mem_filter]
  refine ⟨he, ?_⟩
  cases hp : Edge.joins e p.1 p.2
  · rfl
  · exfalso
    apply hd
    simp [Edge.joins] at hp hj
    rcases hp with ⟨a, b⟩ | ⟨a, b⟩ <;> rcases hj with ⟨c, d⟩ | ⟨c, d⟩ <;> simp_all

theorem inv_removeTss (ps : List (Nat × Nat)) : ∀ (s : Ktn δ), Inv s →
    (∀ p ∈ ps, s.hasEdge p.1 p.2 = true) → ps.Pairwise distinctPairs → Inv (s.removeTss ps) := by
  induction ps with
  | nil => intro s hs _ _; exact hs
  | cons p ps ih =>
    intro s hs h1 h2
    rw [List.pairwise_cons] at h2
    have hp := h1 p (by simp)
    have hs' := (inv_removeTs hs p.1 p.2 hp).1
    simp only [removeTss, List.foldl_cons]
    apply ih _ hs'
    · intro q hq
      exact hasEdge_removeTs (h2.1 q hq) (h1 q (by simp [hq]))
    · exact h2.2

theorem inv_step (cfg : Cfg) (hc : cfg.addTsCountsOnlyNew = true) {s : Ktn δ} (hs : Inv s)
    (op : Op δ) (hv : op.valid s = true) : Inv (step cfg s op) := by
  cases op with
  | addMin d => exact inv_addMin hs d
  | addTs d u v =>
    simp [Op.valid] at hv
    simp only [step, hc]
    exact inv_addTs hs d u v hv.1 hv.2
  | removeMin k =>
    simp [Op.valid] at hv
    exact inv_removeMin _ hs k hv
  | removeMinima ks =>
    simp [Op.valid] at hv
    exact (removeMinima_eq_delete _ s hs ks hv.1 hv.2).2.2.2
  | removeTs u v =>
    simp [Op.valid] at hv
    exact (inv_removeTs hs u v hv).1
  | removeTss ps =>
    simp [Op.valid] at hv
    refine inv_removeTss ps s hs (fun p hp => hv.1 p.1 p.2 hp) (hv.2.imp ?_)
    intro p q h; unfold distinctPairs; tauto
  | reset => exact inv_empty

theorem inv_run (cfg : Cfg) (hc : cfg.addTsCountsOnlyNew = true) (ops : List (Op δ)) :
    ∀ (s t : Ktn δ), Inv s → run cfg s ops = some t → Inv t := by
  induction ops with
  | nil => intro s t hs h; simp [run] at h; exact h ▸ hs
  | cons op ops ih =>
    intro s t hs h
    simp only [run] at h
    split at h
    · rename_i hv
      exact ih _ _ (inv_step cfg hc hs op hv) h
    · exact absurd h (by simp)

end TopSearch.Ktn

namespace TopSearch.Ktn
variable {δ : Type}

theorem nodeData_addMin {s : Ktn δ} (hs : Inv s) (d : δ) :
    (s.addMin d).nodeData? s.nMin = some d ∧
      ∀ a, a ≠ s.nMin → (s.addMin d).nodeData? a = s.nodeData? a := by
  rw [addMin_eq hs]
  have hnone : s.nodes.find? (fun nd => nd.label == s.nMin) = none := by
    rw [List.find?_eq_none]
    intro nd hnd
    have : nd.label ∈ s.nodes.map (·.label) := List.mem_map_of_mem hnd
    rw [hs.1] at this
    simp at this ⊢; omega
  constructor
  · simp [nodeData?, List.find?_append, hnone]
  · intro a ha
    have : ((s.nMin == a) = false) := by simp; exact fun h => ha h.symm
    simp [nodeData?, List.find?_append, List.find?_cons, this]

theorem joins_swap_false {a b u v : Nat} {d d' : δ}
    (h : Edge.joins (⟨a, b, d⟩ : Edge δ) u v = false) :
    Edge.joins (⟨u, v, d'⟩ : Edge δ) a b = false := by
  simp [Edge.joins] at h ⊢
  constructor
  · intro h1 h2; exact absurd h2.symm (h.1 h1.symm)
  · intro h1 h2; exact absurd h1.symm (h.2 h2.symm)

theorem edgeData_addTs (c : Bool) (s : Ktn δ) (d : δ) (u v : Nat) :
    (s.addTs c d u v).edgeData? u v = some d ∧ (s.addTs c d u v).edgeData? v u = some d ∧
      (s.addTs c d u v).nodes = s.nodes ∧
      ∀ a b, Edge.joins (⟨a, b, d⟩ : Edge δ) u v = false →
        (s.addTs c d u v).edgeData? a b = s.edgeData? a b := by
  unfold addTs
  split
  · rename_i h
    obtain ⟨e0, he0, hj0⟩ := (hasEdge_iff s u v).1 h
    have hfind : ∀ a b, (s.edges.map (fun e => if Edge.joins e u v then { e with data := d } else e)).find?
        (Edge.joins · a b) = (s.edges.find? (Edge.joins · a b)).map
          (fun e => if Edge.joins e u v then { e with data := d } else e) := by
      intro a b
      rw [List.find?_map]
      congr 1
      have : ((fun x => Edge.joins x a b) ∘ fun (e : Edge δ) => if Edge.joins e u v then { e with data := d } else e)
          = (fun x => Edge.joins x a b) := by
        funext e; simp [Function.comp]
      rw [this]
    have huv : ∃ e1, s.edges.find? (Edge.joins · u v) = some e1 ∧ Edge.joins e1 u v = true := by
      cases hf : s.edges.find? (Edge.joins · u v) with
      | none =>
        rw [List.find?_eq_none] at hf
        exact absurd hj0 (by simpa using hf e0 he0)
      | some e1 => exact ⟨e1, rfl, by simpa using List.find?_some hf⟩
    obtain ⟨e1, hf1, hj1⟩ := huv
    refine ⟨?_, ?_, rfl, ?_⟩
    · simp [edgeData?, hfind, hf1, hj1]
    · have : (fun (e : Edge δ) => Edge.joins e v u) = (fun e => Edge.joins e u v) := by
        funext e; exact joins_comm e v u
      simp [edgeData?, hfind, this, hf1, hj1]
    · intro a b hab
      simp only [edgeData?, hfind]
      cases hf : s.edges.find? (Edge.joins · a b) with
      | none => rfl
      | some e2 =>
        have hj2 : Edge.joins e2 a b = true := by simpa using List.find?_some hf
        have : Edge.joins e2 u v = false := by
          cases hx : Edge.joins e2 u v
          · rfl
          · exfalso
            simp [Edge.joins] at hab hj2 hx
            rcases hj2 with ⟨p, q⟩ | ⟨p, q⟩ <;> rcases hx with ⟨p', q'⟩ | ⟨p', q'⟩ <;> simp_all
        simp [this]
  · rename_i h
    have h' : s.hasEdge u v = false := by simpa using h
    rw [hasEdge_false_iff] at h'
    have hnone : s.edges.find? (Edge.joins · u v) = none := by
      rw [List.find?_eq_none]; intro e he; simp [h' e he]
    have hnone' : s.edges.find? (Edge.joins · v u) = none := by
      rw [List.find?_eq_none]; intro e he; rw [joins_comm]; simp [h' e he]
    refine ⟨?_, ?_, rfl, ?_⟩
    · have hn : Edge.joins (⟨u, v, d⟩ : Edge δ) u v = true := by simp [Edge.joins]
      simp only [edgeData?, List.find?_append, hnone]
      simp [List.find?_cons, hn]
    · have hn : Edge.joins (⟨u, v, d⟩ : Edge δ) v u = true := by simp [Edge.joins]
      simp only [edgeData?, List.find?_append, hnone']
      simp [List.find?_cons, hn]
    · intro a b hab
      have := joins_swap_false (d' := d) hab
      simp [edgeData?, List.find?_append, List.find?_cons, this]

end TopSearch.Ktn
