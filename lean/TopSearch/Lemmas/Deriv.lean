/-
  Reflective differentiation for the embedded expression language `TopSearch.Py.E`
  (rational fragment): the symbolic derivative `E.d` is the derivative of `eval`, once and
  for all, by induction on the expression.  Used by Props/C16 for every coded gradient/Hessian
  the translator regenerates from the source.
-/
import TopSearch.Py.Expr
import Mathlib.Analysis.Calculus.Deriv.Pow
import Mathlib.Analysis.Calculus.Deriv.Mul
import Mathlib.Analysis.Calculus.Deriv.Add
import Mathlib.Analysis.Calculus.Deriv.Inv
import Mathlib.Tactic.Ring
import Mathlib.Tactic.FieldSimp

namespace TopSearch.Py
open TopSearch.Py

/-- evaluation over the reals; named functions are not interpreted (rational fragment) -/
noncomputable def evalR (ρ : ℕ → ℝ) (e : E) : ℝ := E.eval (α := ℝ) (fun _ x => x) ρ e

theorem npow_eq {α : Type} [Semiring α] (x : α) (n : ℕ) : npow x n = x ^ n := by
  induction n with
  | zero => simp [npow]
  | succ n ih => simp [npow, ih, pow_succ]

@[simp] theorem evalR_c (ρ) (n : ℤ) (d : ℕ) : evalR ρ (.c n d) = (n : ℝ) / (d : ℝ) := rfl
@[simp] theorem evalR_v (ρ) (i : ℕ) : evalR ρ (.v i) = ρ i := rfl
@[simp] theorem evalR_add (ρ) (a b : E) : evalR ρ (.add a b) = evalR ρ a + evalR ρ b := rfl
@[simp] theorem evalR_sub (ρ) (a b : E) : evalR ρ (.sub a b) = evalR ρ a - evalR ρ b := rfl
@[simp] theorem evalR_mul (ρ) (a b : E) : evalR ρ (.mul a b) = evalR ρ a * evalR ρ b := rfl
@[simp] theorem evalR_div (ρ) (a b : E) : evalR ρ (.div a b) = evalR ρ a / evalR ρ b := rfl
@[simp] theorem evalR_neg (ρ) (a : E) : evalR ρ (.neg a) = - evalR ρ a := rfl
@[simp] theorem evalR_pow (ρ) (a : E) (n : ℕ) : evalR ρ (.pow a n) = evalR ρ a ^ n := by
  show npow _ n = _
  rw [npow_eq]; rfl

/-- every denominator is non-zero at `ρ`, and no named function occurs -/
def E.ok (ρ : ℕ → ℝ) : E → Prop
  | .c _ _ | .v _ => True
  | .add a b | .sub a b | .mul a b => a.ok ρ ∧ b.ok ρ
  | .div a b => a.ok ρ ∧ b.ok ρ ∧ evalR ρ b ≠ 0
  | .neg a | .pow a _ => a.ok ρ
  | .fn _ _ => False

/-- Soundness of symbolic differentiation: for every expression without a vanishing
    denominator, `d i e` evaluates to the partial derivative of `eval e` in variable `i`. -/
theorem E.sound (i : ℕ) (e : E) : ∀ ρ : ℕ → ℝ, e.ok ρ →
    HasDerivAt (fun t => evalR (Function.update ρ i t) e) (evalR ρ (e.d i)) (ρ i) := by
  induction e with
  | c n d => intro ρ _; simpa [E.d] using hasDerivAt_const (ρ i) ((n : ℝ) / (d : ℝ))
  | v j =>
    intro ρ _
    by_cases h : i = j
    · subst h
      simpa [E.d] using hasDerivAt_id' (ρ i)
    · have : (fun t => evalR (Function.update ρ i t) (.v j)) = fun _ => ρ j := by
        funext t; simp [Function.update_of_ne (Ne.symm h)]
      rw [this]
      simpa [E.d, h] using hasDerivAt_const (ρ i) (ρ j)
  | add a b iha ihb =>
    intro ρ h
    have := (iha ρ h.1).add (ihb ρ h.2)
    simp only [E.d, evalR_add]
    exact this
  | sub a b iha ihb =>
    intro ρ h
    have := (iha ρ h.1).sub (ihb ρ h.2)
    simp only [E.d, evalR_sub]
    exact this
  | mul a b iha ihb =>
    intro ρ h
    have := (iha ρ h.1).mul (ihb ρ h.2)
    simp only [Function.update_eq_self] at this
    simp only [E.d, evalR_add, evalR_mul]
    exact this
  | div a b iha ihb =>
    intro ρ h
    have hb : evalR (Function.update ρ i (ρ i)) b ≠ 0 := by
      simpa [Function.update_eq_self] using h.2.2
    have := (iha ρ h.1).div (ihb ρ h.2.1) hb
    simp only [Function.update_eq_self] at this
    simp only [E.d, evalR_div, evalR_sub, evalR_mul, evalR_pow]
    exact this
  | neg a iha =>
    intro ρ h
    have := (iha ρ h).neg
    simp only [E.d, evalR_neg]
    exact this
  | pow a n iha =>
    intro ρ h
    have := (iha ρ h).pow n
    simp only [Function.update_eq_self] at this
    simp only [E.d, evalR_mul, evalR_pow, evalR_c]
    refine this.congr_deriv ?_
    simp
  | fn f a _ => intro ρ h; exact absurd h (by simp [E.ok])

/-- evaluation over the reals with an arbitrary interpretation of the named functions
    (`sqrt`, `exp`, … are never interpreted by the model) -/
noncomputable def evalF (fnI : Fn → ℝ → ℝ) (ρ : ℕ → ℝ) (e : E) : ℝ := E.eval (α := ℝ) fnI ρ e
@[simp] theorem evalF_c (f ρ) (n : ℤ) (d : ℕ) : evalF f ρ (.c n d) = (n : ℝ) / (d : ℝ) := rfl
@[simp] theorem evalF_v (f ρ) (i : ℕ) : evalF f ρ (.v i) = ρ i := rfl
@[simp] theorem evalF_add (f ρ) (a b : E) : evalF f ρ (.add a b) = evalF f ρ a + evalF f ρ b := rfl
@[simp] theorem evalF_sub (f ρ) (a b : E) : evalF f ρ (.sub a b) = evalF f ρ a - evalF f ρ b := rfl
@[simp] theorem evalF_mul (f ρ) (a b : E) : evalF f ρ (.mul a b) = evalF f ρ a * evalF f ρ b := rfl
@[simp] theorem evalF_div (f ρ) (a b : E) : evalF f ρ (.div a b) = evalF f ρ a / evalF f ρ b := rfl
@[simp] theorem evalF_neg (f ρ) (a : E) : evalF f ρ (.neg a) = - evalF f ρ a := rfl
@[simp] theorem evalF_fn (f ρ) (g : Fn) (a : E) : evalF f ρ (.fn g a) = f g (evalF f ρ a) := rfl
@[simp] theorem evalF_pow (f ρ) (a : E) (n : ℕ) : evalF f ρ (.pow a n) = evalF f ρ a ^ n := by
  show npow _ n = _
  rw [npow_eq]; rfl

end TopSearch.Py
