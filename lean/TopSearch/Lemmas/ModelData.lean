/-
  Helper lemmas for the dataset model (used by Props/C19.lean):
  the duplicate scans at index level, `np.delete`, sums / means / variances over an ordered
  field, the element-wise round trips.
-/
import TopSearch.Model.ModelData
import Mathlib.Algebra.Order.Field.Basic
import Mathlib.Data.List.Range
import Mathlib.Data.List.Pairwise
import Mathlib.Data.List.Nodup
import Mathlib.Tactic.Ring
import Mathlib.Tactic.Linarith
import Mathlib.Tactic.FieldSimp
import Mathlib.Tactic.Positivity

set_option linter.unusedSectionVars false
set_option linter.unusedVariables false

namespace TopSearch.ModelData

/-! ### the retained-point scan -/
section scan
variable (close : Nat → Nat → Bool)

theorem scan_ret_prefix (js ret rep : List Nat) : ret <+: (scanRetained close js ret rep).1 := by
  induction js generalizing ret rep with
  | nil => simp [scanRetained]
  | cons j js ih =>
    simp only [scanRetained]
    split
    · exact ih _ _
    · exact (List.prefix_append _ _).trans (ih _ _)

theorem scan_rep_prefix (js ret rep : List Nat) : rep <+: (scanRetained close js ret rep).2 := by
  induction js generalizing ret rep with
  | nil => simp [scanRetained]
  | cons j js ih =>
    simp only [scanRetained]
    split
    · exact (List.prefix_append _ _).trans (ih _ _)
    · exact ih _ _

theorem scan_rep_subset (js ret rep : List Nat) :
    ∀ x ∈ (scanRetained close js ret rep).2, x ∈ rep ∨ x ∈ js := by
  induction js generalizing ret rep with
  | nil => intro x hx; simpa [scanRetained] using hx
  | cons j js ih =>
    intro x hx
    simp only [scanRetained] at hx
    split at hx
    · rcases ih _ _ x hx with h | h
      · rcases List.mem_append.mp h with h | h
        · exact Or.inl h
        · right; simp at h; simp [h]
      · right; simp [h]
    · rcases ih _ _ x hx with h | h
      · exact Or.inl h
      · right; simp [h]

theorem scan_ret_subset (js ret rep : List Nat) :
    ∀ x ∈ (scanRetained close js ret rep).1, x ∈ ret ∨ x ∈ js := by
  induction js generalizing ret rep with
  | nil => intro x hx; simpa [scanRetained] using hx
  | cons j js ih =>
    intro x hx
    simp only [scanRetained] at hx
    split at hx
    · rcases ih _ _ x hx with h | h
      · exact Or.inl h
      · right; simp [h]
    · rcases ih _ _ x hx with h | h
      · rcases List.mem_append.mp h with h | h
        · exact Or.inl h
        · right; simp at h; simp [h]
      · right; simp [h]

/-- no two retained points are close (earlier against later) -/
theorem scan_sound (js ret rep : List Nat) (h : ret.Pairwise (fun i j => close i j = false)) :
    (scanRetained close js ret rep).1.Pairwise (fun i j => close i j = false) := by
  induction js generalizing ret rep with
  | nil => simpa [scanRetained] using h
  | cons j js ih =>
    simp only [scanRetained]
    split
    · exact ih _ _ h
    · rename_i hany
      apply ih
      rw [List.pairwise_append]
      refine ⟨h, by simp, ?_⟩
      intro a ha b hb
      simp only [List.mem_singleton] at hb
      subst hb
      cases hc : close a b
      · rfl
      · exact absurd (List.any_eq_true.mpr ⟨a, ha, hc⟩) hany

/-- every repeated point is close to an earlier retained point -/
theorem scan_minimal (js ret rep : List Nat) (hlt : ∀ i ∈ ret, ∀ j ∈ js, i < j)
    (hjs : js.Pairwise (· < ·)) :
    ∀ j ∈ (scanRetained close js ret rep).2,
      j ∈ rep ∨ ∃ i ∈ (scanRetained close js ret rep).1, i < j ∧ close i j = true := by
  induction js generalizing ret rep with
  | nil => intro j hj; left; simpa [scanRetained] using hj
  | cons j0 js ih =>
    have hjs' := (List.pairwise_cons.mp hjs)
    intro j hj
    simp only [scanRetained] at hj ⊢
    split at hj
    · rename_i hany
      rw [if_pos hany]
      have hlt' : ∀ i ∈ ret, ∀ j ∈ js, i < j := fun i hi j hj => hlt i hi j (by simp [hj])
      rcases ih ret (rep ++ [j0]) hlt' hjs'.2 j hj with h | h
      · rcases List.mem_append.mp h with h | h
        · exact Or.inl h
        · right
          simp only [List.mem_singleton] at h
          subst h
          obtain ⟨i, hi, hc⟩ := List.any_eq_true.mp hany
          exact ⟨i, (scan_ret_prefix close js ret _).subset hi, hlt i hi j (by simp), hc⟩
      · exact Or.inr h
    · rename_i hany
      rw [if_neg hany]
      have hlt' : ∀ i ∈ ret ++ [j0], ∀ j ∈ js, i < j := by
        intro i hi j' hj'
        rcases List.mem_append.mp hi with hi | hi
        · exact hlt i hi j' (by simp [hj'])
        · simp only [List.mem_singleton] at hi
          rw [hi]
          exact hjs'.1 j' hj'
      exact ih (ret ++ [j0]) rep hlt' hjs'.2 j hj

/-- the retained list is the scanned list with the repeated points filtered out -/
theorem scan_ret_eq_filter (js ret rep : List Nat) (hnd : js.Nodup) (hdis : ∀ j ∈ js, j ∉ rep) :
    (scanRetained close js ret rep).1 =
      ret ++ js.filter (fun j => !((scanRetained close js ret rep).2.contains j)) := by
  induction js generalizing ret rep with
  | nil => simp [scanRetained]
  | cons j0 js ih =>
    have hnd' := List.nodup_cons.mp hnd
    simp only [scanRetained]
    split
    · have hdis' : ∀ j ∈ js, j ∉ rep ++ [j0] := by
        intro j hj hmem
        rcases List.mem_append.mp hmem with h | h
        · exact hdis j (by simp [hj]) h
        · simp only [List.mem_singleton] at h
          subst h
          exact hnd'.1 hj
      have hmem : j0 ∈ (scanRetained close js ret (rep ++ [j0])).2 :=
        (scan_rep_prefix close js ret _).subset (by simp)
      have e := ih ret (rep ++ [j0]) hnd'.2 hdis'
      rw [List.filter_cons, if_neg (by simp [hmem])]
      exact e
    · have hdis' : ∀ j ∈ js, j ∉ rep := fun j hj => hdis j (by simp [hj])
      have hnot : j0 ∉ (scanRetained close js (ret ++ [j0]) rep).2 := by
        intro hmem
        rcases scan_rep_subset close js _ _ j0 hmem with h | h
        · exact hdis j0 (by simp) h
        · exact hnd'.1 h
      have e := ih (ret ++ [j0]) rep hnd'.2 hdis'
      rw [List.filter_cons, if_pos (by simp [hnot])]
      rw [e]
      simp

end scan

/-! ### np.delete -/

theorem deleteIdxFrom_eq {β : Type} (idx : List Nat) (k : Nat) (xs : List β) (d : β) :
    deleteIdxFrom idx k xs =
      ((List.range' k xs.length).filter (fun i => !idx.contains i)).map
        (fun i => xs.getD (i - k) d) := by
  induction xs generalizing k with
  | nil => simp [deleteIdxFrom]
  | cons x xs ih =>
    have htail : ((List.range' (k + 1) xs.length).filter (fun i => !idx.contains i)).map
          (fun i => (x :: xs).getD (i - k) d) =
        ((List.range' (k + 1) xs.length).filter (fun i => !idx.contains i)).map
          (fun i => xs.getD (i - (k + 1)) d) := by
      apply List.map_congr_left
      intro i hi
      have hi' := (List.mem_filter.mp hi).1
      have hk : k + 1 ≤ i := (List.mem_range'_1.mp hi').1
      have : i - k = (i - (k + 1)) + 1 := by omega
      rw [this, List.getD_cons_succ]
    simp only [deleteIdxFrom, List.length_cons, List.range'_succ, List.filter_cons]
    by_cases h : idx.contains k = true
    · simp only [h, if_true, Bool.not_true, Bool.false_eq_true, if_false]
      rw [ih (k + 1), htail]
    · have h' : idx.contains k = false := by simpa using h
      simp only [h', Bool.false_eq_true, if_false, Bool.not_false, if_true, List.map_cons]
      rw [ih (k + 1), htail]
      simp

theorem npDelete_eq {β : Type} (xs : List β) (idx : List Nat) (d : β) :
    npDelete xs idx =
      ((List.range xs.length).filter (fun i => !idx.contains i)).map (fun i => xs.getD i d) := by
  unfold npDelete
  rw [deleteIdxFrom_eq idx 0 xs d, List.range_eq_range']
  simp

theorem keep_sorted (n : Nat) (idx : List Nat) :
    ((List.range n).filter (fun i => !idx.contains i)).Pairwise (· < ·) :=
  List.Pairwise.sublist List.filter_sublist List.pairwise_lt_range

theorem keep_lt (n : Nat) (idx : List Nat) :
    ∀ i ∈ (List.range n).filter (fun i => !idx.contains i), i < n := by
  intro i hi
  exact List.mem_range.mp (List.mem_filter.mp hi).1

/-! ### sums, means, variances over an ordered field -/
section field
variable {α : Type} [Field α] [LinearOrder α] [IsStrictOrderedRing α]

@[simp] theorem sum_nil : sum ([] : List α) = 0 := by simp [sum]
@[simp] theorem sum_cons (x : α) (xs : List α) : sum (x :: xs) = x + sum xs := rfl

theorem sum_map_div (f : α → α) (c : α) (xs : List α) :
    sum (xs.map (fun x => f x / c)) = sum (xs.map f) / c := by
  induction xs with
  | nil => simp
  | cons x xs ih => simp only [List.map_cons, sum_cons, ih]; ring

theorem sum_map_sub_const (c : α) (xs : List α) :
    sum (xs.map (fun x => x - c)) = sum xs - (xs.length : α) * c := by
  induction xs with
  | nil => simp
  | cons x xs ih => simp only [List.map_cons, sum_cons, ih, List.length_cons]; push_cast; ring

theorem sum_const (c : α) (xs : List α) (h : ∀ x ∈ xs, x = c) : sum xs = (xs.length : α) * c := by
  induction xs with
  | nil => simp
  | cons x xs ih =>
    have hx : x = c := h x (by simp)
    have := ih (fun y hy => h y (by simp [hy]))
    simp only [sum_cons, this, List.length_cons, hx]; push_cast; ring

theorem sum_sq_nonneg (xs : List α) : 0 ≤ sum (xs.map sq) := by
  induction xs with
  | nil => simp
  | cons x xs ih =>
    simp only [List.map_cons, sum_cons]
    exact add_nonneg (mul_self_nonneg x) ih

theorem sum_sq_eq_zero (xs : List α) : sum (xs.map sq) = 0 ↔ ∀ x ∈ xs, x = 0 := by
  induction xs with
  | nil => simp
  | cons x xs ih =>
    simp only [List.map_cons, sum_cons, List.mem_cons, forall_eq_or_imp]
    have hx : 0 ≤ sq x := mul_self_nonneg x
    rw [add_eq_zero_iff_of_nonneg hx (sum_sq_nonneg xs), ih]
    simp [sq]

theorem length_ne_zero {xs : List α} (h : xs ≠ []) : ((xs.length : Nat) : α) ≠ 0 := by
  have : 0 < xs.length := List.length_pos_iff.mpr h
  exact_mod_cast (Nat.pos_iff_ne_zero.mp this)

theorem mean_mul_length {xs : List α} (h : xs ≠ []) : (xs.length : α) * mean xs = sum xs := by
  unfold mean
  field_simp [length_ne_zero h]

/-- the variance written with sums -/
theorem var_eq (xs : List α) :
    var xs = sum ((xs.map (fun x => x - mean xs)).map sq) / (xs.length : α) := by
  simp [var, mean, List.map_map, Function.comp_def]

/-! ### element-wise round trips -/

theorem unstd_std (x m s : α) (h : s ≠ 0) : unstdF (stdF x m s) m s = x := by
  unfold unstdF stdF; field_simp; ring

theorem unnorm_norm (x lo hi : α) (h : hi ≠ lo) : unnormF (normF x lo hi) lo hi = x := by
  have : hi - lo ≠ 0 := sub_ne_zero.mpr h
  unfold unnormF normF; field_simp; ring

theorem map_roundtrip (f g : α → α) (h : ∀ x, g (f x) = x) (xs : List α) :
    (xs.map f).map g = xs := by
  rw [List.map_map]
  conv_rhs => rw [← List.map_id xs]
  exact List.map_congr_left (fun x _ => by simp [h])

theorem zip3_roundtrip (f g : α → α → α → α) :
    ∀ (r a b : List α), r.length = a.length → r.length = b.length →
      (∀ p ∈ a.zip b, ∀ x, g (f x p.1 p.2) p.1 p.2 = x) →
      zip3With g (zip3With f r a b) a b = r
  | [], _, _, _, _, _ => by simp [zip3With]
  | x :: xs, [], _, ha, _, _ => by simp at ha
  | x :: xs, _ :: _, [], _, hb, _ => by simp at hb
  | x :: xs, a :: as, b :: bs, ha, hb, h => by
    simp only [zip3With]
    rw [h (a, b) (by simp) x]
    rw [zip3_roundtrip f g xs as bs (by simpa using ha) (by simpa using hb)
      (fun p hp => h p (by simp [hp]))]

theorem zip3_length (f : α → α → α → α) :
    ∀ (r a b : List α), r.length = a.length → r.length = b.length →
      (zip3With f r a b).length = r.length
  | [], _, _, _, _ => by simp [zip3With]
  | x :: xs, [], _, ha, _ => by simp at ha
  | x :: xs, _ :: _, [], _, hb => by simp at hb
  | x :: xs, a :: as, b :: bs, ha, hb => by
    simp only [zip3With, List.length_cons]
    rw [zip3_length f xs as bs (by simpa using ha) (by simpa using hb)]

theorem colStat_length (f : List α → α) (d : Nat) (t : List (List α)) :
    (colStat f d t).length = d := by simp [colStat]

/-- per-feature standardise then unstandardise restores a rectangular table -/
theorem train_std_roundtrip (t : List (List α)) (ms σs : List α) (d : Nat)
    (hrect : ∀ r ∈ t, r.length = d) (hm : ms.length = d) (hσ : σs.length = d)
    (hnz : ∀ σ ∈ σs, σ ≠ 0) :
    (t.map (fun r => zip3With stdF r ms σs)).map (fun r => zip3With unstdF r ms σs) = t := by
  rw [List.map_map]
  conv_rhs => rw [← List.map_id t]
  apply List.map_congr_left
  intro r hr
  simp only [Function.comp, id]
  apply zip3_roundtrip
  · rw [hrect r hr, hm]
  · rw [hrect r hr, hσ]
  · intro p hp x
    exact unstd_std x p.1 p.2 (hnz p.2 (List.of_mem_zip hp).2)

theorem train_norm_roundtrip (t : List (List α)) (los his : List α) (d : Nat)
    (hrect : ∀ r ∈ t, r.length = d) (hl : los.length = d) (hh : his.length = d)
    (hnz : ∀ p ∈ los.zip his, p.2 ≠ p.1) :
    (t.map (fun r => zip3With normF r los his)).map (fun r => zip3With unnormF r los his) = t := by
  rw [List.map_map]
  conv_rhs => rw [← List.map_id t]
  apply List.map_congr_left
  intro r hr
  simp only [Function.comp, id]
  apply zip3_roundtrip
  · rw [hrect r hr, hl]
  · rw [hrect r hr, hh]
  · intro p hp x
    exact unnorm_norm x p.1 p.2 (hnz p hp)

end field

end TopSearch.ModelData
