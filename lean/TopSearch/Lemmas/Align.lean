/-
  Helper lemmas for C11 (TopSearch.Model.Align): the group-by-group permutation assembly.

  * `step`, `fold_notin`, `fold_in`: one write of the group loop, lookup characterisation of the fold
  * `assembleGroup_eq`: with a Hungarian answer that is a permutation of `range |g|`, both branches
    of `assembleGroup` are the fold (the singleton branch forces `col = [0]`)
  * `assembleGroup_notin`, `assembleGroup_mem`, `assembleGroup_mem_group`, `assembleGroup_indep`,
    `assembleGroup_inj`: what one group writes
  * `asm`, `assemble_eq`, `asm_notin`, `asm_in`, `group_unique`: all groups in turn
-/
import TopSearch.Model.Align
import Mathlib.Data.List.Basic
import Mathlib.Data.List.Nodup
import Mathlib.Data.List.Perm.Basic
import Mathlib.Data.List.Range

namespace TopSearch.Lemmas.Align
open TopSearch.Align

/-- one write of the group loop: `perm[ac.1] := G[ac.2]` -/
def step (G : List Nat) (p : Nat → Nat) (ac : Nat × Nat) : Nat → Nat :=
  fun x => if x = ac.1 then G.getD ac.2 0 else p x

theorem fold_notin (G : List Nat) (l : List (Nat × Nat)) (p : Nat → Nat) (x : Nat)
    (h : ∀ ac ∈ l, ac.1 ≠ x) : l.foldl (step G) p x = p x := by
  induction l generalizing p with
  | nil => rfl
  | cons hd tl ih =>
    rw [List.foldl_cons, ih _ (fun ac hac => h ac (List.mem_cons_of_mem _ hac))]
    have hne : x ≠ hd.1 := fun e => h hd List.mem_cons_self e.symm
    simp [step, hne]

theorem fold_in (G : List Nat) (l : List (Nat × Nat)) (p : Nat → Nat) (ac : Nat × Nat)
    (hnd : (l.map Prod.fst).Nodup) (hac : ac ∈ l) :
    l.foldl (step G) p ac.1 = G.getD ac.2 0 := by
  induction l generalizing p with
  | nil => cases hac
  | cons hd tl ih =>
    rw [List.map_cons, List.nodup_cons] at hnd
    rw [List.foldl_cons]
    rcases List.mem_cons.1 hac with rfl | h
    · rw [fold_notin]
      · simp [step]
      · intro ac' h' e
        exact hnd.1 (e ▸ List.mem_map_of_mem h')
    · exact ih _ hnd.2 h

theorem assembleGroup_eq (p : Nat → Nat) (g col : List Nat)
    (hc : col.Perm (List.range g.length)) :
    assembleGroup p g col = (g.zip col).foldl (step g) p := by
  match g, hc with
  | [], _ => rfl
  | [a], hc =>
    have h0 : col = [0] := by simpa using hc
    subst h0
    funext x
    simp [assembleGroup, step]
  | a :: b :: t, _ => rfl

theorem assembleGroup_notin (p : Nat → Nat) (g col : List Nat) (x : Nat)
    (hc : col.Perm (List.range g.length)) (hx : x ∉ g) : assembleGroup p g col x = p x := by
  rw [assembleGroup_eq _ _ _ hc]
  apply fold_notin
  intro ac hac e
  exact hx (e ▸ (List.of_mem_zip (a := ac.1) (b := ac.2) hac).1)

theorem assembleGroup_mem (g col : List Nat) (x : Nat) (hnd : g.Nodup)
    (hc : col.Perm (List.range g.length)) (hx : x ∈ g) :
    ∃ c, (x, c) ∈ g.zip col ∧ c < g.length ∧ ∀ p, assembleGroup p g col x = g.getD c 0 := by
  have hlen : col.length = g.length := by simpa using hc.length_eq
  obtain ⟨i, hi, rfl⟩ := List.getElem_of_mem hx
  have hi' : i < col.length := hlen ▸ hi
  have hmem : (g[i], col[i]) ∈ g.zip col := by
    refine List.mem_iff_getElem.2 ⟨i, by simp [hlen, hi], by simp⟩
  refine ⟨col[i], hmem, ?_, fun p => ?_⟩
  · exact List.mem_range.1 (hc.mem_iff.1 (List.getElem_mem hi'))
  · rw [assembleGroup_eq _ _ _ hc]
    refine fold_in g _ p (g[i], col[i]) ?_ hmem
    rw [List.map_fst_zip (by omega)]
    exact hnd

theorem assembleGroup_mem_group (p : Nat → Nat) (g col : List Nat) (x : Nat) (hnd : g.Nodup)
    (hc : col.Perm (List.range g.length)) (hx : x ∈ g) : assembleGroup p g col x ∈ g := by
  obtain ⟨c, _, hlt, h⟩ := assembleGroup_mem g col x hnd hc hx
  rw [h p, ← List.getElem_eq_getD (h := hlt) 0]
  exact List.getElem_mem hlt

theorem assembleGroup_indep (p q : Nat → Nat) (g col : List Nat) (x : Nat) (hnd : g.Nodup)
    (hc : col.Perm (List.range g.length)) (hx : x ∈ g) :
    assembleGroup p g col x = assembleGroup q g col x := by
  obtain ⟨c, _, _, h⟩ := assembleGroup_mem g col x hnd hc hx
  rw [h p, h q]

theorem assembleGroup_inj (p : Nat → Nat) (g col : List Nat) (x y : Nat) (hnd : g.Nodup)
    (hc : col.Perm (List.range g.length)) (hx : x ∈ g) (hy : y ∈ g)
    (h : assembleGroup p g col x = assembleGroup p g col y) : x = y := by
  have hlen : col.length = g.length := by simpa using hc.length_eq
  obtain ⟨c, hc1, hc2, hc3⟩ := assembleGroup_mem g col x hnd hc hx
  obtain ⟨c', hc1', hc2', hc3'⟩ := assembleGroup_mem g col y hnd hc hy
  rw [hc3 p, hc3' p, ← List.getElem_eq_getD (h := hc2) 0, ← List.getElem_eq_getD (h := hc2') 0] at h
  have hcc : c = c' := (hnd.getElem_inj_iff).1 h
  subst hcc
  have hsnd : ((g.zip col).map Prod.snd).Nodup := by
    rw [List.map_snd_zip (by omega)]
    exact hc.nodup_iff.2 List.nodup_range
  exact congrArg Prod.fst (List.inj_on_of_nodup_map hsnd hc1 hc1' rfl)

/-! ### all groups in turn -/

/-- the outer loop from an arbitrary starting vector -/
def asm (gcs : List (List Nat × List Nat)) (p : Nat → Nat) : Nat → Nat :=
  gcs.foldl (fun p gc => assembleGroup p gc.1 gc.2) p

theorem assemble_eq (groups cols : List (List Nat)) :
    assemble groups cols = asm (groups.zip cols) (fun _ => 0) := rfl

theorem asm_cons (hd : List Nat × List Nat) (tl : List (List Nat × List Nat)) (p : Nat → Nat) :
    asm (hd :: tl) p = asm tl (assembleGroup p hd.1 hd.2) := rfl

theorem asm_notin (gcs : List (List Nat × List Nat)) (p : Nat → Nat) (x : Nat)
    (hcol : ∀ gc ∈ gcs, gc.2.Perm (List.range gc.1.length))
    (hx : ∀ gc ∈ gcs, x ∉ gc.1) : asm gcs p x = p x := by
  induction gcs generalizing p with
  | nil => rfl
  | cons hd tl ih =>
    rw [asm_cons, ih _ (fun gc h => hcol gc (List.mem_cons_of_mem _ h))
      (fun gc h => hx gc (List.mem_cons_of_mem _ h))]
    exact assembleGroup_notin _ _ _ _ (hcol hd List.mem_cons_self) (hx hd List.mem_cons_self)

theorem asm_in (gcs : List (List Nat × List Nat)) (p : Nat → Nat) (gc : List Nat × List Nat)
    (x : Nat) (hnd : ∀ gc ∈ gcs, gc.1.Nodup)
    (hcol : ∀ gc ∈ gcs, gc.2.Perm (List.range gc.1.length))
    (hdisj : (gcs.map Prod.fst).Pairwise List.Disjoint) (hgc : gc ∈ gcs) (hx : x ∈ gc.1) :
    asm gcs p x = assembleGroup (fun _ => 0) gc.1 gc.2 x := by
  induction gcs generalizing p with
  | nil => cases hgc
  | cons hd tl ih =>
    rw [List.map_cons, List.pairwise_cons] at hdisj
    have hcol' : ∀ gc ∈ tl, gc.2.Perm (List.range gc.1.length) :=
      fun gc h => hcol gc (List.mem_cons_of_mem _ h)
    rw [asm_cons]
    rcases List.mem_cons.1 hgc with rfl | h
    · rw [asm_notin _ _ _ hcol']
      · exact assembleGroup_indep _ _ _ _ _ (hnd _ List.mem_cons_self)
          (hcol _ List.mem_cons_self) hx
      · intro gc' h' hx'
        exact hdisj.1 gc'.1 (List.mem_map_of_mem h') hx hx'
    · exact ih _ (fun gc h => hnd gc (List.mem_cons_of_mem _ h)) hcol' hdisj.2 h

theorem group_unique (gcs : List (List Nat × List Nat))
    (hdisj : (gcs.map Prod.fst).Pairwise List.Disjoint) (gc1 gc2 : List Nat × List Nat)
    (h1 : gc1 ∈ gcs) (h2 : gc2 ∈ gcs) (x : Nat) (hx1 : x ∈ gc1.1) (hx2 : x ∈ gc2.1) :
    gc1 = gc2 := by
  induction gcs with
  | nil => cases h1
  | cons hd tl ih =>
    rw [List.map_cons, List.pairwise_cons] at hdisj
    rcases List.mem_cons.1 h1 with rfl | h1' <;> rcases List.mem_cons.1 h2 with rfl | h2'
    · rfl
    · exact (hdisj.1 gc2.1 (List.mem_map_of_mem h2') hx1 hx2).elim
    · exact (hdisj.1 gc1.1 (List.mem_map_of_mem h1') hx2 hx1).elim
    · exact ih hdisj.2 h1' h2'

end TopSearch.Lemmas.Align
