/-
  Helper lemmas for the single-ended search model (used by Props/C04 and Props/C15):
  the generic `absV / maxV / minV / maxList` agree with `|·| / max / min` over ordered fields,
  the Boolean-mask pipeline of `test_convergence` for `axis = 1`, clipping, dot products.
-/
import TopSearch.Model.Hef
import Mathlib.Algebra.Order.Field.Basic
import Mathlib.Algebra.Order.AbsoluteValue.Basic
import Mathlib.Tactic.Linarith
import Mathlib.Tactic.Ring
import Mathlib.Tactic.FieldSimp
import Mathlib.Tactic.Positivity

set_option linter.unusedSectionVars false
set_option linter.unusedSimpArgs false

namespace TopSearch.Hef
variable {α : Type} [Field α] [LinearOrder α] [IsStrictOrderedRing α]

theorem absV_eq (x : α) : absV x = |x| := by
  unfold absV
  split_ifs with h
  · exact (abs_of_neg h).symm
  · exact (abs_of_nonneg (not_lt.mp h)).symm

theorem maxV_eq (a b : α) : maxV a b = max a b := by
  unfold maxV
  split_ifs with h
  · exact (max_eq_right h.le).symm
  · exact (max_eq_left (not_lt.mp h)).symm

theorem minV_eq (a b : α) : minV a b = min a b := by
  unfold minV
  split_ifs with h
  · exact (min_eq_right h.le).symm
  · exact (min_eq_left (not_lt.mp h)).symm

theorem foldl_maxV_lt (xs : List α) (m tol : α) :
    xs.foldl maxV m < tol ↔ m < tol ∧ ∀ y ∈ xs, y < tol := by
  induction xs generalizing m with
  | nil => simp
  | cons y ys ih =>
    simp only [List.foldl_cons, ih, maxV_eq, max_lt_iff, List.mem_cons, forall_eq_or_imp]
    tauto

theorem maxList_lt {xs : List α} (h : xs ≠ []) (tol : α) :
    maxList xs < tol ↔ ∀ y ∈ xs, y < tol := by
  cases xs with
  | nil => exact absurd rfl h
  | cons x xs => simp [maxList, foldl_maxV_lt]

/-! ### the mask pipeline for `axis = 1` -/

theorem anyAxis_one (lo up : List Bool) :
    anyAxis 1 (columnStack lo up) = some (List.zipWith (fun a b => a || b) lo up) := by
  simp [anyAxis, columnStack, List.map_zipWith]

theorem mem_whereTrue (mask : List Bool) (i : Nat) :
    i ∈ whereTrue mask ↔ i < mask.length ∧ mask.getD i false = true := by
  simp [whereTrue, List.mem_filter, List.mem_range]

theorem mem_whereTrue' (mask : List Bool) (i : Nat) (hm : i < mask.length) :
    i ∈ whereTrue mask ↔ mask[i] = true := by
  rw [mem_whereTrue]
  simp [hm]

theorem whereTrue_all_lt (mask : List Bool) (n : Nat) (h : mask.length = n) :
    (whereTrue mask).all (fun i => decide (i < n)) = true := by
  simp only [List.all_eq_true, decide_eq_true_eq]
  intro i hi
  have := (mem_whereTrue mask i).1 hi
  omega

/-- masking by the index set of a per-coordinate mask = masking coordinate by coordinate -/
theorem zeroAt_whereTrue (g : List α) (mask : List Bool) (h : mask.length = g.length) :
    zeroAt g (whereTrue mask) = some (List.zipWith (fun x m => if m then 0 else x) g mask) := by
  unfold zeroAt
  rw [if_pos (whereTrue_all_lt mask g.length h)]
  congr 1
  apply List.ext_getElem?
  intro i
  rw [List.getElem?_mapIdx, List.getElem?_zipWith]
  by_cases hi : i < g.length
  · have hm : i < mask.length := by omega
    have hc := mem_whereTrue' mask i hm
    simp [List.getElem?_eq_getElem hi, List.getElem?_eq_getElem hm, hc]
  · have hm : ¬ i < mask.length := by omega
    simp [List.getElem?_eq_none (not_lt.mp hi), List.getElem?_eq_none (not_lt.mp hm)]

/-- when nothing is pinned the masking is the identity (the code skips it: `size > 0`) -/
theorem zipWith_mask_of_whereTrue_nil (g : List α) (mask : List Bool) (h : mask.length = g.length)
    (hn : (whereTrue mask).length = 0) :
    List.zipWith (fun x m => if m then 0 else x) g mask = g := by
  have hnil : whereTrue mask = [] := List.eq_nil_of_length_eq_zero hn
  apply List.ext_getElem?
  intro i
  rw [List.getElem?_zipWith]
  by_cases hi : i < g.length
  · have hm : i < mask.length := by omega
    have : mask[i] = false := by
      by_contra hc
      have : i ∈ whereTrue mask := (mem_whereTrue' mask i hm).2 (by simpa using hc)
      simp [hnil] at this
    simp [List.getElem?_eq_getElem hi, List.getElem?_eq_getElem hm, this]
  · have hm : ¬ i < mask.length := by omega
    simp [List.getElem?_eq_none (not_lt.mp hi), List.getElem?_eq_none (not_lt.mp hm)]

/-- the masked gradient of `test_convergence` for `axis = 1` -/
def maskedGrad (g : List α) (lo up : List Bool) : List α :=
  List.zipWith (fun x (m : Bool) => if m then (0 : α) else x) g (List.zipWith (fun a b => a || b) lo up)

/-- the value `test_convergence` computes for `axis = 1`, `<` -/
theorem testConvergence_axis1 (g : List α) (lo up : List Bool) (tol : α) (hg : g ≠ [])
    (hlo : lo.length = g.length) (hup : up.length = g.length) :
    ∃ b, testConvergence 1 .lt g lo up tol = .ok b ∧
      (b = true ↔ ∀ y ∈ (maskedGrad g lo up).map absV, y < tol) := by
  have hml : (List.zipWith (fun a b => a || b) lo up).length = g.length := by simp [hlo, hup]
  unfold testConvergence
  rw [anyAxis_one]
  simp only
  have key : (if (whereTrue (List.zipWith (fun a b => a || b) lo up)).length > 0
        then zeroAt g (whereTrue (List.zipWith (fun a b => a || b) lo up)) else some g) =
      some (maskedGrad g lo up) := by
    unfold maskedGrad
    split_ifs with hpos
    · exact zeroAt_whereTrue g _ hml
    · rw [zipWith_mask_of_whereTrue_nil g _ hml (by omega)]
  rw [key]
  simp only
  have hlen : (maskedGrad g lo up).length = g.length := by simp [maskedGrad, hml]
  have hne : maskedGrad g lo up ≠ [] := by
    intro h0
    have := congrArg List.length h0
    rw [hlen] at this
    exact hg (List.eq_nil_of_length_eq_zero this)
  have hne' : (maskedGrad g lo up).isEmpty = false := by
    simpa [List.isEmpty_iff] using hne
  rw [hne']
  have hne2 : (maskedGrad g lo up).map absV ≠ [] := by simpa using hne
  refine ⟨_, rfl, ?_⟩
  simp only [Cmp.eval, decide_eq_true_eq]
  exact maxList_lt hne2 tol

/-! ### clipping -/

theorem clip1_mem {x l u : α} (h : l ≤ u) : l ≤ clip1 x l u ∧ clip1 x l u ≤ u := by
  unfold clip1
  rw [minV_eq, maxV_eq]
  exact ⟨le_min (le_max_right _ _) h, min_le_right _ _⟩

theorem clip1_of_mem {x l u : α} (h1 : l ≤ x) (h2 : x ≤ u) : clip1 x l u = x := by
  unfold clip1
  rw [minV_eq, maxV_eq, max_eq_left h1, min_eq_left h2]

theorem clip1_mono {x y l u : α} (h : x ≤ y) : clip1 x l u ≤ clip1 y l u := by
  unfold clip1
  rw [minV_eq, maxV_eq, minV_eq, maxV_eq]
  exact min_le_min (max_le_max h le_rfl) le_rfl

/-- membership in the box, coordinate by coordinate -/
def InBox (x lo up : List α) : Prop :=
  x.length = lo.length ∧ x.length = up.length ∧
  ∀ i (h1 : i < x.length) (h2 : i < lo.length) (h3 : i < up.length), lo[i] ≤ x[i] ∧ x[i] ≤ up[i]

theorem getElem_zip3 {β γ δ ε : Type} (f : β → γ → δ → ε) (as : List β) (bs : List γ) (cs : List δ)
    (i : Nat) (h : i < (zip3 f as bs cs).length) (ha : i < as.length) (hb : i < bs.length)
    (hc : i < cs.length) : (zip3 f as bs cs)[i] = f as[i] bs[i] cs[i] := by
  simp [zip3]

theorem length_zip3 {β γ δ ε : Type} (f : β → γ → δ → ε) (as : List β) (bs : List γ) (cs : List δ) :
    (zip3 f as bs cs).length = min as.length (min bs.length cs.length) := by
  simp [zip3]

theorem clip_inBox (x lo up : List α) (hl : x.length = lo.length) (hu : x.length = up.length)
    (hbox : ∀ i (h2 : i < lo.length) (h3 : i < up.length), lo[i] ≤ up[i]) :
    InBox (clip x lo up) lo up := by
  have hlen : (clip x lo up).length = x.length := by simp [clip, length_zip3, ← hl, ← hu]
  refine ⟨by omega, by omega, ?_⟩
  intro i h1 h2 h3
  have hx : i < x.length := by omega
  have : (clip x lo up)[i] = clip1 x[i] lo[i] up[i] := by
    unfold clip; exact getElem_zip3 _ _ _ _ _ _ hx h2 h3
  rw [this]
  exact clip1_mem (hbox i h2 h3)

/-! ### dot products -/

@[simp] theorem dot_nil_left (b : List α) : dot ([] : List α) b = 0 := by simp [dot]
@[simp] theorem dot_nil_right (a : List α) : dot a ([] : List α) = 0 := by simp [dot]
@[simp] theorem dot_cons (a b : α) (as bs : List α) : dot (a :: as) (b :: bs) = a * b + dot as bs := by
  simp [dot]

theorem dot_vneg (g v : List α) : dot g (vneg v) = - dot g v := by
  induction g generalizing v with
  | nil => simp
  | cons a as ih =>
    cases v with
    | nil => simp [vneg]
    | cons b bs =>
      have := ih bs
      simp only [vneg, List.map_cons, dot_cons] at this ⊢
      rw [this]; ring

theorem dot_vdiv (a b : List α) (c : α) : dot (vdiv a c) (vdiv b c) = dot a b / (c * c) := by
  induction a generalizing b with
  | nil => simp [vdiv]
  | cons x xs ih =>
    cases b with
    | nil => simp [vdiv]
    | cons y ys =>
      have := ih ys
      simp only [vdiv, List.map_cons, dot_cons] at this ⊢
      rw [this]
      by_cases hc : c = 0
      · simp [hc]
      · field_simp

theorem dot_self_nonneg (w : List α) : 0 ≤ dot w w := by
  induction w with
  | nil => simp
  | cons x xs ih => rw [dot_cons]; nlinarith [mul_self_nonneg x]

theorem dot_self_eq_zero (w : List α) : dot w w = 0 ↔ ∀ x ∈ w, x = 0 := by
  induction w with
  | nil => simp
  | cons x xs ih =>
    rw [dot_cons]
    have h1 := mul_self_nonneg x
    have h2 := dot_self_nonneg xs
    constructor
    · intro h
      have hx : x * x = 0 := by linarith
      have hxs : dot xs xs = 0 := by linarith
      intro y hy
      rcases List.mem_cons.1 hy with rfl | hy
      · exact mul_self_eq_zero.1 hx
      · exact ih.1 hxs y hy
    · intro h
      have hx : x = 0 := h x (by simp)
      have hxs := ih.2 (fun y hy => h y (List.mem_cons_of_mem _ hy))
      rw [hx, hxs]; ring

theorem dot_axpy (r x u : List α) (c : α) (h1 : r.length = x.length) (h2 : x.length = u.length) :
    dot r (axpy x c u) = dot r x + c * dot r u := by
  induction r generalizing x u with
  | nil => simp
  | cons a as ih =>
    cases x with
    | nil => simp at h1
    | cons b bs =>
      cases u with
      | nil => simp at h2
      | cons d ds =>
        have := ih bs ds (by simpa using h1) (by simpa using h2)
        simp only [axpy, List.zipWith_cons_cons, dot_cons] at this ⊢
        rw [this]; ring

theorem dot_vscale_left (c : α) (a b : List α) : dot (vscale c a) b = c * dot a b := by
  induction a generalizing b with
  | nil => simp [vscale]
  | cons x xs ih =>
    cases b with
    | nil => simp [vscale]
    | cons y ys =>
      have := ih ys
      simp only [vscale, List.map_cons, dot_cons] at this ⊢
      rw [this]; ring

end TopSearch.Hef
