/-
  Helper lemmas for the attempt-history model (used by Props/C13).
-/
import TopSearch.Model.History
import TopSearch.Lemmas.Ktn

namespace TopSearch.History
open TopSearch TopSearch.Ktn
variable {δ : Type}

/-! ### sorted pairs -/

theorem sortPair_le (p : Nat × Nat) : (sortPair p).1 ≤ (sortPair p).2 := by
  unfold sortPair; split
  · assumption
  · show p.2 ≤ p.1; omega

theorem sortPair_mem (i j : Nat) : sortPair (i, j) = (i, j) ∨ sortPair (i, j) = (j, i) := by
  unfold sortPair; split <;> simp

theorem renumber_sortPair (k i j : Nat) :
    renumberPair k (sortPair (i, j)) = sortPair (shift k i, shift k j) := by
  simp only [sortPair, renumberPair, shift]
  split_ifs <;> simp only [Prod.mk.injEq] <;> omega

/-! ### index of an identity -/

theorem idx_lt {ids : List Nat} {a i : Nat} (h : idx ids a = some i) : i < ids.length := by
  induction ids generalizing i with
  | nil => simp [idx] at h
  | cons x xs ih =>
    simp only [idx] at h
    split at h
    · simp at h; subst h; simp
    · cases hx : idx xs a with
      | none => simp [hx] at h
      | some j => simp [hx] at h; subst h; have := ih hx; simp; omega

theorem idx_eq_none {ids : List Nat} {a : Nat} : idx ids a = none ↔ a ∉ ids := by
  induction ids with
  | nil => simp [idx]
  | cons x xs ih =>
    simp only [idx]
    split
    · rename_i h; simp [h]
    · rename_i h
      simp only [Option.map_eq_none_iff, ih, List.mem_cons, not_or]
      constructor
      · intro h2; exact ⟨fun e => h e.symm, h2⟩
      · intro h2; exact h2.2

theorem idx_append_of_not_mem {ids l : List Nat} {a : Nat} (h : a ∉ l) :
    idx (ids ++ l) a = idx ids a := by
  induction ids with
  | nil => simpa [idx] using idx_eq_none.2 h
  | cons x xs ih => simp only [List.cons_append, idx, ih]

theorem idx_getElem {ids : List Nat} (hn : ids.Nodup) {i : Nat} (hi : i < ids.length) :
    idx ids ids[i] = some i := by
  induction ids generalizing i with
  | nil => simp at hi
  | cons x xs ih =>
    rw [List.nodup_cons] at hn
    cases i with
    | zero => simp [idx]
    | succ i =>
      have hi' : i < xs.length := by simpa using hi
      have hmem : xs[i] ∈ xs := List.getElem_mem _
      have hne : x ≠ xs[i] := fun e => hn.1 (e ▸ hmem)
      simp [idx, hne, ih hn.2 hi']

theorem getD_eq_getElem {ids : List Nat} {i : Nat} (hi : i < ids.length) : ids.getD i 0 = ids[i] := by
  simp [List.getD, hi]

theorem idx_getD {ids : List Nat} (hn : ids.Nodup) {i : Nat} (hi : i < ids.length) :
    idx ids (ids.getD i 0) = some i := by
  rw [getD_eq_getElem hi]; exact idx_getElem hn hi

theorem idx_eraseIdx {ids : List Nat} (hn : ids.Nodup) (k a : Nat) :
    idx (ids.eraseIdx k) a =
      (idx ids a).bind (fun i => if i = k then none else some (shift k i)) := by
  induction ids generalizing k with
  | nil => simp [idx]
  | cons x xs ih =>
    rw [List.nodup_cons] at hn
    cases k with
    | zero =>
      simp only [List.eraseIdx_cons_zero, idx]
      split
      · rename_i h; subst h
        simp [idx_eq_none.2 hn.1]
      · cases hx : idx xs a with
        | none => simp
        | some j => simp [shift]
    | succ k =>
      simp only [List.eraseIdx_cons_succ, idx]
      split
      · simp [shift]
      · rw [ih hn.2 k]
        cases hx : idx xs a with
        | none => simp
        | some j =>
          simp only [Option.bind_some, Option.map_some]
          by_cases hjk : j = k
          · simp [hjk]
          · simp only [hjk, if_false, Option.map_some, Nat.add_right_cancel_iff]
            simp only [shift]; split_ifs <;> simp <;> omega


/-! ### rendering -/

theorem render_append (ids : List Nat) (h1 h2 : List (Nat × Nat)) :
    render ids (h1 ++ h2) = render ids h1 ++ render ids h2 := by
  simp [render, List.filterMap_append]

/-- what `remove_minimum` does to one stored entry -/
def removeEntry (k : Nat) (q : Nat × Nat) : Option (Nat × Nat) :=
  if q.1 = k ∨ q.2 = k then none else some (renumberPair k q)

theorem historyAfterRemove_eq (k : Nat) (l : List (Nat × Nat)) :
    historyAfterRemove true k l = l.filterMap (removeEntry k) := by
  simp only [historyAfterRemove, if_true]
  induction l with
  | nil => rfl
  | cons q t ih =>
    by_cases hq : q.1 = k ∨ q.2 = k
    · have : (q.1 != k && q.2 != k) = false := by
        rcases hq with h | h <;> simp [h]
      simp [this, removeEntry, hq, ih]
    · have : (q.1 != k && q.2 != k) = true := by
        simp only [not_or] at hq; simp [hq.1, hq.2]
      simp [this, removeEntry, hq, ih]

theorem sortPair_has (i j k : Nat) :
    ((sortPair (i, j)).1 = k ∨ (sortPair (i, j)).2 = k) ↔ (i = k ∨ j = k) := by
  rcases sortPair_mem i j with e | e
  · rw [e]
  · rw [e]; exact Or.comm

theorem renderEntry_eraseIdx {ids : List Nat} (hn : ids.Nodup) (k : Nat) (p : Nat × Nat) :
    renderEntry (ids.eraseIdx k) p = (renderEntry ids p).bind (removeEntry k) := by
  simp only [renderEntry, idx_eraseIdx hn]
  cases h1 : idx ids p.1 with
  | none => simp
  | some i =>
    cases h2 : idx ids p.2 with
    | none => by_cases hik : i = k <;> simp [hik]
    | some j =>
      simp only [Option.bind_some, removeEntry, sortPair_has]
      by_cases hik : i = k
      · simp [hik]
      · by_cases hjk : j = k
        · simp [hik, hjk]
        · simp [hik, hjk, renumber_sortPair]

/-- removing the minimum at index `k`: the stored history after `remove_minimum` is the
    rendering of the *unchanged* identity-level history with the new numbering -/
theorem render_eraseIdx {ids : List Nat} (hn : ids.Nodup) (k : Nat) (h : List (Nat × Nat)) :
    render (ids.eraseIdx k) h = historyAfterRemove true k (render ids h) := by
  rw [historyAfterRemove_eq]
  simp only [render, List.filterMap_filterMap]
  apply List.filterMap_congr
  intro p _
  exact renderEntry_eraseIdx hn k p

theorem render_append_fresh {ids new : List Nat} {h : List (Nat × Nat)}
    (hf : ∀ p ∈ h, p.1 ∉ new ∧ p.2 ∉ new) : render (ids ++ new) h = render ids h := by
  simp only [render]
  apply List.filterMap_congr
  intro p hp
  obtain ⟨h1, h2⟩ := hf p hp
  simp only [renderEntry, idx_append_of_not_mem h1, idx_append_of_not_mem h2]

theorem renderEntry_idAt {ids : List Nat} (hn : ids.Nodup) {i j : Nat} (hi : i < ids.length)
    (hj : j < ids.length) : renderEntry ids (ids.getD i 0, ids.getD j 0) = some (sortPair (i, j)) := by
  simp only [renderEntry, idx_getD hn hi, idx_getD hn hj]

theorem render_record {ids : List Nat} (hn : ids.Nodup) (pairs : List (Nat × Nat))
    (hv : ∀ p ∈ pairs, p.1 < ids.length ∧ p.2 < ids.length) :
    render ids (pairs.map (fun p => (ids.getD p.1 0, ids.getD p.2 0))) = pairs.map sortPair := by
  induction pairs with
  | nil => rfl
  | cons p t ih =>
    have hp := hv p (by simp)
    have := renderEntry_idAt hn hp.1 hp.2
    simp only [render, List.map_cons, List.filterMap_cons, this]
    congr 1
    exact ih (fun q hq => hv q (by simp [hq]))

theorem renderEntry_bounds {ids : List Nat} {p q : Nat × Nat} (h : renderEntry ids p = some q) :
    q.1 ≤ q.2 ∧ q.2 < ids.length := by
  simp only [renderEntry] at h
  cases h1 : idx ids p.1 with
  | none => simp [h1] at h
  | some i =>
    cases h2 : idx ids p.2 with
    | none => simp [h1, h2] at h
    | some j =>
      simp only [h1, h2, Option.some.injEq] at h
      subst h
      refine ⟨sortPair_le _, ?_⟩
      have := idx_lt h1; have := idx_lt h2
      rcases sortPair_mem i j with e | e <;> simp [e] <;> omega


/-! ### growth never touches the history -/

theorem step_grow (kc : Ktn.Cfg) (s : Ktn δ) (op : Op δ) (h : isGrow op = true) :
    (step kc s op).pairlist = s.pairlist ∧
    (step kc s op).nMin = s.nMin + countAddMin [op] := by
  cases op with
  | addMin d => simp only [step, addMin, countAddMin]; split <;> simp
  | addTs d u v => simp only [step, addTs, countAddMin]; split <;> simp
  | removeMin k => simp [isGrow] at h
  | removeMinima ks => simp [isGrow] at h
  | removeTs u v => simp [isGrow] at h
  | removeTss ps => simp [isGrow] at h
  | reset => simp [isGrow] at h

theorem countAddMin_cons (op : Op δ) (ops : List (Op δ)) :
    countAddMin (op :: ops) = countAddMin [op] + countAddMin ops := by
  cases op <;> simp [countAddMin]; omega

theorem applyEffects_grow (kc : Ktn.Cfg) (eff : List (Op δ)) : ∀ (s : Ktn δ),
    eff.all isGrow = true →
    (applyEffects kc s eff).pairlist = s.pairlist ∧
    (applyEffects kc s eff).nMin = s.nMin + countAddMin eff := by
  induction eff with
  | nil => intro s _; simp [applyEffects, countAddMin]
  | cons op ops ih =>
    intro s h
    simp only [List.all_cons, Bool.and_eq_true] at h
    obtain ⟨a, b⟩ := step_grow kc s op h.1
    obtain ⟨c, d⟩ := ih (step kc s op) h.2
    simp only [applyEffects, List.foldl_cons] at c d ⊢
    rw [countAddMin_cons]
    exact ⟨c.trans a, by rw [d, b]; omega⟩

theorem serialRound_grow (kern : Kernel) (kc : Ktn.Cfg)
    (pairs : List ((Nat × Nat) × List (Op δ))) : ∀ (s : Ktn δ),
    pairs.all (fun pe => pe.2.all isGrow) = true →
    (serialRound kern kc s pairs).1.pairlist = s.pairlist ∧
    s.nMin ≤ (serialRound kern kc s pairs).1.nMin := by
  induction pairs with
  | nil => intro s _; simp [serialRound]
  | cons pe rest ih =>
    intro s h
    simp only [List.all_cons, Bool.and_eq_true] at h
    obtain ⟨p, eff⟩ := pe
    simp only [serialRound]
    split
    · obtain ⟨a, b⟩ := applyEffects_grow kc eff s h.1
      obtain ⟨c, d⟩ := ih (applyEffects kc s eff) h.2
      refine ⟨c.trans a, ?_⟩
      show s.nMin ≤ (serialRound kern kc (applyEffects kc s eff) rest).1.nMin
      omega
    · exact ih s h.2

theorem foldEffects_grow (kc : Ktn.Cfg) (acc : List ((Nat × Nat) × List (Op δ))) : ∀ (s : Ktn δ),
    acc.all (fun pe => pe.2.all isGrow) = true →
    (acc.foldl (fun t pe => applyEffects kc t pe.2) s).pairlist = s.pairlist ∧
    s.nMin ≤ (acc.foldl (fun t pe => applyEffects kc t pe.2) s).nMin := by
  induction acc with
  | nil => intro s _; simp
  | cons pe rest ih =>
    intro s h
    simp only [List.all_cons, Bool.and_eq_true] at h
    obtain ⟨a, b⟩ := applyEffects_grow kc pe.2 s h.1
    obtain ⟨c, d⟩ := ih (applyEffects kc s pe.2) h.2
    simp only [List.foldl_cons]
    exact ⟨c.trans a, by omega⟩

theorem parallelRound_grow (kern : Kernel) (kc : Ktn.Cfg)
    (pairs : List ((Nat × Nat) × List (Op δ))) (s : Ktn δ)
    (h : pairs.all (fun pe => pe.2.all isGrow) = true) :
    (parallelRound kern kc s pairs).1.pairlist = s.pairlist ∧
    s.nMin ≤ (parallelRound kern kc s pairs).1.nMin := by
  simp only [parallelRound]
  apply foldEffects_grow
  rw [List.all_eq_true] at h ⊢
  intro pe hpe
  exact h pe (List.mem_of_mem_filter hpe)

theorem reinitIfEmpty_eq (h : List (Nat × Nat)) : reinitIfEmpty h = h := by
  unfold reinitIfEmpty; split
  · rename_i e; simp at e; exact e.symm
  · rfl

theorem round_grow (kern : Kernel) (cfg : Cfg) (kc : Ktn.Cfg) (par : Bool)
    (pairs : List ((Nat × Nat) × List (Op δ))) (s : Ktn δ)
    (h : pairs.all (fun pe => pe.2.all isGrow) = true) :
    (round kern cfg kc par s pairs).1.pairlist = recordRound cfg s.pairlist (pairs.map (·.1)) ∧
    s.nMin ≤ (round kern cfg kc par s pairs).1.nMin := by
  simp only [round]
  cases par
  · obtain ⟨a, b⟩ := serialRound_grow kern kc pairs s h
    simp [a, b]
  · obtain ⟨a, b⟩ := parallelRound_grow kern kc pairs s h
    simp [a, b]


/-! ### the `remove_minima` loop -/

/-- history part of the loop of `remove_minima` -/
def histLoop (r : Bool) (c : Nat) : List Nat → List (Nat × Nat) → List (Nat × Nat)
  | [], h => h
  | k :: ks, h => histLoop r (c + 1) ks (historyAfterRemove r (k - c) h)

theorem removeLoop_pairlist (r : Bool) (l : List Nat) : ∀ (s : Ktn δ) (c : Nat),
    (Ktn.removeLoop r s c l).pairlist = histLoop r c l s.pairlist ∧
    (Ktn.removeLoop r s c l).nMin = s.nMin - l.length := by
  induction l with
  | nil => intro s c; simp [Ktn.removeLoop, histLoop]
  | cons k ks ih =>
    intro s c
    obtain ⟨a, b⟩ := ih (s.removeMin r (k - c)) (c + 1)
    simp only [Ktn.removeLoop, histLoop, List.length_cons]
    refine ⟨a, ?_⟩
    rw [b]
    show s.nMin - 1 - ks.length = s.nMin - (ks.length + 1)
    omega

theorem absLoop (l : List Nat) : ∀ (a : Abs) (c : Nat), a.ids.Nodup → l.Pairwise (· < ·) →
    (∀ k ∈ l, c ≤ k ∧ k - c < a.ids.length) →
    histLoop true c l (render a.ids a.hist) = render (a.removeLoop c l).ids (a.removeLoop c l).hist ∧
    (a.removeLoop c l).ids.Nodup ∧
    (a.removeLoop c l).ids.length = a.ids.length - l.length ∧
    (a.removeLoop c l).hist = a.hist ∧ (a.removeLoop c l).next = a.next ∧
    (∀ x ∈ (a.removeLoop c l).ids, x ∈ a.ids) := by
  induction l with
  | nil => intro a c hn _ _; simp [histLoop, Abs.removeLoop, hn]
  | cons k ks ih =>
    intro a c hn hp hb
    rw [List.pairwise_cons] at hp
    have hk := hb k (by simp)
    have hn' : (a.remove (k - c)).ids.Nodup := hn.sublist (List.eraseIdx_sublist _ _)
    have hlen : (a.remove (k - c)).ids.length = a.ids.length - 1 := by
      simp only [Abs.remove]; rw [List.length_eraseIdx]; simp [hk.2]
    have hb' : ∀ k' ∈ ks, c + 1 ≤ k' ∧ k' - (c + 1) < (a.remove (k - c)).ids.length := by
      intro k' hk'
      have h1 := hp.1 k' hk'
      have h2 := hb k' (by simp [hk'])
      rw [hlen]; omega
    obtain ⟨i1, i2, i3, i4, i5, i6⟩ := ih (a.remove (k - c)) (c + 1) hn' hp.2 hb'
    simp only [histLoop, Abs.removeLoop, List.length_cons]
    refine ⟨?_, i2, ?_, i4, i5, ?_⟩
    · rw [← i1]
      congr 1
      exact (render_eraseIdx hn (k - c) a.hist).symm
    · rw [i3, hlen]; omega
    · intro x hx
      exact (List.eraseIdx_sublist _ _).subset (i6 x hx)

theorem sortNat_sorted {ks : List Nat} (hn : ks.Nodup) :
    (sortNat ks).Pairwise (· < ·) ∧ ∀ k, k ∈ sortNat ks ↔ k ∈ ks := by
  have hperm : (sortNat ks).Perm ks := by rw [sortNat_eq]; exact List.perm_insertionSort _ _
  have hsorted : (sortNat ks).Pairwise (· ≤ ·) := by
    rw [sortNat_eq]; exact List.pairwise_insertionSort _ _
  have hnd : (sortNat ks).Nodup := hperm.nodup_iff.2 hn
  refine ⟨(hsorted.and hnd).imp (by intro a b h; omega), fun k => hperm.mem_iff⟩

/-! ### the refinement relation -/

/-- the stored history is the rendering of the identity-level history; identities are
    distinct and were all handed out already -/
def R (s : Ktn δ) (a : Abs) : Prop :=
  s.pairlist = render a.ids a.hist ∧ a.ids.length = s.nMin ∧ a.ids.Nodup ∧
  (∀ x ∈ a.ids, x < a.next) ∧ (∀ p ∈ a.hist, p.1 < a.next ∧ p.2 < a.next)

theorem R_empty : R ({} : Ktn δ) ({} : Abs) := by
  simp [R, render]

theorem R_grow {s s' : Ktn δ} {a : Abs} (h : R s a) (g : Nat) (hp : s'.pairlist = s.pairlist)
    (hn : s'.nMin = s.nMin + g) : R s' (a.grow g) := by
  obtain ⟨h1, h2, h3, h4, h5⟩ := h
  have hnew : ∀ y ∈ (List.range g).map (· + a.next), a.next ≤ y ∧ y < a.next + g := by
    intro y hy
    simp only [List.mem_map, List.mem_range] at hy
    obtain ⟨z, hz, rfl⟩ := hy
    omega
  refine ⟨?_, ?_, ?_, ?_, ?_⟩
  · rw [hp, h1]
    simp only [Abs.grow]
    symm
    apply render_append_fresh
    intro p hp'
    have := h5 p hp'
    constructor
    · intro hm; have := hnew _ hm; omega
    · intro hm; have := hnew _ hm; omega
  · simp [Abs.grow, h2, hn]
  · simp only [Abs.grow]
    rw [List.nodup_append]
    refine ⟨h3, ?_, ?_⟩
    · exact (List.nodup_range).map (fun x y e => by simpa using e)
    · intro x hx y hy e
      have := h4 x hx; have := hnew y hy; omega
  · intro x hx
    simp only [Abs.grow, List.mem_append] at hx ⊢
    rcases hx with hx | hx
    · have := h4 x hx; omega
    · exact (hnew x hx).2
  · intro p hp'
    have := h5 p hp'
    simp only [Abs.grow]; omega

theorem idAt_mem {a : Abs} {i : Nat} (hi : i < a.ids.length) : a.idAt i ∈ a.ids := by
  simp only [Abs.idAt, getD_eq_getElem hi]; exact List.getElem_mem _

theorem R_record {s s' : Ktn δ} {a : Abs} (h : R s a) (pairs : List (Nat × Nat))
    (hv : ∀ p ∈ pairs, p.1 < s.nMin ∧ p.2 < s.nMin)
    (hp : s'.pairlist = s.pairlist ++ pairs.map sortPair) (hn : s'.nMin = s.nMin) :
    R s' (a.record pairs) := by
  obtain ⟨h1, h2, h3, h4, h5⟩ := h
  have hv' : ∀ p ∈ pairs, p.1 < a.ids.length ∧ p.2 < a.ids.length := by
    intro p hp'; rw [h2]; exact hv p hp'
  refine ⟨?_, by simp [Abs.record, h2, hn], h3, h4, ?_⟩
  · simp only [Abs.record, render_append, Abs.idAt]
    rw [hp, h1, render_record h3 pairs hv']
  · intro p hp'
    simp only [Abs.record, List.mem_append, List.mem_map] at hp'
    rcases hp' with hp' | ⟨q, hq, rfl⟩
    · exact h5 p hp'
    · have := hv' q hq
      exact ⟨h4 _ (idAt_mem this.1), h4 _ (idAt_mem this.2)⟩

theorem R_remove {s : Ktn δ} {a : Abs} (h : R s a) (k : Nat) (hk : k < s.nMin) :
    R (s.removeMin true k) (a.remove k) := by
  obtain ⟨h1, h2, h3, h4, h5⟩ := h
  refine ⟨?_, ?_, h3.sublist (List.eraseIdx_sublist _ _), ?_, h5⟩
  · show historyAfterRemove true k s.pairlist = _
    rw [h1]; exact (render_eraseIdx h3 k a.hist).symm
  · show (a.ids.eraseIdx k).length = s.nMin - 1
    rw [List.length_eraseIdx]; simp [h2, hk]
  · intro x hx
    exact h4 x ((List.eraseIdx_sublist _ _).subset hx)

theorem R_removeMinima {s : Ktn δ} {a : Abs} (h : R s a) (ks : List Nat)
    (hk : ∀ k ∈ ks, k < s.nMin) (hnd : ks.Nodup) :
    R (s.removeMinima true ks) (a.removeLoop 0 (sortNat ks)) := by
  obtain ⟨h1, h2, h3, h4, h5⟩ := h
  obtain ⟨hs, hm⟩ := sortNat_sorted hnd
  obtain ⟨p1, p2⟩ := removeLoop_pairlist true (sortNat ks) s 0
  have hb : ∀ k ∈ sortNat ks, 0 ≤ k ∧ k - 0 < a.ids.length := by
    intro k hk'; rw [h2]; exact ⟨Nat.zero_le _, by simpa using hk k ((hm k).1 hk')⟩
  obtain ⟨i1, i2, i3, i4, i5, i6⟩ := absLoop (sortNat ks) a 0 h3 hs hb
  refine ⟨?_, ?_, i2, ?_, ?_⟩
  · show (Ktn.removeLoop true s 0 (sortNat ks)).pairlist = _
    rw [p1, h1, i1]
  · show _ = (Ktn.removeLoop true s 0 (sortNat ks)).nMin
    rw [p2, i3, h2]
  · intro x hx; rw [i5]; exact h4 x (i6 x hx)
  · intro p hp; rw [i4] at hp; rw [i5]; exact h5 p hp

theorem look_lt {φ : List (Option Nat)} {n i j : Nat}
    (hφ : φ.all (fun o => match o with | some j => decide (j < n) | none => true) = true)
    (h : look φ i = some j) : j < n := by
  simp only [look] at h
  cases hi : φ[i]? with
  | none => simp [hi] at h
  | some o =>
    simp only [hi, Option.join_some] at h
    subst h
    rw [List.all_eq_true] at hφ
    have := hφ (some j) (List.mem_of_getElem? hi)
    simpa using this

theorem R_merge {s s' : Ktn δ} {a : Abs} (h : R s a) (other : List (Nat × Nat))
    (φ : List (Option Nat))
    (hφ : φ.all (fun o => match o with | some j => decide (j < s.nMin) | none => true) = true)
    (hp : s'.pairlist = mergeHistory Cfg.repaired φ s.pairlist other) (hn : s'.nMin = s.nMin) :
    R s' (a.merge other φ) := by
  obtain ⟨h1, h2, h3, h4, h5⟩ := h
  refine ⟨?_, by simp [Abs.merge, h2, hn], h3, h4, ?_⟩
  · rw [hp, h1]
    simp only [mergeHistory, Abs.merge, render_append]
    congr 1
    simp only [render, List.filterMap_filterMap]
    apply List.filterMap_congr
    intro p _
    simp only [mergeEntry, Cfg.repaired, if_true]
    cases e1 : look φ p.1 with
    | none => simp
    | some i =>
      cases e2 : look φ p.2 with
      | none => simp
      | some j =>
        have hi : i < a.ids.length := by rw [h2]; exact look_lt hφ e1
        have hj : j < a.ids.length := by rw [h2]; exact look_lt hφ e2
        simp only [Abs.idAt, Option.bind_some]
        exact (renderEntry_idAt h3 hi hj).symm
  · intro p hp'
    simp only [Abs.merge, List.mem_append, List.mem_filterMap] at hp'
    rcases hp' with hp' | ⟨q, _, hq⟩
    · exact h5 p hp'
    · cases e1 : look φ q.1 with
      | none => simp [e1] at hq
      | some i =>
        cases e2 : look φ q.2 with
        | none => simp [e1, e2] at hq
        | some j =>
          simp only [e1, e2, Option.some.injEq] at hq
          subst hq
          have hi : i < a.ids.length := by rw [h2]; exact look_lt hφ e1
          have hj : j < a.ids.length := by rw [h2]; exact look_lt hφ e2
          exact ⟨h4 _ (idAt_mem hi), h4 _ (idAt_mem hj)⟩

theorem R_reset {s : Ktn δ} {a : Abs} (_ : R s a) : R (s.reset) a.reset := by
  simp [R, Ktn.reset, Abs.reset, render]


/-! ### which pairs reach the double-ended search -/

theorem checkKernel_false_iff (r : Nat) (e : Bool) (a b : Nat) :
    checkKernel r e a b = false ↔ (a = b ∨ e = true ∨ 3 ≤ r) := by
  unfold checkKernel
  cases e
  · simp only [Bool.false_eq_true, if_false]; split_ifs <;> simp <;> omega
  · simp

/-- the statement's refusal condition, with the network `t` and the history `h0` it refers to -/
def refused (t : Ktn δ) (h0 : List (Nat × Nat)) (p : Nat × Nat) : Prop :=
  p.1 = p.2 ∨ t.hasEdge p.1 p.2 = true ∨ 3 ≤ repeats h0 p.1 p.2

instance (t : Ktn δ) (h0 : List (Nat × Nat)) (p : Nat × Nat) : Decidable (refused t h0 p) := by
  unfold refused; infer_instance

/-- serial mode, position `i` of the round: the pair is judged in the network as it is after
    the outcomes of the pairs before it were merged, against the history `h0` as it was before
    the round -/
def serialSpec (kc : Ktn.Cfg) (s : Ktn δ) (h0 : List (Nat × Nat))
    (pairs : List ((Nat × Nat) × List (Op δ))) (i : Nat) : Option Call :=
  match pairs[i]? with
  | none => none
  | some pe =>
    if refused (serialRound checkKernel kc s (pairs.take i)).1 h0 pe.1 then none
    else some (pe.1.1, pe.1.2, repeats h0 pe.1.1 pe.1.2)

theorem checkPair_accepts (s : Ktn δ) (p : Nat × Nat) :
    (checkPair checkKernel s p.1 p.2).1 = true ↔ ¬ refused s s.pairlist p := by
  have := checkKernel_false_iff (repeats s.pairlist p.1 p.2) (s.hasEdge p.1 p.2) p.1 p.2
  simp only [checkPair, refused]
  rw [← this]; simp

theorem serialRound_searched (kc : Ktn.Cfg) (pairs : List ((Nat × Nat) × List (Op δ))) :
    ∀ (s : Ktn δ) (h0 : List (Nat × Nat)), s.pairlist = h0 →
    pairs.all (fun pe => pe.2.all isGrow) = true →
    (serialRound checkKernel kc s pairs).2 =
      (List.range pairs.length).filterMap (serialSpec kc s h0 pairs) := by
  induction pairs with
  | nil => intro s h0 _ _; simp [serialRound]
  | cons pe rest ih =>
    intro s h0 hs hg
    simp only [List.all_cons, Bool.and_eq_true] at hg
    obtain ⟨p, eff⟩ := pe
    rw [List.length_cons, List.range_succ_eq_map, List.filterMap_cons, List.filterMap_map]
    have h0spec : serialSpec kc s h0 ((p, eff) :: rest) 0 =
        if refused s h0 p then none else some (p.1, p.2, repeats h0 p.1 p.2) := by
      simp [serialSpec, serialRound]
    rw [h0spec]
    have hacc := checkPair_accepts s p
    rw [hs] at hacc
    by_cases hr : refused s h0 p
    · have hc : (checkPair checkKernel s p.1 p.2).1 = false := by
        cases hx : (checkPair checkKernel s p.1 p.2).1
        · rfl
        · exact absurd hr (hacc.1 hx)
      have htail : ∀ i, (serialSpec kc s h0 ((p, eff) :: rest) ∘ Nat.succ) i =
          serialSpec kc s h0 rest i := by
        intro i
        simp only [Function.comp, serialSpec, Nat.succ_eq_add_one, List.getElem?_cons_succ,
          List.take_succ_cons, serialRound, hc]
        rfl
      simp only [serialRound, hc, Bool.false_eq_true, if_false, if_pos hr]
      rw [ih s h0 hs hg.2]
      exact List.filterMap_congr (fun i _ => (htail i).symm)
    · have hc : (checkPair checkKernel s p.1 p.2).1 = true := hacc.2 hr
      have hs' : (applyEffects kc s eff).pairlist = h0 := by
        rw [(applyEffects_grow kc eff s hg.1).1, hs]
      have htail : ∀ i, (serialSpec kc s h0 ((p, eff) :: rest) ∘ Nat.succ) i =
          serialSpec kc (applyEffects kc s eff) h0 rest i := by
        intro i
        simp only [Function.comp, serialSpec, Nat.succ_eq_add_one, List.getElem?_cons_succ,
          List.take_succ_cons, serialRound, hc]
        rfl
      simp only [serialRound, hc, if_neg hr, if_true]
      rw [ih _ h0 hs' hg.2]
      have hrep : (checkPair checkKernel s p.1 p.2).2 = repeats h0 p.1 p.2 := by
        simp [checkPair, hs]
      rw [hrep]
      congr 1
      exact List.filterMap_congr (fun i _ => (htail i).symm)


/-- one step of the refinement -/
theorem step_tracks (kern : Kernel) (kc : Ktn.Cfg) (hkc : kc.removeRenumbersHistory = true)
    {s : Ktn δ} {a : Abs} (h : R s a) (op : HOp δ) (hv : op.valid s = true) :
    R (hstep kern Cfg.repaired kc s op) (astep kern Cfg.repaired kc s a op) := by
  cases op with
  | round par pairs =>
    simp only [HOp.valid, Bool.and_eq_true] at hv
    obtain ⟨hr1, hr2⟩ := round_grow kern Cfg.repaired kc par pairs s hv.2
    simp only [hstep, astep]
    have hg : R ({ s with nMin := (round kern Cfg.repaired kc par s pairs).1.nMin } : Ktn δ)
        (a.grow ((round kern Cfg.repaired kc par s pairs).1.nMin - s.nMin)) :=
      R_grow h _ rfl (by simp only []; omega)
    refine R_record (s' := (round kern Cfg.repaired kc par s pairs).1) hg (pairs.map (·.1)) ?_ ?_ rfl
    · intro p hp
      have := hv.1
      simp only [pairsValid, List.all_eq_true, Bool.and_eq_true, decide_eq_true_eq] at this
      have := this p hp
      simp only []; omega
    · rw [hr1]; simp [recordRound, Cfg.repaired, reinitIfEmpty_eq]
  | removeMin k =>
    simp only [HOp.valid, decide_eq_true_eq] at hv
    simp only [hstep, astep, hkc]
    exact R_remove h k hv
  | removeMinima ks =>
    simp only [HOp.valid, Bool.and_eq_true, List.all_eq_true, decide_eq_true_eq] at hv
    simp only [hstep, astep, hkc]
    exact R_removeMinima h ks hv.1 hv.2
  | addNetwork eff other φ =>
    simp only [HOp.valid, Bool.and_eq_true] at hv
    obtain ⟨e1, e2⟩ := applyEffects_grow kc eff s hv.1.1
    simp only [hstep, astep, addNetwork]
    have hg : R (applyEffects kc s eff) (a.grow (countAddMin eff)) := R_grow h _ e1 e2
    refine R_merge hg other φ ?_ rfl rfl
    rw [e2]; exact hv.1.2
  | reset => exact R_reset h
  | dumpRead => exact h
  | grow eff =>
    simp only [HOp.valid] at hv
    obtain ⟨e1, e2⟩ := applyEffects_grow kc eff s hv
    exact R_grow h _ e1 e2

end TopSearch.History
