/-
  Helper lemmas for Props/C01 (how `nodeData?` / `edgeData?` of a network relate to those of the
  network before a removal; structure of the nodes after a gate operation).
-/
import TopSearch.Model.Pipeline
import TopSearch.Lemmas.Ktn
import TopSearch.Lemmas.Merge

namespace TopSearch.Pipeline
open TopSearch TopSearch.Ktn TopSearch.Merge

variable {δ : Type}

/-! ### look-up of edges and nodes -/

theorem edgeData?_comm (s : Ktn δ) (a b : Nat) : s.edgeData? a b = s.edgeData? b a := by
  unfold edgeData?
  have : (fun e : Edge δ => Edge.joins e a b) = (fun e => Edge.joins e b a) := by
    funext e; exact joins_comm e a b
  rw [this]

theorem nodeData?_empty (a : Nat) : (empty : Ktn δ).nodeData? a = none := rfl

theorem edgeData?_empty (a b : Nat) : (empty : Ktn δ).edgeData? a b = none := rfl

theorem nodeData?_reset (s : Ktn δ) (a : Nat) : s.reset.nodeData? a = none := rfl

theorem edgeData?_reset (s : Ktn δ) (a b : Nat) : s.reset.edgeData? a b = none := rfl

theorem mem_of_edgeData {s : Ktn δ} {a b : Nat} {y : δ} (h : s.edgeData? a b = some y) :
    ∃ e ∈ s.edges, Edge.joins e a b = true ∧ e.data = y := by
  simp only [edgeData?, Option.map_eq_some_iff] at h
  obtain ⟨e, hf, hd⟩ := h
  exact ⟨e, List.mem_of_find?_eq_some hf, by simpa using List.find?_some hf, hd⟩

theorem joins_cases {e : Edge δ} {a b : Nat} (h : Edge.joins e a b = true) :
    (e.u = a ∧ e.v = b) ∨ (e.u = b ∧ e.v = a) := by
  simpa [Edge.joins] using h

/-- a stored transition state joins existing minima -/
theorem edgeData_lt {s : Ktn δ} (hs : Inv s) {a b : Nat} {y : δ} (h : s.edgeData? a b = some y) :
    a < s.nMin ∧ b < s.nMin := by
  obtain ⟨e, he, hj, _⟩ := mem_of_edgeData h
  obtain ⟨hu, hv⟩ := hs.2.2.2 e he
  rcases joins_cases hj with ⟨rfl, rfl⟩ | ⟨rfl, rfl⟩
  · exact ⟨hu, hv⟩
  · exact ⟨hv, hu⟩

theorem nodeData_exists {s : Ktn δ} (hs : Inv s) {a : Nat} (ha : a < s.nMin) :
    ∃ x, s.nodeData? a = some x := by
  have : a ∈ s.nodes.map (·.label) := by rw [hs.1]; simpa using ha
  obtain ⟨nd, hnd, rfl⟩ := List.mem_map.1 this
  exact ⟨nd.data, nodeData_of_mem hs hnd⟩

/-- one edge per unordered pair: look-up by the end points of a stored edge finds that edge -/
theorem find_joins {l : List (Edge δ)} (hp : l.Pairwise (fun a b => Edge.joins a b.u b.v = false))
    {e : Edge δ} (he : e ∈ l) : l.find? (fun x => Edge.joins x e.u e.v) = some e := by
  induction l with
  | nil => simp at he
  | cons a l ih =>
    rw [List.pairwise_cons] at hp
    rcases List.mem_cons.1 he with rfl | he'
    · simp [Edge.joins]
    · rw [List.find?_cons, hp.1 e he']
      exact ih hp.2 he'

theorem edgeData_of_mem {s : Ktn δ} (hs : Inv s) {e : Edge δ} (he : e ∈ s.edges) :
    s.edgeData? e.u e.v = some e.data := by
  simp [edgeData?, find_joins hs.2.2.1 he]

/-! ### the gate: which payloads a gate operation can store -/

theorem lookupOrInsert_fst (same : δ → δ → Bool) (s : Ktn δ) (d : δ) :
    (lookupOrInsert same s d).1 = testNewMinimum same s d := by
  unfold lookupOrInsert testNewMinimum
  cases isNewMinimum same s d <;> rfl

/-- after `test_new_minimum` the nodes are the old ones, or the old ones plus one node carrying
    the offered payload -/
theorem testNewMinimum_nodes {same : δ → δ → Bool} {s : Ktn δ} (hs : Inv s) (d : δ) :
    (testNewMinimum same s d).nodes = s.nodes ∨
      (testNewMinimum same s d).nodes = s.nodes ++ [⟨s.nMin, d⟩] := by
  cases h : isNewMinimum same s d with
  | some i => rw [testNewMinimum_of_some h]; exact Or.inl rfl
  | none => rw [testNewMinimum_of_none h, addMin_eq hs]; exact Or.inr rfl

theorem testNewMinimum_edges {same : δ → δ → Bool} {s : Ktn δ} (hs : Inv s) (d : δ) :
    (testNewMinimum same s d).edges = s.edges := by
  cases h : isNewMinimum same s d with
  | some i => rw [testNewMinimum_of_some h]
  | none => rw [testNewMinimum_of_none h, addMin_eq hs]

theorem testNewMinimum_nodeData {same : δ → δ → Bool} {s : Ktn δ} (hs : Inv s) (d : δ) {a : Nat}
    {x : δ} (h : (testNewMinimum same s d).nodeData? a = some x) :
    s.nodeData? a = some x ∨ x = d := by
  cases hn : isNewMinimum same s d with
  | some i => rw [testNewMinimum_of_some hn] at h; exact Or.inl h
  | none =>
    rw [testNewMinimum_of_none hn] at h
    obtain ⟨h1, h2⟩ := nodeData_addMin hs d
    by_cases ha : a = s.nMin
    · subst ha; rw [h1] at h; exact Or.inr (Option.some.inj h).symm
    · rw [h2 a ha] at h; exact Or.inl h

theorem testNewMinimum_nodeData_old {same : δ → δ → Bool} {s : Ktn δ} (hs : Inv s) (d : δ) {a : Nat}
    (ha : a < s.nMin) : (testNewMinimum same s d).nodeData? a = s.nodeData? a := by
  cases hn : isNewMinimum same s d with
  | some i => rw [testNewMinimum_of_some hn]
  | none =>
    rw [testNewMinimum_of_none hn]
    exact (nodeData_addMin hs d).2 a (Nat.ne_of_lt ha)

theorem lookupOrInsert_nodeData {same : δ → δ → Bool} {s : Ktn δ} (hs : Inv s) (d : δ) {a : Nat}
    {x : δ} (h : (lookupOrInsert same s d).1.nodeData? a = some x) :
    s.nodeData? a = some x ∨ x = d := by
  rw [lookupOrInsert_fst] at h
  exact testNewMinimum_nodeData hs d h

/-- a minimum stored after `test_new_ts` was stored before or is one of the two offered minima -/
theorem testNewTs_nodeData {same : δ → δ → Bool} {c : Bool} {s : Ktn δ} (hs : GateInv same s)
    (r : Rec δ) {a : Nat} {x : δ} (h : (testNewTs same c s r).nodeData? a = some x) :
    s.nodeData? a = some x ∨ x = r.plus ∨ x = r.minus := by
  unfold testNewTs at h
  split at h
  · simp only at h
    rw [nodeData_congr (edgeData_addTs c _ r.ts _ _).2.2.1] at h
    have hA := (lookupOrInsert_spec hs r.plus).1
    rcases lookupOrInsert_nodeData hA.inv r.minus h with h' | rfl
    · rcases lookupOrInsert_nodeData hs.inv r.plus h' with h'' | rfl
      · exact Or.inl h''
      · exact Or.inr (Or.inl rfl)
    · exact Or.inr (Or.inr rfl)
  · exact Or.inl h

/-- a transition state stored after `test_new_ts` is an old one, on the same pair, whose two
    minima are untouched; or it is the offered one and whatever is stored at its two ends
    represents one of the two offered minima -/
theorem testNewTs_edgeData {same : δ → δ → Bool} (hsym : ∀ x y, same x y = same y x) {s : Ktn δ}
    (hs : GateInv same s) (r : Rec δ) {a b : Nat} {y : δ}
    (h : (testNewTs same true s r).edgeData? a b = some y) :
    (s.edgeData? a b = some y ∧
      (∀ x, (testNewTs same true s r).nodeData? a = some x → s.nodeData? a = some x) ∧
      (∀ x, (testNewTs same true s r).nodeData? b = some x → s.nodeData? b = some x)) ∨
    (y = r.ts ∧
      ∀ x, ((testNewTs same true s r).nodeData? a = some x ∨
          (testNewTs same true s r).nodeData? b = some x) →
        (x = r.plus ∨ same r.plus x = true) ∨ (x = r.minus ∨ same r.minus x = true)) := by
  cases hnew : isNewTs same s r.ts with
  | false =>
    rw [testNewTs_repeat hnew] at h ⊢
    exact Or.inl ⟨h, fun _ hx => hx, fun _ hx => hx⟩
  | true =>
    obtain ⟨ip, im, _, hmono, hrp, hrm, hnewe, hold, _⟩ := testNewTs_new_spec hsym hs r hnew
    generalize testNewTs same true s r = s' at *
    cases hj : Edge.joins (⟨a, b, r.ts⟩ : Edge δ) ip im with
    | false =>
      left
      rw [hold a b hj] at h
      obtain ⟨ha, hb⟩ := edgeData_lt hs.inv h
      refine ⟨h, ?_, ?_⟩
      · intro x hx
        obtain ⟨x0, hx0⟩ := nodeData_exists hs.inv ha
        have := nodeData_mono hmono.nodes hx0
        rw [this] at hx
        rw [hx0]; exact hx
      · intro x hx
        obtain ⟨x0, hx0⟩ := nodeData_exists hs.inv hb
        have := nodeData_mono hmono.nodes hx0
        rw [this] at hx
        rw [hx0]; exact hx
    | true =>
      right
      obtain ⟨xp, hxp, hp⟩ := hrp
      obtain ⟨xm, hxm, hm⟩ := hrm
      have hends : ∀ x, (s'.nodeData? ip = some x ∨ s'.nodeData? im = some x) →
          (x = r.plus ∨ same r.plus x = true) ∨ (x = r.minus ∨ same r.minus x = true) := by
        intro x hx
        rcases hx with hx | hx
        · rw [hxp] at hx; cases hx; exact Or.inl hp
        · rw [hxm] at hx; cases hx; exact Or.inr hm
      rcases joins_cases hj with ⟨h1, h2⟩ | ⟨h1, h2⟩
      · simp only at h1 h2
        subst h1 h2
        rw [hnewe] at h
        exact ⟨(Option.some.inj h).symm, hends⟩
      · simp only at h1 h2
        subst h1 h2
        rw [edgeData?_comm, hnewe] at h
        exact ⟨(Option.some.inj h).symm, fun x hx => hends x hx.symm⟩

/-- `add_network`: the stored points are those after the two loops (the history does not matter) -/
theorem addNetworkRecs_nodeData (same : δ → δ → Bool) (c : Bool) (s : Ktn δ) (mins : List δ)
    (recs : List (Rec δ)) (hist : List (Nat × Nat)) (a : Nat) :
    (addNetworkRecs same c s mins recs hist).nodeData? a =
      (recs.foldl (testNewTs same c) (mins.foldl (testNewMinimum same) s)).nodeData? a := by
  unfold addNetworkRecs
  simp only [minimaLoop_fst]
  rfl

theorem addNetworkRecs_edgeData (same : δ → δ → Bool) (c : Bool) (s : Ktn δ) (mins : List δ)
    (recs : List (Rec δ)) (hist : List (Nat × Nat)) (a b : Nat) :
    (addNetworkRecs same c s mins recs hist).edgeData? a b =
      (recs.foldl (testNewTs same c) (mins.foldl (testNewMinimum same) s)).edgeData? a b := by
  unfold addNetworkRecs
  simp only [minimaLoop_fst]
  rfl

/-! ### removal of one minimum -/

/-- a minimum stored after `remove_minimum k` was stored before, under the label it is the
    renaming of, with the same data -/
theorem removeMin_nodeData (r : Bool) {s : Ktn δ} (hs : Inv s) (k : Nat) {a' : Nat} {x : δ}
    (h : (s.removeMin r k).nodeData? a' = some x) :
    ∃ a, a ≠ k ∧ shift k a = a' ∧ s.nodeData? a = some x := by
  obtain ⟨nd', hm, hl, hd⟩ := mem_of_nodeData h
  rw [removeMin_nodes r s hs k, List.mem_map] at hm
  obtain ⟨nd, hnd, rfl⟩ := hm
  rw [List.mem_filter] at hnd
  refine ⟨nd.label, by simpa using hnd.2, hl, ?_⟩
  rw [nodeData_of_mem hs hnd.1]
  exact congrArg some hd

/-- a transition state stored after `remove_minimum k` was stored before, between the two
    minima its ends are the renamings of, with the same data -/
theorem removeMin_edgeData (r : Bool) {s : Ktn δ} (hs : Inv s) (k : Nat) {a' b' : Nat} {y : δ}
    (h : (s.removeMin r k).edgeData? a' b' = some y) :
    ∃ a b, a ≠ k ∧ b ≠ k ∧ shift k a = a' ∧ shift k b = b' ∧ s.edgeData? a b = some y := by
  obtain ⟨e', hm, hj, hd⟩ := mem_of_edgeData h
  rw [removeMin_edges r s hs k, List.mem_map] at hm
  obtain ⟨e, he, rfl⟩ := hm
  rw [List.mem_filter] at he
  obtain ⟨he, ht⟩ := he
  have ht' : e.u ≠ k ∧ e.v ≠ k := by simpa [Edge.touches] using ht
  have hed := edgeData_of_mem hs he
  rcases joins_cases hj with ⟨h1, h2⟩ | ⟨h1, h2⟩
  · exact ⟨e.u, e.v, ht'.1, ht'.2, h1, h2, by rw [hed]; exact congrArg some hd⟩
  · exact ⟨e.v, e.u, ht'.2, ht'.1, h2, h1, by rw [edgeData?_comm, hed]; exact congrArg some hd⟩

theorem gateInv_removeMin (r : Bool) {same : δ → δ → Bool} {s : Ktn δ} (hg : GateInv same s)
    (k : Nat) (hk : k < s.nMin) : GateInv same (s.removeMin r k) := by
  refine ⟨inv_removeMin r hg.inv k hk, ?_, ?_⟩
  · unfold MinDistinct
    rw [removeMin_nodes r s hg.inv k, List.pairwise_map]
    exact hg.mins.sublist List.filter_sublist
  · unfold TsDistinct
    rw [removeMin_edges r s hg.inv k, List.pairwise_map]
    exact hg.tss.sublist List.filter_sublist

/-! ### generic preservation along the loops -/

/-- whatever every valid `remove_minimum` preserves, the loop of `remove_minima` preserves
    (same side conditions as `removeLoop_eq`) -/
theorem removeLoop_preserves (r : Bool) (P : Ktn δ → Prop)
    (hP : ∀ (s : Ktn δ) (k : Nat), P s → k < s.nMin → P (s.removeMin r k)) (l : List Nat) :
    ∀ (s : Ktn δ) (c : Nat), P s → l.Pairwise (· < ·) → (∀ k ∈ l, c ≤ k ∧ k - c < s.nMin) →
      P (removeLoop r s c l) := by
  induction l with
  | nil => intro s c hs _ _; exact hs
  | cons k0 l ih =>
    intro s c hs hp hb
    rw [List.pairwise_cons] at hp
    have hk0 := hb k0 (by simp)
    have hb1 : ∀ k ∈ l, c + 1 ≤ k ∧ k - (c + 1) < (s.removeMin r (k0 - c)).nMin := by
      intro k hk
      have h1 := hp.1 k hk
      have h2 := hb k (by simp [hk])
      have : (s.removeMin r (k0 - c)).nMin = s.nMin - 1 := rfl
      rw [this]; omega
    exact ih _ _ (hP s _ hs hk0.2) hp.2 hb1

theorem removeMinima_preserves (r : Bool) (P : Ktn δ → Prop)
    (hP : ∀ (s : Ktn δ) (k : Nat), P s → k < s.nMin → P (s.removeMin r k)) (s : Ktn δ) (hs : P s)
    (ks : List Nat) (hk : ∀ k ∈ ks, k < s.nMin) (hn : ks.Nodup) : P (s.removeMinima r ks) := by
  have hperm : (sortNat ks).Perm ks := by rw [sortNat_eq]; exact List.perm_insertionSort _ _
  have hsorted : (sortNat ks).Pairwise (· ≤ ·) := by
    rw [sortNat_eq]; exact List.pairwise_insertionSort _ _
  have hnd : (sortNat ks).Nodup := hperm.nodup_iff.2 hn
  have hlt : (sortNat ks).Pairwise (· < ·) := by
    have := hsorted.and hnd
    refine this.imp ?_
    intro a b h; omega
  have hb : ∀ k ∈ sortNat ks, 0 ≤ k ∧ k - 0 < s.nMin := by
    intro k hk'
    exact ⟨Nat.zero_le _, by simpa using hk k (hperm.mem_iff.1 hk')⟩
  exact removeLoop_preserves r P hP (sortNat ks) s 0 hs hlt hb

theorem foldl_preserves {σ α : Type} (P : σ → Prop) (Q : α → Prop) (f : σ → α → σ)
    (h : ∀ s a, P s → Q a → P (f s a)) :
    ∀ (l : List α) (s : σ), P s → (∀ a ∈ l, Q a) → P (l.foldl f s) := by
  intro l
  induction l with
  | nil => intro s hs _; exact hs
  | cons a l ih =>
    intro s hs hq
    exact ih _ (h s a hs (hq a (by simp))) (fun b hb => hq b (by simp [hb]))

/-- whatever every admissible valid operation preserves holds after every run -/
theorem prun_preserves (same : δ → δ → Bool) (cfg : Ktn.Cfg) (P : Ktn δ → Prop)
    (Q : POp δ → Prop)
    (h : ∀ s op, P s → op.valid s = true → Q op → P (pstep same cfg s op)) :
    ∀ (ops : List (POp δ)) (s t : Ktn δ), P s → (∀ op ∈ ops, Q op) →
      prun same cfg s ops = some t → P t := by
  intro ops
  induction ops with
  | nil => intro s t hs _ ht; simp [prun] at ht; exact ht ▸ hs
  | cons op ops ih =>
    intro s t hs hq ht
    simp only [prun] at ht
    split at ht
    · rename_i hv
      exact ih _ _ (h s op hs hv (hq op (by simp))) (fun o ho => hq o (by simp [ho])) ht
    · exact absurd ht (by simp)

end TopSearch.Pipeline
