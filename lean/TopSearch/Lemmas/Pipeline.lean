/-
  Helper lemmas for Props/C01 (how `nodeData?` / `edgeData?` of a network relate to those of the
  network before a removal; structure of the nodes after a gate operation).
-/
import TopSearch.Model.Pipeline
import TopSearch.Lemmas.Ktn
import TopSearch.Lemmas.Merge

namespace TopSearch.Pipeline
open TopSearch TopSearch.Ktn TopSearch.Merge

end TopSearch.Pipeline
