/-
  Helper lemmas for the save/restore model (used by Props/C06).
-/
import TopSearch.Model.IO
import TopSearch.Lemmas.Ktn

namespace TopSearch.IO
open TopSearch TopSearch.Ktn
variable {α : Type}

/-! ### mapE -/

theorem mapE_ok {ε β γ : Type} (f : β → Except ε γ) (g : β → γ) (l : List β)
    (h : ∀ x ∈ l, f x = .ok (g x)) : mapE f l = .ok (l.map g) := by
  induction l with
  | nil => rfl
  | cons x xs ih =>
    simp only [mapE, h x (by simp), ih (fun y hy => h y (by simp [hy])), List.map_cons]

theorem mapE_map {ε β γ ι : Type} (f : β → Except ε γ) (k : ι → β) (l : List ι) :
    mapE f (l.map k) = mapE (f ∘ k) l := by
  induction l with
  | nil => rfl
  | cons x xs ih => simp only [List.map_cons, mapE, ih, Function.comp]

theorem mapE_range {ε β γ : Type} (f : Nat → Except ε γ) (g : β → γ) (l : List β)
    (h : ∀ i (hi : i < l.length), f i = .ok (g l[i])) :
    mapE f (List.range l.length) = .ok (l.map g) := by
  induction l generalizing f with
  | nil => rfl
  | cons x xs ih =>
    rw [List.length_cons, List.range_succ_eq_map, mapE]
    have h0 := h 0 (by simp)
    simp only [List.getElem_cons_zero] at h0
    rw [h0, mapE_map]
    have := ih (f ∘ Nat.succ) (fun i hi => by
      have := h (i + 1) (by simpa using hi)
      simpa using this)
    rw [this]
    rfl

/-! ### loadtxt with `ndmin=2` on a table written by `savetxt` -/

theorem loadtxt2_nil {β : Type} : loadtxt 2 ([] : List (List β)) = .ok (.d2 [] 1) := by
  simp [loadtxt]

theorem loadtxt2_rows {β : Type} (t : List (List β)) (c : Nat) (hc : 1 ≤ c)
    (hr : ∀ r ∈ t, r.length = c) (hne : t ≠ []) : loadtxt 2 t = .ok (.d2 t c) := by
  have hf : t.filter (fun r => !r.isEmpty) = t := by
    rw [List.filter_eq_self]
    intro r hr'
    have := hr r hr'
    cases r with
    | nil => simp at this; omega
    | cons _ _ => rfl
  cases t with
  | nil => exact absurd rfl hne
  | cons r0 rest =>
    have h0 : r0.length = c := hr r0 (by simp)
    have hany : (r0 :: rest).any (fun r => r.length != r0.length) = false := by
      rw [List.any_eq_false]
      intro r hr'
      simp [hr r hr', h0]
    simp only [loadtxt, hf]
    simp [h0]
    intro x hx
    exact hr x (by simp [hx])

/-- a table of `savetxt` (every row has the same positive width), loaded with `ndmin=2`:
    shape `(r, c)`, or `(0, 1)` for the empty file -/
theorem load2 (t : Table α) (c : Nat) (hc : 1 ≤ c) (hr : ∀ r ∈ t, r.length = c) :
    load ⟨2, false, false⟩ t = .ok (.d2 t (if t = [] then 1 else c)) := by
  by_cases ht : t = []
  · subst ht; simp [load, loadtxt2_nil]
  · simp [load, loadtxt2_rows t c hc hr ht, ht]

theorem load2' (t : Table α) (c : Nat) (hc : 1 ≤ c) (hr : ∀ r ∈ t, r.length = c) :
    ∃ c', load ⟨2, false, false⟩ t = .ok (.d2 t c') := ⟨_, load2 t c hc hr⟩

/-! ### the history table -/

theorem chunk2_flatten (ps : List (Nat × Nat)) :
    chunk2 (ps.map (fun p => [p.1, p.2])).flatten = some (ps.map (fun p => [p.1, p.2])) := by
  induction ps with
  | nil => rfl
  | cons p t ih => simp [chunk2, ih]

theorem toPairs_rows (ps : List (Nat × Nat)) :
    toPairs (.d2 (ps.map (fun p => [p.1, p.2])) 2) = .ok ps := by
  simp only [toPairs, mapE_map]
  have := mapE_ok (ε := IOErr) (pairOfRow ∘ (fun (p : Nat × Nat) => [p.1, p.2])) id ps
    (by intro x _; rfl)
  simpa using this

theorem loadPairs_dump (ps : List (Nat × Nat)) :
    loadPairs ⟨2, true, true⟩ (ps.map (fun p => [Fld.int p.1, Fld.int p.2]) : Table α) =
      .ok (.d2 (ps.map (fun p => [p.1, p.2])) 2) := by
  have h1 : mapE (mapE (fun (x : Fld α) => asInt x)) (ps.map (fun p => [Fld.int p.1, Fld.int p.2])) =
      .ok (ps.map (fun p => [p.1, p.2])) := by
    rw [mapE_map]
    exact mapE_ok _ _ _ (by intro x _; rfl)
  simp only [loadPairs, h1]
  by_cases hp : ps = []
  · subst hp; simp [loadtxt2_nil, reshape2, elems, chunk2]
  · have hne : ps.map (fun p => [p.1, p.2]) ≠ [] := by simpa using hp
    rw [loadtxt2_rows _ 2 (by omega) (by intro r hr; simp at hr; obtain ⟨a, b, _, rfl⟩ := hr; rfl) hne]
    simp [reshape2, elems, chunk2_flatten]


/-! ### reading the rows back -/

theorem getRow_map {β γ : Type} (l : List γ) (r : γ → List β) (c i : Nat) (hi : i < l.length) :
    getRow (.d2 (l.map r) c) i = .ok (r l[i]) := by
  simp [getRow, hi]

theorem get2_map {β γ : Type} (l : List γ) (r : γ → List β) (c i j : Nat) (hi : i < l.length)
    (x : β) (hx : (r l[i])[j]? = some x) : get2 (.d2 (l.map r) c) i j = .ok x := by
  simp [get2, getRow_map l r c i hi, hx]

theorem mapE_asReal (cs : List α) : mapE asReal (cs.map Fld.real) = .ok cs := by
  rw [mapE_map]
  have := mapE_ok (ε := IOErr) (asReal ∘ (Fld.real : α → Fld α)) id cs (by intro x _; rfl)
  simpa using this

def nodeRow (round5 : α → α) (nd : Node (Pt α)) : List (Fld α) :=
  [.int nd.label, .real (round5 nd.data.energy)]
def coordRow (p : Pt α) : List (Fld α) := p.coords.map Fld.real
def edgeRow (round5 : α → α) (e : Edge (Pt α)) : List (Fld α) :=
  [.int e.u, .int e.v, .real (round5 e.data.energy)]

theorem readNode_dump (round5 : α → α) (ns : List (Node (Pt α))) (c1 c2 i : Nat) (hi : i < ns.length) :
    readNode ReadSpec.repaired (.d2 (ns.map (nodeRow round5)) c1)
      (.d2 (ns.map (fun nd => coordRow nd.data)) c2) i =
      .ok (ns[i].label, roundPt round5 ns[i].data) := by
  simp only [readNode, ReadSpec.repaired]
  rw [get2_map ns (nodeRow round5) c1 i 0 hi (.int ns[i].label) rfl,
      get2_map ns (nodeRow round5) c1 i 1 hi (.real (round5 ns[i].data.energy)) rfl,
      getRow_map ns (fun nd => coordRow nd.data) c2 i hi]
  simp [bind, Except.bind, pure, Except.pure, asInt, asReal, coordRow, mapE_asReal, roundPt]

theorem readEdge_dump (round5 : α → α) (es : List (Edge (Pt α))) (c1 c2 i : Nat) (hi : i < es.length) :
    readEdge ReadSpec.repaired (.d2 (es.map (edgeRow round5)) c1)
      (.d2 (es.map (fun e => coordRow e.data)) c2) i =
      .ok (es[i].u, es[i].v, roundPt round5 es[i].data) := by
  simp only [readEdge, ReadSpec.repaired]
  rw [get2_map es (edgeRow round5) c1 i 0 hi (.int es[i].u) rfl,
      get2_map es (edgeRow round5) c1 i 1 hi (.int es[i].v) rfl,
      get2_map es (edgeRow round5) c1 i 2 hi (.real (round5 es[i].data.energy)) rfl,
      getRow_map es (fun e => coordRow e.data) c2 i hi]
  simp [bind, Except.bind, pure, Except.pure, asInt, asReal, coordRow, mapE_asReal, roundPt]

/-! ### rebuilding the graph -/

theorem foldl_addNode {δ : Type} (l : List (Nat × δ)) : ∀ (s : Ktn δ),
    (s.nodes.map (·.label) ++ l.map (·.1)).Nodup →
    l.foldl (fun s ld => addNode s ld.1 ld.2) s =
      { s with nodes := s.nodes ++ l.map (fun ld => ⟨ld.1, ld.2⟩) } := by
  induction l with
  | nil => intro s _; simp
  | cons x xs ih =>
    intro s hn
    have hx : s.hasNode x.1 = false := by
      cases h : s.hasNode x.1
      · rfl
      · exfalso
        rw [hasNode_iff] at h
        rw [List.nodup_append] at hn
        exact hn.2.2 x.1 h x.1 (by simp) rfl
    have hs : addNode s x.1 x.2 = { s with nodes := s.nodes ++ [⟨x.1, x.2⟩] } := by
      simp [addNode, hx]
    rw [List.foldl_cons, hs, ih]
    · simp
    · simpa using hn

theorem addEdges_ok {δ : Type} (es : List (Edge δ)) : ∀ (s : Ktn δ),
    (∀ e ∈ es, s.hasNode e.u = true ∧ s.hasNode e.v = true) →
    (s.edges ++ es).Pairwise (fun a b => Edge.joins a b.u b.v = false) →
    addEdges s (es.map (fun e => (e.u, e.v, e.data))) = .ok { s with edges := s.edges ++ es } := by
  induction es with
  | nil => intro s _ _; simp [addEdges]
  | cons e rest ih =>
    intro s hnode hp
    have he := hnode e (by simp)
    have hno : s.hasEdge e.u e.v = false := by
      rw [hasEdge_false_iff]
      intro a ha
      rw [List.pairwise_append] at hp
      exact hp.2.2 a ha e (by simp)
    have h1 : addEdge s e.u e.v e.data = .ok { s with edges := s.edges ++ [e] } := by
      simp [addEdge, he.1, he.2, addTs, hno]
    simp only [List.map_cons, addEdges, h1]
    rw [ih]
    · simp
    · intro e' he'
      have := hnode e' (by simp [he'])
      simpa [hasNode] using this
    · simpa using hp


/-! ### what `dump_network` writes -/

theorem find_of_nodup {δ : Type} (l : List (Node δ)) (hn : (l.map (·.label)).Nodup) (nd : Node δ)
    (h : nd ∈ l) : l.find? (fun x => x.label == nd.label) = some nd := by
  induction l with
  | nil => simp at h
  | cons x xs ih =>
    simp only [List.map_cons, List.nodup_cons] at hn
    simp only [List.mem_cons] at h
    rcases h with rfl | h
    · simp
    · have hne : x.label ≠ nd.label := by
        intro e
        exact hn.1 (e ▸ List.mem_map_of_mem h)
      simp [hne, ih hn.2 h]

theorem nodeData_of_inv {δ : Type} {s : Ktn δ} (hs : Inv s) (nd : Node δ) (h : nd ∈ s.nodes) :
    s.nodeData? nd.label = some nd.data := by
  have hn : (s.nodes.map (·.label)).Nodup := by rw [hs.1]; exact List.nodup_range
  simp [nodeData?, find_of_nodup s.nodes hn nd h]

theorem head_of_inv {δ : Type} {s : Ktn δ} (hs : Inv s) (hn : 1 ≤ s.nMin) :
    ∃ nd0 rest, s.nodes = nd0 :: rest ∧ nd0.label = 0 := by
  have h1 := hs.1
  obtain ⟨m, hm⟩ : ∃ m, s.nMin = m + 1 := ⟨s.nMin - 1, by omega⟩
  rw [hm, List.range_succ_eq_map] at h1
  cases hnodes : s.nodes with
  | nil => rw [hnodes] at h1; simp at h1
  | cons nd0 rest =>
    rw [hnodes] at h1
    simp only [List.map_cons, List.cons.injEq] at h1
    exact ⟨nd0, rest, rfl, h1.1⟩

/-- the five files `dump_network` writes for a coherent network of one dimension `k` -/
def dumpedFiles (round5 : α → α) (net : Ktn (Pt α)) : Files α :=
  { minData := net.nodes.map (nodeRow round5)
    minCoords := net.nodes.map (fun nd => coordRow nd.data)
    tsData := net.edges.map (edgeRow round5)
    tsCoords := net.edges.map (fun e => coordRow e.data)
    pairlist := net.pairlist.map (fun p => [Fld.int p.1, Fld.int p.2]) }

theorem mapE_fmt_coords (round5 : α → α) (cs : List α) :
    mapE (fun x => fmtField round5 FmtK.full (Val.real x)) cs = .ok (cs.map Fld.real) :=
  mapE_ok _ _ _ (by intro x _; rfl)

theorem dump_ok (round5 : α → α) (net : Ktn (Pt α)) (hinv : Inv net) (hn : 1 ≤ net.nMin) (k : Nat)
    (hdn : ∀ nd ∈ net.nodes, nd.data.coords.length = k)
    (hde : ∀ e ∈ net.edges, e.data.coords.length = k) :
    dumpNetwork round5 DumpSpec.standard net = .ok (dumpedFiles round5 net) := by
  obtain ⟨nd0, rest, hnodes, hl0⟩ := head_of_inv hinv hn
  have h0 : net.nodeData? 0 = some nd0.data := by
    rw [← hl0]; exact nodeData_of_inv hinv nd0 (by rw [hnodes]; simp)
  have hk0 : nd0.data.coords.length = k := hdn nd0 (by rw [hnodes]; simp)
  have hmins : mapE (lookupMin net) (List.range net.nMin) =
      .ok (net.nodes.map (fun nd => (nd.label, nd.data))) := by
    rw [← hinv.1, mapE_map]
    apply mapE_ok
    intro nd hnd
    simp [Function.comp, lookupMin, nodeData_of_inv hinv nd hnd]
  have hany1 : (net.nodes.map (fun nd => (nd.label, nd.data))).any
      (fun ip => ip.2.coords.length != nd0.data.coords.length) = false := by
    rw [List.any_eq_false]
    intro ip hip
    simp only [List.mem_map] at hip
    obtain ⟨nd, hnd, rfl⟩ := hip
    simp [hdn nd hnd, hk0]
  have hany2 : net.edges.any (fun e => e.data.coords.length != nd0.data.coords.length) = false := by
    rw [List.any_eq_false]
    intro e he
    simp [hde e he, hk0]
  have e1 : mapE (fun (e : Edge (Pt α)) => fmtRow round5 DumpSpec.standard.tsData
      [.int e.u, .int e.v, .real e.data.energy]) net.edges = .ok (net.edges.map (edgeRow round5)) :=
    mapE_ok _ _ _ (by intro x _; rfl)
  have e2 : mapE (fun (e : Edge (Pt α)) => mapE (fun x => fmtField round5 DumpSpec.standard.coords (.real x))
      e.data.coords) net.edges = .ok (net.edges.map (fun e => coordRow e.data)) :=
    mapE_ok _ _ _ (by intro x _; exact mapE_fmt_coords round5 _)
  have e3 : mapE (fun (ip : Nat × Pt α) => fmtRow round5 DumpSpec.standard.minData
      [.int ip.1, .real ip.2.energy]) (net.nodes.map (fun nd => (nd.label, nd.data))) =
      .ok (net.nodes.map (nodeRow round5)) := by
    rw [mapE_map]; exact mapE_ok _ _ _ (by intro x _; rfl)
  have e4 : mapE (fun (ip : Nat × Pt α) => mapE (fun x => fmtField round5 DumpSpec.standard.coords (.real x))
      ip.2.coords) (net.nodes.map (fun nd => (nd.label, nd.data))) =
      .ok (net.nodes.map (fun nd => coordRow nd.data)) := by
    rw [mapE_map]; exact mapE_ok _ _ _ (by intro x _; exact mapE_fmt_coords round5 _)
  have e5 : mapE (fun (p : Nat × Nat) => mapE (fun n => fmtField round5 DumpSpec.standard.pairlist (.int n))
      [p.1, p.2]) net.pairlist = .ok (net.pairlist.map (fun p => [Fld.int p.1, Fld.int p.2])) :=
    mapE_ok _ _ _ (by intro x _; rfl)
  simp only [dumpNetwork, h0, hmins, hany1, hany2, e1, e2, e3, e4, e5]
  rfl


/-! ### the round trip on the repaired specification -/

/-- reading back the files written for a coherent network -/
theorem read_dumped (round5 : α → α) (net : Ktn (Pt α)) (hinv : Inv net)
    (k : Nat) (hk : 1 ≤ k) (hdn : ∀ nd ∈ net.nodes, nd.data.coords.length = k)
    (hde : ∀ e ∈ net.edges, e.data.coords.length = k) :
    readNetwork ReadSpec.repaired (dumpedFiles round5 net) = .ok (roundNet round5 net) := by
  have hlen : net.nodes.length = net.nMin := by
    have := congrArg List.length hinv.1; simpa using this
  obtain ⟨c1, l1⟩ := load2' (net.nodes.map (nodeRow round5)) 2 (by omega)
    (by intro r hr; simp only [List.mem_map] at hr; obtain ⟨nd, _, rfl⟩ := hr; rfl)
  obtain ⟨c2, l2⟩ := load2' (net.nodes.map (fun nd => coordRow nd.data)) k hk
    (by intro r hr; simp only [List.mem_map] at hr; obtain ⟨nd, hnd, rfl⟩ := hr
        simp [coordRow, hdn nd hnd])
  obtain ⟨c3, l3⟩ := load2' (net.edges.map (edgeRow round5)) 3 (by omega)
    (by intro r hr; simp only [List.mem_map] at hr; obtain ⟨e, _, rfl⟩ := hr; rfl)
  obtain ⟨c4, l4⟩ := load2' (net.edges.map (fun e => coordRow e.data)) k hk
    (by intro r hr; simp only [List.mem_map] at hr; obtain ⟨e, he, rfl⟩ := hr
        simp [coordRow, hde e he])
  have l5 := loadPairs_dump (α := α) net.pairlist
  have hnodes : mapE (readNode ReadSpec.repaired (.d2 (net.nodes.map (nodeRow round5)) c1)
      (.d2 (net.nodes.map (fun nd => coordRow nd.data)) c2)) (List.range net.nodes.length) =
      .ok (net.nodes.map (fun nd => (nd.label, roundPt round5 nd.data))) := by
    apply mapE_range
    intro i hi
    exact readNode_dump round5 net.nodes c1 c2 i hi
  have hedges : mapE (readEdge ReadSpec.repaired (.d2 (net.edges.map (edgeRow round5)) c3)
      (.d2 (net.edges.map (fun e => coordRow e.data)) c4)) (List.range net.edges.length) =
      .ok (net.edges.map (fun e => (e.u, e.v, roundPt round5 e.data))) := by
    apply mapE_range
    intro i hi
    exact readEdge_dump round5 net.edges c3 c4 i hi
  -- the graph
  have hfold := foldl_addNode (net.nodes.map (fun nd => (nd.label, roundPt round5 nd.data)))
    ({ nMin := net.nodes.length, nTs := net.edges.length } : Ktn (Pt α))
    (by simp only [List.map_nil, List.nil_append, List.map_map]
        have : ((fun (x : Nat × Pt α) => x.1) ∘ fun (nd : Node (Pt α)) => (nd.label, roundPt round5 nd.data))
            = (·.label) := by funext nd; rfl
        rw [this, hinv.1]; exact List.nodup_range)
  have hlabels : (([] : List (Node (Pt α))) ++ (net.nodes.map (fun nd =>
      (nd.label, roundPt round5 nd.data))).map (fun ld => (⟨ld.1, ld.2⟩ : Node (Pt α)))).map
      (·.label) = List.range net.nMin := by
    simp only [List.nil_append, List.map_map]
    exact hinv.1
  let es' : List (Edge (Pt α)) := net.edges.map (fun e => { e with data := roundPt round5 e.data })
  have hes : net.edges.map (fun e => (e.u, e.v, roundPt round5 e.data)) =
      es'.map (fun e => (e.u, e.v, e.data)) := by
    simp only [es', List.map_map]; rfl
  have hbuild : buildNetwork net.nodes.length net.edges.length
      (net.nodes.map (fun nd => (nd.label, roundPt round5 nd.data)))
      (net.edges.map (fun e => (e.u, e.v, roundPt round5 e.data))) =
      .ok { nodes := net.nodes.map (fun nd => { nd with data := roundPt round5 nd.data }),
            edges := es', nMin := net.nodes.length, nTs := net.edges.length, pairlist := [] } := by
    simp only [buildNetwork, hfold, hes]
    rw [addEdges_ok]
    · simp [List.map_map, Function.comp]
    · intro e he
      simp only [es', List.mem_map] at he
      obtain ⟨e0, he0, rfl⟩ := he
      obtain ⟨hu, hv⟩ := hinv.2.2.2 e0 he0
      have hmem : ∀ a, a < net.nMin → a ∈ (([] : List (Node (Pt α))) ++ (net.nodes.map (fun nd =>
          (nd.label, roundPt round5 nd.data))).map (fun ld => (⟨ld.1, ld.2⟩ : Node (Pt α)))).map
          (·.label) := by
        intro a ha
        rw [hlabels]; exact List.mem_range.2 ha
      refine ⟨?_, ?_⟩
      · rw [hasNode_iff]; exact hmem _ hu
      · rw [hasNode_iff]; exact hmem _ hv
    · simp only [List.nil_append, es']
      rw [List.pairwise_map]
      exact hinv.2.2.1.imp (by intro a b h; exact h)
  have l1' : load ReadSpec.repaired.minData (net.nodes.map (nodeRow round5)) = _ := l1
  have l2' : load ReadSpec.repaired.minCoords (net.nodes.map (fun nd => coordRow nd.data)) = _ := l2
  have l3' : load ReadSpec.repaired.tsData (net.edges.map (edgeRow round5)) = _ := l3
  have l4' : load ReadSpec.repaired.tsCoords (net.edges.map (fun e => coordRow e.data)) = _ := l4
  have l5' : loadPairs ReadSpec.repaired.pairlist
      (net.pairlist.map (fun p => [Fld.int p.1, Fld.int p.2]) : Table α) = _ := l5
  simp only [readNetwork, dumpedFiles, l1', l2', l3', l4', l5', size0, List.length_map,
    hnodes, hedges, hbuild, toPairs_rows, bind, Except.bind, pure, Except.pure]
  simp only [roundNet, es', hlen, hinv.2.1]

theorem inv_roundNet (round5 : α → α) (net : Ktn (Pt α)) (h : Inv net) : Inv (roundNet round5 net) := by
  obtain ⟨h1, h2, h3, h4⟩ := h
  refine ⟨?_, ?_, ?_, ?_⟩
  · simp only [roundNet, List.map_map]; exact h1
  · simpa [roundNet] using h2
  · simp only [roundNet]
    rw [List.pairwise_map]
    exact h3.imp (by intro a b hab; exact hab)
  · intro e he
    simp only [roundNet, List.mem_map] at he
    obtain ⟨e0, he0, rfl⟩ := he
    exact h4 e0 he0

end TopSearch.IO
