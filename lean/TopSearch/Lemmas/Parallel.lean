/-
  Helper lemmas for the parallel-round model (used by Props/C14).  Core Lean only.
  Slot `i` of `completions.foldl store init` is determined by membership alone when the
  completion indices are pairwise distinct, hence invariant under permutation of completions.
-/
import TopSearch.Model.Parallel

namespace TopSearch.Parallel

variable {τ β σ : Type}

theorem length_foldl_store (cs : List (Nat × β)) (init : List (Option β)) :
    (cs.foldl store init).length = init.length := by
  induction cs generalizing init with
  | nil => rfl
  | cons c cs ih => rw [List.foldl_cons, ih]; simp [store]

/-- a slot nobody writes keeps its initial content -/
theorem getElem?_foldl_store_of_not_mem (cs : List (Nat × β)) (init : List (Option β)) (i : Nat)
    (hi : i ∉ cs.map Prod.fst) : (cs.foldl store init)[i]? = init[i]? := by
  induction cs generalizing init with
  | nil => rfl
  | cons c cs ih =>
    simp only [List.map_cons, List.mem_cons, not_or] at hi
    rw [List.foldl_cons, ih _ hi.2]
    simp only [store]
    rw [List.getElem?_set_ne (fun h => hi.1 h.symm)]

/-- with distinct indices, slot `i` holds the (unique) completion for `i`, whenever it arrived -/
theorem getElem?_foldl_store_of_mem (cs : List (Nat × β)) (init : List (Option β)) (i : Nat) (b : β)
    (hn : (cs.map Prod.fst).Nodup) (hm : (i, b) ∈ cs) (hi : i < init.length) :
    (cs.foldl store init)[i]? = some (some b) := by
  induction cs generalizing init with
  | nil => simp at hm
  | cons c cs ih =>
    simp only [List.map_cons, List.nodup_cons] at hn
    rw [List.foldl_cons]
    rcases List.mem_cons.1 hm with rfl | hm'
    · rw [getElem?_foldl_store_of_not_mem _ _ _ hn.1]
      simp [store, hi]
    · exact ih _ hn.2 hm' (by simpa [store] using hi)

theorem produced_keys (f : τ → β) (tasks : List τ) :
    (produced f tasks).map Prod.fst = List.range' 0 tasks.length := by
  rw [← List.zipIdx_map_snd 0 tasks]
  simp [produced, List.map_map, Function.comp_def]

theorem produced_keys_nodup (f : τ → β) (tasks : List τ) :
    ((produced f tasks).map Prod.fst).Nodup := by
  rw [produced_keys]; exact List.nodup_range' ..

theorem mem_produced (f : τ → β) (tasks : List τ) (i : Nat) (hi : i < tasks.length) :
    (i, f tasks[i]) ∈ produced f tasks := by
  unfold produced
  refine List.mem_map.2 ⟨(tasks[i], i), ?_, rfl⟩
  exact List.mk_mem_zipIdx_iff_getElem?.2 (List.getElem?_eq_getElem hi)

/-- collection is schedule-independent and equals the map in task order -/
theorem collect_perm_produced (f : τ → β) (tasks : List τ) (completions : List (Nat × β))
    (h : completions.Perm (produced f tasks)) :
    collect tasks.length completions = tasks.map (fun t => some (f t)) := by
  apply List.ext_getElem?
  intro i
  unfold collect
  by_cases hi : i < tasks.length
  · have hn : (completions.map Prod.fst).Nodup :=
      ((h.map Prod.fst).nodup_iff).2 (produced_keys_nodup f tasks)
    have hm : (i, f tasks[i]) ∈ completions := h.mem_iff.2 (mem_produced f tasks i hi)
    rw [getElem?_foldl_store_of_mem _ _ i _ hn hm (by simpa using hi)]
    simp [hi]
  · have hi' : tasks.length ≤ i := Nat.le_of_not_lt hi
    rw [List.getElem?_eq_none (by rw [length_foldl_store]; simpa using hi'),
      List.getElem?_eq_none (by simpa using hi')]

theorem mergeAll_cons (merge : σ → β → σ) (s : σ) (r : Option (List β))
    (rs : List (Option (List β))) :
    mergeAll merge s (r :: rs) =
      mergeAll merge (match r with | none => s | some l => l.foldl merge s) rs := rfl

theorem mergeAll_filter_isSome (merge : σ → β → σ) (s : σ) (rs : List (Option (List β))) :
    mergeAll merge s rs = mergeAll merge s (rs.filter Option.isSome) := by
  induction rs generalizing s with
  | nil => rfl
  | cons r rs ih =>
    cases r with
    | none => rw [mergeAll_cons, List.filter_cons_of_neg (by simp)]; exact ih s
    | some l =>
      rw [mergeAll_cons, List.filter_cons_of_pos (by simp), mergeAll_cons]; exact ih _

end TopSearch.Parallel
