/-
  Helper lemmas for the graph model (C18, C17): the executable closure `reach` is the
  reflexive-transitive closure of adjacency inside `0..n-1`.
-/
import TopSearch.Model.Graph
import Mathlib.Logic.Relation
import Mathlib.Data.List.Basic
import Mathlib.Data.List.Nodup
import Mathlib.Data.List.Range
import Mathlib.Tactic.Linarith

namespace TopSearch.Graph

/-- one step along `r` inside `0..n-1` -/
def Step (n : Nat) (r : Nat → Nat → Bool) (a b : Nat) : Prop := a < n ∧ b < n ∧ r a b = true

/-- `i` and `j` are joined by a path inside `0..n-1` -/
def Conn (n : Nat) (r : Nat → Nat → Bool) (i j : Nat) : Prop := Relation.ReflTransGen (Step n r) i j

variable {n : Nat} {r : Nat → Nat → Bool}

theorem mem_expand {S : List Nat} {b : Nat} :
    b ∈ expand n r S ↔ b < n ∧ (b ∈ S ∨ ∃ a ∈ S, r a b = true) := by
  simp [expand, List.mem_filter, List.mem_range, List.any_eq_true]

theorem length_filter_le_of_imp {l : List Nat} {p q : Nat → Bool}
    (h : ∀ x ∈ l, p x = true → q x = true) : (l.filter p).length ≤ (l.filter q).length := by
  induction l with
  | nil => simp
  | cons x xs ih =>
    have ih' := ih (fun y hy => h y (List.mem_cons_of_mem _ hy))
    have hx := h x List.mem_cons_self
    by_cases hp : p x = true
    · simp [hp, hx hp, ih']
    · by_cases hq : q x = true
      · simp [hp, hq]; omega
      · simp [hp, hq, ih']

theorem filter_eq_of_length_eq {l : List Nat} {p q : Nat → Bool}
    (h : ∀ x ∈ l, p x = true → q x = true)
    (hl : (l.filter q).length = (l.filter p).length) : l.filter q = l.filter p := by
  induction l with
  | nil => simp
  | cons x xs ih =>
    have h' : ∀ y ∈ xs, p y = true → q y = true := fun y hy => h y (List.mem_cons_of_mem _ hy)
    have hle := length_filter_le_of_imp h'
    have hx := h x List.mem_cons_self
    by_cases hp : p x = true
    · have hq := hx hp
      simp only [List.filter_cons, hp, hq, if_true, List.length_cons] at hl ⊢
      rw [ih h' (by omega)]
    · by_cases hq : q x = true
      · simp only [List.filter_cons, hp, hq, if_true, List.length_cons] at hl
        simp at hl; omega
      · simp only [List.filter_cons, hp, hq] at hl ⊢
        exact ih h' hl

/-- `S` is a filter of `range n` by its own membership (ascending, no repeats, inside `0..n-1`) -/
def IsSet (n : Nat) (S : List Nat) : Prop := S = (List.range n).filter (fun b => S.contains b)

theorem isSet_filter (p : Nat → Bool) : IsSet n ((List.range n).filter p) := by
  unfold IsSet
  apply List.filter_congr
  intro b hb
  by_cases hp : p b = true <;> simp [List.mem_filter, hb, hp]

theorem IsSet.length_le {S : List Nat} (h : IsSet n S) : S.length ≤ n := by
  rw [h]; simpa using List.length_filter_le (fun b => S.contains b) (List.range n)

theorem IsSet.lt {S : List Nat} (h : IsSet n S) {a : Nat} (ha : a ∈ S) : a < n := by
  rw [h] at ha; simpa using (List.mem_filter.1 ha).1

theorem expand_eq_filter (S : List Nat) :
    expand n r S = (List.range n).filter (fun b => S.contains b || S.any (fun a => r a b)) := rfl

theorem subset_expand {S : List Nat} (h : IsSet n S) {a : Nat} (ha : a ∈ S) : a ∈ expand n r S :=
  mem_expand.2 ⟨h.lt ha, Or.inl ha⟩

theorem length_le_expand {S : List Nat} (h : IsSet n S) : S.length ≤ (expand n r S).length := by
  conv_lhs => rw [h]
  rw [expand_eq_filter]
  apply length_filter_le_of_imp
  intro x _ hx
  simp only [Bool.or_eq_true]; exact Or.inl hx

theorem expand_eq_self_of_length {S : List Nat} (h : IsSet n S)
    (hl : (expand n r S).length = S.length) : expand n r S = S := by
  have : (List.range n).filter (fun b => S.contains b || S.any (fun a => r a b))
      = (List.range n).filter (fun b => S.contains b) := by
    apply filter_eq_of_length_eq
    · intro x _ hx; simp only [Bool.or_eq_true]; exact Or.inl hx
    · rw [← expand_eq_filter, hl]; exact congrArg List.length h
  rw [expand_eq_filter, this]; exact h.symm

theorem closure_isSet {S : List Nat} (h : IsSet n S) : ∀ fuel, IsSet n (closure n r fuel S) := by
  intro fuel
  induction fuel generalizing S with
  | zero => exact h
  | succ k ih =>
    simp only [closure]
    split
    · exact h
    · exact ih (isSet_filter _)

theorem subset_closure {S : List Nat} (h : IsSet n S) :
    ∀ fuel, ∀ a ∈ S, a ∈ closure n r fuel S := by
  intro fuel
  induction fuel generalizing S with
  | zero => intro a ha; exact ha
  | succ k ih =>
    intro a ha
    simp only [closure]
    split
    · exact ha
    · exact ih (isSet_filter _) a (subset_expand h ha)

theorem closure_sound {S : List Nat} (h : IsSet n S) :
    ∀ fuel, ∀ x ∈ closure n r fuel S, ∃ s ∈ S, Conn n r s x := by
  intro fuel
  induction fuel generalizing S with
  | zero => intro x hx; exact ⟨x, hx, Relation.ReflTransGen.refl⟩
  | succ k ih =>
    intro x hx
    simp only [closure] at hx
    split at hx
    · exact ⟨x, hx, Relation.ReflTransGen.refl⟩
    · obtain ⟨s, hs, hsx⟩ := ih (isSet_filter _) x hx
      rcases mem_expand.1 hs with ⟨hsn, hs' | ⟨a, ha, hra⟩⟩
      · exact ⟨s, hs', hsx⟩
      · exact ⟨a, ha, Relation.ReflTransGen.head ⟨h.lt ha, hsn, hra⟩ hsx⟩

theorem closure_closed {S : List Nat} (h : IsSet n S) :
    ∀ fuel, n + 1 ≤ fuel + S.length →
      ∀ a ∈ closure n r fuel S, ∀ b, Step n r a b → b ∈ closure n r fuel S := by
  intro fuel
  induction fuel generalizing S with
  | zero =>
    intro hf; have := h.length_le; omega
  | succ k ih =>
    intro hf a ha b hab
    simp only [closure] at ha ⊢
    split
    · rename_i heq
      rw [if_pos heq] at ha
      have hfix : expand n r S = S := expand_eq_self_of_length h (by simpa using heq)
      rw [← hfix]
      exact mem_expand.2 ⟨hab.2.1, Or.inr ⟨a, ha, hab.2.2⟩⟩
    · rename_i hne
      rw [if_neg hne] at ha
      have hle := length_le_expand (r := r) h
      have hlt : S.length < (expand n r S).length := by
        have : (expand n r S).length ≠ S.length := by simpa using hne
        omega
      exact ih (S := expand n r S) (isSet_filter _) (by omega) a ha b hab

theorem isSet_singleton (i : Nat) : IsSet n ((List.range n).filter (· == i)) := isSet_filter _

theorem mem_start {i : Nat} (hi : i < n) : i ∈ (List.range n).filter (· == i) := by
  simp [List.mem_filter, hi]

theorem length_start {i : Nat} (hi : i < n) : ((List.range n).filter (· == i)).length = 1 := by
  rw [← List.countP_eq_length_filter]
  exact List.count_eq_one_of_mem List.nodup_range (List.mem_range.2 hi)

theorem mem_start_iff {i x : Nat} : x ∈ (List.range n).filter (· == i) ↔ x = i ∧ i < n := by
  simp only [List.mem_filter, List.mem_range, beq_iff_eq]
  constructor
  · rintro ⟨h1, rfl⟩; exact ⟨rfl, h1⟩
  · rintro ⟨rfl, h⟩; exact ⟨h, rfl⟩

/-- **reach = reflexive-transitive closure** of adjacency inside `0..n-1` -/
theorem reach_iff_conn {i : Nat} (hi : i < n) (j : Nat) : reach n r i j = true ↔ Conn n r i j := by
  unfold reach reachSet
  rw [List.contains_iff_mem]
  constructor
  · intro h
    obtain ⟨s, hs, hsj⟩ := closure_sound (r := r) (isSet_singleton i) n j h
    rw [(mem_start_iff.1 hs).1] at hsj
    exact hsj
  · intro h
    induction h with
    | refl => exact subset_closure (isSet_singleton i) n i (mem_start hi)
    | tail _ hbc ih =>
      exact closure_closed (isSet_singleton i) n (by rw [length_start hi]) _ ih _ hbc

theorem reachSet_isSet (i : Nat) : IsSet n (reachSet n r i) := closure_isSet (isSet_singleton i) n

theorem mem_reachSet {i : Nat} (hi : i < n) {j : Nat} : j ∈ reachSet n r i ↔ Conn n r i j := by
  rw [← reach_iff_conn hi, reach, List.contains_iff_mem]

theorem Conn.lt_right {i j : Nat} (hi : i < n) (h : Conn n r i j) : j < n := by
  induction h with
  | refl => exact hi
  | tail _ hbc _ => exact hbc.2.1

theorem Conn.trans {i j k : Nat} (h1 : Conn n r i j) (h2 : Conn n r j k) : Conn n r i k :=
  Relation.ReflTransGen.trans h1 h2

/-- a symmetric adjacency gives a symmetric connection -/
theorem Conn.symm (hs : ∀ a b, r a b = r b a) {i j : Nat} (h : Conn n r i j) : Conn n r j i := by
  induction h with
  | refl => exact Relation.ReflTransGen.refl
  | tail _ hbc ih =>
    exact Relation.ReflTransGen.head ⟨hbc.2.1, hbc.1, by rw [hs]; exact hbc.2.2⟩ ih

/-- fewer edges, fewer connections -/
theorem Conn.mono {r' : Nat → Nat → Bool} (hsub : ∀ a b, r a b = true → r' a b = true) {i j : Nat}
    (h : Conn n r i j) : Conn n r' i j := by
  induction h with
  | refl => exact Relation.ReflTransGen.refl
  | tail _ hbc ih => exact Relation.ReflTransGen.tail ih ⟨hbc.1, hbc.2.1, hsub _ _ hbc.2.2⟩

theorem adj_symm {α : Type} (es : List (WEdge α)) (a b : Nat) : adj es a b = adj es b a := by
  unfold adj
  congr 1
  funext x
  simp only [joins]
  exact Bool.or_comm _ _

theorem adj_iff {α : Type} (es : List (WEdge α)) (a b : Nat) :
    adj es a b = true ↔ ∃ x ∈ es, (x.u = a ∧ x.v = b) ∨ (x.u = b ∧ x.v = a) := by
  simp [adj, joins, List.any_eq_true]

end TopSearch.Graph
