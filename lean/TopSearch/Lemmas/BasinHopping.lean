/-
  Specification-side definitions and helper lemmas for the basin-hopping model
  (used by Props/C07 and Props/C08).

  `lastAccepted` and `outputs` are written from the property statements, without the state
  machine: the first is "the most recently accepted minimum", the second "the successfully
  converged minima met during the run, in order".
-/
import TopSearch.Model.BasinHopping
import TopSearch.Lemmas.Ktn

namespace TopSearch.BH
variable {α : Type}

/-- the step's minimisation converged and (atomic / molecular systems) kept its bonds -/
def archived (k : Kern α) (atomic : Bool) (i : StepIn α) : Bool :=
  !k.loopFails i.warn i.relRed && (!atomic || i.bondsOk)

/-- the minimum a step's minimisation found, as the gate sees it -/
def StepIn.pt (i : StepIn α) : Pt α := ⟨i.gated, i.minE⟩

/-- the Markov chain of the specification: a step replaces the current minimum exactly when it
    converged, kept its bonds and passed the acceptance test against the current energy -/
def specStep (k : Kern α) (atomic : Bool) (cur : Pt α) (i : StepIn α) : Pt α :=
  if archived k atomic i && k.accept cur.e i.minE i.boltz i.u then i.pt else cur

/-- the most recently accepted minimum after the steps `ins` (the initial one if none) -/
def lastAccepted (k : Kern α) (atomic : Bool) (p0 : Pt α) (ins : List (StepIn α)) : Pt α :=
  ins.foldl (specStep k atomic) p0

/-- the outcome of the first minimisation: where it left the walker, and its energy -/
def initPt (k : Kern α) (i0 : InitIn α) : Pt α :=
  ⟨if k.initStores i0.warn then i0.gated else i0.minPos, i0.minE⟩

/-- the converged minima met during the run, in order: the first minimisation's (if it passed
    its test), then every step's that converged with its bonds intact — accepted or not -/
def outputs (k : Kern α) (atomic : Bool) (i0 : InitIn α) (ins : List (StepIn α)) : List (Pt α) :=
  (if k.initStores i0.warn then [(⟨i0.gated, i0.minE⟩ : Pt α)] else []) ++
    (ins.filter (archived k atomic)).map StepIn.pt

/-- `markov_coords` is an array of its own holding the walker's coordinates -/
def Clean (s : State α) : Prop := s.markov = .val s.walker

theorem copy_all {c : CopyCfg} (h : c.all = true) :
    c.initSave = true ∧ c.failRestore = true ∧ c.bondRestore = true ∧ c.acceptSave = true ∧
      c.rejectRestore = true := by
  simpa [CopyCfg.all, and_assoc] using h

theorem decision_fail_iff (k : Kern α) (atomic : Bool) (s : State α) (i : StepIn α) :
    decision k atomic s i = .fail ↔ k.loopFails i.warn i.relRed = true := by
  unfold decision; split_ifs <;> simp_all

theorem decision_bonds_iff (k : Kern α) (atomic : Bool) (s : State α) (i : StepIn α) :
    decision k atomic s i = .bonds ↔
      k.loopFails i.warn i.relRed = false ∧ atomic = true ∧ i.bondsOk = false := by
  unfold decision; split_ifs <;> simp_all

theorem decision_accept_iff (k : Kern α) (atomic : Bool) (s : State α) (i : StepIn α) :
    decision k atomic s i = .accept ↔
      archived k atomic i = true ∧ k.accept s.markovE i.minE i.boltz i.u = true := by
  unfold decision archived; cases atomic <;> split_ifs <;> simp_all

theorem decision_reject_iff (k : Kern α) (atomic : Bool) (s : State α) (i : StepIn α) :
    decision k atomic s i = .reject ↔
      archived k atomic i = true ∧ k.accept s.markovE i.minE i.boltz i.u = false := by
  unfold decision archived; cases atomic <;> split_ifs <;> simp_all

/-- the network after one step: the gate is applied exactly on the `accept` and `reject` paths -/
theorem step_net (k : Kern α) (same : Pt α → Pt α → Bool) (atomic : Bool) (s : State α)
    (i : StepIn α) :
    (step k same atomic s i).net =
      if archived k atomic i then insertUnlessMatch same s.net i.pt else s.net := by
  unfold step
  cases hd : decision k atomic s i
  · have := (decision_fail_iff k atomic s i).1 hd
    simp [restore, perturb, archived, this]
  · have := (decision_bonds_iff k atomic s i).1 hd
    simp [restore, perturb, archived, this]
  · have := (decision_accept_iff k atomic s i).1 hd
    simp [save, gate, perturb, this.1, StepIn.pt]
  · have := (decision_reject_iff k atomic s i).1 hd
    simp [restore, gate, perturb, this.1, StepIn.pt]

/-- one step from a clean state, all sites copying: the pair (walker, markov energy) moves as
    the specification's chain does, and the state stays clean -/
theorem step_spec (k : Kern α) (hk : k.copy.all = true) (same : Pt α → Pt α → Bool)
    (atomic : Bool) (s : State α) (hs : Clean s) (i : StepIn α) :
    Clean (step k same atomic s i) ∧
      (⟨(step k same atomic s i).walker, (step k same atomic s i).markovE⟩ : Pt α) =
        specStep k atomic ⟨s.walker, s.markovE⟩ i := by
  obtain ⟨_, hf, hb, ha, hr⟩ := copy_all hk
  unfold Clean at hs
  unfold step specStep
  cases hd : decision k atomic s i
  · have := (decision_fail_iff k atomic s i).1 hd
    simp [Clean, restore, perturb, State.markovVal, hs, hf, archived, this]
  · have := (decision_bonds_iff k atomic s i).1 hd
    simp [Clean, restore, perturb, State.markovVal, hs, hb, archived, this]
  · have := (decision_accept_iff k atomic s i).1 hd
    simp [Clean, save, gate, perturb, ha, this.1, this.2, StepIn.pt]
  · have := (decision_reject_iff k atomic s i).1 hd
    simp [Clean, restore, gate, perturb, State.markovVal, hs, hr, this.1, this.2]

theorem init_clean (k : Kern α) (hk : k.copy.all = true) (same : Pt α → Pt α → Bool)
    (net0 : Ktn (Pt α)) (i0 : InitIn α) :
    Clean (init k same net0 i0) ∧
      (⟨(init k same net0 i0).walker, (init k same net0 i0).markovE⟩ : Pt α) = initPt k i0 := by
  obtain ⟨hi, _⟩ := copy_all hk
  unfold init initPt Clean
  cases h : k.initStores i0.warn <;> simp [save, gate, hi]

theorem run_spec (k : Kern α) (hk : k.copy.all = true) (same : Pt α → Pt α → Bool)
    (atomic : Bool) (ins : List (StepIn α)) : ∀ (s : State α), Clean s →
    Clean (run k same atomic s ins) ∧
      (⟨(run k same atomic s ins).walker, (run k same atomic s ins).markovE⟩ : Pt α) =
        lastAccepted k atomic ⟨s.walker, s.markovE⟩ ins := by
  induction ins with
  | nil => intro s hs; exact ⟨hs, rfl⟩
  | cons i rest ih =>
    intro s hs
    obtain ⟨hc, he⟩ := step_spec k hk same atomic s hs i
    have := ih _ hc
    simp only [run, lastAccepted, List.foldl_cons] at this ⊢
    rw [he] at this
    exact this

theorem run_net (k : Kern α) (same : Pt α → Pt α → Bool) (atomic : Bool)
    (ins : List (StepIn α)) : ∀ (s : State α),
    (run k same atomic s ins).net =
      ((ins.filter (archived k atomic)).map StepIn.pt).foldl (insertUnlessMatch same) s.net := by
  induction ins with
  | nil => intro s; rfl
  | cons i rest ih =>
    intro s
    have h1 := step_net k same atomic s i
    have h2 := ih (step k same atomic s i)
    simp only [run, List.foldl_cons] at h2 ⊢
    rw [h2, h1]
    cases ha : archived k atomic i <;> simp [ha]

theorem init_net (k : Kern α) (same : Pt α → Pt α → Bool) (net0 : Ktn (Pt α)) (i0 : InitIn α) :
    (init k same net0 i0).net =
      (if k.initStores i0.warn then [(⟨i0.gated, i0.minE⟩ : Pt α)] else []).foldl
        (insertUnlessMatch same) net0 := by
  unfold init
  cases h : k.initStores i0.warn <;> simp [save, gate]

/-! ### the gate on a coherent store -/

/-- whatever the store looks like, a gate call leaves every node either as it was or holding
    the candidate -/
theorem insertUnlessMatch_nodes (same : Pt α → Pt α → Bool) (net : Ktn (Pt α)) (c : Pt α) :
    ∀ nd ∈ (insertUnlessMatch same net c).nodes, nd ∈ net.nodes ∨ nd.data = c := by
  intro nd hnd
  unfold insertUnlessMatch at hnd
  split_ifs at hnd with hm
  · exact Or.inl hnd
  · unfold Ktn.addMin at hnd
    split_ifs at hnd with hh
    · simp only [List.mem_map] at hnd
      obtain ⟨x, hx, rfl⟩ := hnd
      split_ifs
      · exact Or.inr rfl
      · exact Or.inl hx
    · simp only [List.mem_append, List.mem_singleton] at hnd
      rcases hnd with h | h
      · exact Or.inl h
      · exact Or.inr (by rw [h])

theorem insertUnlessMatch_inv (same : Pt α → Pt α → Bool) {net : Ktn (Pt α)} (h : Ktn.Inv net)
    (c : Pt α) : Ktn.Inv (insertUnlessMatch same net c) := by
  unfold insertUnlessMatch
  split_ifs
  · exact h
  · exact Ktn.inv_addMin h c

/-- on a coherent store the gate only ever appends, and afterwards the candidate is represented:
    stored itself, or matched by a stored minimum -/
theorem insertUnlessMatch_represents (same : Pt α → Pt α → Bool) {net : Ktn (Pt α)}
    (h : Ktn.Inv net) (c : Pt α) :
    (∃ tail, (insertUnlessMatch same net c).nodes = net.nodes ++ tail) ∧
      ∃ nd ∈ (insertUnlessMatch same net c).nodes, nd.data = c ∨ same c nd.data = true := by
  unfold insertUnlessMatch
  split_ifs with hm
  · refine ⟨⟨[], by simp⟩, ?_⟩
    obtain ⟨nd, hnd, hs⟩ := List.any_eq_true.1 hm
    exact ⟨nd, hnd, Or.inr hs⟩
  · rw [Ktn.addMin_eq h]
    exact ⟨⟨_, rfl⟩, ⟨net.nMin, c⟩, by simp, Or.inl rfl⟩

theorem foldl_gate_inv (same : Pt α → Pt α → Bool) (cs : List (Pt α)) : ∀ {net : Ktn (Pt α)},
    Ktn.Inv net → Ktn.Inv (cs.foldl (insertUnlessMatch same) net) := by
  induction cs with
  | nil => intro net h; exact h
  | cons c rest ih => intro net h; exact ih (insertUnlessMatch_inv same h c)

theorem foldl_gate_prefix (same : Pt α → Pt α → Bool) (cs : List (Pt α)) : ∀ {net : Ktn (Pt α)},
    Ktn.Inv net → ∃ tail, (cs.foldl (insertUnlessMatch same) net).nodes = net.nodes ++ tail := by
  induction cs with
  | nil => intro net _; exact ⟨[], by simp⟩
  | cons c rest ih =>
    intro net h
    obtain ⟨t1, h1⟩ := (insertUnlessMatch_represents same h c).1
    obtain ⟨t2, h2⟩ := ih (insertUnlessMatch_inv same h c)
    exact ⟨t1 ++ t2, by simp only [List.foldl_cons]; rw [h2, h1, List.append_assoc]⟩

theorem foldl_gate_represents (same : Pt α → Pt α → Bool) (cs : List (Pt α)) :
    ∀ {net : Ktn (Pt α)}, Ktn.Inv net → ∀ c ∈ cs,
      ∃ nd ∈ (cs.foldl (insertUnlessMatch same) net).nodes, nd.data = c ∨ same c nd.data = true := by
  induction cs with
  | nil => intro net _ c hc; cases hc
  | cons c0 rest ih =>
    intro net h c hc
    simp only [List.foldl_cons]
    rcases List.mem_cons.1 hc with rfl | hc
    · obtain ⟨nd, hnd, hr⟩ := (insertUnlessMatch_represents same h c).2
      obtain ⟨t, ht⟩ := foldl_gate_prefix same rest (insertUnlessMatch_inv same h c)
      exact ⟨nd, by rw [ht]; exact List.mem_append_left _ hnd, hr⟩
    · exact ih (insertUnlessMatch_inv same h c0) c hc

theorem foldl_gate_nodes (same : Pt α → Pt α → Bool) (cs : List (Pt α)) : ∀ (net : Ktn (Pt α)),
    ∀ nd ∈ (cs.foldl (insertUnlessMatch same) net).nodes, nd ∈ net.nodes ∨ nd.data ∈ cs := by
  induction cs with
  | nil => intro net nd h; exact Or.inl h
  | cons c rest ih =>
    intro net nd h
    simp only [List.foldl_cons] at h
    rcases ih _ nd h with h1 | h1
    · rcases insertUnlessMatch_nodes same net c nd h1 with h2 | h2
      · exact Or.inl h2
      · exact Or.inr (by rw [h2]; exact List.mem_cons_self)
    · exact Or.inr (List.mem_cons_of_mem _ h1)

theorem foldl_gate_edges (same : Pt α → Pt α → Bool) (cs : List (Pt α)) : ∀ (net : Ktn (Pt α)),
    (cs.foldl (insertUnlessMatch same) net).edges = net.edges ∧
      (cs.foldl (insertUnlessMatch same) net).nTs = net.nTs := by
  induction cs with
  | nil => intro net; exact ⟨rfl, rfl⟩
  | cons c rest ih =>
    intro net
    simp only [List.foldl_cons]
    obtain ⟨h1, h2⟩ := ih (insertUnlessMatch same net c)
    rw [h1, h2]
    unfold insertUnlessMatch Ktn.addMin
    split_ifs <;> exact ⟨rfl, rfl⟩

end TopSearch.BH
