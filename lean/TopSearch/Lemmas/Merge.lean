/-
  Helper lemmas for the gate / merge model (used by Props/C03, Props/C05; later C01, C13).
  `GateInv` is the invariant every gate operation preserves: the store is coherent (`Ktn.Inv`),
  no stored minimum matches an earlier stored one, no two stored transition states match.
-/
import TopSearch.Model.Merge
import TopSearch.Lemmas.Ktn

namespace TopSearch.Merge
open TopSearch TopSearch.Ktn
variable {δ : Type}

/-! ### look-up by label -/

theorem find_congr' {α : Type} {l : List α} {p q : α → Bool} (h : ∀ x ∈ l, p x = q x) :
    l.find? p = l.find? q := by
  induction l with
  | nil => rfl
  | cons a l ih =>
    rw [List.find?_cons, List.find?_cons, h a (by simp), ih (fun x hx => h x (by simp [hx]))]

theorem find_label {l : List (Node δ)} (hn : (l.map (·.label)).Nodup) {nd : Node δ} (h : nd ∈ l) :
    l.find? (fun x => x.label == nd.label) = some nd := by
  induction l with
  | nil => simp at h
  | cons a l ih =>
    simp only [List.map_cons, List.nodup_cons] at hn
    rcases List.mem_cons.1 h with rfl | h'
    · simp
    · have hne : (a.label == nd.label) = false := by
        cases hb : a.label == nd.label
        · rfl
        · exfalso
          have : a.label = nd.label := by simpa using hb
          exact hn.1 (this ▸ List.mem_map_of_mem h')
      rw [List.find?_cons, hne]
      exact ih hn.2 h'

theorem labels_nodup {s : Ktn δ} (hs : Inv s) : (s.nodes.map (·.label)).Nodup := by
  rw [hs.1]; exact List.nodup_range

theorem nodeData_of_mem {s : Ktn δ} (hs : Inv s) {nd : Node δ} (h : nd ∈ s.nodes) :
    s.nodeData? nd.label = some nd.data := by
  simp [nodeData?, find_label (labels_nodup hs) h]

theorem label_lt {s : Ktn δ} (hs : Inv s) {nd : Node δ} (h : nd ∈ s.nodes) : nd.label < s.nMin := by
  have : nd.label ∈ s.nodes.map (·.label) := List.mem_map_of_mem h
  rw [hs.1] at this; simpa using this

theorem mem_of_nodeData {s : Ktn δ} {a : Nat} {x : δ} (h : s.nodeData? a = some x) :
    ∃ nd ∈ s.nodes, nd.label = a ∧ nd.data = x := by
  simp only [nodeData?, Option.map_eq_some_iff] at h
  obtain ⟨nd, hf, hd⟩ := h
  exact ⟨nd, List.mem_of_find?_eq_some hf, by simpa using List.find?_some hf, hd⟩

/-- the linear scan of `is_new_minimum` written on the node list -/
def scanMin (same : δ → δ → Bool) (s : Ktn δ) (d : δ) : Option (Node δ) :=
  s.nodes.find? (fun nd => same d nd.data)

theorem isNewMinimum_eq_scan (same : δ → δ → Bool) {s : Ktn δ} (hs : Inv s) (d : δ) :
    isNewMinimum same s d = (scanMin same s d).map (·.label) := by
  unfold isNewMinimum scanMin
  rw [← hs.1, List.find?_map]
  congr 1
  apply find_congr'
  intro nd hnd
  simp [Function.comp, nodeData_of_mem hs hnd]

theorem isNewMinimum_none {same : δ → δ → Bool} {s : Ktn δ} (hs : Inv s) {d : δ}
    (h : isNewMinimum same s d = none) : ∀ nd ∈ s.nodes, same d nd.data = false := by
  rw [isNewMinimum_eq_scan same hs] at h
  simp only [scanMin, Option.map_eq_none_iff, List.find?_eq_none] at h
  intro nd hnd; simpa using h nd hnd

theorem isNewMinimum_some {same : δ → δ → Bool} {s : Ktn δ} (hs : Inv s) {d : δ} {i : Nat}
    (h : isNewMinimum same s d = some i) :
    ∃ nd ∈ s.nodes, nd.label = i ∧ same d nd.data = true ∧ i < s.nMin ∧
      s.nodeData? i = some nd.data := by
  rw [isNewMinimum_eq_scan same hs] at h
  simp only [scanMin, Option.map_eq_some_iff] at h
  obtain ⟨nd, hf, rfl⟩ := h
  have hm := List.mem_of_find?_eq_some hf
  exact ⟨nd, hm, rfl, by simpa using List.find?_some hf, label_lt hs hm, nodeData_of_mem hs hm⟩

/-- the first match: every earlier stored minimum does not match -/
theorem isNewMinimum_first {same : δ → δ → Bool} {s : Ktn δ} (hs : Inv s) {d : δ} {i : Nat}
    (h : isNewMinimum same s d = some i) :
    ∀ j, j < i → ∀ x, s.nodeData? j = some x → same d x = false := by
  intro j hj x hx
  unfold isNewMinimum at h
  have := List.find?_eq_some_iff_append.1 h
  obtain ⟨_, as, bs, hsplit, hnone⟩ := this
  have hjm : j ∈ as := by
    have hsorted : (List.range s.nMin).Pairwise (· < ·) := List.pairwise_lt_range
    have hjr : j ∈ List.range s.nMin := by
      have := (isNewMinimum_some hs (by unfold isNewMinimum; exact h)).choose_spec.2.2.2.1
      simp; omega
    rw [hsplit] at hjr hsorted
    rcases List.mem_append.1 hjr with h1 | h1
    · exact h1
    · exfalso
      rw [List.pairwise_append] at hsorted
      rcases List.mem_cons.1 h1 with rfl | h2
      · omega
      · have := (List.pairwise_cons.1 hsorted.2.1).1 j h2; omega
  have := hnone j hjm
  simpa [hx] using this

end TopSearch.Merge
